/-
  Drv.Common — the line protocol shared by every model driver.
  One JSON object per input line, one JSON object per output line.
  Imports `Lean.Data.Json` only (no Mathlib) so drivers link as executables.
-/
import Lean.Data.Json
import BacVerif.Model.Bytes
namespace BacVerif.Drv
open Lean

def hexChar (n : Nat) : Char :=
  if n < 10 then Char.ofNat (48 + n) else Char.ofNat (87 + n)

def toHex (bs : Bytes) : String :=
  String.ofList (bs.flatMap fun b => [hexChar (b.toNat / 16), hexChar (b.toNat % 16)])

def hexVal? (c : Char) : Option Nat :=
  if '0' ≤ c ∧ c ≤ '9' then some (c.toNat - 48)
  else if 'a' ≤ c ∧ c ≤ 'f' then some (c.toNat - 87)
  else if 'A' ≤ c ∧ c ≤ 'F' then some (c.toNat - 55)
  else none

def ofHexChars : List Char → Option Bytes
  | [] => some []
  | a :: b :: rest => do
      let x ← hexVal? a; let y ← hexVal? b
      let r ← ofHexChars rest
      pure (UInt8.ofNat (x * 16 + y) :: r)
  | _ => none

def ofHex? (s : String) : Option Bytes := ofHexChars s.toList

abbrev R := Except String

def fld (j : Json) (k : String) : R Json := j.getObjVal? k
def fldNat (j : Json) (k : String) : R Nat := do (← fld j k).getNat?
def fldInt (j : Json) (k : String) : R Int := do (← fld j k).getInt?
def fldStr (j : Json) (k : String) : R String := do (← fld j k).getStr?
def fldBool (j : Json) (k : String) : R Bool := do (← fld j k).getBool?
def fldArr (j : Json) (k : String) : R (Array Json) := do (← fld j k).getArr?
def fldHex (j : Json) (k : String) : R Bytes := do
  match ofHex? (← fldStr j k) with
  | some b => pure b
  | none => throw s!"bad hex in {k}"
def fldNatD (j : Json) (k : String) (d : Nat) : Nat :=
  match fldNat j k with | .ok n => n | .error _ => d
def fldOpt (j : Json) (k : String) : Option Json :=
  match j.getObjVal? k with
  | .ok Json.null => none
  | .ok v => some v
  | .error _ => none
def fldOptNat (j : Json) (k : String) : R (Option Nat) :=
  match fldOpt j k with
  | none => pure none
  | some v => do pure (some (← v.getNat?))

def jErr (e : Err) : Json := Json.mkObj [("r", "err"), ("k", e.name)]
def jOk (fields : List (String × Json)) : Json := Json.mkObj (("r", "ok") :: fields)
def jNatOpt : Option Nat → Json
  | none => Json.null
  | some n => Json.num n
def jHex (b : Bytes) : Json := Json.str (toHex b)

/-- main loop: read one request per line from stdin until EOF -/
partial def loop (handle : Json → R Json) : IO Unit := do
  let stdin ← IO.getStdin
  let stdout ← IO.getStdout
  let rec go : IO Unit := do
    let line ← stdin.getLine
    if line.isEmpty then return ()
    let out :=
      match Json.parse line with
      | .error e => Json.mkObj [("r", "bad-request"), ("why", e)]
      | .ok j =>
        match handle j with
        | .ok o => o
        | .error e => Json.mkObj [("r", "bad-request"), ("why", e)]
    stdout.putStrLn out.compress
    go
  go
  stdout.flush

/-- stateful variant -/
partial def loopS {σ} (init : σ) (handle : σ → Json → R (σ × Json)) : IO Unit := do
  let stdin ← IO.getStdin
  let stdout ← IO.getStdout
  let rec go (s : σ) : IO Unit := do
    let line ← stdin.getLine
    if line.isEmpty then return ()
    match Json.parse line with
    | .error e =>
        stdout.putStrLn (Json.mkObj [("r", "bad-request"), ("why", e)]).compress
        go s
    | .ok j =>
      match handle s j with
      | .ok (s', o) => stdout.putStrLn o.compress; go s'
      | .error e =>
          stdout.putStrLn (Json.mkObj [("r", "bad-request"), ("why", e)]).compress
          go s
  go init
  stdout.flush

end BacVerif.Drv
