/- JSON rendering of tags, shared by the C01/C02/C03 drivers -/
import BacVerif.Drv.Common
import BacVerif.Model.Tag
namespace BacVerif.Drv
open Lean BacVerif

def jTag (t : Tag) : Json :=
  Json.arr #[Json.num t.cls.code, Json.num t.num, Json.num t.lvt, jHex t.data]

def jTags (ts : List Tag) : Json := Json.arr (ts.map jTag).toArray

def clsOfCode : Nat → R TagClass
  | 0 => pure .app | 1 => pure .ctx | 2 => pure .opening | 3 => pure .closing
  | _ => throw "bad tag class"

def tagOfJson (j : Json) : R Tag := do
  let a ← j.getArr?
  if a.size ≠ 4 then throw "tag: need 4 items"
  let c ← clsOfCode (← a[0]!.getNat?)
  let d ← match ofHex? (← a[3]!.getStr?) with
    | some b => pure b | none => throw "bad hex"
  pure { cls := c, num := ← a[1]!.getNat?, lvt := ← a[2]!.getNat?, data := d }

def tagsOfJson (j : Json) : R (List Tag) := do
  (← j.getArr?).toList.mapM tagOfJson

end BacVerif.Drv
