/-
  Drv.TsmDrv — stateful line-protocol driver for `Model.Tsm`, shared by the
  executables drv_c11 and drv_c12 (and usable by C04/C05/C10).

  requests
    {"op":"reset", "cfg":{maxApdu,seg,maxSegs,window,retries,apduTimeout,segTimeout,appTimeout},
                   "nextId":n, "di":[[peer,{maxApdu,seg,maxSegs,maxNpdu}],…]}
    {"op":"ev","e":"req","peer":p,"svc":n,"hex":"…","id":n|null}
    {"op":"ev","e":"unconf","peer":p,"svc":n,"hex":"…"}
    {"op":"ev","e":"rsp","peer":p,"a":<apdu>}
    {"op":"ev","e":"frame","peer":p,"a":<apdu>}
    {"op":"ev","e":"timeout","srv":b,"peer":p,"id":n}
    {"op":"ev","e":"tick","dt":µs}
    {"op":"ev","e":"learn","peer":p,"info":{…}}
    {"op":"ev","e":"dcc","d":0|1|2}
    {"op":"nextid","peer":p}                      -- get_next_invoke_id alone (no state change kept)
  <apdu> = {"t":ty,"seg","mor","sa","srv","nak","seq","win","maxSegs","maxResp","svc","id","reason","hex"}
           (absent fields = false / 0 / empty)
  reply to an event
    {"r":"ok","out":[…],"cl":[…],"sv":[…],"next":n,"now":µs,"br":"…"}
-/
import BacVerif.Drv.Common
import BacVerif.Model.Tsm
import BacVerif.Model.Tsm.Cache
namespace BacVerif.Drv
open Lean BacVerif BacVerif.Tsm

/-- FNV-1a, 64 bit, over the payload (the harness computes the same) -/
def fnv64 (bs : Bytes) : Nat :=
  bs.foldl (fun h b => ((h ^^^ b.toNat) * 1099511628211) % 18446744073709551616)
    14695981039346656037

def jB (b : Bool) : Json := Json.num (if b then 1 else 0)

/-- the header fields the PDU type carries on the wire, in wire order -/
def jHdr (a : Apdu) : Json :=
  let n (x : Nat) : Json := Json.num x
  Json.arr <| List.toArray <|
    match a.ty with
    | 0 => [n 0, jB a.seg, jB a.mor, jB a.sa, n a.maxSegs, n a.maxResp, n a.invokeId]
            ++ (if a.seg then [n a.seq, n a.win] else []) ++ [n a.service]
    | 1 => [n 1, n a.service]
    | 2 => [n 2, n a.invokeId, n a.service]
    | 3 => [n 3, jB a.seg, jB a.mor, n a.invokeId]
            ++ (if a.seg then [n a.seq, n a.win] else []) ++ [n a.service]
    | 4 => [n 4, jB a.nak, jB a.srv, n a.invokeId, n a.seq, n a.win]
    | 5 => [n 5, n a.invokeId, n a.service]
    | 6 => [n 6, n a.invokeId, n a.reason]
    | 7 => [n 7, jB a.srv, n a.invokeId, n a.reason]
    | t => [n t]

def jApdu (a : Apdu) : List (String × Json) :=
  [("h", jHdr a), ("n", Json.num a.data.length), ("d", Json.num (fnv64 a.data))]

def jOut : Out → Json
  | .send p a => Json.mkObj ([("o", Json.str "send"), ("peer", Json.num p), ("len", Json.num a.wireLen)] ++ jApdu a)
  | .indicate p a => Json.mkObj ([("o", Json.str "ind"), ("peer", Json.num p)] ++ jApdu a)
  | .confirm p a => Json.mkObj ([("o", Json.str "conf"), ("peer", Json.num p)] ++ jApdu a)
  | .confirmAnon c e => Json.mkObj [("o", "confanon"), ("cls", Json.num c), ("code", Json.num e)]
  | .raised r => Json.mkObj [("o", "raised"), ("k", r.name)]

def jTxn (t : Txn) : Json :=
  let b := t.body
  Json.arr #[Json.num t.key.peer, Json.num t.key.id, Json.num b.st.code, jB b.hasDI,
    Json.num b.retry, Json.num b.segRetry, jB b.sentAll, Json.num b.lastSeq, Json.num b.initSeq,
    jNatOpt b.window, Json.num b.segSize, Json.num b.segCount, Json.num b.maxApdu,
    jNatOpt b.maxSegs, jB b.sra, jNatOpt b.timer,
    match (if b.st = .awaitResp then none else b.ctx) with   -- see tsmlock._digest
    | none => Json.null
    | some c => Json.arr #[Json.num c.ty, Json.num c.invokeId, Json.num c.service,
                           Json.num c.data.length, Json.num (fnv64 c.data)]]

def segOfNat : Nat → R SegSup
  | 0 => pure .no | 1 => pure .tx | 2 => pure .rx | 3 => pure .both
  | _ => throw "bad segmentation code"

def diOfJson (j : Json) : R DeviceInfo := do
  pure { maxApdu := ← fldOptNat j "maxApdu", seg := ← segOfNat (← fldNat j "seg"),
         maxSegs := ← fldOptNat j "maxSegs", maxNpdu := ← fldOptNat j "maxNpdu" }

def fldB (j : Json) (k : String) : Bool :=
  match j.getObjVal? k with
  | .ok (Json.bool b) => b
  | .ok (Json.num n) => n != 0
  | _ => false

def apduOfJson (j : Json) : R Apdu := do
  let d ← match fldOpt j "hex" with
    | none => pure []
    | some _ => fldHex j "hex"
  pure { ty := ← fldNat j "t", seg := fldB j "seg", mor := fldB j "mor", sa := fldB j "sa",
         srv := fldB j "srv", nak := fldB j "nak", seq := fldNatD j "seq" 0, win := fldNatD j "win" 0,
         maxSegs := fldNatD j "maxSegs" 0, maxResp := fldNatD j "maxResp" 0,
         service := fldNatD j "svc" 0, invokeId := fldNatD j "id" 0, reason := fldNatD j "reason" 0,
         data := d }

/-- The service codecs the lockstep harness registers in the live registries
    (harness/tsmlock.py `install_raw_services`):
      service 200: raw, always decodes
      service 201: decoder raises RejectException(first octet, 0 if empty)
      service 202: decoder raises AbortException(first octet, 0 if empty)
      anything else: no decoder registered -/
def first (d : Bytes) : Nat := match d with | [] => 0 | b :: _ => b.toNat

def drvReqDecode (svc : Nat) (d : Bytes) : ReqDecode :=
  if svc = 200 then .ok
  else if svc = 201 then .reject (first d)
  else if svc = 202 then .abort (first d)
  else .reject rejectUnrecognizedService

def drvAckDecode (svc : Nat) (_d : Bytes) : AckDecode :=
  if svc = 200 then .ok else if svc = 201 then .bad else .unknown

def cfgOfJson (j : Json) : R Cfg := do
  pure { maxApdu := ← fldNat j "maxApdu", seg := ← segOfNat (← fldNat j "seg"),
         maxSegs := ← fldOptNat j "maxSegs", window := ← fldNat j "window",
         retries := ← fldNat j "retries", apduTimeout := ← fldNat j "apduTimeout",
         segTimeout := ← fldNat j "segTimeout", appTimeout := ← fldNat j "appTimeout",
         reqDecode := drvReqDecode,
         unconfDecode := fun svc _ => svc = 200,
         ackDecode := drvAckDecode,
         errDecode := fun svc _ => svc ≠ 201 }

def eventOfJson (j : Json) : R Event := do
  match ← fldStr j "e" with
  | "req" => pure (.request (← fldNat j "peer") (← fldNat j "svc") (← fldHex j "hex") (← fldOptNat j "id"))
  | "unconf" => pure (.unconfirmed (← fldNat j "peer") (← fldNat j "svc") (← fldHex j "hex"))
  | "rsp" => pure (.response (← fldNat j "peer") (← apduOfJson (← fld j "a")))
  | "frame" => pure (.frame (← fldNat j "peer") (← apduOfJson (← fld j "a")))
  | "timeout" => pure (.timeout (fldB j "srv") (← fldNat j "peer") (← fldNat j "id"))
  | "tick" => pure (.tick (← fldNat j "dt"))
  | "learn" => pure (.learn (← fldNat j "peer") (← diOfJson (← fld j "info")))
  | "dcc" =>
    match ← fldNat j "d" with
    | 0 => pure (.setDcc .enable) | 1 => pure (.setDcc .disable) | _ => pure (.setDcc .disableInitiation)
  | e => throw s!"unknown event {e}"

/-- coverage signature: states of the addressed transaction before/after + output kinds -/
def brOf (s s' : Sap) (e : Event) (outs : List Out) : String :=
  let stOf (l : List Txn) (k : Key) : String :=
    match findTxn k l with | some t => toString t.body.st.code | none => "-"
  let (tag, k, srvSide) : String × Key × Option Bool :=
    match e with
    | .request p _ _ none => ("req", ⟨p, s.nextId⟩, some false)
    | .request p _ _ (some i) => ("reqid", ⟨p, i⟩, some false)
    | .unconfirmed p _ _ => ("unconf", ⟨p, 0⟩, none)
    | .response p a => (s!"rsp{a.ty}", ⟨p, a.invokeId⟩, some true)
    | .frame p a =>
      (s!"f{a.ty}{if a.seg then "s" else ""}{if a.mor then "m" else ""}{if a.nak then "n" else ""}",
       ⟨p, a.invokeId⟩,
       if a.ty = 0 then some true else if a.ty = 4 || a.ty = 7 then some (!a.srv)
       else if a.ty = 1 then none else some false)
    | .timeout srv p i => ("to", ⟨p, i⟩, some srv)
    | .tick _ => ("tick", ⟨0, 0⟩, none)
    | .learn p _ => ("learn", ⟨p, 0⟩, none)
    | .setDcc _ => ("dcc", ⟨0, 0⟩, none)
  let sts := match srvSide with
    | none => ""
    | some true => s!"S{stOf s.servers k}>{stOf s'.servers k}"
    | some false => s!"C{stOf s.clients k}>{stOf s'.clients k}"
  let os := String.join (outs.map fun o => match o with
    | .send _ a => s!"s{a.ty}" | .indicate _ a => s!"i{a.ty}" | .confirm _ a => s!"c{a.ty}"
    | .confirmAnon _ _ => "x" | .raised r => s!"!{r.name}")
  s!"{tag}:{sts}:{os}"

structure DrvState where
  cfg : Cfg := {}
  sap : Sap := {}

def handleTsm (st : DrvState) (j : Json) : R (DrvState × Json) := do
  match ← fldStr j "op" with
  | "reset" =>
    let cfg ← cfgOfJson (← fld j "cfg")
    let dis ← (← fldArr j "di").toList.mapM fun x => do
      let a ← x.getArr?
      if a.size ≠ 2 then throw "di: need [peer, info]"
      pure ((← a[0]!.getNat?), (← diOfJson a[1]!))
    let sap : Sap := { nextId := fldNatD j "nextId" 1, devInfo := dis }
    pure ({ cfg := cfg, sap := sap }, jOk [])
  | "ev" =>
    let e ← eventOfJson j
    let (s', outs) := step st.cfg st.sap e
    let reply := jOk [("out", Json.arr (outs.map jOut).toArray),
                      ("cl", Json.arr (s'.clients.map jTxn).toArray),
                      ("sv", Json.arr (s'.servers.map jTxn).toArray),
                      ("next", Json.num s'.nextId), ("now", Json.num s'.now),
                      ("br", Json.str (brOf st.sap s' e outs))]
    pure ({ st with sap := s' }, reply)
  | "cache" =>
    -- DeviceInfoCache alone: {"op":"cache","ops":[["iam",i,a,maxApdu,seg]|["acq","a"|"i",key]|["rel",handle]…],
    --   "addrs":[…],"insts":[…]} → after EVERY op the view [id,addr,maxApdu,seg,maxSegs,maxNpdu,refs]|null of
    --   every queried key; handle n = the record the n-th successful acquire returned
    let ops ← fldArr j "ops"
    let addrs ← (← fldArr j "addrs").toList.mapM (·.getNat?)
    let insts ← (← fldArr j "insts").toList.mapM (·.getNat?)
    let segCode : SegSup → Nat := fun g => match g with | .no => 0 | .tx => 1 | .rx => 2 | .both => 3
    let view (c : Cache.Cache) : Json :=
      let one (k : Cache.CKey) : Json := match c.lookup k with
        | none => Json.null
        | some r => Json.arr #[Json.num r.id, Json.num r.addr, jNatOpt r.info.maxApdu, Json.num (segCode r.info.seg),
                               jNatOpt r.info.maxSegs, jNatOpt r.info.maxNpdu, Json.num r.refs]
      Json.arr ((addrs.map fun a => one (.addr a)) ++ (insts.map fun i => one (.inst i))).toArray
    let mut c : Cache.Cache := {}
    let mut handles : List Nat := []
    let mut views : Array Json := #[]
    for o in ops do
      let a ← o.getArr?
      match ← a[0]!.getStr? with
      | "iam" =>
        c := Cache.iam c (← a[1]!.getNat?) (← a[2]!.getNat?) (← a[3]!.getNat?) (← segOfNat (← a[4]!.getNat?))
      | "acq" =>
        let kind ← a[1]!.getStr?
        let kv ← a[2]!.getNat?
        let k : Cache.CKey := if kind == "a" then .addr kv else .inst kv
        let (c', h) := Cache.acquire c k
        c := c'
        match h with | some x => handles := handles ++ [x] | none => pure ()
      | "rel" =>
        match handles[(← a[1]!.getNat?)]? with
        | some x => match Cache.release c x with | some c' => c := c' | none => pure ()
        | none => pure ()
      | x => throw s!"unknown cache op {x}"
      views := views.push (view c)
    pure (st, jOk [("views", Json.arr views)])
  | "nextid" =>
    let (r, next) := getNextInvokeId st.sap (← fldNat j "peer")
    pure (st, jOk [("id", jNatOpt r), ("next", Json.num next)])
  | op => throw s!"unknown op {op}"

def tsmMain : IO Unit := loopS ({} : DrvState) handleTsm

end BacVerif.Drv
