/-
  Model.Task — the scheduler of bacpypes, branch for branch.

    py34/bacpypes/task.py   _Task.install_task / suspend_task / resume_task,
                            RecurringTask.install_task (next-slot arithmetic),
                            TaskManager.install_task / suspend_task /
                            resume_task / get_next_task / process_task
    py34/bacpypes/core.py   deferred, run_once, run (the drain loops)

  Core Lean only (no Mathlib, no other model): every time-dependent model
  (C04, C13, C16, C17, C20) uses `TM` as its time base.

  Abstractions (each is argued in notes/C14.md):
  * time is a `Nat` number of ticks.  One tick is 1 µs everywhere except in the
    recurring-slot stream of the C14 harness, where a finer tick (1/3 µs) makes
    1/3 s an integer; the only place the tick length matters is the 1 µs
    "jitter" of `RecurringTask.install_task`, which is therefore a field
    (`TM.jitter`, in ticks).  Python's float arithmetic is NOT modelled: the
    correspondence check compares after quantisation to 1 µs.
  * the heap `TaskManager.tasks` is the list of its entries in no particular
    order; `heappop` is "remove the minimum by (time, seq)" (`popMin`).  `heapq`
    itself is trusted.  `suspend_task` deletes the first entry of the task in
    *array* order — the array order is not modelled, which is sound because a
    task never has two entries (`C14.Inv`, proved).
  * tasks are numbers; `flag t` is `_Task.isScheduled`, `ttime t` is
    `_Task.taskTime`, `ival t`/`ioff t` are `RecurringTask.taskInterval` /
    `taskIntervalOffset` (already converted from milliseconds to ticks).
  * `removed` is a ghost field (the sequence numbers deleted by
    `suspend_task`); no code reads it, the theorems use it to say what happened
    to every installation.
  * the tree described is the one AFTER fixes/C14-*.patch: a raising deferred
    function is logged and the batch continues (run, run_once); a raising task
    is logged and run_once carries on; a recurring task is re-installed even if
    its firing raised.
-/
namespace BacVerif.Task

/-! ## the schedule -/

/-- one heap entry `(task.taskTime, next(counter), task)` -/
structure Entry where
  time : Nat
  seq  : Nat
  tid  : Nat
deriving DecidableEq, Repr, Inhabited

/-- Python tuple comparison on `(time, seq, …)`; `seq` is unique so the task
    object itself is never compared. -/
def Entry.before (a b : Entry) : Prop :=
  a.time < b.time ∨ (a.time = b.time ∧ a.seq ≤ b.seq)

instance (a b : Entry) : Decidable (a.before b) := by
  unfold Entry.before; exact inferInstance

/-- the explicit `raise RuntimeError(...)` sites -/
inductive Raised
  | scheduleMissing      -- _Task.install_task: "schedule missing, use zero for 'now'"
  | taskTimeNone         -- TaskManager.install_task: "task time is None"
  | intervalUnset        -- RecurringTask.install_task: "interval unset, ..."
  | intervalNotPositive  -- RecurringTask.install_task: "interval must be greater than zero"
  | noTaskManager        -- _Task.install_task(delta=…) before a manager exists: "no task manager"
  | notInList            -- (pre-fix) suspend_task before a manager exists: list.remove → ValueError
  | noManagerAttr        -- resume_task before a manager exists: None.resume_task → AttributeError
deriving DecidableEq, Repr, Inhabited

def Raised.name : Raised → String
  | .scheduleMissing => "scheduleMissing" | .taskTimeNone => "taskTimeNone"
  | .intervalUnset => "intervalUnset" | .intervalNotPositive => "intervalNotPositive"
  | .noTaskManager => "noTaskManager" | .notInList => "notInList" | .noManagerAttr => "noManagerAttr"

/-- point update of a per-task attribute -/
def upd {α} (f : Nat → α) (k : Nat) (v : α) : Nat → α := fun x => if x = k then v else f x

/-- `TaskManager` plus the scheduling attributes of the task objects -/
structure TM where
  heap    : List Entry := []                 -- TaskManager.tasks (as a multiset)
  counter : Nat := 0                         -- TaskManager.counter
  flag    : Nat → Bool := fun _ => false     -- _Task.isScheduled
  ttime   : Nat → Option Nat := fun _ => none   -- _Task.taskTime
  ival    : Nat → Option Nat := fun _ => none   -- RecurringTask.taskInterval
  ioff    : Nat → Option Nat := fun _ => none   -- RecurringTask.taskIntervalOffset
  jitter  : Nat := 1                         -- 0.000001 s in ticks
  trig    : Bool := false                    -- TaskManager.trigger is set (wakes asyncore.loop)
  removed : List Nat := []                   -- ghost: seqs deleted by suspend_task

/-- `heappop`: the minimum by `(time, seq)` and the remaining entries -/
def popMin : List Entry → Option (Entry × List Entry)
  | [] => none
  | e :: rest =>
    match popMin rest with
    | none => some (e, [])
    | some (m, rest') => if e.before m then some (e, rest) else some (m, e :: rest')

/-- `self.tasks[0]` -/
def peekMin (h : List Entry) : Option Entry := (popMin h).map (·.1)

/-- the `for i, (when, n, curtask) in enumerate(self.tasks): if task is curtask:
    del self.tasks[i]; …; break` of `suspend_task`: the removed entry and the rest,
    `none` for the `else:` branch (task not found) -/
def removeTid (tid : Nat) : List Entry → Option (Entry × List Entry)
  | [] => none
  | e :: r =>
    if e.tid = tid then some (e, r)
    else match removeTid tid r with
      | none => none
      | some (x, r') => some (x, e :: r')

/-- `TaskManager.suspend_task`.  Not found: only the trigger is set — in
    particular the flag is NOT cleared. -/
def TM.suspend (tm : TM) (tid : Nat) : TM :=
  match removeTid tid tm.heap with
  | some (x, h) => { tm with heap := h, flag := upd tm.flag tid false,
                             removed := tm.removed ++ [x.seq], trig := true }
  | none => { tm with trig := true }

/-- `TaskManager.install_task` (also `resume_task`, which only calls it) -/
def TM.install (tm : TM) (tid : Nat) : TM × Option Raised :=
  match tm.ttime tid with
  | none => (tm, some .taskTimeNone)
  | some t =>
    let tm1 := if tm.flag tid then tm.suspend tid else tm
    ({ tm1 with heap := ⟨t, tm1.counter, tid⟩ :: tm1.heap,
                counter := tm1.counter + 1,
                flag := upd tm1.flag tid true, trig := true }, none)

/-- `_Task.install_task(when, delta)` at manager time `now` -/
def TM.installTask (tm : TM) (now tid : Nat) (when? delta? : Option Nat) : TM × Option Raised :=
  -- if (when is None) and (delta is not None): when = now + delta
  let w1 := match when?, delta? with
    | none, some d => some (now + d)
    | w, _ => w
  -- if when is None: when = self.taskTime
  let w2 := match w1 with
    | none => tm.ttime tid
    | w => w
  match w2 with
  | none => (tm, some .scheduleMissing)
  | some t => ({ tm with ttime := upd tm.ttime tid (some t) }).install tid

/-- `(now − offset) + interval − ((now − offset) % interval) + offset` on exact
    integers; `now` already includes the jitter.  Python's `%` with a positive
    divisor is `Int.emod`. -/
def slotAfter (now iv off : Nat) : Int :=
  let n : Int := (now : Int) - (off : Int)
  n + (iv : Int) - n % (iv : Int) + (off : Int)

/-- `if interval is not None: self.taskInterval = interval` and the same for the offset -/
def TM.setRecurring (tm : TM) (tid : Nat) (iv? off? : Option Nat) : TM :=
  { tm with
    ival := match iv? with
      | some i => upd tm.ival tid (some i)
      | none => tm.ival
    ioff := match off? with
      | some o => upd tm.ioff tid (some o)
      | none => tm.ioff }

/-- `if self.taskIntervalOffset: offset = … else: offset = 0.0` — None and 0 both give 0 -/
def TM.offsetOf (tm : TM) (tid : Nat) : Nat :=
  match tm.ioff tid with
  | some o => o
  | none => 0

/-- `RecurringTask.install_task(interval, offset)` at manager time `now`.
    The attribute updates precede the checks, so a refused call still changes
    `taskInterval`/`taskIntervalOffset`. -/
def TM.installRecurring (tm : TM) (now tid : Nat) (iv? off? : Option Nat) : TM × Option Raised :=
  let tm := tm.setRecurring tid iv? off?
  match tm.ival tid with
  | none => (tm, some .intervalUnset)
  | some iv =>
    if iv = 0 then (tm, some .intervalNotPositive)
    else
      let t := (slotAfter (now + tm.jitter) iv (tm.offsetOf tid)).toNat
      ({ tm with ttime := upd tm.ttime tid (some t) }).install tid

/-- `TaskManager.get_next_task` at time `now`: the popped entry (if the head is
    due), `delta` (`none` = Python `None`; truncated subtraction is the
    `max(when - now, 0.0)`), and the manager afterwards. -/
def TM.getNext (tm : TM) (now : Nat) : Option Entry × Option Nat × TM :=
  match popMin tm.heap with
  | none => (none, none, tm)
  | some (e, rest) =>
    if e.time ≤ now then
      let tm' := { tm with heap := rest, flag := upd tm.flag e.tid false }
      let delta := match peekMin rest with
        | none => none
        | some e2 => some (e2.time - now)
      (some e, delta, tm')
    else (none, some (e.time - now), tm)

/-- armed deadline: the time of the heap's head -/
def TM.deadline (tm : TM) : Option Nat := (peekMin tm.heap).map (·.time)

/-! ## deferred functions and task bodies (the scripted environment of C14) -/

/-- what a task body or a deferred function may do to the scheduler while it
    runs (re-entrant use of the manager from inside `process_task` / the drain
    loop) -/
inductive Act
  | installAt (tid t : Nat)      -- tasks[tid].install_task(when=t)
  | installAfter (tid d : Nat)   -- tasks[tid].install_task(delta=d)
  | suspend (tid : Nat)          -- tasks[tid].suspend_task()
  | stop                         -- core.stop()
  | pump (fuel : Nat)            -- core.run_once(): the callback pumps the loop itself
deriving DecidableEq, Repr, Inhabited

/-- a function handed to `core.deferred`: when called it records `id`, performs
    `acts` in order, defers `kids` in order, then raises if `raises` -/
inductive Fn where
  | mk (id : Nat) (raises : Bool) (kids : List Fn) (acts : List Act)

def Fn.id : Fn → Nat | .mk i _ _ _ => i
def Fn.raises : Fn → Bool | .mk _ r _ _ => r
def Fn.kids : Fn → List Fn | .mk _ _ k _ => k
def Fn.acts : Fn → List Act | .mk _ _ _ a => a

mutual
  /-- number of calls a function causes: itself and everything it defers -/
  def Fn.weight : Fn → Nat
    | .mk _ _ kids _ => 1 + weights kids
  def weights : List Fn → Nat
    | [] => 0
    | f :: r => f.weight + weights r
end

/-- what `process_task` of a scripted task does: record the firing, perform
    `acts` in order, defer `defers` in order, then raise if `raises` -/
structure Body where
  raises : Bool := false
  defers : List Fn := []
  acts : List Act := []

/-- one firing as seen at `process_task`: which task, its due time and
    installation number, the manager's time, and (ghost) the manager's counter
    at that moment -/
structure Fire where
  tid : Nat
  due : Nat
  seq : Nat
  now : Nat
  ctr : Nat
deriving DecidableEq, Repr, Inhabited

/-- observable events, in the order they happen -/
inductive Ev
  | fire (tid now due seq : Nat)    -- process_task callback
  | call (id : Nat)                 -- a deferred function was called
  | taskErr (tid : Nat)             -- run/run_once logged an exception of a task
  | fnErr (id : Nat)                -- run/run_once logged an exception of a deferred function
  | raised (k : Raised)             -- RuntimeError returned to the caller of an API
  | act (a : Act) (now : Nat) (due : Option Nat)   -- a body / deferred function used the scheduler
deriving Repr, Inhabited

structure World where
  tm        : TM := {}
  now       : Nat := 0
  spin      : Nat := 1000000000000000   -- `spin` argument of core.run (ticks)
  recurring : Nat → Bool := fun _ => false   -- isinstance(task, RecurringTask)
  body      : Nat → Body := fun _ => {}
  queue     : List Fn := []       -- core.deferredFns
  fired     : List Fire := []     -- every process_task callback so far
  calls     : List Nat := []      -- ids of deferred functions called so far
  subs      : List Nat := []      -- ghost: ids in submission order
  failed    : List Nat := []      -- ids whose exception was logged
  out       : List Ev := []       -- everything observable, in order
  running   : Bool := false       -- core.running

def World.emit (w : World) (e : Ev) : World := { w with out := w.out ++ [e] }

/-- What a nested `core.run_once()` — called from inside a task body or a
    deferred function — does to the world (`fuel` bounds its `while` loop).
    Everything from `World.act` to `World.run` below is parametric in it (an
    instance argument, so that the definitions read as before); the instance
    used by the driver and by the kernel-evaluated examples is `pumpAt depth`
    at the end of this file: the nested pass IS `runOnceLoop`, one level down. -/
class Pump where
  pump : Nat → World → World

variable [Pump]

/-- `core.deferred(fn)` -/
def World.defer (w : World) (f : Fn) : World :=
  { w with queue := w.queue ++ [f], subs := w.subs ++ [f.id], tm := { w.tm with trig := true } }

def World.deferAll (w : World) (fs : List Fn) : World := fs.foldl World.defer w

/-- one use of the scheduler from inside a task body or a deferred function.
    `install_task(when=…)` / `(delta=…)` cannot raise; `stop()` clears
    `core.running` and sets the trigger. -/
def World.act (w : World) (a : Act) : World :=
  match a with
  | .pump fuel =>
    -- the marker first, then whatever the nested pass emits
    Pump.pump fuel { w with out := w.out ++ [Ev.act a w.now none] }
  | _ =>
  let w := match a with
    | .installAt tid t => { w with tm := (w.tm.installTask w.now tid (some t) none).1 }
    | .installAfter tid d => { w with tm := (w.tm.installTask w.now tid none (some d)).1 }
    | .suspend tid => { w with tm := w.tm.suspend tid }
    | .stop => { w with running := false, tm := { w.tm with trig := true } }
    | .pump _ => w
  let due := match a with
    | .installAt tid _ => w.tm.ttime tid
    | .installAfter tid _ => w.tm.ttime tid
    | _ => none
  { w with out := w.out ++ [Ev.act a w.now due] }

def World.doActs (w : World) (as : List Act) : World := as.foldl World.act w

/-- the body of the `for fn, args, kwargs in fnlist:` loop (fixed tree):
    `try: fn() except Exception: log` -/
def World.callFn (w : World) (f : Fn) : World :=
  let w := { w with calls := w.calls ++ [f.id], out := w.out ++ [Ev.call f.id] }
  let w := w.doActs f.acts
  let w := w.deferAll f.kids
  if f.raises then { w with failed := w.failed ++ [f.id], out := w.out ++ [Ev.fnErr f.id] } else w

/-- `for fn, args, kwargs in fnlist: …` -/
def World.runBatch (w : World) (batch : List Fn) : World := batch.foldl World.callFn w

/-- `while deferredFns: fnlist = deferredFns; deferredFns = []; for …` -/
def World.drainFuel : Nat → World → World
  | 0, w => w
  | fuel + 1, w =>
    match w.queue with
    | [] => w
    | batch => drainFuel fuel (({ w with queue := [] }).runBatch batch)

/-- the drain loop; the fuel is the number of calls still owed, which is never
    exhausted (`C14.drain_queue_empty`) -/
def World.drain (w : World) : World := w.drainFuel (weights w.queue)

/-- `TaskManager.process_task(task)` for a popped entry; the Bool says whether
    an exception leaves it.  Fixed tree: `try: task.process_task() finally:
    if isinstance(task, RecurringTask): task.install_task()`. -/
def World.process (w : World) (e : Entry) : World × Bool :=
  let b := w.body e.tid
  let w := { w with fired := w.fired ++ [Fire.mk e.tid e.time e.seq w.now w.tm.counter],
                    out := w.out ++ [Ev.fire e.tid w.now e.time e.seq] }
  let w := w.doActs b.acts
  let w := w.deferAll b.defers
  if w.recurring e.tid then
    let r := w.tm.installRecurring w.now e.tid none none
    ({ w with tm := r.1 }, b.raises || r.2.isSome)
  else (w, b.raises)

/-- `task, delta = get_next_task()`, then `process_task(task)` if there is one;
    an exception leaving `process_task` is logged (by `run`, by `run_once`, by
    the harness for a bare `next`).  Returns the world, `delta`, and whether an
    exception was logged. -/
def World.fireNext (w : World) : World × Option Nat × Bool :=
  match w.tm.getNext w.now with
  | (none, delta, tm') => ({ w with tm := tm' }, delta, false)
  | (some e, delta, tm') =>
    let r := ({ w with tm := tm' }).process e
    ((if r.2 then r.1.emit (.taskErr e.tid) else r.1), delta, r.2)

/-- harness-level single step (no loop, no drain).  Returns `delta` too. -/
def World.next (w : World) : World × Option Nat :=
  let r := w.fireNext
  (r.1, r.2.1)

/-- the `while delta == 0.0:` loop of `core.run_once` (fixed tree).  The Bool
    is `false` iff the fuel ran out. -/
def World.runOnceLoop : Nat → World → World × Bool
  | 0, w => (w, false)
  | fuel + 1, w =>
    let r := w.fireNext
    let w := r.1.drain
    if r.2.1 = some 0 then runOnceLoop fuel w else (w, true)

/-- `core.run_once()`.  With bodies that leave the manager alone one iteration
    per heap entry, plus one, is enough (`C14.runOnce_complete`); a body that
    re-arms itself for "now" makes the real loop spin for ever, so the fuel is a
    parameter. -/
def World.runOnce (w : World) (fuel : Nat) : World × Bool := w.runOnceLoop fuel

/-- `if delta is None: delta = spin` … `delta = min(delta, spin)` of `core.run` -/
def World.timeout (w : World) : Option Nat → Nat
  | none => w.spin
  | some d => min d w.spin

/-- `core.run(spin)` between the harness's idle stub (what stands for
    `asyncore.loop(timeout=delta, count=1)`), until virtual time `T`:

        def idle(timeout):
            if trigger.is_set: trigger.is_set = False; return   # the pipe wakes select() at once
            if now + timeout > T: now = max(now, T); core.stop(); return
            now = now + timeout      # (= the head's due time whenever the heap is non-empty)

    (`trigger` is a flag object put in place of the manager's wake-up pipe:
    install_task, suspend_task and deferred set it, exactly as they write to
    the pipe in production.)  Result code: 0 = the fuel ran out, 1 = the stub
    stopped the loop at `T`, 2 = a task body or deferred function called
    `stop()` (`while running:` found `running` false). -/
def World.runLoop : Nat → Nat → World → World × Nat
  | 0, _, w => (w, 0)
  | fuel + 1, T, w =>
    -- while running:
    if w.running = false then (w, 2) else
    -- try: if task: process_task(task)
    let r := w.fireNext
    let w := r.1
    if r.2.2 then
      -- except Exception: logged; the rest of this iteration is skipped
      runLoop fuel T w
    else
      -- if delta is None: delta = spin;  delta = min(delta, spin)
      let d := w.timeout r.2.1
      -- (if deferredFns: delta = min(delta, 0.001) — the stub ignores it)
      -- asyncore.loop(timeout=delta, count=1)  → idle(delta)
      if w.tm.trig then
        runLoop fuel T ({ w with tm := { w.tm with trig := false } }).drain
      else if w.now + d > T then
        -- stop(): `running = False` (and the trigger is set); the iteration
        -- still finishes with the drain
        (({ w with now := max w.now T, running := false, tm := { w.tm with trig := true } }).drain, 1)
      else
        runLoop fuel T ({ w with now := w.now + d }).drain

/-! ## operations of the C14 histories -/

inductive Op
  | installAt (tid t : Nat)             -- task.install_task(when=t)
  | installAfter (tid d : Nat)          -- task.install_task(delta=d)
  | installBare (tid : Nat)             -- task.install_task()
  | installRec (tid : Nat) (iv off : Option Nat)   -- recurring.install_task(interval, offset)
  | suspend (tid : Nat)                 -- task.suspend_task()
  | resume (tid : Nat)                  -- task.resume_task()
  | defer (f : Fn)                      -- core.deferred(f)
  | tick (d : Nat)                      -- the clock moves, nothing runs
  | next                                -- one get_next_task + process_task
  | advOnce (d fuel : Nat)              -- clock += d; core.run_once()
  | advRun (d fuel : Nat)               -- core.run() until now + d
  | jumpRun (fuel : Nat)                -- core.run() until the armed deadline (if any)

def World.api (w : World) (r : TM × Option Raised) : World :=
  let w := { w with tm := r.1 }
  match r.2 with
  | some k => w.emit (.raised k)
  | none => w

omit [Pump] in
/-! ## before the manager exists

  Tasks may be installed before any `TaskManager` has been created (at import
  time, say): `task._task_manager` is `None` and `_Task.install_task` only sets
  `taskTime` and lists the task in `task._unscheduled_tasks` — ONCE: a task that
  is listed already is moved to the end (tree after
  fixes/C14-premanager-suspend.patch; before it the task was appended once per
  call and one `suspend_task` left the other entry behind, so a task suspended
  after its last install was armed — and fired — when the manager appeared).
  `suspend_task` takes the task off the list; a task that is not listed is left
  alone, as the manager does.  `TaskManager.__init__` then replays the list in
  order with `task.install_task()`, i.e. at each task's CURRENT `taskTime`: a
  pre-manager re-install moves the task behind everything installed in the
  meantime, exactly like a re-install with a manager.  The list is never
  emptied; nothing reads it again. -/

omit [Pump] in
/-- a process without a task manager: the task attributes are those of `w.tm`
    (whose heap is empty), `core.deferredFns` is `w.queue` -/
structure Pre where
  w : World := {}
  unsched : List Nat := []      -- task._unscheduled_tasks

inductive PreOp
  | installAt (tid t : Nat)                        -- task.install_task(when=t)
  | installAfter (tid d : Nat)                     -- task.install_task(delta=d): RuntimeError
  | installBare (tid : Nat)                        -- task.install_task()
  | installRec (tid : Nat) (iv off : Option Nat)   -- recurring.install_task(interval, offset)
  | suspend (tid : Nat)                            -- task.suspend_task()
  | resume (tid : Nat)                             -- task.resume_task(): AttributeError
  | defer (f : Fn)                                 -- core.deferred(f): queued, no trigger to set
  | tick (d : Nat)

omit [Pump] in
def Pre.raise (p : Pre) (k : Raised) : Pre := { p with w := p.w.emit (.raised k) }

omit [Pump] in
def Pre.step (p : Pre) : PreOp → Pre
  | .installAt tid t =>
    { p with w := { p.w with tm := { p.w.tm with ttime := upd p.w.tm.ttime tid (some t) } },
             unsched := p.unsched.erase tid ++ [tid] }
  | .installAfter _ _ => p.raise .noTaskManager
  | .installBare tid =>
    match p.w.tm.ttime tid with
    | none => p.raise .scheduleMissing
    | some _ => { p with unsched := p.unsched.erase tid ++ [tid] }
  | .installRec tid iv off =>
    let tm := p.w.tm.setRecurring tid iv off
    let p := { p with w := { p.w with tm := tm } }
    match tm.ival tid with
    | none => p.raise .intervalUnset
    | some i =>
      if i = 0 then p.raise .intervalNotPositive else { p with unsched := p.unsched.erase tid ++ [tid] }
  | .suspend tid => { p with unsched := p.unsched.erase tid }
  | .resume _ => p.raise .noManagerAttr
  | .defer f => { p with w := { p.w with queue := p.w.queue ++ [f], subs := p.w.subs ++ [f.id] } }
  | .tick d => { p with w := { p.w with now := p.w.now + d } }

omit [Pump] in
/-- the replay of one list entry: `task.install_task()` with a manager in place -/
def World.replay (w : World) (tid : Nat) : World :=
  if w.recurring tid then w.api (w.tm.installRecurring w.now tid none none)
  else w.api (w.tm.installTask w.now tid none none)

omit [Pump] in
/-- `TaskManager()` for the first time: a fresh trigger, then
    `for task in _unscheduled_tasks: task.install_task()` -/
def Pre.mkManager (p : Pre) : World :=
  p.unsched.foldl World.replay { p.w with tm := { p.w.tm with trig := false } }

/-- one operation; the second component is the `delta` of `next` / the result
    code of the loops (0 = fuel ran out, 1 = ran to completion, 2 = `run` was
    stopped from inside) -/
def World.step (w : World) : Op → World × Option Nat
  | .installAt tid t => (w.api (w.tm.installTask w.now tid (some t) none), none)
  | .installAfter tid d => (w.api (w.tm.installTask w.now tid none (some d)), none)
  | .installBare tid => (w.api (w.tm.installTask w.now tid none none), none)
  | .installRec tid iv off => (w.api (w.tm.installRecurring w.now tid iv off), none)
  | .suspend tid => ({ w with tm := w.tm.suspend tid }, none)
  | .resume tid => (w.api (w.tm.install tid), none)
  | .defer f => (w.defer f, none)
  | .tick d => ({ w with now := w.now + d }, none)
  | .next => w.next
  | .advOnce d fuel =>
    let r := ({ w with now := w.now + d }).runOnce fuel
    (r.1, some (if r.2 then 1 else 0))
  | .advRun d fuel =>
    -- `running = True` … loop … `running = False`
    let r := ({ w with running := true }).runLoop fuel (w.now + d)
    ({ r.1 with running := false }, some r.2)
  | .jumpRun fuel =>
    let T := match w.tm.deadline with
      | some t => max t w.now
      | none => w.now
    let r := ({ w with running := true }).runLoop fuel T
    ({ r.1 with running := false }, some r.2)

/-- a whole history -/
def World.run (w : World) : List Op → World
  | [] => w
  | op :: ops => World.run (w.step op).1 ops

omit [Pump] in
/-- the nested pass, `depth` levels of nesting deep: `core.run_once()` called
    from a callback is `runOnceLoop` again, in which callbacks may pump
    `depth - 1` levels further.  (Depth 0: a callback that would pump deeper than
    the model goes does nothing — the harness never nests deeper than 2, the
    driver uses depth 4.)  Unchanged code: the running batch was detached from
    `deferredFns` before it was called, so the nested pass sees only what has
    been deferred since. -/
def pumpAt : Nat → Nat → World → World
  | 0, _, w => w
  | depth + 1, fuel, w => (@World.runOnceLoop ⟨pumpAt depth⟩ fuel w).1

end BacVerif.Task
