/-
  Model.RouterCache — the router information cache of a BACnet node and the
  paths by which a node learns routes
  (py34/bacpypes/netservice.py: RouterInfo, RouterInfoCache; the learning paths
  NetworkServiceElement.IAmRouterToNetwork / NetworkNumberIs,
  NetworkServiceAccessPoint.process_npdu (SADR of routed traffic),
  update/delete_router_references, and the next-hop choice of
  NetworkServiceAccessPoint.indication).

  Core Lean only (no Mathlib): the driver `drv_c19` links against this file and
  the routing model of C06 reuses it.

  The model describes the tree AFTER fixes/C19-delete-router-info.patch and
  fixes/C19-renumber-occupied.patch.

  Representation
  * A Python dict is an association list (`aget/aset/adel/items`).  `aset`
    keeps the position of an existing key and appends a new one (insertion
    order, as Python); `adel` removes every entry of the key; `aget` reads the
    first entry; `items` enumerates each key once.  No "distinct keys"
    side condition is needed anywhere: a list with a repeated key denotes the
    dict given by the first occurrences.
  * A network number is `Option Nat` (`None` = adapter whose network is not
    known yet — `update_source_network(None, n)` is a real call site).
  * `path_info[(snet, dnet)]` holds a *reference* to a `RouterInfo` object.  The
    model identifies such an object with its key `(snet, address)` in
    `routers`, i.e. `pathInfo : (snet, dnet) → address`.  This is exact in every
    state in which each path_info value IS the object stored in
    `routers[snet]` under its own address — a consequence of `Coherent`
    (Props/C19.lean), which is proved to hold in every reachable state, and
    which the harness checks by object identity on the real cache after every
    operation.  A reference that cannot be resolved is reported as
    `RErr.dangling` instead of being guessed.
  * Python exceptions: `RuntimeError("inconsistent parameters")` →
    `RErr.inconsistent`; `KeyError` of a `del d[k]` / `d[k]` → `RErr.keyError`;
    `RuntimeError("no adapter for network")` → `RErr.noAdapter`.  On an error
    the model returns no state (Python leaves a partially updated one);
    `Props/C19.lean` proves that no operation fails from a coherent state,
    except for the explicit `inconsistent` refusal, which changes nothing.
  * A Python `set` of routers is a duplicate-free list in order of first
    appearance.  (The iteration order of the real set is unspecified; in a
    coherent state the result does not depend on it.)
-/
namespace BacVerif.RouterCache

/-- network number; `none` is Python `None` (network not known yet) -/
abbrev Net := Option Nat

inductive RErr
  | inconsistent | keyError | dangling | noAdapter
deriving DecidableEq, Repr, Inhabited

def RErr.name : RErr → String
  | .inconsistent => "inconsistent" | .keyError => "keyError"
  | .dangling => "dangling" | .noAdapter => "noAdapter"

/-! ## Python dicts as association lists -/
section Dict
variable {κ : Type} [DecidableEq κ] {β : Type}

/-- `d.get(k)` -/
def aget (k : κ) : List (κ × β) → Option β
  | [] => none
  | (k', v) :: t => if k' = k then some v else aget k t

/-- `k in d` -/
def has (k : κ) (l : List (κ × β)) : Bool := (aget k l).isSome

/-- `d[k] = v` (existing key keeps its position, a new key goes last) -/
def aset (k : κ) (v : β) : List (κ × β) → List (κ × β)
  | [] => [(k, v)]
  | (k', v') :: t => if k' = k then (k, v) :: t else (k', v') :: aset k v t

/-- `del d[k]` for a key known to be present (callers test `has` first) -/
def adel (k : κ) (l : List (κ × β)) : List (κ × β) := l.filter (fun e => decide (e.1 ≠ k))

theorem adel_length_le (k : κ) (l : List (κ × β)) : (adel k l).length ≤ l.length :=
  List.length_filter_le _ _

/-- `d.items()`: every key once, in order -/
def items : List (κ × β) → List (κ × β)
  | [] => []
  | (k, v) :: t => (k, v) :: items (adel k t)
termination_by l => l.length
decreasing_by
  simp only [List.length_cons]
  exact Nat.lt_succ_of_le (adel_length_le k t)

end Dict

/-! ## RouterInfo, RouterInfoCache -/

/-- `RouterInfo`: `dnets` is the dict `{dnet: status}`; `status` is the attribute
    that only `update_router_status` creates (absent = `none`).  `snet` and
    `address` of the Python object are its key in `Cache.routers`. -/
structure RouterInfo where
  dnets : List (Nat × Nat) := []
  status : Option Nat := none
deriving DecidableEq, Repr, Inhabited

/-- `RouterInfoCache`: the two indexes. -/
structure Cache (α : Type) where
  /-- `routers : snet → {address → RouterInfo}` -/
  routers : List (Net × List (α × RouterInfo)) := []
  /-- `path_info : (snet, dnet) → RouterInfo` (by address, see header) -/
  pathInfo : List ((Net × Nat) × α) := []
deriving Repr

section Ops
variable {α : Type} [DecidableEq α]

/-- `RouterInfoCache.__init__` -/
def Cache.empty : Cache α := { routers := [], pathInfo := [] }

/-- `self.path_info.get((snet, dnet), None)` — the reference -/
def pget (c : Cache α) (s : Net) (d : Nat) : Option α := aget (s, d) c.pathInfo

/-- `self.routers.get(snet, {}).get(address, None)` -/
def rget (c : Cache α) (s : Net) (a : α) : Option RouterInfo :=
  match aget s c.routers with
  | none => none
  | some rs => aget a rs

/-- `self.routers[snet][address] = router_info`, creating `routers[snet]` if needed
    (also stands for the in-place mutation of an object already stored there) -/
def rset (c : Cache α) (s : Net) (a : α) (ri : RouterInfo) : Cache α :=
  match aget s c.routers with
  | none => { c with routers := aset s [(a, ri)] c.routers }
  | some rs => { c with routers := aset s (aset a ri rs) c.routers }

/-- `del self.routers[snet][address]` -/
def rdel (c : Cache α) (s : Net) (a : α) : Except RErr (Cache α) :=
  match aget s c.routers with
  | none => .error .keyError
  | some rs =>
    if has a rs then .ok { c with routers := aset s (adel a rs) c.routers }
    else .error .keyError

/-- `get_router_info(snet, dnet)`: the router the path table names, with the
    record it denotes (`none` inside = the reference does not resolve). -/
def getRouterInfo (c : Cache α) (s : Net) (d : Nat) : Option (α × Option RouterInfo) :=
  match pget c s d with
  | none => none
  | some a => some (a, rget c s a)

/-- the routers currently named by the path table for one of `dnets`, other than
    `existing`:
    ```
    other_routers = set()
    for dnet in dnets:
        other_router = self.path_info.get((snet, dnet), None)
        if other_router and (other_router is not existing_router_info):
            other_routers.add(other_router)
    ```
    (`delete_router_info` has no `existing`: pass `none`). -/
def otherRouters (c : Cache α) (s : Net) (existing : Option α) : List Nat → List α
  | [] => []
  | d :: ds =>
    match pget c s d with
    | none => otherRouters c s existing ds
    | some r =>
      if some r = existing then otherRouters c s existing ds
      else r :: (otherRouters c s existing ds).filter (fun x => decide (x ≠ r))

/-- ```
    for dnet in dnets:
        if dnet in router_info.dnets:
            del router_info.dnets[dnet]
            del self.path_info[(snet, dnet)]
    ``` -/
def stripLoop (s : Net) :
    List Nat → List (Nat × Nat) → List ((Net × Nat) × α) →
    Except RErr (List (Nat × Nat) × List ((Net × Nat) × α))
  | [], dn, p => .ok (dn, p)
  | d :: ds, dn, p =>
    if has d dn then
      if has (s, d) p then stripLoop s ds (adel d dn) (adel (s, d) p)
      else .error .keyError
    else stripLoop s ds dn p

/-- one round of "remove the dnets from a router and the paths, drop the router
    when nothing is left":
    ```
    <stripLoop>
    if not router_info.dnets:
        del self.routers[snet][router_info.address]
    ``` -/
def stripRouter (s : Net) (dnets : List Nat) (r : α) (c : Cache α) : Except RErr (Cache α) :=
  match rget c s r with
  | none => .error .dangling
  | some ri =>
    match stripLoop s dnets ri.dnets c.pathInfo with
    | .error e => .error e
    | .ok (dn, p) =>
      if dn.isEmpty then rdel { c with pathInfo := p } s r
      else .ok (rset { c with pathInfo := p } s r { ri with dnets := dn })

/-- `for router_info in other_routers: <stripRouter>` -/
def stripAll (s : Net) (dnets : List Nat) : List α → Cache α → Except RErr (Cache α)
  | [], c => .ok c
  | r :: rs, c =>
    match stripRouter s dnets r c with
    | .error e => .error e
    | .ok c' => stripAll s dnets rs c'

/-- new record:
    ```
    for dnet in dnets:
        self.path_info[(snet, dnet)] = router_info
        router_info.dnets[dnet] = status
    ``` -/
def addLoopNew (s : Net) (a : α) (st : Nat) :
    List Nat → List (Nat × Nat) → List ((Net × Nat) × α) →
    List (Nat × Nat) × List ((Net × Nat) × α)
  | [], dn, p => (dn, p)
  | d :: ds, dn, p => addLoopNew s a st ds (aset d st dn) (aset (s, d) a p)

/-- existing record:
    ```
    for dnet in dnets:
        if dnet not in existing_router_info.dnets:
            self.path_info[(snet, dnet)] = existing_router_info
        existing_router_info.dnets[dnet] = status
    ``` -/
def addLoopOld (s : Net) (a : α) (st : Nat) :
    List Nat → List (Nat × Nat) → List ((Net × Nat) × α) →
    List (Nat × Nat) × List ((Net × Nat) × α)
  | [], dn, p => (dn, p)
  | d :: ds, dn, p =>
    if has d dn then addLoopOld s a st ds (aset d st dn) p
    else addLoopOld s a st ds (aset d st dn) (aset (s, d) a p)

/-- `update_router_info(snet, address, dnets, status=ROUTER_AVAILABLE)` -/
def updateRouterInfo (c : Cache α) (s : Net) (a : α) (dnets : List Nat) (st : Nat := 0) :
    Except RErr (Cache α) :=
  let existing := rget c s a
  let others := otherRouters c s (existing.map fun _ => a) dnets
  match stripAll s dnets others c with
  | .error e => .error e
  | .ok c1 =>
    match existing with
    | none =>
      let r := addLoopNew s a st dnets [] c1.pathInfo
      .ok (rset { c1 with pathInfo := r.2 } s a { dnets := r.1, status := none })
    | some ri =>
      let r := addLoopOld s a st dnets ri.dnets c1.pathInfo
      .ok (rset { c1 with pathInfo := r.2 } s a { ri with dnets := r.1 })

/-- `update_router_status(snet, address, status)` -/
def updateRouterStatus (c : Cache α) (s : Net) (a : α) (st : Nat) : Cache α :=
  match rget c s a with
  | none => c
  | some ri => rset c s a { ri with status := some st }

/-- `dnets or list(router_info.dnets)` -/
def effectiveDnets (dnets : Option (List Nat)) (ri : RouterInfo) : List Nat :=
  match dnets with
  | some (x :: xs) => x :: xs
  | _ => (items ri.dnets).map (·.1)

/-- `delete_router_info(snet, address=None, dnets=None)` (after the fix) -/
def deleteRouterInfo (c : Cache α) (s : Net) (address : Option α) (dnets : Option (List Nat)) :
    Except RErr (Cache α) :=
  match address, dnets with
  | none, none => .error .inconsistent
  | some a, _ =>
    match rget c s a with
    | none => .ok c
    | some ri => stripRouter s (effectiveDnets dnets ri) a c
  | none, some ds => stripAll s ds (otherRouters c s none ds) c

/-- `for dnet in router_info.dnets: del self.path_info[(old_snet, dnet)]` -/
def dropPathsOf (old : Net) :
    List (Nat × Nat) → List ((Net × Nat) × α) → Except RErr (List ((Net × Nat) × α))
  | [], p => .ok p
  | (d, _) :: t, p =>
    if has (old, d) p then dropPathsOf old t (adel (old, d) p) else .error .keyError

/-- `for router_info in snet_routers.values(): <dropPathsOf>` -/
def dropPaths (old : Net) :
    List (α × RouterInfo) → List ((Net × Nat) × α) → Except RErr (List ((Net × Nat) × α))
  | [], p => .ok p
  | (_, ri) :: t, p =>
    match dropPathsOf old (items ri.dnets) p with
    | .error e => .error e
    | .ok p' => dropPaths old t p'

/-- `for dnet, status in router_info.dnets.items(): self.update_router_info(new_snet, address, [dnet], status)` -/
def relearnOne (new : Net) (a : α) : List (Nat × Nat) → Cache α → Except RErr (Cache α)
  | [], c => .ok c
  | (d, st) :: t, c =>
    match updateRouterInfo c new a [d] st with
    | .error e => .error e
    | .ok c' => relearnOne new a t c'

/-- `for address, router_info in snet_routers.items(): <relearnOne>` -/
def relearn (new : Net) : List (α × RouterInfo) → Cache α → Except RErr (Cache α)
  | [], c => .ok c
  | (a, ri) :: t, c =>
    match relearnOne new a (items ri.dnets) c with
    | .error e => .error e
    | .ok c' => relearn new t c'

/-- `update_source_network(old_snet, new_snet)` (after the fix) -/
def updateSourceNetwork (c : Cache α) (old new : Net) : Except RErr (Cache α) :=
  match aget old c.routers with
  | none => .ok c
  | some rs =>
    if old = new then .ok c
    else
      match dropPaths old (items rs) c.pathInfo with
      | .error e => .error e
      | .ok p => relearn new (items rs) { routers := adel old c.routers, pathInfo := p }

/-! ## operations as data (histories) -/

/-- one call of a public mutating method of `RouterInfoCache` -/
inductive Op (α : Type)
  | update (s : Net) (a : α) (dnets : List Nat) (st : Nat)
  | status (s : Net) (a : α) (st : Nat)
  | delete (s : Net) (a : Option α) (dnets : Option (List Nat))
  | renumber (old new : Net)
deriving Repr

def step (c : Cache α) : Op α → Except RErr (Cache α)
  | .update s a ds st => updateRouterInfo c s a ds st
  | .status s a st => .ok (updateRouterStatus c s a st)
  | .delete s a ds => deleteRouterInfo c s a ds
  | .renumber o n => updateSourceNetwork c o n

/-- a history; a refused or failed call leaves the cache as it was (exact for the
    only failure possible from a coherent state, `inconsistent`) -/
def run (c : Cache α) : List (Op α) → Cache α
  | [] => c
  | op :: ops =>
    match step c op with
    | .ok c' => run c' ops
    | .error _ => run c ops

/-! ## the node: adapters, learning paths, next hop -/

/-- `NetworkAdapter`: `adapterNet`, `adapterNetConfigured` (None / 0 learned / 1 configured) -/
structure Port where
  net : Net
  cfg : Option Nat
deriving DecidableEq, Repr, Inhabited

/-- The part of `NetworkServiceAccessPoint` the learning paths touch.
    `ports` are the adapter objects (index = identity), `adapters` is the dict
    `sap.adapters : net → adapter` in dict order, `localPort` = `local_adapter`,
    `pending` = `pending_nets` (dnet → number of NPDUs waiting for a path). -/
structure Node (α : Type) where
  ports : List Port
  adapters : List (Net × Nat)
  localPort : Nat
  cache : Cache α
  pending : List (Nat × Nat) := []
deriving Repr

/-- where a frame is sent -/
inductive Dest (α : Type)
  | station (a : α)      -- local station (a router's address, or the final station)
  | broadcast
deriving DecidableEq, Repr

/-- what the node emits downstream -/
inductive Frame (α : Type)
  | apdu (port : Nat) (dst : Dest α) (dnet : Option Nat)     -- application data (DADR net)
  | whoIs (port : Nat) (dnet : Nat)                          -- Who-Is-Router-To-Network, broadcast
  | iAm (port : Nat) (nets : List Nat)                       -- I-Am-Router-To-Network, broadcast
deriving Repr

/-- observable result of one event -/
structure Out (α : Type) where
  frames : List (Frame α) := []
  raised : Option RErr := none
deriving Repr

inductive Ev (α : Type)
  /-- I-Am-Router-To-Network(nets) from station `src` arrives on `port` -/
  | iam (port : Nat) (src : α) (nets : List Nat)
  /-- application NPDU with SADR on network `snet`, from station `src`, no DADR, arrives on `port` -/
  | routed (port : Nat) (src : α) (snet : Nat)
  /-- Network-Number-Is(net, flag) arrives on `port`, as a local broadcast or not -/
  | nni (port : Nat) (net : Nat) (flag : Nat) (bcast : Bool)
  /-- `sap.delete_router_references(snet, address, dnets)` -/
  | forget (snet : Net) (a : Option α) (dnets : Option (List Nat))
  /-- the application sends to the remote station `dst` on network `dnet` -/
  | originate (dnet : Nat) (dst : α)
deriving Repr

def portNet (n : Node α) (port : Nat) : Net :=
  match n.ports[port]? with
  | some p => p.net
  | none => none

/-- `for xadapter in sap.adapters.values(): if xadapter is not adapter: …` -/
def otherPorts (n : Node α) (port : Nat) : List Nat :=
  ((items n.adapters).map (·.2)).filter (fun p => decide (p ≠ port))

/-- release of `pending_nets` in `IAmRouterToNetwork`:
    ```
    for dnet in npdu.iartnNetworkList:
        pending_npdus = sap.pending_nets.get(dnet, None)
        if pending_npdus is not None:
            del sap.pending_nets[dnet]
            for pending_npdu in pending_npdus:
                pending_npdu.pduDestination = npdu.pduSource
                adapter.process_npdu(pending_npdu)
    ``` -/
def release (port : Nat) (src : α) :
    List Nat → List (Nat × Nat) → List (Frame α) → List (Nat × Nat) × List (Frame α)
  | [], pend, acc => (pend, acc)
  | d :: ds, pend, acc =>
    match aget d pend with
    | none => release port src ds pend acc
    | some k =>
      release port src ds (adel d pend)
        (acc ++ List.replicate k (Frame.apdu port (Dest.station src) (some d)))

/-- the search for a path in `NetworkServiceAccessPoint.indication`:
    ```
    for snet, snet_adapter in self.adapters.items():
        router_info = self.router_info_cache.get_router_info(snet, dnet)
        if router_info: break
    ``` -/
def firstRoute (c : Cache α) (d : Nat) : List (Net × Nat) → Option (Net × Nat × α)
  | [] => none
  | (s, port) :: t =>
    match pget c s d with
    | some a => some (s, port, a)
    | none => firstRoute c d t

def setPort (n : Node α) (port : Nat) (p : Port) : Node α :=
  { n with ports := n.ports.set port p }

/-- one event at the node -/
def nodeStep (n : Node α) : Ev α → Node α × Out α
  | .iam port src nets =>
    -- sap.update_router_references(adapter.adapterNet, npdu.pduSource, npdu.iartnNetworkList)
    let snet := portNet n port
    if !(has snet n.adapters) then (n, { raised := some .noAdapter })
    else
      match updateRouterInfo n.cache snet src nets with
      | .error e => (n, { raised := some e })
      | .ok c =>
        -- forward to the other adapters when this is a router
        let fwd : List (Frame α) :=
          if (items n.adapters).length = 1 then []
          else (otherPorts n port).map (fun p => Frame.iAm p nets)
        let r := release port src nets n.pending fwd
        ({ n with cache := c, pending := r.1 }, { frames := r.2 })
  | .routed port src snet =>
    -- process_npdu: "check for source routing"
    if has (some snet) n.adapters then (n, {})          -- path error (1)
    else
      match updateRouterInfo n.cache (portNet n port) src [snet] with
      | .error e => (n, { raised := some e })
      | .ok c => ({ n with cache := c }, {})
  | .nni port net flag bcast =>
    if !bcast then (n, {})                               -- "not broadcast"
    else
      match n.ports[port]? with
      | none => (n, {})
      | some p =>
        match p.net with
        | none =>
          -- "local network not known"
          match updateSourceNetwork n.cache none (some net) with
          | .error e => (n, { raised := some e })
          | .ok c =>
            let n1 := { n with cache := c }
            if !(has (none : Net) n1.adapters) then (n1, { raised := some .keyError })
            else
              let n2 := setPort { n1 with adapters := adel none n1.adapters } port
                          { net := some net, cfg := some 0 }
              ({ n2 with adapters := aset (some net) port n2.adapters }, {})
        | some cur =>
          if cur = net then (n, {})                      -- "matches what we have"
          else if p.cfg = some 1 then (n, {})            -- "doesn't match what we know"
          else
            match updateSourceNetwork n.cache (some cur) (some net) with
            | .error e => (n, { raised := some e })
            | .ok c =>
              let n1 := { n with cache := c }
              if !(has (some cur) n1.adapters) then (n1, { raised := some .keyError })
              else
                let n2 := setPort { n1 with adapters := adel (some cur) n1.adapters } port
                            { net := some net, cfg := some flag }
                ({ n2 with adapters := aset (some net) port n2.adapters }, {})
  | .forget snet a dnets =>
    -- sap.delete_router_references
    if !(has snet n.adapters) then (n, { raised := some .noAdapter })
    else
      match deleteRouterInfo n.cache snet a dnets with
      | .error e => (n, { raised := some e })
      | .ok c => ({ n with cache := c }, {})
  | .originate dnet dst =>
    -- NetworkServiceAccessPoint.indication, destination = remote station on dnet
    if portNet n n.localPort = some dnet then
      -- "mapping remote station to local station"
      (n, { frames := [Frame.apdu n.localPort (Dest.station dst) none] })
    else if has dnet n.pending then
      -- "already waiting for path"
      match aget dnet n.pending with
      | some k => ({ n with pending := aset dnet (k + 1) n.pending }, {})
      | none => (n, {})
    else
      match firstRoute n.cache dnet (items n.adapters) with
      | some (s, port, a) =>
        -- `dnet_status = router_info.dnets[dnet]`
        match rget n.cache s a with
        | none => (n, { raised := some .dangling })
        | some ri =>
          if has dnet ri.dnets then (n, { frames := [Frame.apdu port (Dest.station a) (some dnet)] })
          else (n, { raised := some .keyError })
      | none =>
        ({ n with pending := aset dnet 1 n.pending },
         { frames := ((items n.adapters).map (·.2)).map (fun p => Frame.whoIs p dnet) })

def nodeRun (n : Node α) : List (Ev α) → Node α
  | [] => n
  | e :: es => nodeRun (nodeStep n e).1 es

end Ops
end BacVerif.RouterCache
