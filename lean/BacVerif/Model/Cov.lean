/-
  Model.Cov — change-of-value reporting
  (py34/bacpypes/service/cov.py: SubscriptionList, Subscription, COVDetection,
   GenericCriteria, COVIncrementCriteria, PulseConverterCriteria,
   ActiveCOVSubscriptions, ChangeOfValueServices.do_SubscribeCOVRequest /
   add_subscription / cancel_subscription / subscriptions;
   py34/bacpypes/service/detect.py: DetectionMonitor.property_change,
   DetectionAlgorithm.bind / unbind / _execute;
   py34/bacpypes/object.py: Property.WriteProperty calling the property monitors;
   py34/bacpypes/task.py: install_task / suspend_task / RecurringTask.install_task;
   py34/bacpypes/core.py: deferred, the drain loop of run()).

  The model describes the tree AFTER the three repairs in /verif/fixes/C16-*.patch
  (renewal replaces lifetime and confirmed flag; an absent lifetime means an
  indefinite subscription; a deferred initial notification for a subscription
  that has been cancelled meanwhile is dropped).

  Conventions
  * time is `Nat` microseconds; lifetimes and periods are whole seconds as on the wire;
  * real-valued properties are scaled integers (the harness uses multiples of
    1/16 so that Python's float arithmetic is exact); binary = 0/1, multi-state
    = the unsigned state;
  * Python object identity: every `Subscription` object gets a serial `sid`,
    every detection object a serial `gen`; `list.remove(cov)` (identity) is
    "drop the element with that sid";
  * `TaskManager.counter` is `seq`: tasks due at the same instant run in
    installation order;
  * the deferred-function list of `bacpypes.core` is `deferred` (only the two
    kinds of entries this service creates).

  Core Lean only (no Mathlib) so that `drv_c16` links.
-/
import BacVerif.Gen.Cov
namespace BacVerif.Cov

/-! ## behaviour class of a detection algorithm, read off the generated table -/

/-- what the model needs to know about a `COVDetection` subclass -/
structure Crit where
  incr : Bool          -- COVIncrementCriteria: present_value_filter + previous_reported_value
  pulse : Bool         -- PulseConverterCriteria: periodic notifications
  trackPv : Bool       -- 'presentValue' ∈ properties_tracked
  trackFlags : Bool    -- 'statusFlags' ∈ properties_tracked
  trackInc : Bool      -- 'covIncrement' ∈ properties_tracked
deriving Repr, DecidableEq

/-- the model covers detection classes that report `[presentValue, statusFlags]`
    and track nothing but presentValue / statusFlags / covIncrement / covPeriod -/
def rowInScope (r : Gen.Cov.CriteriaRow) : Bool :=
  r.reported == ["presentValue", "statusFlags"] &&
  r.tracked.all (fun p => p == "presentValue" || p == "statusFlags" || p == "covIncrement" || p == "covPeriod") &&
  -- covPeriod is tracked exactly by the periodic class
  (r.tracked.contains "covPeriod" == r.bases.contains "PulseConverterCriteria") &&
  -- the increment filter is the one of COVIncrementCriteria and comes with that base class
  (r.filters.contains ("presentValue", "COVIncrementCriteria.present_value_filter")
      == r.bases.contains "COVIncrementCriteria") &&
  r.filters.all (fun f => f == ("presentValue", "COVIncrementCriteria.present_value_filter")
      || f == ("covPeriod", "PulseConverterCriteria.cov_period_filter"))

def critOfRow (r : Gen.Cov.CriteriaRow) : Crit :=
  { incr := r.bases.contains "COVIncrementCriteria",
    pulse := r.bases.contains "PulseConverterCriteria",
    trackPv := r.tracked.contains "presentValue",
    trackFlags := r.tracked.contains "statusFlags",
    trackInc := r.tracked.contains "covIncrement" }

/-- result of looking an object type up in the generated tables -/
inductive TypeInfo
  | unknownType                              -- not a registered object type
  | outOfScope                               -- criteria class the model does not cover
  | info (supportsCov : Bool) (crit : Option Crit)
deriving Repr, DecidableEq

def typeInfoIn (types : List Gen.Cov.TypeRow) (criteria : List Gen.Cov.CriteriaRow)
    (name : String) : TypeInfo :=
  match types.find? (fun t => t.name == name) with
  | none => .unknownType
  | some t =>
    match t.criteria with
    | none => .info t.cov none
    | some cn =>
      match criteria.find? (fun r => r.name == cn) with
      | none => .outOfScope
      | some r => if rowInScope r then .info t.cov (some (critOfRow r)) else .outOfScope

def typeInfo (name : String) : TypeInfo := typeInfoIn Gen.Cov.types Gen.Cov.criteria name

/-! ## state -/

/-- a `Subscription` object -/
structure Sub where
  addr : Nat                  -- client_addr (index of the subscriber)
  pid : Nat                   -- proc_id
  confirmed : Bool
  lifetime : Nat              -- seconds, 0 = indefinite
  due : Option (Nat × Nat)    -- armed expiry task: (taskTime µs, installation number)
  sid : Nat                   -- object identity
deriving Repr, DecidableEq

/-- a detection object bound to one monitored object -/
structure Det where
  gen : Nat                   -- object identity
  subs : List Sub             -- SubscriptionList.cov_subscriptions, in order
  triggered : Bool            -- DetectionAlgorithm._triggered
  prev : Option Int           -- COVIncrementCriteria.previous_reported_value
  ptask : Option (Nat × Nat)  -- armed periodic task (PulseConverterCriteria.cov_period_task)
deriving Repr, DecidableEq

/-- a local object together with its entry in `cov_detections` -/
structure Obj where
  id : Nat                    -- index the requests use for the object identifier
  supportsCov : Bool          -- _object_supports_cov
  crit : Option Crit          -- criteria_type_map.get(objectType)
  pv : Int                    -- presentValue
  flags : Nat                 -- statusFlags as a number 0..15
  inc : Int                   -- covIncrement
  period : Nat                -- covPeriod (seconds), pulse converter only
  det : Option Det            -- cov_detections.get(obj)
deriving Repr, DecidableEq

/-- entries of `bacpypes.core.deferredFns` created by this service -/
inductive Deferred
  | exec (obj gen : Nat)                 -- DetectionAlgorithm._execute of that detection object
  | initial (obj gen sid : Nat)          -- send_cov_notifications(cov) of that detection object
deriving Repr, DecidableEq

structure State where
  now : Nat                   -- µs
  seq : Nat                   -- TaskManager.counter
  nextGen : Nat
  nextSid : Nat
  objs : List Obj
  deferred : List Deferred
deriving Repr, DecidableEq

inductive ErrCode
  | unknownObject             -- Error(object, unknownObject)
  | covSubscriptionFailed     -- Error(services, covSubscriptionFailed)
deriving Repr, DecidableEq

inductive Out
  | ack (addr : Nat)                                   -- SimpleAckPDU to the subscriber
  | error (addr : Nat) (e : ErrCode)
  | notify (addr pid obj : Nat) (confirmed : Bool) (pv : Int) (flags : Nat) (remaining : Int)
  | raised                                             -- `cov.taskTime - current_time` with taskTime None
deriving Repr, DecidableEq

inductive Event
  | subscribe (addr pid obj : Nat) (conf : Option Bool) (life : Option Nat)
  | writePv (obj : Nat) (v : Int)
  | writeFlags (obj : Nat) (f : Nat)
  | writeInc (obj : Nat) (v : Int)
  | run                                  -- drain the deferred functions
  | step (dt : Nat)                      -- one sleep of core.run: wait, fire what is due
deriving Repr, DecidableEq

/-! ## helpers -/

/-- the detection class of the object keeps a previous reported value -/
def Obj.incr (ob : Obj) : Bool := match ob.crit with | some c => c.incr | none => false

/-- the detection class of the object reports periodically -/
def Obj.pulse (ob : Obj) : Bool := match ob.crit with | some c => c.pulse | none => false

def usPerSec : Nat := 1000000

def findObj (s : State) (o : Nat) : Option Obj := s.objs.find? (fun ob => ob.id == o)

/-- replace the object(s) with identifier `o` -/
def setObj (s : State) (o : Nat) (f : Obj → Obj) : State :=
  { s with objs := s.objs.map (fun ob => if ob.id == o then f ob else ob) }

/-- `SubscriptionList.find` (the object identifier is fixed per list) -/
def findSub (subs : List Sub) (addr pid : Nat) : Option Sub :=
  subs.find? (fun c => c.addr == addr && c.pid == pid)

/-- `cov_subscriptions.remove(cov)` — removal by identity -/
def removeSid (subs : List Sub) (sid : Nat) : List Sub := subs.filter (fun c => c.sid != sid)

/-- time remaining as both `send_cov_notifications` and `ActiveCOVSubscriptions.ReadProperty`
    compute it: `0` if `not cov.lifetime`, else `int(cov.taskTime - now)`, at least 1.
    `none` is the TypeError of a timed subscription without a task time. -/
def remaining (now : Nat) (c : Sub) : Option Int :=
  if c.lifetime = 0 then some 0
  else match c.due with
    | none => none
    | some (t, _) =>
      let r := Int.tdiv ((t : Int) - (now : Int)) (usPerSec : Int)
      some (if r = 0 then 1 else r)

def notifyOf (now : Nat) (ob : Obj) (c : Sub) : Out :=
  match remaining now c with
  | some r => .notify c.addr c.pid ob.id c.confirmed ob.pv ob.flags r
  | none => .raised

/-- `RecurringTask.install_task`: next multiple of the interval after now + 1 µs -/
def nextPeriodic (now period : Nat) : Nat :=
  let n := now + 1
  let p := period * usPerSec
  n + p - n % p

/-! ## SubscribeCOV -/

/-- `criteria_class(obj)` : a fresh, bound detection object -/
def newDet (gen : Nat) : Det := { gen := gen, subs := [], triggered := false, prev := none, ptask := none }

/-- `cov_detections.get(obj)`, else `criteria_type_map.get(type)(obj)`; with the next free identity -/
def getDet (s : State) (ob : Obj) : Option (Det × Nat) :=
  match ob.det with
  | some d => some (d, s.nextGen)
  | none =>
    match ob.crit with
    | none => none
    | some _ => some (newDet s.nextGen, s.nextGen + 1)

/-- `install_task(delta=lifetime)` unless the lifetime is zero: armed task and next installation number -/
def armLifetime (s : State) (lifetime : Nat) : Option (Nat × Nat) × Nat :=
  if lifetime ≠ 0 then (some (s.now + lifetime * usPerSec, s.seq), s.seq + 1) else (none, s.seq)

/-- `Subscription.renew_subscription` (repaired) applied to the object `sid` inside the list -/
def renewSubs (subs : List Sub) (sid lifetime : Nat) (confirmed : Bool) (due : Option (Nat × Nat)) :
    List Sub :=
  subs.map (fun c => if c.sid == sid then { c with lifetime := lifetime, confirmed := confirmed, due := due } else c)

/-- do_SubscribeCOVRequest -/
def subscribe (s : State) (addr pid o : Nat) (conf : Option Bool) (life : Option Nat) :
    State × List Out :=
  let cancel := conf.isNone && life.isNone
  -- (repair) absent lifetime = indefinite, absent issueConfirmedNotifications = unconfirmed
  let lifetime := life.getD 0
  let confirmed := conf.getD false
  match findObj s o with
  | none => (s, [.error addr .unknownObject])
  | some ob =>
    if !ob.supportsCov then (s, [.error addr .covSubscriptionFailed]) else
    -- look for / make the detection algorithm
    match getDet s ob with
    | none => (s, [.error addr .covSubscriptionFailed])
    | some (d, nextGen) =>
      match findSub d.subs addr pid with
      | some cov =>
        if cancel then
          -- ChangeOfValueServices.cancel_subscription
          let subs := removeSid d.subs cov.sid
          let det := if subs.isEmpty then none else some { d with subs := subs }
          ({ setObj s o (fun ob => { ob with det := det }) with nextGen := nextGen }, [.ack addr])
        else
          -- Subscription.renew_subscription (repaired)
          let (due, seq) := armLifetime s lifetime
          let d' := { d with subs := renewSubs d.subs cov.sid lifetime confirmed due }
          ({ setObj s o (fun ob => { ob with det := some d' }) with
               nextGen := nextGen, seq := seq,
               deferred := s.deferred ++ [.initial o d.gen cov.sid] }, [.ack addr])
      | none =>
        if cancel then
          -- nothing to cancel; the detection object made above is kept
          ({ setObj s o (fun ob => { ob with det := some d }) with nextGen := nextGen }, [.ack addr])
        else
          -- Subscription.__init__ arms the expiry task, then add_subscription
          let (due, seq) := armLifetime s lifetime
          let cov : Sub := { addr := addr, pid := pid, confirmed := confirmed, lifetime := lifetime,
                             due := due, sid := s.nextSid }
          -- PulseConverterCriteria.add_subscription (re)installs the periodic task
          let (ptask, seq) :=
            if ob.pulse && ob.period ≠ 0 then (some (nextPeriodic s.now ob.period, seq), seq + 1)
            else (d.ptask, seq)
          let d' := { d with subs := d.subs ++ [cov], ptask := ptask }
          ({ setObj s o (fun ob => { ob with det := some d' }) with
               nextGen := nextGen, seq := seq, nextSid := s.nextSid + 1,
               deferred := s.deferred ++ [.initial o d.gen cov.sid] }, [.ack addr])

/-! ## property writes and the monitors -/

/-- `COVIncrementCriteria.present_value_filter` -/
def incrTrigger (p inc v : Int) : Bool := decide (v ≤ p - inc) || decide (v ≥ p + inc)

/-- `DetectionMonitor.property_change` with the default filter `old != new`: nothing is
    evaluated once the algorithm is triggered; returns the detection object afterwards and
    whether `_execute` was deferred -/
def plainChange (d : Det) (differs : Bool) : Det × Bool :=
  if d.triggered then (d, false) else ({ d with triggered := differs }, differs)

/-- the monitor of presentValue -/
def pvChange (ob : Obj) (c : Crit) (d : Det) (v : Int) : Det × Bool :=
  if !c.trackPv then (d, false)
  else if d.triggered then (d, false)
  else if c.incr then
    -- first time around initialise to the old value
    let p := d.prev.getD ob.pv
    let trig := incrTrigger p ob.inc v
    ({ d with prev := some p, triggered := trig }, trig)
  else plainChange d (ob.pv != v)

def flagsChange (ob : Obj) (c : Crit) (d : Det) (f : Nat) : Det × Bool :=
  if !c.trackFlags then (d, false) else plainChange d (ob.flags != f)

def incChange (ob : Obj) (c : Crit) (d : Det) (v : Int) : Det × Bool :=
  if !c.trackInc then (d, false) else plainChange d (ob.inc != v)

/-- `Property.WriteProperty`: store the value (`upd`), then call the monitors (`r`) -/
def applyChange (s : State) (o : Nat) (upd : Obj → Obj) (r : Option (Det × Bool)) : State :=
  match r with
  | none => setObj s o upd
  | some (d', enq) =>
    { setObj s o (fun x => { upd x with det := some d' }) with
        deferred := s.deferred ++ (if enq then [.exec o d'.gen] else []) }

def writePv (s : State) (o : Nat) (v : Int) : State :=
  match findObj s o with
  | none => s
  | some ob =>
    applyChange s o (fun x => { x with pv := v })
      (match ob.det, ob.crit with
       | some d, some c => some (pvChange ob c d v)
       | _, _ => none)

def writeFlags (s : State) (o : Nat) (f : Nat) : State :=
  match findObj s o with
  | none => s
  | some ob =>
    applyChange s o (fun x => { x with flags := f })
      (match ob.det, ob.crit with
       | some d, some c => some (flagsChange ob c d f)
       | _, _ => none)

def writeInc (s : State) (o : Nat) (v : Int) : State :=
  match findObj s o with
  | none => s
  | some ob =>
    applyChange s o (fun x => { x with inc := v })
      (match ob.det, ob.crit with
       | some d, some c => some (incChange ob c d v)
       | _, _ => none)

/-! ## sending notifications, deferred functions -/

/-- `(subscription is None) or (subscription in self.cov_subscriptions)` -/
def sendMoves (d : Det) : Option Nat → Bool
  | none => true
  | some sid => d.subs.any (fun c => c.sid == sid)

/-- `send_cov_notifications` of the detection object `d` of `ob`; returns the
    detection object afterwards and the requests handed to the application.
    `only = some sid` is the `subscription` argument. -/
def sendNotifications (now : Nat) (ob : Obj) (d : Det) (only : Option Nat) : Det × List Out :=
  -- COVIncrementCriteria: when sending out notifications, keep the current value
  -- ((repair) unless the one subscription meant is gone: nothing is reported then)
  let d1 := if ob.incr && sendMoves d only then { d with prev := some ob.pv } else d
  if d.subs.isEmpty then (d1, [])
  else match only with
    | none => (d1, d.subs.map (notifyOf now ob))
    | some sid =>
      -- (repair) the subscription may have been cancelled since the call was deferred
      match d.subs.find? (fun c => c.sid == sid) with
      | none => (d1, [])
      | some c => (d1, [notifyOf now ob c])

/-- run one deferred function -/
def runItem (s : State) : Deferred → State × List Out
  | .exec o g =>
    match findObj s o with
    | none => (s, [])
    | some ob =>
      match ob.det with
      | none => (s, [])
      | some d =>
        if d.gen != g then (s, [])    -- a detection object that has been unbound: no subscriptions
        else
          let (d1, outs) := sendNotifications s.now ob d none
          (setObj s o (fun ob => { ob with det := some { d1 with triggered := false } }), outs)
  | .initial o g sid =>
    match findObj s o with
    | none => (s, [])
    | some ob =>
      match ob.det with
      | none => (s, [])
      | some d =>
        if d.gen != g then (s, [])
        else
          let (d1, outs) := sendNotifications s.now ob d (some sid)
          (setObj s o (fun ob => { ob with det := some d1 }), outs)

def runItems (s : State) : List Deferred → State × List Out
  | [] => (s, [])
  | it :: rest =>
    let (s1, o1) := runItem s it
    let (s2, o2) := runItems s1 rest
    (s2, o1 ++ o2)

/-- the drain loop of `core.run`: nothing this service defers defers again -/
def run (s : State) : State × List Out :=
  runItems { s with deferred := [] } s.deferred

/-! ## time -/

inductive TaskRef
  | expiry (obj sid : Nat)        -- Subscription.process_task of that subscription object
  | periodic (obj gen : Nat)      -- the RecurringFunctionTask of a pulse converter detection
deriving Repr, DecidableEq

structure Task where
  t : Nat
  q : Nat
  ref : TaskRef
deriving Repr, DecidableEq

def subTask (o : Nat) (c : Sub) : Option Task :=
  match c.due with
  | some (t, q) => some { t := t, q := q, ref := .expiry o c.sid }
  | none => none

def detTasks (o : Nat) (d : Det) : List Task :=
  d.subs.filterMap (subTask o) ++
  (match d.ptask with | some (t, q) => [{ t := t, q := q, ref := .periodic o d.gen }] | none => [])

def objTasks (ob : Obj) : List Task :=
  match ob.det with | some d => detTasks ob.id d | none => []

/-- everything the task manager holds for this service -/
def armedTasks (s : State) : List Task := s.objs.flatMap objTasks

def minTime : List Task → Option Nat
  | [] => none
  | x :: rest => match minTime rest with
    | none => some x.t
    | some m => some (if x.t ≤ m then x.t else m)

def taskLe (a b : Task) : Bool := a.t < b.t || (a.t == b.t && a.q ≤ b.q)

def insertTask (x : Task) : List Task → List Task
  | [] => [x]
  | y :: rest => if taskLe x y then x :: y :: rest else y :: insertTask x rest

def sortTasks : List Task → List Task
  | [] => []
  | x :: rest => insertTask x (sortTasks rest)

/-- the clock jumps to the next due task, but not beyond `now + dt` -/
def advance (s : State) (dt : Nat) : State :=
  let target := s.now + dt
  let now' := match minTime (armedTasks s) with
    | some t => if t ≤ target then (if s.now ≤ t then t else s.now) else target
    | none => target
  { s with now := now' }

/-- process one task that `get_next_task` popped -/
def fireTask (s : State) (k : Task) : State × List Out :=
  match k.ref with
  | .expiry o sid =>
    -- Subscription.process_task → cancel_subscription → ChangeOfValueServices.cancel_subscription
    match findObj s o with
    | none => (s, [])
    | some ob =>
      match ob.det with
      | none => (s, [])
      | some d =>
        let subs := removeSid d.subs sid
        let det := if subs.isEmpty then none else some { d with subs := subs }
        (setObj s o (fun ob => { ob with det := det }), [])
  | .periodic o g =>
    -- send_cov_notifications(), then TaskManager.process_task re-installs the recurring task
    match findObj s o with
    | none => (s, [])
    | some ob =>
      match ob.det with
      | none => (s, [])
      | some d =>
        if d.gen != g then (s, [])
        else
          let (d1, outs) := sendNotifications s.now ob d none
          let d2 := { d1 with ptask := some (nextPeriodic s.now ob.period, s.seq) }
          ({ setObj s o (fun ob => { ob with det := some d2 }) with seq := s.seq + 1 }, outs)

def fireAll (s : State) : List Task → State × List Out
  | [] => (s, [])
  | k :: rest =>
    if (armedTasks s).contains k then
      let (s1, o1) := fireTask s k
      let (s2, o2) := run s1
      let (s3, o3) := fireAll s2 rest
      (s3, o1 ++ o2 ++ o3)
    else fireAll s rest

/-- one turn of `core.run` that sleeps: pending deferred functions first, then
    wait (at most `dt`) for the next task, run every task due at that instant in
    (time, installation) order, draining the deferred functions after each -/
def step (s : State) (dt : Nat) : State × List Out :=
  let (s0, o0) := run s
  let s1 := advance s0 dt
  let dueNow := sortTasks ((armedTasks s1).filter (fun k => k.t ≤ s1.now))
  let (s2, o2) := fireAll s1 dueNow
  (s2, o0 ++ o2)

/-! ## the transition function -/

def apply (s : State) : Event → State × List Out
  | .subscribe a p o c l => subscribe s a p o c l
  | .writePv o v => (writePv s o v, [])
  | .writeFlags o f => (writeFlags s o f, [])
  | .writeInc o v => (writeInc s o v, [])
  | .run => run s
  | .step dt => step s dt

def applyAll (s : State) : List Event → State × List Out
  | [] => (s, [])
  | e :: rest =>
    let (s1, o1) := apply s e
    let (s2, o2) := applyAll s1 rest
    (s2, o1 ++ o2)

/-! ## ActiveCOVSubscriptions.ReadProperty -/

structure Row where
  addr : Nat
  pid : Nat
  obj : Nat
  confirmed : Bool
  remaining : Option Int      -- none = the TypeError branch
  inc : Option Int            -- covIncrement, when the detection class tracks it
deriving Repr, DecidableEq

def objRows (now : Nat) (ob : Obj) : List Row :=
  match ob.det with
  | none => []
  | some d =>
    let trackInc := match ob.crit with | some c => c.trackInc | none => false
    d.subs.map (fun c => { addr := c.addr, pid := c.pid, obj := ob.id, confirmed := c.confirmed,
                           remaining := remaining now c,
                           inc := if trackInc then some ob.inc else none })

def activeList (s : State) : List Row := s.objs.flatMap (objRows s.now)

/-- initial state for a list of configured objects -/
def init (objs : List Obj) : State :=
  { now := 0, seq := 0, nextGen := 0, nextSid := 0, objs := objs, deferred := [] }

end BacVerif.Cov
