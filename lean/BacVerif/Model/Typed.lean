/-
  Model.Typed — typed value trees: the structure of `Schema.Val` with C01
  `PrimVal` leaves (what a Python program sees: `5`, `72.3`, `('analogInput', 5)`
  instead of tag payloads).

    TVal.erase   : replace every leaf by the payload `X(value).encode(tag)` produces
                   (C01 `encodePrim`) — what `helper = klass(value); helper.encode(tag)` does
    typeValF     : schema-directed: read every payload back with the decoder of the
                   primitive kind the SCHEMA names for that position (C01 `decodePrim`)
                   — what `helper = klass(tag); helper.value` does

  The generic codec (`Model.Codec`) works on erased trees; `encodeOctets` /
  `decodeOctets` are the typed, octet-level API of a PDU body.
  Core Lean only.
-/
import BacVerif.Model.Codec
import BacVerif.Model.Prim
namespace BacVerif.Typed
open BacVerif BacVerif.Schema BacVerif.Codec

inductive TVal
  | prim (v : PrimVal)                   -- an Atomic value of the class the schema names
  | atom (v : PrimVal)                   -- an AnyAtomic value
  | tags (ts : List Tag)                 -- an Any
  | seq (fs : List (Option TVal))
  | choice (i : Nat) (v : TVal)
  | list (vs : List TVal)
deriving Repr, Inhabited

mutual
def TVal.erase : TVal → Except Err Val
  | .prim pv =>
    match encodePrim pv with
    | .ok t => .ok (.prim t.lvt t.data)
    | .error e => .error e
  | .atom pv =>
    match encodePrim pv with
    | .ok t => .ok (.atom t.num t.lvt t.data)
    | .error e => .error e
  | .tags ts => .ok (.tags ts)
  | .seq fs =>
    match TVal.eraseOpts fs with
    | .ok vs => .ok (.seq vs)
    | .error e => .error e
  | .choice i v =>
    match TVal.erase v with
    | .ok x => .ok (.choice i x)
    | .error e => .error e
  | .list vs =>
    match TVal.eraseList vs with
    | .ok xs => .ok (.list xs)
    | .error e => .error e
def TVal.eraseOpts : List (Option TVal) → Except Err (List (Option Val))
  | [] => .ok []
  | none :: r =>
    match TVal.eraseOpts r with
    | .ok vs => .ok (none :: vs)
    | .error e => .error e
  | some x :: r =>
    match TVal.erase x with
    | .error e => .error e
    | .ok v =>
      match TVal.eraseOpts r with
      | .ok vs => .ok (some v :: vs)
      | .error e => .error e
def TVal.eraseList : List TVal → Except Err (List Val)
  | [] => .ok []
  | x :: r =>
    match TVal.erase x with
    | .error e => .error e
    | .ok v =>
      match TVal.eraseList r with
      | .ok vs => .ok (v :: vs)
      | .error e => .error e
end

mutual
def TVal.beq : TVal → TVal → Bool
  | .prim a, .prim b => a == b
  | .atom a, .atom b => a == b
  | .tags t, .tags t' => t == t'
  | .seq fs, .seq fs' => TVal.beqOpts fs fs'
  | .choice i v, .choice i' v' => i == i' && TVal.beq v v'
  | .list vs, .list vs' => TVal.beqList vs vs'
  | _, _ => false
def TVal.beqOpts : List (Option TVal) → List (Option TVal) → Bool
  | [], [] => true
  | none :: a, none :: b => TVal.beqOpts a b
  | some x :: a, some y :: b => TVal.beq x y && TVal.beqOpts a b
  | _, _ => false
def TVal.beqList : List TVal → List TVal → Bool
  | [], [] => true
  | x :: a, y :: b => TVal.beq x y && TVal.beqList a b
  | _, _ => false
end

/-- `klass(tag).value` for the class with application tag `a` -/
def typeLeaf (a lvt : Nat) (data : Bytes) : Except Err PrimVal :=
  match PrimTy.ofAppTag a with
  | some pt => decodePrim pt ⟨.app, a, lvt, data⟩
  | none => .error .other

abbrev Ty := Nat → Val → Except Err TVal

def typeRef (env : Env) (ty : Ty) (r : Ref) (v : Val) : Except Err TVal :=
  match kindOf env r, v with
  | .prim a, .prim lvt data =>
    match typeLeaf a lvt data with
    | .ok pv => .ok (.prim pv)
    | .error e => .error e
  | .anyAtomic, .atom a lvt data =>
    match typeLeaf a lvt data with
    | .ok pv => .ok (.atom pv)
    | .error e => .error e
  | .seqOf j, v | .listOf j, v | .struct j, v => ty j v
  | _, _ => .error .other

def typeFields (env : Env) (ty : Ty) : List Field → List (Option Val) → Except Err (List (Option TVal))
  | [], [] => .ok []
  | _ :: fs, none :: vs =>
    match typeFields env ty fs vs with
    | .ok r => .ok (none :: r)
    | .error e => .error e
  | f :: fs, some v :: vs =>
    match typeRef env ty f.ref v with
    | .error e => .error e
    | .ok tv =>
      match typeFields env ty fs vs with
      | .ok r => .ok (some tv :: r)
      | .error e => .error e
  | _, _ => .error .other

def typeElems (env : Env) (ty : Ty) (elem : Ref) : List Val → Except Err (List TVal)
  | [] => .ok []
  | v :: vs =>
    match typeRef env ty elem v with
    | .error e => .error e
    | .ok tv =>
      match typeElems env ty elem vs with
      | .ok r => .ok (tv :: r)
      | .error e => .error e

def typeDef (env : Env) (ty : Ty) : TyDef → Val → Except Err TVal
  | .seq fs, .seq vs =>
    match typeFields env ty fs vs with
    | .ok r => .ok (.seq r)
    | .error e => .error e
  | .choice alts, .choice i v =>
    match alts[i]? with
    | none => .error .other
    | some a =>
      match typeRef env ty a.ref v with
      | .ok tv => .ok (.choice i tv)
      | .error e => .error e
  | .list _ elem _, .list vs =>
    match typeElems env ty elem vs with
    | .ok r => .ok (.list r)
    | .error e => .error e
  | .any, .tags ts => .ok (.tags ts)
  | .nameValue dt, .seq [some (.prim lvt data), value] =>
    match typeLeaf 7 lvt data with
    | .error e => .error e
    | .ok name =>
      match value with
      | none => .ok (.seq [some (.prim name), none])
      | some (.atom a l d) =>
        match typeLeaf a l d with
        | .ok pv => .ok (.seq [some (.prim name), some (.atom pv)])
        | .error e => .error e
      | some (.seq fs) =>
        match ty dt (.seq fs) with
        | .ok tv => .ok (.seq [some (.prim name), some tv])
        | .error e => .error e
      | some _ => .error .other
  | _, _ => .error .other

def typeValF (env : Env) : Nat → Nat → Val → Except Err TVal
  | 0, _, _ => .error .other
  | fuel + 1, τ, v =>
    match env[τ]? with
    | none => .error .other
    | some d => typeDef env (typeValF env fuel) d v

/-- the typed reading of a decoded value of class `env[τ]` -/
def typeVal (env : Env) (τ : Nat) (v : Val) : Except Err TVal := typeValF env (τ + 1) τ v

/-- typed value → octets of the PDU body (`APCISequence.encode` + `TagList.encode`) -/
def encodeOctets (env : Env) (τ : Nat) (tv : TVal) : Except Err Bytes :=
  match tv.erase with
  | .error e => .error e
  | .ok v =>
    match encodeTy env τ v with
    | .error e => .error e
    | .ok ts => .ok (serializeTags ts)

/-- octets of a PDU body → typed value (`TagList.decode` + `APCISequence.decode`) -/
def decodeOctets (env : Env) (τ : Nat) (bs : Bytes) : Except Err TVal :=
  match parseTags bs with
  | .error e => .error e
  | .ok ts =>
    match decodePdu env τ ts with
    | .error e => .error e
    | .ok v => typeVal env τ v

end BacVerif.Typed
