/-
  Model.Codec — ONE generic interpreter for the schema-driven codec of
  py34/bacpypes/constructeddata.py (tree AFTER the fixes in /verif/fixes/C03-*):

    Sequence.encode / Sequence.decode          → encodeFields / decodeField(s)
    Choice.encode / Choice.decode              → encodeAlt / decodeAlts
    SequenceOf / ListOf / ArrayOf .encode/.decode → encodeElems / decodeElems (+ fixed length)
    Any.encode / Any.decode                    → `Val.tags`, `anyDecode` of Model.Tag
    AnyAtomic, Tag.app_to_context / context_to_app / app_to_object → leaf section
    basetypes.NameValue.encode/decode          → encodeNameValue / decodeNameValue
    apdu.APCISequence.decode (trailing tags)   → decodePdu

  transcribed branch for branch.  Everything works on tag lists (`List Tag`);
  octets are `Model.Tag.serializeTags / parseTags` (C02).

  Recursion.  A class refers to other classes through the environment, so the
  interpreter is structurally recursive on a FUEL that bounds the reference
  depth; `encodeTy/decodeTy env τ` run with fuel `τ + 1`, which is enough
  exactly when every reference of `env[i]` points below `i` (the generated
  table is ranked that way; `WFEnv` checks it).  Running out of fuel, a
  dangling index and the Python exceptions that are not in the decoding/reject
  family (`NotImplementedError`, `ValueError("invalid array length")`,
  `struct.error`, `IndexError`, `TypeError`) are all `Err.other`.  The Python
  `while` loops of the list decoders have no syntactic bound; here they run on
  the number of remaining tags and an element that consumes nothing (Python
  would spin forever) is `Err.other` as well.

  Primitive leaves.  Until `Model.Prim` (C01) is plugged in, a leaf value is
  the payload `(tagLVT, tagData)` of its application tag; `leafCheck` is the
  tag-class / tag-number / length test every `Atomic.decode` starts with.
  Plugging C01 in means replacing `leafCheck app t` by
  `(Prim.decodePrim app t).map (fun _ => ())` — nothing else here changes.
-/
import BacVerif.Model.Schema
namespace BacVerif.Codec
open BacVerif BacVerif.Schema

/-! ### tags -/

def openTag (c : Nat) : Tag := ⟨.opening, c, 0, []⟩
def closeTag (c : Nat) : Tag := ⟨.closing, c, 0, []⟩

def isApp (n : Nat) (t : Tag) : Bool := t.cls == .app && t.num == n
def isCtx (c : Nat) (t : Tag) : Bool := t.cls == .ctx && t.num == c
def isOpen (c : Nat) (t : Tag) : Bool := t.cls == .opening && t.num == c
def isClose (c : Nat) (t : Tag) : Bool := t.cls == .closing && t.num == c

/-- `tag = taglist.Pop(); if (not tag) or tag.tagClass != closing or tag.tagNumber != c: raise InvalidTag` -/
def expectClose (c : Nat) : List Tag → Except Err (List Tag)
  | [] => .error .invalidTag
  | t :: r => if isClose c t then .ok r else .error .invalidTag

/-- opening / closing tags around a context-tagged constructed element -/
def wrap (ctx : Option Nat) (ts : List Tag) : List Tag :=
  match ctx with
  | none => ts
  | some c => openTag c :: (ts ++ [closeTag c])

/-! ### primitive leaves -/

/-- the checks `X.decode(tag)` of the 13 `Atomic` classes make before reading the data -/
def leafCheck (app : Nat) (t : Tag) : Except Err Unit :=
  if t.cls ≠ .app ∨ t.num ≠ app then .error .invalidTag else
  match app with
  | 0 => if t.data.length ≠ 0 then .error .invalidTag else .ok ()                    -- Null
  | 1 => if t.lvt > 1 then .error .invalidTag else .ok ()                            -- Boolean
  | 2 | 3 | 7 | 8 | 9 => if t.data.length = 0 then .error .invalidTag else .ok ()    -- Unsigned Integer CharacterString BitString Enumerated
  | 4 | 10 | 11 | 12 => if t.data.length ≠ 4 then .error .invalidTag else .ok ()     -- Real Date Time ObjectIdentifier
  | 5 => if t.data.length ≠ 8 then .error .invalidTag else .ok ()                    -- Double
  | 6 => .ok ()                                                                      -- OctetString
  | _ => .error .other

/-- `klass(tag).value` for an `Atomic` class -/
def primOfTag (app : Nat) (t : Tag) : Except Err Val :=
  match leafCheck app t with
  | .error e => .error e
  | .ok () => .ok (.prim t.lvt t.data)

/-- `Tag.app_to_object()` as used by `AnyAtomic(tag)` / `NameValue`: reserved
    application tags 13..15 have no class (`return None`), numbers above 15
    are an `IndexError` -/
def atomOfTag (t : Tag) : Except Err (Option Val) :=
  if t.cls ≠ .app then .error .other                  -- ValueError("application tag required")
  else if t.num ≤ 12 then
    match leafCheck t.num t with
    | .error e => .error e
    | .ok () => .ok (some (.atom t.num t.lvt t.data))
  else if t.num ≤ 15 then .ok none
  else .error .other

/-- `Tag.app_to_context(context)` -/
def appToContext (c : Nat) (t : Tag) : Except Err Tag :=
  if t.num = 1 then
    if t.lvt < 256 then .ok ⟨.ctx, c, 1, [UInt8.ofNat t.lvt]⟩ else .error .other
  else .ok ⟨.ctx, c, t.data.length, t.data⟩

/-- `Tag.context_to_app(dataType)`; a context boolean must carry exactly one octet
    (`struct.unpack('B', …)` raises `struct.error` otherwise) -/
def contextToApp (app : Nat) (t : Tag) : Except Err Tag :=
  if app = 1 then
    match t.data with
    | [b] => .ok ⟨.app, 1, b.toNat, []⟩
    | _ => .error .other
  else .ok ⟨.app, app, t.data.length, t.data⟩

/-- the application tag an atomic helper encodes: `helper = klass(value); helper.encode(tag)` -/
def leafTag (r : Ref) (v : Val) : Except Err Tag :=
  match r, v with
  | .prim app, .prim lvt data => .ok ⟨.app, app, lvt, data⟩
  | .anyAtomic, .atom app lvt data => .ok ⟨.app, app, lvt, data⟩
  | _, _ => .error .other          -- TypeError: value of the wrong shape

/-- an atomic element of a Sequence / Choice: application tag, converted iff a context is given -/
def encodeLeaf (r : Ref) (ctx : Option Nat) (v : Val) : Except Err (List Tag) :=
  match leafTag r v with
  | .error e => .error e
  | .ok t =>
    match ctx with
    | none => .ok [t]
    | some c =>
      match appToContext c t with
      | .error e => .error e
      | .ok t' => .ok [t']

/-! ### encoding -/

abbrev Enc := Nat → Val → Except Err (List Tag)      -- `value.encode(taglist)` of class index i
abbrev Dec := Nat → List Tag → Except Err (Val × List Tag)   -- `klass().decode(taglist)`

/-- body of the `for value in self.value` loop of the three list classes -/
def encodeElems (env : Env) (enc : Enc) (elem : Ref) : List Val → Except Err (List Tag)
  | [] => .ok []
  | v :: vs =>
    let one : Except Err (List Tag) :=
      match kindOf env elem with
      | .prim _ | .anyAtomic => encodeLeaf elem none v
      | .seqOf i | .listOf i | .struct i => enc i v
      | .bad => .error .other
    match one with
    | .error e => .error e
    | .ok ts =>
      match encodeElems env enc elem vs with
      | .error e => .error e
      | .ok rest => .ok (ts ++ rest)

/-- one element of `Sequence.encode` -/
def encodeField (env : Env) (enc : Enc) (f : Field) (v : Option Val) : Except Err (List Tag) :=
  match v with
  | none => if f.opt then .ok [] else .error .missingRequired
  | some v =>
    match kindOf env f.ref with
    | .prim _ | .anyAtomic => encodeLeaf f.ref f.ctx v
    | .seqOf i | .listOf i | .struct i =>
      match enc i v with
      | .error e => .error e
      | .ok ts => .ok (wrap f.ctx ts)
    | .bad => .error .other

/-- `Sequence.encode` -/
def encodeFields (env : Env) (enc : Enc) : List Field → List (Option Val) → Except Err (List Tag)
  | [], [] => .ok []
  | f :: fs, v :: vs =>
    match encodeField env enc f v with
    | .error e => .error e
    | .ok ts =>
      match encodeFields env enc fs vs with
      | .error e => .error e
      | .ok rest => .ok (ts ++ rest)
  | _, _ => .error .other

/-- `Choice.encode` for the alternative that is set (list alternatives are
    wrapped like structures — fix C03-choice-list) -/
def encodeAlt (env : Env) (enc : Enc) (a : Field) (v : Val) : Except Err (List Tag) :=
  match kindOf env a.ref with
  | .prim _ | .anyAtomic => encodeLeaf a.ref a.ctx v
  | .seqOf i | .listOf i | .struct i =>
    match enc i v with
    | .error e => .error e
    | .ok ts => .ok (wrap a.ctx ts)
  | .bad => .error .other

/-- `NameValue.encode` -/
def encodeNameValue (enc : Enc) (dt : Nat) : Val → Except Err (List Tag)
  | .seq [some (.prim lvt data), value] =>
    match appToContext 0 ⟨.app, 7, lvt, data⟩ with
    | .error e => .error e
    | .ok nameTag =>
      match value with
      | none => .ok [nameTag]
      | some (.atom app l d) => .ok [nameTag, ⟨.app, app, l, d⟩]
      | some (.seq fs) =>                                   -- isinstance(value, DateTime)
        match enc dt (.seq fs) with
        | .error e => .error e
        | .ok ts => .ok (nameTag :: ts)
      | some _ => .error .other
  | _ => .error .other

def encodeDef (env : Env) (enc : Enc) : TyDef → Val → Except Err (List Tag)
  | .seq fields, .seq vs => encodeFields env enc fields vs
  | .choice alts, .choice i v =>
    match alts[i]? with
    | some a => encodeAlt env enc a v
    | none => .error .other
  | .list _ elem fixed, .list vs =>
    match fixed with
    | some n => if vs.length ≠ n then .error .other          -- ValueError("invalid array length") in the constructor
                else encodeElems env enc elem vs
    | none => encodeElems env enc elem vs
  | .any, .tags ts => .ok ts
  | .nameValue dt, v => encodeNameValue enc dt v
  | _, _ => .error .other

def encodeTyF (env : Env) : Nat → Nat → Val → Except Err (List Tag)
  | 0, _, _ => .error .other
  | fuel + 1, τ, v =>
    match env[τ]? with
    | none => .error .other
    | some d => encodeDef env (encodeTyF env fuel) d v

/-- `value.encode(taglist)` for a value of class `env[τ]` -/
def encodeTy (env : Env) (τ : Nat) (v : Val) : Except Err (List Tag) :=
  encodeTyF env (τ + 1) τ v

/-! ### decoding -/

/-- the `while len(taglist) != 0` loop of `SequenceOf/ListOf/ArrayOf.decode`;
    `n` bounds the iterations by the number of tags -/
def decodeElems (env : Env) (dec : Dec) (elem : Ref) : Nat → List Tag → Except Err (List Val × List Tag)
  | _, [] => .ok ([], [])
  | 0, _ :: _ => .error .other
  | n + 1, t :: rest =>
    if t.cls = .closing then .ok ([], t :: rest) else
    let one : Except Err (Option Val × List Tag) :=
      match kindOf env elem with
      | .prim app =>
        match primOfTag app t with
        | .error e => .error e
        | .ok v => .ok (some v, rest)
      | .anyAtomic =>
        match atomOfTag t with
        | .error e => .error e
        | .ok v => .ok (v, rest)
      | .seqOf i | .listOf i | .struct i =>
        match dec i (t :: rest) with
        | .error e => .error e
        | .ok (v, r) => if r.length < (t :: rest).length then .ok (some v, r) else .error .other
      | .bad => .error .other
    match one with
    | .error e => .error e
    | .ok (v, r) =>
      match decodeElems env dec elem n r with
      | .error e => .error e
      | .ok (vs, r') =>
        -- an `AnyAtomic` element with a reserved tag appends `None` to the list;
        -- the value tree has no such entry: refuse it (never produced by an encoder)
        match v with
        | some v => .ok (v :: vs, r')
        | none => .error .other

/-- one element of the loop of `Sequence.decode`: the value of the attribute and the remaining tags -/
def decodeField (env : Env) (dec : Dec) (f : Field) (tags : List Tag) : Except Err (Option Val × List Tag) :=
  match tags with
  | [] =>
    if f.opt then .ok (none, [])
    else match kindOf env f.ref with
      | .seqOf _ | .listOf _ => .ok (some (.list []), [])
      | _ => .error .missingRequired
  | t :: rest =>
    if t.cls = .closing then
      if f.opt then .ok (none, tags)
      else match kindOf env f.ref, f.ctx with
        | .seqOf _, none | .listOf _, none => .ok (some (.list []), tags)   -- fix C03-empty-list-before-closing-tag
        | _, _ => .error .missingRequired
    else
    match kindOf env f.ref with
    | .seqOf i =>
      match f.ctx with
      | some c =>
        if !isOpen c t then
          if f.opt then .ok (some (.list []), tags)      -- NB `[]`, not None
          else .error .missingRequired
        else
          match dec i rest with
          | .error e => .error e
          | .ok (v, r) =>
            match expectClose c r with
            | .error e => .error e
            | .ok r' => .ok (some v, r')
      | none =>
        match dec i tags with
        | .error e => .error e
        | .ok (v, r) => .ok (some v, r)
    | .anyAtomic =>
      if f.ctx.isSome then .error .invalidTag
      else if t.cls ≠ .app then
        if f.opt then .ok (none, tags) else .error .invalidDatatype
      else
        match atomOfTag t with
        | .error e => .error e
        | .ok v => .ok (v, rest)
    | .prim app =>
      match f.ctx with
      | some c =>
        if !isCtx c t then
          if f.opt then .ok (none, tags) else .error .invalidTag
        else
          match contextToApp app t with
          | .error e => .error e
          | .ok t' =>
            match primOfTag app t' with
            | .error e => .error e
            | .ok v => .ok (some v, rest)
      | none =>
        if !isApp app t then
          if f.opt then .ok (none, tags) else .error .invalidDatatype
        else
          match primOfTag app t with
          | .error e => .error e
          | .ok v => .ok (some v, rest)
    | .listOf i | .struct i =>          -- "some kind of structure"
      match f.ctx with
      | some c =>
        if !isOpen c t then
          if f.opt then .ok (none, tags) else .error .invalidTag
        else
          match dec i rest with
          | .error e => .error e          -- the context matched: errors propagate
          | .ok (v, r) =>
            match expectClose c r with
            | .error e => .error e
            | .ok r' => .ok (some v, r')
      | none =>
        match dec i tags with
        | .ok (v, r) => .ok (some v, r)
        | .error e =>
          -- `except (DecodingError, InvalidTag)`: an optional structure without
          -- context that fails to decode is taken as omitted, the tag list restored
          if f.opt ∧ (e = .decoding ∨ e = .invalidTag) then .ok (none, tags) else .error e
    | .bad => .error .other

/-- `Sequence.decode` -/
def decodeFields (env : Env) (dec : Dec) : List Field → List Tag → Except Err (List (Option Val) × List Tag)
  | [], tags => .ok ([], tags)
  | f :: fs, tags =>
    match decodeField env dec f tags with
    | .error e => .error e
    | .ok (v, r) =>
      match decodeFields env dec fs r with
      | .error e => .error e
      | .ok (vs, r') => .ok (v :: vs, r')

/-- the `for element in self.choiceElements` loop of `Choice.decode`; `t` is the
    peeked tag, `rest` what follows it, `i` the index of `alts.head` -/
def decodeAlts (env : Env) (dec : Dec) (t : Tag) (rest : List Tag) : Nat → List Field → Except Err (Val × List Tag)
  | _, [] => .error .invalidTag                       -- no alternative matches (fix C03-decode-errors; was AttributeError)
  | i, a :: as =>
    match kindOf env a.ref with
    | .seqOf j | .listOf j =>
      match a.ctx with
      | none => .error .other                         -- NotImplementedError
      | some c =>
        if !isOpen c t then decodeAlts env dec t rest (i + 1) as     -- fix C03-choice-list: was `isCtx`
        else
          match dec j rest with
          | .error e => .error e
          | .ok (v, r) =>
            match expectClose c r with
            | .error e => .error e
            | .ok r' => .ok (.choice i v, r')
    | .prim app =>
      match a.ctx with
      | some c =>
        if !isCtx c t then decodeAlts env dec t rest (i + 1) as
        else
          match contextToApp app t with
          | .error e => .error e
          | .ok t' =>
            match primOfTag app t' with
            | .error e => .error e
            | .ok v => .ok (.choice i v, rest)
      | none =>
        if !isApp app t then decodeAlts env dec t rest (i + 1) as
        else
          match primOfTag app t with
          | .error e => .error e
          | .ok v => .ok (.choice i v, rest)
    | .anyAtomic =>
      -- `AnyAtomic._app_tag` is None: without context the number test never
      -- passes; with a matching context `ApplicationTag(None, …)` ends in a TypeError
      match a.ctx with
      | some c => if !isCtx c t then decodeAlts env dec t rest (i + 1) as else .error .other
      | none => decodeAlts env dec t rest (i + 1) as
    | .struct j =>
      match a.ctx with
      | none => .error .other                         -- NotImplementedError
      | some c =>
        if !isOpen c t then decodeAlts env dec t rest (i + 1) as
        else
          match dec j rest with
          | .error e => .error e
          | .ok (v, r) =>
            match expectClose c r with
            | .error e => .error e
            | .ok r' => .ok (.choice i v, r')
    | .bad => .error .other

/-- `Choice.decode` -/
def decodeChoice (env : Env) (dec : Dec) (alts : List Field) : List Tag → Except Err (Val × List Tag)
  | [] => .error .missingRequired                     -- fix C03-decode-errors; was AttributeError
  | t :: rest =>
    if t.cls = .closing then .error .missingRequired  -- idem
    else decodeAlts env dec t rest 0 alts

/-- `NameValue.decode` -/
def decodeNameValue (dec : Dec) (dt : Nat) : List Tag → Except Err (Val × List Tag)
  | [] => .error .missingRequired
  | t :: rest =>
    if !isCtx 0 t then .error .missingRequired else
    match contextToApp 7 t with
    | .error e => .error e
    | .ok t' =>
      match primOfTag 7 t' with
      | .error e => .error e
      | .ok name =>
        match rest with
        | [] => .ok (.seq [some name, none], [])
        | t2 :: rest2 =>
          if t2.cls ≠ .app then .ok (.seq [some name, none], rest)
          else
            let isDateTime : Bool :=
              t2.num == 10 && (match rest2 with | n :: _ => isApp 11 n | [] => false)
            if isDateTime then
              match dec dt rest with
              | .error e => .error e
              | .ok (v, r) => .ok (.seq [some name, some v], r)
            else
              match atomOfTag t2 with
              | .error e => .error e
              | .ok v => .ok (.seq [some name, v], rest2)

def decodeDef (env : Env) (dec : Dec) : TyDef → List Tag → Except Err (Val × List Tag)
  | .seq fields, tags =>
    match decodeFields env dec fields tags with
    | .error e => .error e
    | .ok (vs, r) => .ok (.seq vs, r)
  | .choice alts, tags => decodeChoice env dec alts tags
  | .list _ elem fixed, tags =>
    match decodeElems env dec elem tags.length tags with
    | .error e => .error e
    | .ok (vs, r) =>
      match fixed with
      | some n => if vs.length ≠ n then .error .other else .ok (.list vs, r)   -- ValueError("invalid array length")
      | none => .ok (.list vs, r)
  | .any, tags =>
    match anyDecode tags with
    | .error e => .error e
    | .ok (g, r) => .ok (.tags g, r)
  | .nameValue dt, tags => decodeNameValue dec dt tags

def decodeTyF (env : Env) : Nat → Nat → List Tag → Except Err (Val × List Tag)
  | 0, _, _ => .error .other
  | fuel + 1, τ, tags =>
    match env[τ]? with
    | none => .error .other
    | some d => decodeDef env (decodeTyF env fuel) d tags

/-- `klass().decode(taglist)` for class `env[τ]`: the value and the tags left over -/
def decodeTy (env : Env) (τ : Nat) (tags : List Tag) : Except Err (Val × List Tag) :=
  decodeTyF env (τ + 1) τ tags

/-- `APCISequence.decode`: `Sequence.decode`, then `if self._tag_list: raise TooManyArguments()` -/
def decodePdu (env : Env) (τ : Nat) (tags : List Tag) : Except Err Val :=
  match decodeTy env τ tags with
  | .error e => .error e
  | .ok (v, []) => .ok v
  | .ok (_, _ :: _) => .error .tooMany

/-! ### `Any.cast_in` / `Any.cast_out` (and `SequenceOfAny`'s, same code on a list class)

    The Any keeps a tag list.  `cast_in(element)` appends the element's encoding;
    `cast_out(klass)` decodes a COPY of the tag list (`TagList(self.tagList[:])`)
    as `klass` and insists that everything is consumed.  The model is pure, so
    "the Any is left untouched by cast_out" is true by construction here — on
    the implementation it is what the `any` stream of harness/c03.py checks. -/

/-- the tags `Any.cast_in(element)` appends for an element of class `r` -/
def castIn (env : Env) (r : Ref) (v : Val) : Except Err (List Tag) :=
  match kindOf env r with
  | .prim _ | .anyAtomic =>
    match leafTag r v with
    | .error e => .error e
    | .ok t => .ok [t]
  | .seqOf i | .listOf i | .struct i => encodeTy env i v
  | .bad => .error .other

/-- `Any.cast_out(klass)`: atomic classes want exactly one tag ("missing cast
    component" / "too many cast components"), every other class decodes the copy
    and refuses left-over tags ("incomplete cast") — all three are DecodingError -/
def castOut (env : Env) (r : Ref) (tags : List Tag) : Except Err Val :=
  match kindOf env r with
  | .prim app =>
    match tags with
    | [t] => primOfTag app t
    | _ => .error .decoding
  | .anyAtomic =>
    match tags with
    | [t] =>
      match atomOfTag t with
      | .error e => .error e
      | .ok (some v) => .ok v
      | .ok none => .error .other      -- reserved application tag: Python hands out `None`
    | _ => .error .decoding
  | .seqOf i | .listOf i | .struct i =>
    match decodeTy env i tags with
    | .error e => .error e
    | .ok (v, []) => .ok v
    | .ok (_, _ :: _) => .error .decoding
  | .bad => .error .other

/-- registry lookup (`confirmed_request_types.get(choice)` …) -/
def lookup (reg : List (Nat × Nat)) (choice : Nat) : Option Nat :=
  match reg with
  | [] => none
  | (c, i) :: r => if c = choice then some i else lookup r choice

end BacVerif.Codec
