/-
  Model.Tsm.Types — data of the transaction state machine model
  (py34/bacpypes/appservice.py: SSM, ClientSSM, ServerSSM,
   StateMachineAccessPoint, ApplicationServiceAccessPoint; app.py: DeviceInfo).

  Core Lean only (no Mathlib): the driver links this.

  Conventions
  * a peer is an opaque address with decidable equality (`Nat`; the harness
    maps `Address` values to stable indices — `Address.__eq__` is what the code
    uses, index equality is what the model uses);
  * Python attributes that are `None` until first assigned (retry counters,
    sequence numbers) are `0`/`false` here — they are never read before being
    written (any such read would be a `TypeError` in Python, seen by lockstep);
    attributes whose `None` IS tested or consumed by the code
    (`actualWindowSize`, `maxSegmentsAccepted`, the DeviceInfo fields, the
    segmentation context) are `Option`;
  * time is `Nat` microseconds; a timer is the absolute instant at which the
    transaction's `OneShotTask` is due (`none` = not scheduled);
  * a transaction in state COMPLETED/ABORTED is not in any list
    (`set_state` removes it in the same call), hence `St` has no such values.
-/
import BacVerif.Model.Bytes
namespace BacVerif.Tsm

abbrev Peer := Nat

/-- `segmentationSupported` (basetypes.Segmentation) -/
inductive SegSup | no | tx | rx | both
deriving DecidableEq, Repr, Inhabited

/-- `in ('segmentedTransmit', 'segmentedBoth')` -/
def SegSup.canTx : SegSup → Bool | .tx | .both => true | _ => false
/-- `in ('segmentedReceive', 'segmentedBoth')` -/
def SegSup.canRx : SegSup → Bool | .rx | .both => true | _ => false

/-- app.py `DeviceInfo` (the fields the state machines read) -/
structure DeviceInfo where
  maxApdu : Option Nat := some 1024   -- maxApduLengthAccepted
  seg : SegSup := .no                 -- segmentationSupported
  maxSegs : Option Nat := none        -- maxSegmentsAccepted
  maxNpdu : Option Nat := none        -- maxNpduLength
deriving DecidableEq, Repr, Inhabited

/-- A decoded APDU: every APCI field plus the payload.  Fields that the PDU
    type does not carry on the wire are ignored by `wire`-level comparison
    (and are `None` in Python). -/
structure Apdu where
  ty : Nat                -- apduType 0..7 (others are dropped by the access point)
  seg : Bool := false     -- apduSeg
  mor : Bool := false     -- apduMor
  sa : Bool := false      -- apduSA
  srv : Bool := false     -- apduSrv
  nak : Bool := false     -- apduNak
  seq : Nat := 0          -- apduSeq
  win : Nat := 0          -- apduWin
  maxSegs : Nat := 0      -- apduMaxSegs (code 0..7)
  maxResp : Nat := 0      -- apduMaxResp (code 0..15)
  service : Nat := 0      -- apduService
  invokeId : Nat := 0     -- apduInvokeID
  reason : Nat := 0       -- apduAbortRejectReason
  data : Bytes := []      -- pduData
deriving DecidableEq, Repr, Inhabited

/-- octets of the fixed header `APCI.encode` writes for this PDU -/
def Apdu.hdrLen (a : Apdu) : Nat :=
  match a.ty with
  | 0 => if a.seg then 6 else 4
  | 1 => 2
  | 2 => 3
  | 3 => if a.seg then 5 else 3
  | 4 => 4
  | 5 => 3
  | 6 => 3
  | 7 => 3
  | _ => 0

/-- total length of the encoded APDU (`APDU.encode` = header + `pduData`) -/
def Apdu.wireLen (a : Apdu) : Nat := a.hdrLen + a.data.length

/-- abort reasons used by the state machines (apdu.AbortReason) -/
def abortOther : Nat := 0
def abortInvalidApduInThisState : Nat := 2
def abortSegmentationNotSupported : Nat := 4
def abortApduTooLong : Nat := 11
def abortServerTimeout : Nat := 64
def abortNoResponse : Nat := 65
/-- reject reason `unrecognizedService` -/
def rejectUnrecognizedService : Nat := 9

/-- `AbortPDU(srv, invokeID, reason)` -/
def mkAbort (srv : Bool) (id reason : Nat) : Apdu :=
  { ty := 7, srv := srv, invokeId := id, reason := reason }

/-- `SegmentAckPDU(nak, srv, invokeID, seq, win)` -/
def mkSegAck (nak srv : Bool) (id seq win : Nat) : Apdu :=
  { ty := 4, nak := nak, srv := srv, invokeId := id, seq := seq, win := win }

/-- the explicit `raise` sites (and the implicit ones a peer or a
    configuration can reach) inside the state machines -/
inductive Raise
  | invalidApdu (n : Nat)   -- RuntimeError("invalid APDU (n)")
  | invalidState            -- RuntimeError("invalid state")
  | idInUse                 -- RuntimeError("invoke ID in use")
  | noFreeId                -- RuntimeError("no available invoke ID")
  | noContext               -- RuntimeError("no segmentation context established")
  | badSegment              -- RuntimeError("invalid segment number ...")
  | badContextType          -- RuntimeError("invalid APDU type for segmentation context")
  | valueError              -- ValueError from encode_max_*_accepted (bad local configuration)
  | typeError               -- range(None) in fill_window
deriving DecidableEq, Repr, Inhabited

def Raise.name : Raise → String
  | .invalidApdu n => s!"invalidApdu{n}"
  | .invalidState => "invalidState" | .idInUse => "idInUse" | .noFreeId => "noFreeId"
  | .noContext => "noContext" | .badSegment => "badSegment"
  | .badContextType => "badContextType" | .valueError => "valueError"
  | .typeError => "typeError"

/-- transaction states that a listed transaction can be in -/
inductive St | idle | segReq | awaitConf | awaitResp | segResp | segConf
deriving DecidableEq, Repr, Inhabited

def St.code : St → Nat
  | .idle => 0 | .segReq => 1 | .awaitConf => 2 | .awaitResp => 3 | .segResp => 4 | .segConf => 5

/-- (peer address, invoke ID): what every lookup in the access point compares -/
structure Key where
  peer : Peer
  id : Nat
deriving DecidableEq, Repr, Inhabited

/-- the mutable part of an SSM -/
structure Body where
  st : St := .idle
  hasDI : Bool := false          -- `self.device_info` is not None (reference taken at creation)
  ctx : Option Apdu := none      -- segmentAPDU
  segSize : Nat := 0             -- segmentSize
  segCount : Nat := 0            -- segmentCount
  retry : Nat := 0               -- retryCount
  segRetry : Nat := 0            -- segmentRetryCount
  sentAll : Bool := false        -- sentAllSegments
  lastSeq : Nat := 0             -- lastSequenceNumber
  initSeq : Nat := 0             -- initialSequenceNumber (sender: absolute index, fix Tsm-3)
  window : Option Nat := none    -- actualWindowSize
  maxApdu : Nat := 0             -- self.maxApduLengthAccepted (server: the client's)
  maxSegs : Option Nat := none   -- self.maxSegmentsAccepted (server: the client's)
  sra : Bool := false            -- segmented_response_accepted
  announced : Nat := 0           -- HISTORY VARIABLE (not Python state, read by no handler): the maximum
                                 --   APDU the request that opened a server transaction announced
  timer : Option Nat := none     -- absolute due time (µs) of the scheduled task
deriving DecidableEq, Repr, Inhabited

structure Txn where
  key : Key
  body : Body
deriving DecidableEq, Repr, Inhabited

/-- what the state machines hand to their environment -/
inductive Out
  | send (peer : Peer) (a : Apdu)       -- `ssmSAP.request(apdu)`: frame toward the network
  | indicate (peer : Peer) (a : Apdu)   -- up to the application as an indication
  | confirm (peer : Peer) (a : Apdu)    -- up to the application as a confirmation
  | confirmAnon (cls code : Nat)        -- ASAP: undecodable ack/error replaced by a bare `Error`
                                        --   (no source, no invoke ID)
  | raised (r : Raise)                  -- a Python exception left the access point
deriving DecidableEq, Repr, Inhabited

/-- `dccEnableDisable` -/
inductive Dcc | enable | disable | disableInitiation
deriving DecidableEq, Repr, Inhabited

/-- outcome of the service decoder the ASAP applies to an inbound request -/
inductive ReqDecode | ok | reject (reason : Nat) | abort (reason : Nat)
deriving DecidableEq, Repr, Inhabited

/-- outcome of the decoder the ASAP applies to a complex ack / error -/
inductive AckDecode | ok | unknown | bad
deriving DecidableEq, Repr, Inhabited

/-- Configuration: the local device object / access point settings every new
    SSM copies, plus the (abstract) service codecs of the ASAP. -/
structure Cfg where
  maxApdu : Nat := 1024           -- maxApduLengthAccepted
  seg : SegSup := .no             -- segmentationSupported
  maxSegs : Option Nat := some 2  -- maxSegmentsAccepted
  window : Nat := 2               -- proposedWindowSize
  retries : Nat := 3              -- numberOfApduRetries
  apduTimeout : Nat := 3000       -- ms
  segTimeout : Nat := 1500        -- ms
  appTimeout : Nat := 3000        -- ms
  /-- `confirmed_request_types.get(service)` + `decode`: ok / RejectException / AbortException -/
  reqDecode : Nat → Bytes → ReqDecode := fun _ _ => .ok
  /-- `unconfirmed_request_types.get(service)` + `decode` succeed -/
  unconfDecode : Nat → Bytes → Bool := fun _ _ => true
  /-- `complex_ack_types.get(service)` + `decode` -/
  ackDecode : Nat → Bytes → AckDecode := fun _ _ => .ok
  /-- `error_types.get(service) or Error`, `decode` succeeds -/
  errDecode : Nat → Bytes → Bool := fun _ _ => true

/-- the events the environment (application above, network below, scheduler)
    can deliver -/
inductive Event
  /-- the application submits a confirmed request; `invokeId = none` lets the
      access point allocate one -/
  | request (peer : Peer) (service : Nat) (data : Bytes) (invokeId : Option Nat)
  /-- the application submits an unconfirmed request -/
  | unconfirmed (peer : Peer) (service : Nat) (data : Bytes)
  /-- the application answers: `a` is the PDU it built (simple ack, complex
      ack, error, reject or abort; its `invokeId` names the transaction) -/
  | response (peer : Peer) (a : Apdu)
  /-- an APDU with ARBITRARY header arrives from ARBITRARY peer -/
  | frame (peer : Peer) (a : Apdu)
  /-- the timer of the (client if `srv = false`, server otherwise)
      transaction with this key fires -/
  | timeout (srv : Bool) (peer : Peer) (id : Nat)
  /-- virtual time advances by `dt` µs -/
  | tick (dt : Nat)
  /-- the application learned (I-Am) or edited the device information of a peer -/
  | learn (peer : Peer) (info : DeviceInfo)
  /-- DeviceCommunicationControl changed the gate -/
  | setDcc (d : Dcc)
deriving Repr, Inhabited

/-- `StateMachineAccessPoint` + the device-information cache it reads -/
structure Sap where
  now : Nat := 0
  nextId : Nat := 1                           -- nextInvokeID
  clients : List Txn := []                    -- clientTransactions
  servers : List Txn := []                    -- serverTransactions
  devInfo : List (Peer × DeviceInfo) := []    -- deviceInfoCache (by address)
  dcc : Dcc := .enable
deriving DecidableEq, Repr, Inhabited

def Sap.init : Sap := {}

/-- `deviceInfoCache.get_device_info(addr)` -/
def lookupDI (l : List (Peer × DeviceInfo)) (p : Peer) : Option DeviceInfo :=
  match l with
  | [] => none
  | (q, d) :: rest => if q = p then some d else lookupDI rest p

/-- in-place update of a record (or creation) -/
def setDI (l : List (Peer × DeviceInfo)) (p : Peer) (d : DeviceInfo) : List (Peer × DeviceInfo) :=
  match l with
  | [] => [(p, d)]
  | (q, e) :: rest => if q = p then (q, d) :: rest else (q, e) :: setDI rest p d

end BacVerif.Tsm
