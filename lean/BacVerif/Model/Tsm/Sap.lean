/-
  Model.Tsm.Sap — `StateMachineAccessPoint` (transaction lists, invoke-ID
  allocation, demultiplexing) and the thin `ApplicationServiceAccessPoint`
  layer above it, as one total function

      step : Cfg → Sap → Event → Sap × List Out

  (py34/bacpypes/appservice.py after fixes/Tsm-1 … Tsm-7).
-/
import BacVerif.Model.Tsm.Ssm
namespace BacVerif.Tsm

/-! ### transaction lists -/

/-- the test every `for tr in …Transactions` loop applies -/
def Txn.is (k : Key) (t : Txn) : Bool := t.key.id == k.id && t.key.peer == k.peer

/-- first transaction with this key (`for … if …: break`) -/
def findTxn (k : Key) : List Txn → Option Txn
  | [] => none
  | t :: ts => if t.is k then some t else findTxn k ts

/-- Apply a handler to the FIRST transaction with key `k` (the one the `for`
    loop of the access point stops at): `some b'` replaces its body in place,
    `none` removes it (`…Transactions.remove(self)`).  All other list members —
    including later ones with an equal key, should there be any — are untouched. -/
def updFirst (k : Key) (r : Option Body) : List Txn → List Txn
  | [] => []
  | t :: ts =>
    if t.is k then
      match r with
      | some b' => { t with body := b' } :: ts
      | none => ts
    else t :: updFirst k r ts

/-- the record a transaction holds: taken at creation (`hasDI`), read through
    the shared cache entry afterwards -/
def heldDI (s : Sap) (k : Key) (b : Body) : Option DeviceInfo :=
  if b.hasDI then lookupDI s.devInfo k.peer else none

/-- `SSM.__init__`: a fresh machine for `peer` -/
def newBody (cfg : Cfg) (s : Sap) (peer : Peer) : Body :=
  { hasDI := (lookupDI s.devInfo peer).isSome, maxApdu := cfg.maxApdu, maxSegs := cfg.maxSegs }

/-! ### invoke-ID allocation -/

/-- some live client transaction uses `id` toward `peer` -/
def idLive (clients : List Txn) (peer : Peer) (id : Nat) : Bool :=
  clients.any (Txn.is ⟨peer, id⟩)

/-- The `while 1` loop of `get_next_invoke_id`, `fuel` iterations allowed:
    returns (`some id` | `none` = RuntimeError("no available invoke ID"),
    the new `nextInvokeID`).  Fuel 256 is never exhausted when the cursor is
    below 256 (`getNext_fuel_enough`, Props/C11). -/
def getNextLoop (clients : List Txn) (peer : Peer) (initial : Nat) : Nat → Nat → Option Nat × Nat
  | 0, cur => (none, cur)
  | fuel + 1, cur =>
    let next := (cur + 1) % 256
    if initial = next then (none, next)
    else if idLive clients peer cur then getNextLoop clients peer initial fuel next
    else (some cur, next)

/-- `get_next_invoke_id(addr)` -/
def getNextInvokeId (s : Sap) (peer : Peer) : Option Nat × Nat :=
  getNextLoop s.clients peer s.nextId 256 s.nextId

/-! ### StateMachineAccessPoint -/

/-- run the handler result `r` for the first client transaction with key `k` -/
def Sap.setClient (s : Sap) (k : Key) (r : Res) : Sap × List Out :=
  ({ s with clients := updFirst k r.1 s.clients }, r.2)

def Sap.setServer (s : Sap) (k : Key) (r : Res) : Sap × List Out :=
  ({ s with servers := updFirst k r.1 s.servers }, r.2)

/-- dispatch to the client transaction (k) or drop -/
def toClient (cfg : Cfg) (s : Sap) (k : Key) (a : Apdu) : Sap × List Out :=
  match findTxn k s.clients with
  | none => (s, [])
  | some t => s.setClient k (clientConfirmation cfg s.now t.key t.body a)

/-- dispatch to the server transaction (k) or drop -/
def toServer (cfg : Cfg) (s : Sap) (k : Key) (a : Apdu) : Sap × List Out :=
  match findTxn k s.servers with
  | none => (s, [])
  | some t => s.setServer k (serverIndication cfg s.now t.key t.body a)

/-- in-place update of the cached record of `peer` (`update_device_info`) -/
def Sap.withDI (s : Sap) (peer : Peer) : Option DeviceInfo → Sap
  | some d => { s with devInfo := setDI s.devInfo peer d }
  | none => s

/-- `tr = ServerSSM(self, source); serverTransactions.append(tr); tr.indication(apdu)`
    for a request whose key `k` has no transaction yet -/
def serverCreate (cfg : Cfg) (s : Sap) (k : Key) (a : Apdu) : Sap × List Out :=
  let b := newBody cfg s k.peer
  let di := promote a.sa (heldDI s k b)
  let s1 := s.withDI k.peer di
  match serverIdle cfg s.now di k b a with
  | (some b', outs) => ({ s1 with servers := s1.servers ++ [⟨k, b'⟩] }, outs)
  | (none, outs) => (s1, outs)

/-- `tr = ClientSSM(self, destination); clientTransactions.append(tr); tr.indication(apdu)`
    for a request that got the (free) key `k` -/
def clientCreate (cfg : Cfg) (s : Sap) (k : Key) (service : Nat) (data : Bytes) : Sap × List Out :=
  let b := newBody cfg s k.peer
  let req : Apdu := { ty := 0, service := service, invokeId := k.id, data := data }
  match clientIndication cfg s.now (heldDI s k b) k b req with
  | (some b', outs) => ({ s with clients := s.clients ++ [⟨k, b'⟩] }, outs)
  | (none, outs) => (s, outs)

/-- the DCC gate of `confirmation` -/
def dccInbound (d : Dcc) (a : Apdu) : Bool :=
  match d with
  | .disable => (a.ty = 0 && a.service = 17) || (a.ty = 0 && a.service = 20)
                || (a.ty = 1 && a.service = 8)
  | _ => true

/-- the DCC gate of `sap_indication` -/
def dccOutbound (d : Dcc) (ty service : Nat) : Bool :=
  match d with
  | .enable => true
  | .disable => false
  | .disableInitiation => ty = 1 && service = 0

/-- `StateMachineAccessPoint.confirmation(pdu)`: an APDU from `peer` -/
def smapConfirmation (cfg : Cfg) (s : Sap) (peer : Peer) (a : Apdu) : Sap × List Out :=
  if !dccInbound s.dcc a then (s, [])
  else
    let k : Key := ⟨peer, a.invokeId⟩
    match a.ty with
    | 0 =>
      match findTxn k s.servers with
      | some t => s.setServer k (serverIndication cfg s.now t.key t.body a)
      | none => serverCreate cfg s k a
    | 1 => (s, [.indicate peer a])
    | 2 | 3 | 5 | 6 => toClient cfg s k a
    | 4 | 7 => if a.srv then toClient cfg s k a else toServer cfg s k a
    | _ => (s, [])            -- unknown apduType: warning, dropped

/-- `StateMachineAccessPoint.sap_indication(apdu)` for a confirmed request -/
def smapRequest (cfg : Cfg) (s : Sap) (peer : Peer) (service : Nat) (data : Bytes)
    (chosen : Option Nat) : Sap × List Out :=
  if !dccOutbound s.dcc 0 service then (s, [])
  else
    match chosen with
    | some id =>
      -- verify the invoke ID isn't already being used
      if idLive s.clients peer id then (s, [.raised .idInUse])
      else clientCreate cfg s ⟨peer, id⟩ service data
    | none =>
      match getNextInvokeId s peer with
      | (none, next) => ({ s with nextId := next }, [.raised .noFreeId])
      | (some id, next) => clientCreate cfg { s with nextId := next } ⟨peer, id⟩ service data

/-- `StateMachineAccessPoint.sap_confirmation(apdu)`: the application answers -/
def smapResponse (cfg : Cfg) (s : Sap) (peer : Peer) (a : Apdu) : Sap × List Out :=
  if a.ty = 2 || a.ty = 3 || a.ty = 5 || a.ty = 6 || a.ty = 7 then
    let k : Key := ⟨peer, a.invokeId⟩
    match findTxn k s.servers with
    | none => (s, [])
    | some t =>
      let npdu := match heldDI s t.key t.body with
        | some d => d.maxNpdu
        | none => none
      s.setServer k (serverConfirmation cfg s.now npdu t.key t.body a)
  else (s, [.raised (.invalidApdu 10)])

/-- the scheduler runs the task of a transaction: only when one with this key
    exists and its timer is armed and due -/
def smapTimeout (cfg : Cfg) (s : Sap) (srv : Bool) (k : Key) : Sap × List Out :=
  match findTxn k (if srv then s.servers else s.clients) with
  | none => (s, [])
  | some t =>
    match t.body.timer with
    | none => (s, [])
    | some d =>
      if d ≤ s.now then
        let b := { t.body with timer := none }
        if srv then s.setServer k (serverTimeout cfg s.now t.key b)
        else s.setClient k (clientTimeout cfg s.now (heldDI s t.key b) t.key b)
      else (s, [])

/-! ### ApplicationServiceAccessPoint (stateless filter above the SMAP) -/

/-- `ASAP.indication` / `ASAP.confirmation` applied to one upward output of
    the SMAP; a decode failure of a confirmed request goes straight back down
    as a reject/abort (`self.response(...)` → `sap_confirmation`). -/
def asapUp (cfg : Cfg) (s : Sap) (o : Out) : Sap × List Out :=
  match o with
  | .indicate peer a =>
    if a.ty = 0 then
      match cfg.reqDecode a.service a.data with
      | .ok => (s, [o])
      | .reject r => smapResponse cfg s peer { ty := 6, invokeId := a.invokeId, reason := r }
      | .abort r => smapResponse cfg s peer { ty := 7, invokeId := a.invokeId, reason := r }
    else if a.ty = 1 then
      if cfg.unconfDecode a.service a.data then (s, [o]) else (s, [])
    else (s, [])                      -- "unknown PDU type?!": e.g. an abort handed up by a ServerSSM
  | .confirm _ a =>
    if a.ty = 2 || a.ty = 6 || a.ty = 7 then (s, [o])
    else if a.ty = 3 then
      match cfg.ackDecode a.service a.data with
      | .ok => (s, [o])
      | .unknown => (s, [])
      | .bad => (s, [.confirmAnon 7 57])
    else if a.ty = 5 then
      if cfg.errDecode a.service a.data then (s, [o]) else (s, [.confirmAnon 0 0])
    else (s, [])
  | _ => (s, [o])

def asapPass (cfg : Cfg) : Sap → List Out → Sap × List Out
  | s, [] => (s, [])
  | s, o :: os =>
    let (s1, o1) := asapUp cfg s o
    let (s2, o2) := asapPass cfg s1 os
    (s2, o1 ++ o2)

/-! ### the composite -/

/-- events as seen by the SMAP alone (outputs `.indicate`/`.confirm` are
    `sap_request`/`sap_response` calls) -/
def smapStep (cfg : Cfg) (s : Sap) : Event → Sap × List Out
  | .request peer service data chosen => smapRequest cfg s peer service data chosen
  | .unconfirmed peer service data =>
    if dccOutbound s.dcc 1 service then
      (s, [.send peer { ty := 1, service := service, data := data }])
    else (s, [])
  | .response peer a =>
    -- ASAP.sap_confirmation forwards the five response types and drops anything else
    if a.ty = 2 || a.ty = 3 || a.ty = 5 || a.ty = 6 || a.ty = 7 then smapResponse cfg s peer a
    else (s, [])
  | .frame peer a => smapConfirmation cfg s peer a
  | .timeout srv peer id => smapTimeout cfg s srv ⟨peer, id⟩
  | .tick dt => ({ s with now := s.now + dt }, [])
  | .learn peer info => ({ s with devInfo := setDI s.devInfo peer info }, [])
  | .setDcc d => ({ s with dcc := d }, [])

/-- one event through ASAP + SMAP -/
def step (cfg : Cfg) (s : Sap) (e : Event) : Sap × List Out :=
  let (s1, outs) := smapStep cfg s e
  asapPass cfg s1 outs

/-- any event sequence from any state, outputs concatenated -/
def run (cfg : Cfg) : Sap → List Event → Sap × List Out
  | s, [] => (s, [])
  | s, e :: es =>
    let (s1, o1) := step cfg s e
    let (s2, o2) := run cfg s1 es
    (s2, o1 ++ o2)

end BacVerif.Tsm
