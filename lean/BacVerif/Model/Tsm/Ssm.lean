/-
  Model.Tsm.Ssm — one segmentation state machine: the code of `SSM`,
  `ClientSSM` and `ServerSSM` (py34/bacpypes/appservice.py, tree AFTER the
  repairs fixes/Tsm-1 … Tsm-10, C05-server-first-segment-seq0, C05-client-first-ack-segment-seq0 and C05-await-confirmation-duplicate-segment-ack), transcribed branch for branch.

  Every handler is a function of the transaction's key and body and returns
  `(new body | none = set_state(COMPLETED/ABORTED): removed from its list,
   timer stopped, device info released) × ordered outputs`.
  Nothing here can touch another transaction: that is how the code is written
  (each handler only uses `self`) and it is what makes C11 `demux` structural.
-/
import BacVerif.Model.Tsm.Types
namespace BacVerif.Tsm

/-! ### apdu.py: capability encodings -/

/-- `encode_max_segments_accepted` -/
def encodeMaxSegs : Option Nat → Except Raise Nat
  | none => .ok 0
  | some n =>
    if n = 0 then .ok 0
    else if n > 64 then .ok 7
    else if 64 ≤ n then .ok 6
    else if 32 ≤ n then .ok 5
    else if 16 ≤ n then .ok 4
    else if 8 ≤ n then .ok 3
    else if 4 ≤ n then .ok 2
    else if 2 ≤ n then .ok 1
    else .error .valueError

/-- `decode_max_segments_accepted` (codes 0..7 as decoded from the wire;
    larger codes cannot come out of `APCI.decode`) -/
def decodeMaxSegs : Nat → Option Nat
  | 1 => some 2 | 2 => some 4 | 3 => some 8 | 4 => some 16 | 5 => some 32 | 6 => some 64
  | _ => none

/-- `encode_max_apdu_length_accepted` -/
def encodeMaxApdu (n : Nat) : Except Raise Nat :=
  if 1476 ≤ n then .ok 5
  else if 1024 ≤ n then .ok 4
  else if 480 ≤ n then .ok 3
  else if 206 ≤ n then .ok 2
  else if 128 ≤ n then .ok 1
  else if 50 ≤ n then .ok 0
  else .error .valueError

/-- `decode_max_apdu_length_accepted`: `none` = `ValueError` (reserved code) -/
def decodeMaxApdu : Nat → Option Nat
  | 0 => some 50 | 1 => some 128 | 2 => some 206 | 3 => some 480 | 4 => some 1024 | 5 => some 1476
  | _ => none

/-! ### SSM: timers, segmentation helpers -/

/-- `start_timer` / `restart_timer`: (re)install the task `ms` from now -/
def arm (now ms : Nat) : Option Nat := some (now + ms * 1000)

/-- the timer part of `set_state(newState, timer)`: stop, then start only `if timer:` -/
def stateTimer (now ms : Nat) : Option Nat := if ms = 0 then none else arm now ms

/-- `in_window(seqA, seqB)` = `((seqA - seqB + 256) % 256) < actualWindowSize`
    (written without negative intermediates: `seqB` may be an absolute index) -/
def inWindow (seqA seqB win : Nat) : Bool := (seqA + 256 - seqB % 256) % 256 < win

/-- `set_segment_size(max_apdu, unsegmented_header, segmented_header)` (fix Tsm-1):
    `some (segmentSize, segmentCount)` or `none` when no segment fits -/
def setSegmentSize (len maxApdu uh sh : Nat) : Option (Nat × Nat) :=
  if len + uh ≤ maxApdu then some (maxApdu - uh, 1)
  else if maxApdu ≤ sh then none
  else
    let size := maxApdu - sh
    some (size, len / size + (if len % size = 0 then 0 else 1))

/-- the header `get_segment` builds from the context `c` before the
    segmentation flags: a ConfirmedRequest carrying the local capabilities, or
    a ComplexAck echoing the context's invoke ID -/
def segHeader (cfg : Cfg) (k : Key) (b : Body) (c : Apdu) : Except Raise Apdu :=
  if c.ty = 0 then
    match encodeMaxSegs b.maxSegs with
    | .error r => .error r
    | .ok ms =>
      match encodeMaxApdu b.maxApdu with
      | .error r => .error r
      | .ok mr =>
        .ok { ty := 0, service := c.service, maxSegs := ms, maxResp := mr,
              invokeId := k.id, sa := cfg.seg.canRx }
  else if c.ty = 3 then
    .ok { ty := 3, service := c.service, invokeId := c.invokeId }
  else .error .badContextType

/-- `if (self.segmentCount != 1): apduSeg, apduMor, apduSeq, apduWin` -/
def segFlags (cfg : Cfg) (b : Body) (indx win : Nat) (hdr : Apdu) : Apdu :=
  if b.segCount ≠ 1 then
    { hdr with seg := true, mor := decide (indx < b.segCount - 1), seq := indx % 256,
               win := if indx = 0 then cfg.window else win }
  else hdr

/-- the slice `pduData[offset:offset+segmentSize]` -/
def segSlice (b : Body) (c : Apdu) (indx : Nat) : Bytes :=
  (c.data.drop (indx * b.segSize)).take b.segSize

/-- `get_segment(indx)`; `win` is `actualWindowSize` for the segments after the
    first (callers hold it unwrapped: `fill_window` iterates `range(actualWindowSize)`) -/
def getSegment (cfg : Cfg) (k : Key) (b : Body) (indx win : Nat) : Except Raise Apdu :=
  match b.ctx with
  | none => .error .noContext
  | some c =>
    if indx ≥ b.segCount then .error .badSegment
    else
      match segHeader cfg k b c with
      | .error r => .error r
      | .ok hdr => .ok { segFlags cfg b indx win hdr with data := segSlice b c indx }

/-- result of `fill_window`: segments sent, whether `sentAllSegments` was set,
    and the exception (if any) that ended the loop -/
structure Fill where
  sent : List Apdu := []
  all : Bool := false
  err : Option Raise := none

/-- the `for ix in range(actualWindowSize)` loop, `n` iterations left, next index `idx` -/
def fillLoop (cfg : Cfg) (k : Key) (b : Body) (w : Nat) : Nat → Nat → Fill
  | 0, _ => {}
  | n + 1, idx =>
    match getSegment cfg k b idx w with
    | .error r => { err := some r }
    | .ok seg =>
      if !seg.mor then { sent := [seg], all := true }
      else
        let r := fillLoop cfg k b w n (idx + 1)
        { r with sent := seg :: r.sent }

/-- `fill_window(seqNum)` -/
def fillWindow (cfg : Cfg) (k : Key) (b : Body) (start : Nat) : Fill :=
  match b.window with
  | none => { err := some .typeError }
  | some w => fillLoop cfg k b w w start

/-- absolute index of the segment a SegmentAck with sequence number `seq`
    acknowledges: `initialSequenceNumber + ((apduSeq - initialSequenceNumber) % 256)`
    (fixes Tsm-3, Tsm-9) -/
def ackedIndex (b : Body) (seq : Nat) : Nat := b.initSeq + (seq + 256 - b.initSeq % 256) % 256

def sends (p : Peer) (l : List Apdu) : List Out := l.map (Out.send p)
def raisedOf : Option Raise → List Out
  | none => []
  | some r => [.raised r]

abbrev Res := Option Body × List Out

def Out.isRaised : Out → Bool
  | .raised _ => true
  | _ => false

/-! ### ClientSSM -/

/-- the maximum APDU the client assumes the server accepts (`ClientSSM.indication`) -/
def clientMaxApdu (di : Option DeviceInfo) (own : Nat) : Nat :=
  match di with
  | none => own
  | some d =>
    match d.maxApdu with
    | none => own
    | some m =>
      match d.maxNpdu with
      | none => m
      | some n => min n m

/-- `self.device_info.segmentationSupported not in ('segmentedReceive', 'segmentedBoth')`
    (false without a record) -/
def diCannotRx : Option DeviceInfo → Bool
  | some d => !d.seg.canRx
  | none => false

/-- the record states a (non-zero) maximum number of segments and `count` exceeds it -/
def diTooMany (di : Option DeviceInfo) (count : Nat) : Bool :=
  match di with
  | some d =>
    match d.maxSegs with
    | some n => n ≠ 0 && count > n
    | none => false
  | none => false

/-- local abort toward the application: `abort = self.abort(reason); self.response(abort)` -/
def clientAbortApp (k : Key) (reason : Nat) : Res :=
  (none, [.confirm k.peer (mkAbort false k.id reason)])

/-- `abort = self.abort(reason); self.request(abort); self.response(abort)` -/
def clientAbortBoth (k : Key) (reason : Nat) : Res :=
  (none, [.send k.peer (mkAbort false k.id reason), .confirm k.peer (mkAbort false k.id reason)])

/-- `ClientSSM.indication(apdu)`: start (or, from the retry path, restart) the request.
    `di` is the device-information record the transaction holds (if any). -/
def clientIndication (cfg : Cfg) (now : Nat) (di : Option DeviceInfo) (k : Key) (b : Body)
    (req : Apdu) : Res :=
  let b := { b with ctx := some req }
  match setSegmentSize req.data.length (clientMaxApdu di b.maxApdu) 4 6 with
  | none => clientAbortApp k abortApduTooLong
  | some (size, count) =>
    let b := { b with segSize := size, segCount := count }
    if count > 1 && !cfg.seg.canTx then clientAbortApp k abortSegmentationNotSupported
    else if count > 1 && diCannotRx di then clientAbortApp k abortSegmentationNotSupported
    else if count > 1 && diTooMany di count then clientAbortApp k abortApduTooLong
    else
      let b :=
        if count = 1 then
          { b with sentAll := true, retry := 0, st := .awaitConf,
                   timer := stateTimer now cfg.apduTimeout }
        else
          { b with sentAll := false, retry := 0, segRetry := 0, initSeq := 0, window := none,
                   st := .segReq, timer := stateTimer now cfg.segTimeout }
      match getSegment cfg k b 0 0 with
      | .ok seg => (some b, [.send k.peer seg])
      | .error r => (some b, [.raised r])

/-- `ClientSSM.segmented_request(apdu)` -/
def clientSegmentedRequest (cfg : Cfg) (now : Nat) (k : Key) (b : Body) (a : Apdu) : Res :=
  if a.ty = 4 then
    let b := { b with window := some a.win }
    if !inWindow a.seq b.initSeq a.win then
      (some { b with timer := arm now cfg.segTimeout }, [])
    else if ackedIndex b a.seq + 1 ≥ b.segCount then               -- fix Tsm-9: final ack
      (some { b with st := .awaitConf, timer := stateTimer now cfg.apduTimeout }, [])
    else
      let b := { b with initSeq := ackedIndex b a.seq + 1, segRetry := 0 }
      let f := fillWindow cfg k b b.initSeq
      let b := { b with sentAll := b.sentAll || f.all }
      match f.err with
      | some r => (some b, sends k.peer f.sent ++ [.raised r])
      | none => (some { b with timer := arm now cfg.segTimeout }, sends k.peer f.sent)
  else if a.ty = 2 then
    if !b.sentAll then clientAbortBoth k abortInvalidApduInThisState
    else (none, [.confirm k.peer a])
  else if a.ty = 3 then
    if !b.sentAll then clientAbortBoth k abortInvalidApduInThisState
    else if !a.seg then (none, [.confirm k.peer a])
    else if a.seq ≠ 0 then clientAbortBoth k abortInvalidApduInThisState  -- fix C05-client-first-ack-segment-seq0
    else
      (some { b with ctx := some a, window := some (min a.win cfg.window), lastSeq := 0,
                     initSeq := 0, st := .segConf,
                     timer := stateTimer now (cfg.segTimeout * 4) }, [])
  else if a.ty = 5 || a.ty = 6 || a.ty = 7 then
    (none, [.confirm k.peer a])
  else (some b, [.raised (.invalidApdu 2)])

/-- `ClientSSM.await_confirmation(apdu)` -/
def clientAwaitConfirmation (cfg : Cfg) (now : Nat) (k : Key) (b : Body) (a : Apdu) : Res :=
  if a.ty = 7 then (none, [.confirm k.peer a])
  else if a.ty = 2 || a.ty = 5 || a.ty = 6 then (none, [.confirm k.peer a])
  else if a.ty = 3 then
    if !a.seg then (none, [.confirm k.peer a])
    else if !cfg.seg.canRx then clientAbortApp k abortSegmentationNotSupported
    else if a.seq = 0 then
      (some { b with ctx := some a, window := some a.win, lastSeq := 0, initSeq := 0,
                     st := .segConf, timer := stateTimer now (cfg.segTimeout * 4) },
       [.send k.peer (mkSegAck false false k.id 0 a.win)])
    else clientAbortBoth k abortInvalidApduInThisState
  else if a.ty = 4 then (some b, [])      -- fix C05-await-confirmation-duplicate-segment-ack: late segment ack ignored
  else (some b, [.raised (.invalidApdu 3)])

/-- `ClientSSM.segmented_confirmation(apdu)` -/
def clientSegmentedConfirmation (cfg : Cfg) (now : Nat) (k : Key) (b : Body) (a : Apdu) : Res :=
  if a.ty = 4 then (some b, [])                                   -- fix Tsm-8: late segment ack ignored
  else if a.ty ≠ 3 then clientAbortBoth k abortInvalidApduInThisState
  else if !a.seg then clientAbortBoth k abortInvalidApduInThisState
  else
    match b.window with
    | none => (some b, [.raised .typeError])      -- unreachable: set on entry to the state
    | some w =>
      if a.seq ≠ (b.lastSeq + 1) % 256 then
        (some { b with timer := arm now (cfg.segTimeout * 4) },
         [.send k.peer (mkSegAck true false k.id b.lastSeq w)])
      else
        match b.ctx with
        | none => (some b, [.raised .noContext])
        | some c =>
          let c := { c with data := c.data ++ a.data }
          let b := { b with ctx := some c, lastSeq := (b.lastSeq + 1) % 256 }
          if !a.mor then
            (none, [.send k.peer (mkSegAck false false k.id b.lastSeq w), .confirm k.peer c])
          else if a.seq = (b.initSeq + w) % 256 then
            (some { b with initSeq := b.lastSeq, timer := arm now (cfg.segTimeout * 4) },
             [.send k.peer (mkSegAck false false k.id b.lastSeq w)])
          else
            (some { b with timer := arm now (cfg.segTimeout * 4) }, [])

/-- `ClientSSM.confirmation(apdu)` -/
def clientConfirmation (cfg : Cfg) (now : Nat) (k : Key) (b : Body) (a : Apdu) : Res :=
  match b.st with
  | .segReq => clientSegmentedRequest cfg now k b a
  | .awaitConf => clientAwaitConfirmation cfg now k b a
  | .segConf => clientSegmentedConfirmation cfg now k b a
  | _ => (some b, [.raised .invalidState])

/-- `ClientSSM.process_task()`; the caller has already cleared the fired timer -/
def clientTimeout (cfg : Cfg) (now : Nat) (di : Option DeviceInfo) (k : Key) (b : Body) : Res :=
  match b.st with
  | .segReq =>
    if b.segRetry < cfg.retries then
      let b := { b with segRetry := b.segRetry + 1, timer := arm now cfg.segTimeout }
      if b.initSeq = 0 then
        match getSegment cfg k b 0 0 with
        | .ok seg => (some b, [.send k.peer seg])
        | .error r => (some b, [.raised r])
      else
        let f := fillWindow cfg k b b.initSeq
        (some { b with sentAll := b.sentAll || f.all }, sends k.peer f.sent ++ raisedOf f.err)
    else clientAbortApp k abortNoResponse
  | .awaitConf =>
    if b.retry < cfg.retries then
      let save := b.retry + 1
      match b.ctx with
      | none => (some { b with retry := save }, [.raised .noContext])
      | some req =>
        match clientIndication cfg now di k { b with retry := save } req with
        | (some b', outs) =>
          -- `self.retryCount = saveCount` is skipped when `indication` raised
          if outs.any Out.isRaised then (some b', outs) else (some { b' with retry := save }, outs)
        | (none, outs) => (none, outs)
    else clientAbortApp k abortNoResponse
  | .segConf => clientAbortApp k abortNoResponse
  | _ => (some b, [.raised .invalidState])

/-! ### ServerSSM -/

/-- `abort = self.abort(reason); self.response(abort)`: to the device only -/
def serverAbortNet (k : Key) (reason : Nat) : Res :=
  (none, [.send k.peer (mkAbort true k.id reason)])

/-- `abort = self.abort(reason); self.request(abort); self.response(abort)` -/
def serverAbortBoth (k : Key) (reason : Nat) : Res :=
  (none, [.indicate k.peer (mkAbort true k.id reason), .send k.peer (mkAbort true k.id reason)])

/-- the promotion of the cached segmentation support in `ServerSSM.idle` -/
def promote (sa : Bool) (di : Option DeviceInfo) : Option DeviceInfo :=
  match di with
  | none => none
  | some d =>
    if sa then
      match d.seg with
      | .no => some { d with seg := .rx }
      | .tx => some { d with seg := .both }
      | _ => some d
    else some d

/-- the client's maximum APDU the server works with: the value decoded from
    the request header; a cached (I-Am / device object) value can only LOWER
    it (fix Tsm-10: it used to raise it as well) -/
def announcedMax (di : Option DeviceInfo) (m : Nat) : Nat :=
  match di with
  | some d =>
    match d.maxApdu with
    | some dm => if dm < m then dm else m
    | none => m
  | none => m

/-- `ServerSSM.idle(apdu)` for a fresh transaction `b` (key already = (source,
    invoke ID)); `di` is the record AFTER `promote`. -/
def serverIdle (cfg : Cfg) (now : Nat) (di : Option DeviceInfo) (k : Key) (b : Body)
    (a : Apdu) : Res :=
  let b := { b with sra := a.sa }
  match decodeMaxApdu a.maxResp with
  | none => serverAbortNet k abortOther                        -- fix Tsm-4
  | some m =>
    let b := { b with maxApdu := announcedMax di m, maxSegs := decodeMaxSegs a.maxSegs, announced := m }
    if !a.seg then
      (some { b with st := .awaitResp, timer := stateTimer now cfg.appTimeout },
       [.indicate k.peer a])
    else if !cfg.seg.canRx then serverAbortNet k abortSegmentationNotSupported
    else if a.seq ≠ 0 then serverAbortNet k abortInvalidApduInThisState   -- fix C05-server-first-segment-seq0
    else
      let w := min a.win cfg.window
      (some { b with ctx := some a, window := some w, lastSeq := 0, initSeq := 0,
                     st := .segReq, timer := stateTimer now (cfg.segTimeout * 4) },
       [.send k.peer (mkSegAck false true k.id 0 w)])

/-- `ServerSSM.segmented_request(apdu)` -/
def serverSegmentedRequest (cfg : Cfg) (now : Nat) (k : Key) (b : Body) (a : Apdu) : Res :=
  if a.ty = 7 then (none, [.send k.peer a])
  else if a.ty ≠ 0 then serverAbortBoth k abortInvalidApduInThisState
  else if !a.seg then serverAbortBoth k abortInvalidApduInThisState
  else
    match b.window with
    | none => (some b, [.raised .typeError])      -- unreachable: set on entry to the state
    | some w =>
      if a.seq ≠ (b.lastSeq + 1) % 256 then
        (some { b with timer := arm now (cfg.segTimeout * 4) },
         [.send k.peer (mkSegAck true true k.id b.initSeq w)])
      else
        match b.ctx with
        | none => (some b, [.raised .noContext])
        | some c =>
          let c := { c with data := c.data ++ a.data }
          let b := { b with ctx := some c, lastSeq := (b.lastSeq + 1) % 256 }
          if !a.mor then
            (some { b with st := .awaitResp, timer := stateTimer now cfg.appTimeout },
             [.send k.peer (mkSegAck false true k.id b.lastSeq w), .indicate k.peer c])
          else if a.seq = (b.initSeq + w) % 256 then
            let b := { b with initSeq := b.lastSeq, timer := arm now (cfg.segTimeout * 4) }
            (some b, [.send k.peer (mkSegAck false true k.id b.initSeq w)])
          else
            (some { b with timer := arm now (cfg.segTimeout * 4) }, [])

/-- `ServerSSM.await_response(apdu)` -/
def serverAwaitResponse (k : Key) (b : Body) (a : Apdu) : Res :=
  if a.ty = 0 then (some b, [])
  else if a.ty = 7 then (none, [.indicate k.peer a])
  else (some b, [.raised (.invalidApdu 6)])

/-- `ServerSSM.segmented_response(apdu)` -/
def serverSegmentedResponse (cfg : Cfg) (now : Nat) (k : Key) (b : Body) (a : Apdu) : Res :=
  if a.ty = 4 then
    let b := { b with window := some a.win }
    if !inWindow a.seq b.initSeq a.win then
      (some { b with timer := arm now cfg.segTimeout }, [])
    else if ackedIndex b a.seq + 1 ≥ b.segCount then (none, [])    -- fix Tsm-9: final ack
    else
      let b := { b with initSeq := ackedIndex b a.seq + 1, segRetry := 0 }
      let f := fillWindow cfg k b b.initSeq
      let b := { b with sentAll := b.sentAll || f.all }
      match f.err with
      | some r => (some b, sends k.peer f.sent ++ [.raised r])
      | none => (some { b with timer := arm now cfg.segTimeout }, sends k.peer f.sent)
  else if a.ty = 7 then (none, [.send k.peer a])
  else (some b, [.raised (.invalidApdu 7)])

/-- `ServerSSM.indication(apdu)` for a transaction already in the list -/
def serverIndication (cfg : Cfg) (now : Nat) (k : Key) (b : Body) (a : Apdu) : Res :=
  match b.st with
  | .segReq => serverSegmentedRequest cfg now k b a
  | .awaitResp => serverAwaitResponse k b a
  | .segResp => serverSegmentedResponse cfg now k b a
  | _ => (some b, [])            -- "invalid state": logged only

/-- `(self.maxSegmentsAccepted is not None) and (self.segmentCount > self.maxSegmentsAccepted)` -/
def exceeds : Option Nat → Nat → Bool
  | some n, count => count > n
  | none, _ => false

/-- the largest APDU the server may send: the client's maximum, capped by the
    cached `maxNpduLength` when known -/
def serverMaxApdu (npdu : Option Nat) (m : Nat) : Nat :=
  match npdu with
  | none => m
  | some n => min n m

/-- `ServerSSM.confirmation(apdu)`: the application's answer.  `npdu` is the
    cached `maxNpduLength` of the client (if the transaction holds a record). -/
def serverConfirmation (cfg : Cfg) (now : Nat) (npdu : Option Nat) (k : Key) (b : Body)
    (a : Apdu) : Res :=
  if a.ty = 7 then (none, [.send k.peer a])
  else if a.ty = 2 || a.ty = 5 || a.ty = 6 then (none, [.send k.peer a])
  else if a.ty = 3 then
    let b := { b with ctx := some a }
    match setSegmentSize a.data.length (serverMaxApdu npdu b.maxApdu) 3 5 with
    | none => serverAbortNet k abortApduTooLong
    | some (size, count) =>
      let b := { b with segSize := size, segCount := count }
      if count > 1 && !cfg.seg.canTx then serverAbortNet k abortSegmentationNotSupported
      else if count > 1 && !b.sra then serverAbortNet k abortSegmentationNotSupported
      else if count > 1 && exceeds b.maxSegs count then serverAbortNet k abortApduTooLong
      else
        let b := { b with segRetry := 0, initSeq := 0, window := none }
        if count = 1 then (none, [.send k.peer a])
        else
          match getSegment cfg k b 0 0 with
          | .ok seg =>
            (some { b with st := .segResp, timer := stateTimer now cfg.segTimeout },
             [.send k.peer seg])
          | .error r => (some b, [.raised r])
  else (some b, [.raised (.invalidApdu 4)])

/-- `ServerSSM.process_task()`; the caller has already cleared the fired timer -/
def serverTimeout (cfg : Cfg) (now : Nat) (k : Key) (b : Body) : Res :=
  match b.st with
  | .segReq => (none, [])
  | .awaitResp => (none, [.indicate k.peer (mkAbort true k.id abortServerTimeout)])
  | .segResp =>
    if b.segRetry < cfg.retries then
      let b := { b with segRetry := b.segRetry + 1, timer := arm now cfg.segTimeout }
      if b.initSeq = 0 then                                      -- fix Tsm-2
        match getSegment cfg k b 0 0 with
        | .ok seg => (some b, [.send k.peer seg])
        | .error r => (some b, [.raised r])
      else
        let f := fillWindow cfg k b b.initSeq
        (some { b with sentAll := b.sentAll || f.all }, sends k.peer f.sent ++ raisedOf f.err)
    else (none, [])
  | _ => (some b, [.raised .invalidState])

end BacVerif.Tsm
