/-
  Model.Tsm.Cache — `app.DeviceInfoCache` (py34/bacpypes/app.py, tree after
  fixes Tsm-5, Tsm-6, Tsm-11): the bookkeeping behind the `devInfo` view of
  `Model.Tsm.Sap`.

  The cache is one Python dict holding BOTH kinds of keys (device instance
  numbers and addresses) pointing at shared, mutable record objects.  Record
  identity = index into `recs`; the dict = association list `map`.

    iam_device_info(apdu)      `iam`
    update_device_info(rec)    `updateDeviceInfo`
    get_device_info(key)       `lookup`
    acquire(key) / release(rec)  `acquire` / `release` (reference counts)

  Core Lean only.
-/
import BacVerif.Model.Tsm.Types
namespace BacVerif.Tsm.Cache

/-- a key of the cache dict: a device instance number or an address -/
inductive CKey
  | inst (i : Nat)
  | addr (a : Peer)
deriving DecidableEq, Repr, Inhabited

/-- one `DeviceInfo` object -/
structure Rec where
  id : Nat                               -- deviceIdentifier
  addr : Peer                            -- address
  info : DeviceInfo := {}
  refs : Nat := 0                        -- _ref_count
  keys : Option (Nat × Peer) := none     -- _cache_keys
deriving DecidableEq, Repr, Inhabited

structure Cache where
  recs : List Rec := []                  -- the record objects, by identity
  map : List (CKey × Nat) := []          -- the dict
deriving DecidableEq, Repr, Inhabited

/-- `dict.get(k)` -/
def get : List (CKey × Nat) → CKey → Option Nat
  | [], _ => none
  | (k', j) :: rest, k => if k' = k then some j else get rest k

/-- `dict[k] = j` -/
def put : List (CKey × Nat) → CKey → Nat → List (CKey × Nat)
  | [], k, j => [(k, j)]
  | (k', j') :: rest, k, j => if k' = k then (k, j) :: rest else (k', j') :: put rest k j

/-- `del dict[k]` (the code only deletes a key it has just looked up) -/
def del : List (CKey × Nat) → CKey → List (CKey × Nat)
  | [], _ => []
  | (k', j') :: rest, k => if k' = k then rest else (k', j') :: del rest k

/-- `get_device_info(key)` -/
def Cache.lookup (c : Cache) (k : CKey) : Option Rec :=
  match get c.map k with
  | none => none
  | some j => c.recs[j]?

/-- a key the record has given up is removed unless another record took it over -/
def dropOld (m : List (CKey × Nat)) (j : Nat) (old new : CKey) : List (CKey × Nat) :=
  if old ≠ new ∧ get m old = some j then del m old else m

/-- `update_device_info(record j)` (fix Tsm-11: stale keys are only removed while
    they still point at this record; both current keys are always (re)assigned) -/
def updateDeviceInfo (c : Cache) (j : Nat) : Cache :=
  match c.recs[j]? with
  | none => c
  | some r =>
    let m1 := match r.keys with
      | none => c.map
      | some (cid, caddr) =>
        dropOld (dropOld c.map j (.inst cid) (.inst r.id)) j (.addr caddr) (.addr r.addr)
    let m2 := put (put m1 (.inst r.id) j) (.addr r.addr) j
    { recs := c.recs.set j { r with keys := some (r.id, r.addr) }, map := m2 }

/-- the record `iam_device_info` works on: by instance, else by address, else new -/
def findOrNew (c : Cache) (i : Nat) (a : Peer) : Cache × Nat :=
  match get c.map (.inst i) with
  | some j => (c, j)
  | none =>
    match get c.map (.addr a) with
    | some j => (c, j)
    | none => ({ c with recs := c.recs ++ [{ id := i, addr := a }] }, c.recs.length)

/-- "jam in the correct values": identifier, address, max APDU, segmentation
    (max-segments and NPDU limit are not in an I-Am and are kept) -/
def Rec.announce (r : Rec) (i : Nat) (a : Peer) (maxApdu : Nat) (seg : SegSup) : Rec :=
  { r with id := i, addr := a, info := { r.info with maxApdu := some maxApdu, seg := seg } }

/-- `iam_device_info(I-Am of instance i from address a announcing maxApdu, seg)` -/
def iam (c : Cache) (i : Nat) (a : Peer) (maxApdu : Nat) (seg : SegSup) : Cache :=
  let (c1, j) := findOrNew c i a
  match c1.recs[j]? with
  | none => c1
  | some r => updateDeviceInfo { c1 with recs := c1.recs.set j (r.announce i a maxApdu seg) } j

/-- `acquire(key)`: bump the reference count of the record under the key -/
def acquire (c : Cache) (k : CKey) : Cache × Option Nat :=
  match get c.map k with
  | none => (c, none)
  | some j =>
    match c.recs[j]? with
    | none => (c, none)
    | some r => ({ c with recs := c.recs.set j { r with refs := r.refs + 1 } }, some j)

/-- `release(record j)`: `none` = RuntimeError("reference count") -/
def release (c : Cache) (j : Nat) : Option Cache :=
  match c.recs[j]? with
  | none => none
  | some r => if r.refs = 0 then none else some { c with recs := c.recs.set j { r with refs := r.refs - 1 } }

/-- every dict entry points at an existing record -/
def WF (c : Cache) : Prop := ∀ p ∈ c.map, p.2 < c.recs.length

end BacVerif.Tsm.Cache
