/-
  Model.Bip — the BACnet/IP virtual link layer of py34/bacpypes/bvllservice.py
  (BIPSimple, BIPForeign, BIPBBMD: `indication` = request from the network
  layer above, `confirmation` = decoded BVLL message from below, the timers)
  and the IP network semantics of py34/bacpypes/vlan.py (IPNetwork.process_pdu,
  IPRouter.process_pdu) seen through a UDPMultiplexer-like binding
  (tests/test_bvll/helpers.py: FauxMultiplexer).

  Branch for branch; messages are DECODED BVLL messages (the octet codec is
  C09's model).  Core Lean only.

  Time is `Nat` microseconds.  The 1 s ageing `RecurringTask` of the BBMD is
  the event `tick`; the foreign device's renewal `OneShotTask` and its
  registration-expiry `OneShotFunction` are the deadlines `renewAt` /
  `expireAt` and the events `renewFire` / `expireFire`.
-/
namespace BacVerif.Bip

abbrev Data := List UInt8

/-- a B/IP address: IPv4 address as a number and UDP port (`Address.addrTuple`) -/
structure Addr where
  ip : Nat
  port : Nat
deriving DecidableEq, Repr, Inhabited

/-- `pduDestination` as the B/IP layer looks at it (`addrType`) -/
inductive Dest
  | station (a : Addr)     -- Address.localStationAddr
  | bcast                  -- Address.localBroadcastAddr
  | other                  -- any other address type, or None
deriving DecidableEq, Repr, Inhabited

/-- a BDT entry: an `Address` with its `addrMask` -/
structure BdtEntry where
  addr : Addr
  mask : Nat
deriving DecidableEq, Repr, Inhabited

/-- `bvll.FDTEntry` -/
structure FdtEntry where
  addr : Addr
  ttl : Nat
  remain : Nat
deriving DecidableEq, Repr, Inhabited

/-- decoded BVLL messages (`bvll.py`), `unknown` = any other PDU class -/
inductive Bvll
  | result (code : Nat)
  | writeBdt (bdt : List BdtEntry)
  | readBdt
  | readBdtAck (bdt : List BdtEntry)
  | forwarded (origin : Addr) (data : Data)
  | registerFd (ttl : Nat)
  | readFdt
  | readFdtAck (fdt : List FdtEntry)
  | deleteFdt (addr : Addr)
  | distribute (data : Data)
  | origUnicast (data : Data)
  | origBroadcast (data : Data)
  | unknown
deriving DecidableEq, Repr, Inhabited

/-- what one call into a B/IP layer does to its neighbours, in order -/
inductive Out
  | send (dst : Dest) (m : Bvll)               -- `self.request(xpdu)` (downstream)
  | up (src : Addr) (dst : Dest) (data : Data) -- `self.response(xpdu)` (to the network layer)
  | sap (src : Addr) (m : Bvll)                -- `self.sap_response(pdu)`
  | warn                                        -- `_warning(...)`, nothing else happens
  | raised (what : String)                      -- a Python exception leaves the call
deriving DecidableEq, Repr, Inhabited

/-- `Result(code=…)` back to the requester -/
def nak (src : Addr) (code : Nat) : List Out := [.send (.station src) (.result code)]

/-! ## BIPSimple -/

/-- `BIPSimple.indication` -/
def simpleDown (dst : Dest) (data : Data) : List Out :=
  match dst with
  | .station a => [.send (.station a) (.origUnicast data)]
  | .bcast => [.send .bcast (.origBroadcast data)]
  | .other => [.warn]

/-- `BIPSimple.confirmation` -/
def simpleUp (src : Addr) (dst : Dest) (m : Bvll) : List Out :=
  match m with
  | .result _ => [.sap src m]
  | .readBdtAck _ => [.sap src m]
  | .readFdtAck _ => [.sap src m]
  | .origUnicast d => [.up src dst d]
  | .origBroadcast d => [.up src .bcast d]
  | .forwarded o d => [.up o .bcast d]
  | .writeBdt _ => nak src 0x0010
  | .readBdt => nak src 0x0020
  | .registerFd _ => nak src 0x0030
  | .readFdt => nak src 0x0040
  | .deleteFdt _ => nak src 0x0050
  | .distribute _ => nak src 0x0060
  | .unknown => [.warn]

/-! ## BIPForeign -/

structure Foreign where
  /-- -2 unregistered, -1 not attempted / no ack, 0 OK, >0 error code -/
  status : Int := -1
  bbmd : Option Addr := none
  ttl : Option Nat := none
  /-- scheduled time of the renewal task (`install_task(when=0)` = 0 = at once) -/
  renewAt : Option Nat := none
  /-- scheduled time of `_registration_timeout_task` -/
  expireAt : Option Nat := none
deriving DecidableEq, Repr, Inhabited

def optDest : Option Addr → Dest
  | some a => .station a
  | none => .other

def second : Nat := 1000000

/-- `BIPForeign.indication` -/
def foreignDown (f : Foreign) (dst : Dest) (data : Data) : List Out :=
  match dst with
  | .station a => [.send (.station a) (.origUnicast data)]
  | .bcast =>
      if f.status ≠ 0 then []
      else [.send (optDest f.bbmd) (.distribute data)]
  | .other => [.warn]

/-- `BIPForeign.confirmation` -/
def foreignUp (now : Nat) (f : Foreign) (src : Addr) (dst : Dest) (m : Bvll) : Foreign × List Out :=
  match m with
  | .result code =>
      if f.status = -2 then (f, [])
      else match f.bbmd with
        | none => (f, [.raised "TypeError"])        -- `pdu.pduSource != None` → Address(None)
        | some b =>
          if src ≠ b then (f, [])
          else if code = 0 then
            -- `_start_track_registration`: install_task(delta = ttl + 30)
            ({ f with status := 0, expireAt := some (now + ((f.ttl.getD 0) + 30) * second) }, [])
          else ({ f with status := (code : Int) }, [])
  | .origUnicast d => (f, [.up src dst d])
  | .forwarded o d =>
      if f.status ≠ 0 then (f, [])
      else if some src ≠ f.bbmd then (f, [])
      else (f, [.up o .bcast d])
  | .readBdtAck _ => (f, [.sap src m])
  | .readFdtAck _ => (f, [.sap src m])
  | .writeBdt _ => (f, nak src 0x0010)
  | .readBdt => (f, nak src 0x0020)
  | .registerFd _ => (f, nak src 0x0030)
  | .readFdt => (f, nak src 0x0040)
  | .deleteFdt _ => (f, nak src 0x0050)
  | .distribute _ => (f, nak src 0x0060)
  | .origBroadcast _ => (f, [])
  | .unknown => (f, [.warn])

/-- `BIPForeign.register(addr, ttl)`; `ttl <= 0` raises ValueError.
    (after fixes/C13-reregister-after-unregister.patch: a new registration starts
    unacknowledged, `status := -1`; before it `status` was left alone, so that after
    `unregister()` — status -2 — every later acknowledgement was ignored) -/
def foreignRegister (f : Foreign) (a : Addr) (ttl : Int) : Foreign × List Out :=
  if ttl ≤ 0 then (f, [.raised "ValueError"])
  else ({ f with status := -1, bbmd := some a, ttl := some ttl.toNat, renewAt := some 0, expireAt := none }, [])

/-- `BIPForeign.unregister()` -/
def foreignUnregister (f : Foreign) : Foreign × List Out :=
  ({ status := -2, bbmd := none, ttl := none, renewAt := none, expireAt := none },
   [.send (optDest f.bbmd) (.registerFd 0)])

/-- `BIPForeign.process_task()` — the renewal task fires at `now` -/
def foreignRenew (now : Nat) (f : Foreign) : Foreign × List Out :=
  match f.bbmd, f.ttl with
  | some b, some t => ({ f with renewAt := some (now + t * second) }, [.send (.station b) (.registerFd t)])
  | _, _ => (f, [.raised "unscheduled"])

/-- `BIPForeign._registration_expired()` -/
def foreignExpire (f : Foreign) : Foreign := { f with status := -1, expireAt := none }

/-! ## BIPBBMD -/

structure Bbmd where
  addr : Addr
  bdt : List BdtEntry := []
  fdt : List FdtEntry := []
  /-- `self.serverPeer` is bound -/
  hasUpper : Bool := true
deriving DecidableEq, Repr, Inhabited

/-- `Address(((bdte.addrIP|~bdte.addrMask), bdte.addrPort))` -/
def dirBcast (e : BdtEntry) : Addr :=
  ⟨(e.addr.ip ||| (4294967295 - e.mask % 4294967296)) % 4294967296, e.addr.port⟩

/-- `register_foreign_device`: first entry with that address is re-timed, else append -/
def fdtRegister : List FdtEntry → Addr → Nat → List FdtEntry
  | [], a, t => [⟨a, t, t + 5⟩]
  | e :: es, a, t =>
      if e.addr = a then { e with ttl := t, remain := t + 5 } :: es
      else e :: fdtRegister es a t

/-- `delete_foreign_device_table_entry`: the LAST entry with that address goes;
    `none` = not found (status 0x0050) -/
def fdtDelete : List FdtEntry → Addr → Option (List FdtEntry)
  | [], _ => none
  | e :: es, a =>
      match fdtDelete es a with
      | some es' => some (e :: es')
      | none => if e.addr = a then some es else none

/-- `BIPBBMD.process_task`: every entry loses one second, gone at `<= 0` -/
def fdtTick (fdt : List FdtEntry) : List FdtEntry :=
  fdt.filterMap fun e => if e.remain ≤ 1 then none else some { e with remain := e.remain - 1 }

/-- `add_peer` -/
def bdtAdd (bdt : List BdtEntry) (e : BdtEntry) : List BdtEntry :=
  if bdt.any (fun x => x.addr = e.addr) then bdt else bdt ++ [e]

/-- `delete_peer`: the last entry with that address goes -/
def bdtDelete : List BdtEntry → Addr → Option (List BdtEntry)
  | [], _ => none
  | e :: es, a =>
      match bdtDelete es a with
      | some es' => some (e :: es')
      | none => if e.addr = a then some es else none

/-- the peers loop of `indication` / OriginalBroadcast: every entry except oneself -/
def toPeers (b : Bbmd) (m : Bvll) : List Out :=
  (b.bdt.filter fun e => e.addr ≠ b.addr).map fun e => .send (.station (dirBcast e)) m

/-- the peers loop of Distribute-Broadcast: local broadcast for the own entry -/
def toPeersAndSelf (b : Bbmd) (m : Bvll) : List Out :=
  b.bdt.map fun e => if e.addr = b.addr then .send .bcast m else .send (.station (dirBcast e)) m

def toFdt (fdt : List FdtEntry) (m : Bvll) : List Out :=
  fdt.map fun f => .send (.station f.addr) m

def upIf (b : Bbmd) (o : Out) : List Out := if b.hasUpper then [o] else []

/-- `BIPBBMD.indication` -/
def bbmdDown (b : Bbmd) (dst : Dest) (data : Data) : List Out :=
  match dst with
  | .station a => [.send (.station a) (.origUnicast data)]
  | .bcast =>
      .send .bcast (.origBroadcast data)
        :: (toPeers b (.forwarded b.addr data) ++ toFdt b.fdt (.forwarded b.addr data))
  | .other => [.warn]

/-- `BIPBBMD.confirmation` -/
def bbmdUp (b : Bbmd) (src : Addr) (dst : Dest) (m : Bvll) : Bbmd × List Out :=
  match m with
  | .result _ => (b, [.sap src m])
  | .writeBdt _ => (b, nak src 0x0010)
  | .readBdt => (b, [.send (.station src) (.readBdtAck b.bdt)])
  | .readBdtAck _ => (b, [.sap src m])
  | .forwarded o d =>
      (b, upIf b (.up o .bcast d)
          ++ (match dst with
              | .station _ => if b.bdt.any (fun e => e.addr = b.addr) then [.send .bcast (.forwarded o d)] else []
              | .bcast => []
              | .other => [.warn])
          ++ toFdt b.fdt (.forwarded o d))
  | .registerFd ttl =>
      ({ b with fdt := fdtRegister b.fdt src ttl }, [.send (.station src) (.result 0)])
  | .readFdt => (b, [.send (.station src) (.readFdtAck b.fdt)])
  | .readFdtAck _ => (b, [.sap src m])
  | .deleteFdt a =>
      match fdtDelete b.fdt a with
      | some fdt' => ({ b with fdt := fdt' }, [.send (.station src) (.result 0)])
      | none => (b, [.send (.station src) (.result 0x0050)])
  | .distribute d =>
      (b, upIf b (.up src .bcast d)
          ++ toPeersAndSelf b (.forwarded src d)
          ++ toFdt (b.fdt.filter fun f => f.addr ≠ src) (.forwarded src d))
  | .origUnicast d => (b, upIf b (.up src dst d))
  | .origBroadcast d =>
      (b, upIf b (.up src .bcast d)
          ++ toPeers b (.forwarded src d) ++ toFdt b.fdt (.forwarded src d))
  | .unknown => (b, [.warn])

def bbmdTick (b : Bbmd) : Bbmd := { b with fdt := fdtTick b.fdt }

/-! ## one B/IP layer of any kind -/

inductive Kind
  | simple
  | foreign (f : Foreign)
  | bbmd (b : Bbmd)
deriving DecidableEq, Repr, Inhabited

/-- events of the component-level lockstep -/
inductive Ev
  | down (dst : Dest) (data : Data)
  | up (now : Nat) (src : Addr) (dst : Dest) (m : Bvll)
  | tick
  | addPeer (e : BdtEntry)
  | delPeer (a : Addr)
  | register (a : Addr) (ttl : Int)
  | unregister
  | renewFire (now : Nat)
  | expireFire
deriving Repr

/-- `confirmation` of any kind -/
def Kind.up (now : Nat) : Kind → Addr → Dest → Bvll → Kind × List Out
  | .simple, s, d, m => (.simple, simpleUp s d m)
  | .foreign f, s, d, m => let r := foreignUp now f s d m; (.foreign r.1, r.2)
  | .bbmd b, s, d, m => let r := bbmdUp b s d m; (.bbmd r.1, r.2)

/-- `indication` of any kind (never changes state) -/
def Kind.down : Kind → Dest → Data → List Out
  | .simple, d, x => simpleDown d x
  | .foreign f, d, x => foreignDown f d x
  | .bbmd b, d, x => bbmdDown b d x

/-- the step function of the lockstep; an event that does not apply to the kind
    is reported as `raised "n/a"` (the harness never sends one) -/
def bipStep (k : Kind) (e : Ev) : Kind × List Out :=
  match e, k with
  | .down d x, k => (k, k.down d x)
  | .up now s d m, k => k.up now s d m
  | .tick, .bbmd b => (.bbmd (bbmdTick b), [])
  | .addPeer e, .bbmd b => (.bbmd { b with bdt := bdtAdd b.bdt e }, [])
  | .delPeer a, .bbmd b =>
      (match bdtDelete b.bdt a with
       | some l => (.bbmd { b with bdt := l }, [])
       | none => (.bbmd b, []))
  | .register a t, .foreign f => let r := foreignRegister f a t; (.foreign r.1, r.2)
  | .unregister, .foreign f => let r := foreignUnregister f; (.foreign r.1, r.2)
  | .renewFire now, .foreign f => let r := foreignRenew now f; (.foreign r.1, r.2)
  | .expireFire, .foreign f => (.foreign (foreignExpire f), [])
  | _, k => (k, [.raised "n/a"])

/-! ## the IP networks (vlan.IPNetwork / IPNode / IPRouter) -/

/-- an `IPRouterNode`: its own address, `addrMask`, `addrSubnet` -/
structure Port where
  raddr : Addr
  mask : Nat
  subnet : Nat
deriving DecidableEq, Repr, Inhabited

structure Node where
  addr : Addr
  st : Kind
deriving DecidableEq, Repr, Inhabited

/-- an `IPNetwork`; the router port (if any) was attached before the nodes -/
structure Net where
  id : Nat
  bcast : Addr             -- `broadcast_address`
  router : Option Port
  nodes : List Node
deriving DecidableEq, Repr, Inhabited

structure World where
  nets : List Net
  now : Nat := 0
  /-- next firing of the BBMDs' 1 s ageing task -/
  nextTick : Nat := 0
deriving Repr, Inhabited

/-- a datagram handed to `IPNetwork.process_pdu` of net `net` -/
structure Dgram where
  net : Nat
  src : Addr
  dst : Addr
  msg : Bvll
deriving DecidableEq, Repr, Inhabited

/-- what the harness observes above the B/IP layers -/
inductive Obs
  | up (node : Addr) (src : Addr) (dst : Dest) (data : Data)
  | sap (node : Addr) (src : Addr) (m : Bvll)
  | err (node : Addr) (what : String)
deriving DecidableEq, Repr, Inhabited

/-- `(ipaddr & inode.addrMask) == inode.addrSubnet` -/
def Port.covers (p : Port) (a : Addr) : Bool := (a.ip &&& p.mask) = p.subnet

def Net.covers (n : Net) (a : Addr) : Bool :=
  match n.router with
  | some p => p.covers a
  | none => false

/-- `IPRouter.process_pdu`: every OTHER attached network whose subnet matches -/
def routerOuts (nets : List Net) (n : Net) (d : Dgram) : List Dgram :=
  (nets.filter fun n' => n'.id ≠ n.id ∧ n'.covers d.dst).map fun n' => { d with net := n'.id }

/-- does `Network.process_pdu` hand the datagram to a node with address `a`? -/
def hits (n : Net) (d : Dgram) (a : Addr) : Bool :=
  if d.dst = n.bcast then a ≠ d.src else a = d.dst

/-- destination as the multiplexer reports it upward -/
def seenDst (n : Net) (d : Dgram) : Dest := if d.dst = n.bcast then .bcast else .station d.dst

/-- the multiplexer below a B/IP layer turns `Out`s into datagrams / observations -/
def outDgrams (n : Net) (a : Addr) : List Out → List Dgram
  | [] => []
  | .send .bcast m :: r => ⟨n.id, a, n.bcast, m⟩ :: outDgrams n a r
  | .send (.station x) m :: r => ⟨n.id, a, x, m⟩ :: outDgrams n a r
  | _ :: r => outDgrams n a r

def outObs (a : Addr) : List Out → List Obs
  | [] => []
  | .up s d x :: r => .up a s d x :: outObs a r
  | .sap s m :: r => .sap a s m :: outObs a r
  | .raised w :: r => .err a w :: outObs a r
  | .send .other _ :: r => .err a "RuntimeError" :: outObs a r   -- the multiplexer refuses the address type
  | _ :: r => outObs a r

/-- the nodes of one network receive a datagram, in attachment order -/
def recvNodes (now : Nat) (n : Net) (d : Dgram) : List Node → List Node × List Obs × List Dgram
  | [] => ([], [], [])
  | nd :: rest =>
      let r := recvNodes now n d rest
      if hits n d nd.addr then
        let s := nd.st.up now d.src (seenDst n d) d.msg
        ({ nd with st := s.1 } :: r.1, outObs nd.addr s.2 ++ r.2.1, outDgrams n nd.addr s.2 ++ r.2.2)
      else (nd :: r.1, r.2.1, r.2.2)

/-- does the (promiscuous) router port of `n` see the datagram? -/
def routerSees (n : Net) (d : Dgram) : Bool :=
  match n.router with
  | some p => if d.dst = n.bcast then p.raddr ≠ d.src else true
  | none => false

/-- `IPNetwork.process_pdu` of network `n` -/
def netRecv (now : Nat) (nets : List Net) (n : Net) (d : Dgram) : Net × List Obs × List Dgram :=
  let r := recvNodes now n d n.nodes
  ({ n with nodes := r.1 }, r.2.1,
   (if routerSees n d then routerOuts nets n d else []) ++ r.2.2)

/-- one datagram is processed by the network it was put on -/
def processNets (now : Nat) (all : List Net) (d : Dgram) : List Net → List Net × List Obs × List Dgram
  | [] => ([], [], [])
  | n :: rest =>
      let r := processNets now all d rest
      if n.id = d.net then
        let s := netRecv now all n d
        (s.1 :: r.1, s.2.1 ++ r.2.1, s.2.2 ++ r.2.2)
      else (n :: r.1, r.2.1, r.2.2)

def World.process (w : World) (d : Dgram) : World × List Obs × List Dgram :=
  let r := processNets w.now w.nets d w.nets
  ({ w with nets := r.1 }, r.2.1, r.2.2)

/-- one generation of the FIFO queue of zero-delay delivery tasks -/
def World.gen (w : World) : List Dgram → World × List Obs × List Dgram
  | [] => (w, [], [])
  | d :: q =>
      let r := w.process d
      let s := World.gen r.1 q
      (s.1, r.2.1 ++ s.2.1, r.2.2 ++ s.2.2)

/-- run the queue until it is empty; `false` = fuel exhausted with datagrams left -/
def World.run : Nat → World → List Dgram → World × List Obs × Bool
  | _, w, [] => (w, [], true)
  | 0, w, _ :: _ => (w, [], false)
  | f + 1, w, q@(_ :: _) =>
      let r := w.gen q
      let s := World.run f r.1 r.2.2
      (s.1, r.2.1 ++ s.2.1, s.2.2)

/-! ### operations on a node of the world -/

/-- apply a local operation to the node with address `a` (first match) -/
def actNodes (a : Addr) (f : Kind → Kind × List Out) (n : Net) :
    List Node → List Node × List Obs × List Dgram
  | [] => ([], [], [])
  | nd :: rest =>
      if nd.addr = a then
        let s := f nd.st
        ({ nd with st := s.1 } :: rest, outObs a s.2, outDgrams n a s.2)
      else
        let r := actNodes a f n rest
        (nd :: r.1, r.2.1, r.2.2)

def actNets (a : Addr) (f : Kind → Kind × List Out) : List Net → List Net × List Obs × List Dgram
  | [] => ([], [], [])
  | n :: rest =>
      if n.nodes.any (fun nd => nd.addr = a) then
        let s := actNodes a f n n.nodes
        ({ n with nodes := s.1 } :: rest, s.2.1, s.2.2)
      else
        let r := actNets a f rest
        (n :: r.1, r.2.1, r.2.2)

/-- depth bound of every run: generations of the delivery queue -/
def fuel : Nat := 16

/-- node `a` performs `f`, then the network runs until quiet -/
def World.act (w : World) (a : Addr) (f : Kind → Kind × List Out) : World × List Obs × Bool :=
  let r := actNets a f w.nets
  let s := World.run fuel { w with nets := r.1 } r.2.2
  (s.1, r.2.1 ++ s.2.1, s.2.2)

/-- the network layer of node `a` sends a local broadcast -/
def World.broadcast (w : World) (a : Addr) (data : Data) : World × List Obs × Bool :=
  w.act a fun k => (k, k.down .bcast data)

/-- the network layer of node `a` sends a unicast -/
def World.unicast (w : World) (a to : Addr) (data : Data) : World × List Obs × Bool :=
  w.act a fun k => (k, k.down (.station to) data)

/-- the service element of node `a` sends a BVLL request (`BIPSAP.sap_indication`) -/
def World.sapSend (w : World) (a to : Addr) (m : Bvll) : World × List Obs × Bool :=
  w.act a fun k => (k, [.send (.station to) m])

/-! ### timers of the world -/

def mapKinds (f : Kind → Kind) (w : World) : World :=
  { w with nets := w.nets.map fun n => { n with nodes := n.nodes.map fun nd => { nd with st := f nd.st } } }

def tickKind : Kind → Kind
  | .bbmd b => .bbmd (bbmdTick b)
  | k => k

/-- earliest foreign-device deadline `(time, addr, isExpiry)`; renewals before
    expiries at the same instant (they commute, see notes) -/
def fdDeadlines (w : World) : List (Nat × Addr × Bool) :=
  w.nets.flatMap fun n => n.nodes.flatMap fun nd =>
    match nd.st with
    | .foreign f =>
        (match f.renewAt with | some t => [(t, nd.addr, false)] | none => [])
        ++ (match f.expireAt with | some t => [(t, nd.addr, true)] | none => [])
    | _ => []

def minDeadline : List (Nat × Addr × Bool) → Option (Nat × Addr × Bool)
  | [] => none
  | x :: r =>
      match minDeadline r with
      | none => some x
      | some y => if y.1 < x.1 then some y else some x

/-- advance virtual time to `t`, firing every due timer in time order -/
def World.advance : Nat → World → Nat → World × List Obs × Bool
  | 0, w, _ => (w, [], false)
  | f + 1, w, t =>
      let fd := minDeadline (fdDeadlines w)
      let fdDue : Bool := match fd with | some (tt, _, _) => decide (tt ≤ t) | none => false
      let fdT := match fd with | some (tt, _, _) => tt | none => 0
      if fdDue = true ∧ fdT < w.nextTick then
        match fd with
        | some (tt, a, isExp) =>
            let w1 := { w with now := max w.now tt }
            let r := if isExp then w1.act a (fun k => match k with
                        | .foreign s => (.foreign (foreignExpire s), [])
                        | k => (k, []))
                     else w1.act a (fun k => match k with
                        | .foreign s => let x := foreignRenew w1.now s; (.foreign x.1, x.2)
                        | k => (k, []))
            let s := World.advance f r.1 t
            (s.1, r.2.1 ++ s.2.1, r.2.2 && s.2.2)
        | none => (w, [], false)
      else if w.nextTick ≤ t then
        let w1 := mapKinds tickKind { w with now := w.nextTick, nextTick := w.nextTick + second }
        World.advance f w1 t
      else ({ w with now := max w.now t }, [], true)

/-- remove the node with address `a` from its network (`Network.remove_node`) -/
def World.detach (w : World) (a : Addr) : World :=
  { w with nets := w.nets.map fun n => { n with nodes := n.nodes.filter fun nd => nd.addr ≠ a } }

def World.findKind (w : World) (a : Addr) : Option Kind :=
  (w.nets.flatMap fun n => n.nodes).find? (fun nd => nd.addr = a) |>.map (·.st)

end BacVerif.Bip
