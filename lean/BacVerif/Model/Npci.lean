/-
  Model.Npci — the BACnet network layer codec of py34/bacpypes/npdu.py,
  transcribed branch for branch:

    NPCI.encode / NPCI.decode          → `encodeNpci` / `decodeNpci`
    NPDU.encode / NPDU.decode          → `encodeNpdu` / `decodeNpdu`
    the twelve message classes         → `NetMsg`, `encodeBody` / `decodeBody`
    register_npdu_type / npdu_types    → `MsgKind`, `kindOfCode` (checked against
                                         the regenerated `Gen.NpduTypes` in Props.C08)
    message.encode(npdu); npdu.encode(pdu)           → `encodeMessage`
    npdu.decode(pdu); npdu_types[t]().decode(npdu)   → `decodeMessage`

  Conventions
  * Python `int` is `Nat` (negative numbers are outside every caller's domain);
    `put_short(n)` is `be16 n` (it masks with `& 0xFFFF`, so does `be16`);
    `put(n)` is `bytes([n])`, which raises `ValueError` outside 0..255 — modelled
    as `Err.other` (`put`), so the encoders are `Except Err Bytes`.
    A `None` where the encoder needs a number (`TypeError` in Python) is `Err.other`
    as well.
  * Every decoder failure in the Python code is a `DecodingError` (`Err.decoding`).
  * An address is `Addr`; `addrLen` is always `len(addrAddr)` for addresses
    built by the constructors of pdu.py, so it is not a separate field.

  Core Lean only (no Mathlib): used by the `drv_c08` executable and meant to be
  reused as a frame codec by the routing (C06) and BBMD (C13) models.
-/
import BacVerif.Model.Bytes
namespace BacVerif.Npci
open BacVerif

/-! ## addresses (pdu.py: Address and its six `addrType`s) -/

inductive Addr
  | null                                      -- Address.nullAddr
  | localBroadcast                            -- LocalBroadcast()
  | localStation (mac : Bytes)                -- LocalStation(mac)
  | remoteBroadcast (net : Nat)               -- RemoteBroadcast(net)
  | remoteStation (net : Nat) (mac : Bytes)   -- RemoteStation(net, mac)
  | globalBroadcast                           -- GlobalBroadcast()
deriving DecidableEq, Repr, Inhabited

/-! ## octet primitives -/

/-- `PDUData.put(n)` = `pduData += bytes([n])`; `ValueError` outside 0..255 -/
def put (n : Nat) : Except Err Bytes :=
  if n < 256 then .ok [UInt8.ofNat n] else .error .other

/-- `put(x)` where `x` may be `None` (`TypeError`) -/
def putOpt : Option Nat → Except Err Bytes
  | none => .error .other
  | some n => put n

/-! ## NPCI -/

/-- The fields of `NPCI` (npdu.py) together with the two `PCI` fields it
    encodes.  `control` is `npduControl`: *written* by both `encode` and
    `decode` (the raw octet, reserved bits included), never read by `encode`. -/
structure Npci where
  version        : Nat := 1              -- npduVersion
  control        : Nat := 0              -- npduControl
  expectingReply : Bool := false         -- pduExpectingReply
  priority       : Nat := 0              -- pduNetworkPriority
  dadr           : Option Addr := none   -- npduDADR
  sadr           : Option Addr := none   -- npduSADR
  hopCount       : Option Nat := none    -- npduHopCount
  netMessage     : Option Nat := none    -- npduNetMessage
  vendorId       : Option Nat := none    -- npduVendorID
deriving DecidableEq, Repr, Inhabited

/-- the control octet `NPCI.encode` assembles.  The Python code ORs disjoint
    bit masks; on disjoint masks `|` is `+`. -/
def controlOctet (h : Npci) : Nat :=
  (if h.netMessage.isSome then 0x80 else 0) +
  (if h.dadr.isSome then 0x20 else 0) +
  (if h.sadr.isSome then 0x08 else 0) +
  (if h.expectingReply then 0x04 else 0) +
  h.priority % 4

/-- "encode the destination address": an `if / elif / elif` chain over the
    address type **without else** — any other address type writes nothing
    (while the control octet still announces a DNET). -/
def encodeDadr : Addr → Except Err Bytes
  | .remoteStation net mac =>
      match put mac.length with
      | .error e => .error e
      | .ok l => .ok (be16 net ++ l ++ mac)
  | .remoteBroadcast net => .ok (be16 net ++ [0])
  | .globalBroadcast => .ok [0xFF, 0xFF, 0]
  | _ => .ok []

/-- "encode the source address": `put_short(addrNet); put(addrLen);
    put_data(addrAddr)` — only a remote station has all three (anything else
    ends in a `TypeError`). -/
def encodeSadr : Addr → Except Err Bytes
  | .remoteStation net mac =>
      match put mac.length with
      | .error e => .error e
      | .ok l => .ok (be16 net ++ l ++ mac)
  | _ => .error .other

def encodeDadrOpt : Option Addr → Except Err Bytes
  | none => .ok []
  | some a => encodeDadr a

def encodeSadrOpt : Option Addr → Except Err Bytes
  | none => .ok []
  | some a => encodeSadr a

/-- "put the hop count": only when a DADR is present -/
def encodeHop (h : Npci) : Except Err Bytes :=
  if h.dadr.isSome then putOpt h.hopCount else .ok []

/-- "put the network layer message type (if present)" and the vendor id for
    proprietary types 0x80..0xFF -/
def encodeMsgType (h : Npci) : Except Err Bytes :=
  match h.netMessage with
  | none => .ok []
  | some m =>
      match put m with
      | .error e => .error e
      | .ok mt =>
          if 0x80 ≤ m ∧ m ≤ 0xFF then
            match h.vendorId with
            | none => .error .other
            | some v => .ok (mt ++ be16 v)
          else .ok mt

/-- `NPCI.encode` -/
def encodeNpci (h : Npci) : Except Err Bytes :=
  match put h.version with
  | .error e => .error e
  | .ok ver =>
  match put (controlOctet h) with
  | .error e => .error e
  | .ok ctl =>
  match encodeDadrOpt h.dadr with
  | .error e => .error e
  | .ok d =>
  match encodeSadrOpt h.sadr with
  | .error e => .error e
  | .ok s =>
  match encodeHop h with
  | .error e => .error e
  | .ok hop =>
  match encodeMsgType h with
  | .error e => .error e
  | .ok mt => .ok (ver ++ ctl ++ d ++ s ++ hop ++ mt)

/-- `NPDU.encode` : header, then `put_data(pduData)` -/
def encodeNpdu (h : Npci) (payload : Bytes) : Except Err Bytes :=
  match encodeNpci h with
  | .error e => .error e
  | .ok hd => .ok (hd ++ payload)

/-- "extract the destination address" -/
def decodeDadr (r : Bytes) : Except Err (Addr × Bytes) :=
  match getU16 r with
  | .error e => .error e
  | .ok (dnet, r1) =>
  match getU8 r1 with
  | .error e => .error e
  | .ok (dlen, r2) =>
  match getData dlen r2 with
  | .error e => .error e
  | .ok (dadr, r3) =>
      if dnet = 0xFFFF then .ok (.globalBroadcast, r3)
      else if dlen = 0 then .ok (.remoteBroadcast dnet, r3)
      else .ok (.remoteStation dnet dadr, r3)

/-- "extract the source address": broadcast sources are refused -/
def decodeSadr (r : Bytes) : Except Err (Addr × Bytes) :=
  match getU16 r with
  | .error e => .error e
  | .ok (snet, r1) =>
  match getU8 r1 with
  | .error e => .error e
  | .ok (slen, r2) =>
  match getData slen r2 with
  | .error e => .error e
  | .ok (sadr, r3) =>
      if snet = 0xFFFF then .error .decoding          -- "SADR can't be a global broadcast"
      else if slen = 0 then .error .decoding          -- "SADR can't be a remote broadcast"
      else .ok (.remoteStation snet sadr, r3)

/-- run a section decoder iff its control bit is set -/
def optSection {α} (present : Bool) (dec : Bytes → Except Err (α × Bytes)) (r : Bytes) :
    Except Err (Option α × Bytes) :=
  if present then
    match dec r with
    | .error e => .error e
    | .ok (a, r') => .ok (some a, r')
  else .ok (none, r)

/-- "extract the network layer message type (if present)" → (type, vendor id) -/
def decodeMsgType (r : Bytes) : Except Err ((Nat × Option Nat) × Bytes) :=
  match getU8 r with
  | .error e => .error e
  | .ok (m, r1) =>
      if 0x80 ≤ m ∧ m ≤ 0xFF then
        match getU16 r1 with
        | .error e => .error e
        | .ok (v, r2) => .ok ((m, some v), r2)
      else .ok ((m, none), r1)

/-- bit `k` (given as its mask `2^k`) of the control octet: `control & mask` -/
def bit (ctl mask : Nat) : Bool := ctl / mask % 2 = 1

/-- `NPCI.decode`; returns the header and the octets after it -/
def decodeNpci (bs : Bytes) : Except Err (Npci × Bytes) :=
  if bs.length < 2 then .error .decoding else            -- "invalid length"
  match getU8 bs with
  | .error e => .error e
  | .ok (ver, r0) =>
  if ver ≠ 1 then .error .decoding else                  -- "only version 1 messages supported"
  match getU8 r0 with
  | .error e => .error e
  | .ok (ctl, r1) =>
  match optSection (bit ctl 0x20) decodeDadr r1 with
  | .error e => .error e
  | .ok (dadr, r2) =>
  match optSection (bit ctl 0x08) decodeSadr r2 with
  | .error e => .error e
  | .ok (sadr, r3) =>
  match optSection (bit ctl 0x20) getU8 r3 with
  | .error e => .error e
  | .ok (hop, r4) =>
  match optSection (bit ctl 0x80) decodeMsgType r4 with
  | .error e => .error e
  | .ok (mt, r5) =>
      .ok ({ version := ver, control := ctl,
             expectingReply := bit ctl 0x04, priority := ctl % 4,
             dadr := dadr, sadr := sadr, hopCount := hop,
             netMessage := mt.map (·.1), vendorId := mt.bind (·.2) }, r5)

/-- `NPDU.decode`: header, then `pduData = get_data(len(pduData))` (all the rest) -/
def decodeNpdu (bs : Bytes) : Except Err (Npci × Bytes) := decodeNpci bs

/-! ## network layer messages -/

/-- `RoutingTableEntry` -/
structure Rte where
  dnet     : Nat
  portId   : Nat
  portInfo : Bytes
deriving DecidableEq, Repr, Inhabited

/-- the twelve registered message classes -/
inductive MsgKind
  | whoIsRouterToNetwork | iAmRouterToNetwork | iCouldBeRouterToNetwork
  | rejectMessageToNetwork | routerBusyToNetwork | routerAvailableToNetwork
  | initializeRoutingTable | initializeRoutingTableAck
  | establishConnectionToNetwork | disconnectConnectionToNetwork
  | whatIsNetworkNumber | networkNumberIs
deriving DecidableEq, Repr, Inhabited

def MsgKind.all : List MsgKind :=
  [.whoIsRouterToNetwork, .iAmRouterToNetwork, .iCouldBeRouterToNetwork,
   .rejectMessageToNetwork, .routerBusyToNetwork, .routerAvailableToNetwork,
   .initializeRoutingTable, .initializeRoutingTableAck,
   .establishConnectionToNetwork, .disconnectConnectionToNetwork,
   .whatIsNetworkNumber, .networkNumberIs]

/-- `klass.messageType` -/
def MsgKind.code : MsgKind → Nat
  | .whoIsRouterToNetwork => 0x00 | .iAmRouterToNetwork => 0x01
  | .iCouldBeRouterToNetwork => 0x02 | .rejectMessageToNetwork => 0x03
  | .routerBusyToNetwork => 0x04 | .routerAvailableToNetwork => 0x05
  | .initializeRoutingTable => 0x06 | .initializeRoutingTableAck => 0x07
  | .establishConnectionToNetwork => 0x08 | .disconnectConnectionToNetwork => 0x09
  | .whatIsNetworkNumber => 0x12 | .networkNumberIs => 0x13

/-- `klass.__name__` -/
def MsgKind.className : MsgKind → String
  | .whoIsRouterToNetwork => "WhoIsRouterToNetwork"
  | .iAmRouterToNetwork => "IAmRouterToNetwork"
  | .iCouldBeRouterToNetwork => "ICouldBeRouterToNetwork"
  | .rejectMessageToNetwork => "RejectMessageToNetwork"
  | .routerBusyToNetwork => "RouterBusyToNetwork"
  | .routerAvailableToNetwork => "RouterAvailableToNetwork"
  | .initializeRoutingTable => "InitializeRoutingTable"
  | .initializeRoutingTableAck => "InitializeRoutingTableAck"
  | .establishConnectionToNetwork => "EstablishConnectionToNetwork"
  | .disconnectConnectionToNetwork => "DisconnectConnectionToNetwork"
  | .whatIsNetworkNumber => "WhatIsNetworkNumber"
  | .networkNumberIs => "NetworkNumberIs"

/-- the model's view of `npdu_types`, as (code, class name), ascending codes -/
def registry : List (Nat × String) := MsgKind.all.map fun k => (k.code, k.className)

/-- `npdu_types.get(code)` -/
def kindOfCode (c : Nat) : Option MsgKind := MsgKind.all.find? fun k => k.code = c

/-- a network layer message with its parameters -/
inductive NetMsg
  | whoIsRouterToNetwork (net : Option Nat)            -- wirtnNetwork
  | iAmRouterToNetwork (nets : List Nat)               -- iartnNetworkList
  | iCouldBeRouterToNetwork (net perf : Nat)           -- icbrtnNetwork, icbrtnPerformanceIndex
  | rejectMessageToNetwork (reason dnet : Nat)         -- rmtnRejectionReason, rmtnDNET
  | routerBusyToNetwork (nets : List Nat)              -- rbtnNetworkList
  | routerAvailableToNetwork (nets : List Nat)         -- ratnNetworkList
  | initializeRoutingTable (tbl : List Rte)            -- irtTable
  | initializeRoutingTableAck (tbl : List Rte)         -- irtaTable
  | establishConnectionToNetwork (dnet term : Nat)     -- ectnDNET, ectnTerminationTime
  | disconnectConnectionToNetwork (dnet : Nat)         -- dctnDNET
  | whatIsNetworkNumber
  | networkNumberIs (net flag : Nat)                   -- nniNet, nniFlag
deriving DecidableEq, Repr, Inhabited

def NetMsg.kind : NetMsg → MsgKind
  | .whoIsRouterToNetwork _ => .whoIsRouterToNetwork
  | .iAmRouterToNetwork _ => .iAmRouterToNetwork
  | .iCouldBeRouterToNetwork _ _ => .iCouldBeRouterToNetwork
  | .rejectMessageToNetwork _ _ => .rejectMessageToNetwork
  | .routerBusyToNetwork _ => .routerBusyToNetwork
  | .routerAvailableToNetwork _ => .routerAvailableToNetwork
  | .initializeRoutingTable _ => .initializeRoutingTable
  | .initializeRoutingTableAck _ => .initializeRoutingTableAck
  | .establishConnectionToNetwork _ _ => .establishConnectionToNetwork
  | .disconnectConnectionToNetwork _ => .disconnectConnectionToNetwork
  | .whatIsNetworkNumber => .whatIsNetworkNumber
  | .networkNumberIs _ _ => .networkNumberIs

/-- `for net in netList: npdu.put_short(net)` -/
def encodeNets : List Nat → Bytes
  | [] => []
  | n :: ns => be16 n ++ encodeNets ns

/-- `while npdu.pduData: netList.append(npdu.get_short())` -/
def decodeNets : Bytes → Except Err (List Nat)
  | [] => .ok []
  | [_] => .error .decoding
  | a :: b :: r =>
      match decodeNets r with
      | .error e => .error e
      | .ok ns => .ok ((a.toNat * 256 + b.toNat) :: ns)

/-- one routing table entry: `put_short(rtDNET); put(rtPortID);
    put(len(rtPortInfo)); put_data(rtPortInfo)` -/
def encodeRte (e : Rte) : Except Err Bytes :=
  match put e.portId with
  | .error x => .error x
  | .ok p =>
  match put e.portInfo.length with
  | .error x => .error x
  | .ok l => .ok (be16 e.dnet ++ p ++ l ++ e.portInfo)

def encodeRtes : List Rte → Except Err Bytes
  | [] => .ok []
  | e :: es =>
      match encodeRte e with
      | .error x => .error x
      | .ok b =>
      match encodeRtes es with
      | .error x => .error x
      | .ok bs => .ok (b ++ bs)

/-- `put(len(table))` then the entries -/
def encodeTable (tbl : List Rte) : Except Err Bytes :=
  match put tbl.length with
  | .error x => .error x
  | .ok n =>
  match encodeRtes tbl with
  | .error x => .error x
  | .ok bs => .ok (n ++ bs)

def decodeRte (r : Bytes) : Except Err (Rte × Bytes) :=
  match getU16 r with
  | .error e => .error e
  | .ok (dnet, r1) =>
  match getU8 r1 with
  | .error e => .error e
  | .ok (portId, r2) =>
  match getU8 r2 with
  | .error e => .error e
  | .ok (len, r3) =>
  match getData len r3 with
  | .error e => .error e
  | .ok (info, r4) => .ok ({ dnet := dnet, portId := portId, portInfo := info }, r4)

/-- `for i in range(rtLength): …` -/
def decodeRtes : Nat → Bytes → Except Err (List Rte × Bytes)
  | 0, r => .ok ([], r)
  | n + 1, r =>
      match decodeRte r with
      | .error e => .error e
      | .ok (e, r1) =>
      match decodeRtes n r1 with
      | .error x => .error x
      | .ok (es, r2) => .ok (e :: es, r2)

def decodeTable (r : Bytes) : Except Err (List Rte) :=
  match getU8 r with
  | .error e => .error e
  | .ok (n, r1) =>
  match decodeRtes n r1 with
  | .error e => .error e
  | .ok (es, _) => .ok es                -- octets after the table are ignored

/-- `put_short(a); put(b)` -/
def encShortOctet (a b : Nat) : Except Err Bytes :=
  match put b with
  | .error e => .error e
  | .ok o => .ok (be16 a ++ o)

/-- `get_short(); get()` -/
def decShortOctet (r : Bytes) : Except Err (Nat × Nat) :=
  match getU16 r with
  | .error e => .error e
  | .ok (a, r1) =>
  match getU8 r1 with
  | .error e => .error e
  | .ok (b, _) => .ok (a, b)

/-- the `encode(npdu)` method of each message class: the message body -/
def encodeBody : NetMsg → Except Err Bytes
  | .whoIsRouterToNetwork none => .ok []
  | .whoIsRouterToNetwork (some n) => .ok (be16 n)
  | .iAmRouterToNetwork ns => .ok (encodeNets ns)
  | .iCouldBeRouterToNetwork net perf => encShortOctet net perf
  | .rejectMessageToNetwork reason dnet =>
      match put reason with
      | .error e => .error e
      | .ok o => .ok (o ++ be16 dnet)
  | .routerBusyToNetwork ns => .ok (encodeNets ns)
  | .routerAvailableToNetwork ns => .ok (encodeNets ns)
  | .initializeRoutingTable tbl => encodeTable tbl
  | .initializeRoutingTableAck tbl => encodeTable tbl
  | .establishConnectionToNetwork dnet term => encShortOctet dnet term
  | .disconnectConnectionToNetwork dnet => .ok (be16 dnet)
  | .whatIsNetworkNumber => .ok []
  | .networkNumberIs net flag => encShortOctet net flag

/-- the `decode(npdu)` method of each message class.  Octets after the last
    field are ignored by every class (as in the code). -/
def decodeBody : MsgKind → Bytes → Except Err NetMsg
  | .whoIsRouterToNetwork, r =>
      match r with
      | [] => .ok (.whoIsRouterToNetwork none)
      | _ :: _ =>
          match getU16 r with
          | .error e => .error e
          | .ok (n, _) => .ok (.whoIsRouterToNetwork (some n))
  | .iAmRouterToNetwork, r => (decodeNets r).map .iAmRouterToNetwork
  | .iCouldBeRouterToNetwork, r => (decShortOctet r).map fun (a, b) => .iCouldBeRouterToNetwork a b
  | .rejectMessageToNetwork, r =>
      match getU8 r with
      | .error e => .error e
      | .ok (reason, r1) =>
      match getU16 r1 with
      | .error e => .error e
      | .ok (dnet, _) => .ok (.rejectMessageToNetwork reason dnet)
  | .routerBusyToNetwork, r => (decodeNets r).map .routerBusyToNetwork
  | .routerAvailableToNetwork, r => (decodeNets r).map .routerAvailableToNetwork
  | .initializeRoutingTable, r => (decodeTable r).map .initializeRoutingTable
  | .initializeRoutingTableAck, r => (decodeTable r).map .initializeRoutingTableAck
  | .establishConnectionToNetwork, r =>
      (decShortOctet r).map fun (a, b) => .establishConnectionToNetwork a b
  | .disconnectConnectionToNetwork, r =>
      match getU16 r with
      | .error e => .error e
      | .ok (n, _) => .ok (.disconnectConnectionToNetwork n)
  | .whatIsNetworkNumber, _ => .ok .whatIsNetworkNumber
  | .networkNumberIs, r => (decShortOctet r).map fun (a, b) => .networkNumberIs a b

/-! ## complete frames -/

/-- `msg.encode(npdu); npdu.encode(pdu)` for a message object whose header
    fields are `h` (the constructor sets `npduNetMessage = messageType`) -/
def encodeMessage (h : Npci) (m : NetMsg) : Except Err Bytes :=
  match encodeBody m with
  | .error e => .error e
  | .ok body => encodeNpdu { h with netMessage := some m.kind.code } body

/-- what a receiver makes of a frame -/
inductive Decoded
  | apdu (h : Npci) (payload : Bytes)               -- npduNetMessage is None
  | message (h : Npci) (m : NetMsg)                 -- a registered message type
  | unknownMessage (h : Npci) (payload : Bytes)     -- type not in npdu_types
deriving DecidableEq, Repr

/-- `npdu.decode(pdu)`, then `npdu_types[npdu.npduNetMessage]().decode(npdu)` -/
def decodeMessage (bs : Bytes) : Except Err Decoded :=
  match decodeNpdu bs with
  | .error e => .error e
  | .ok (h, payload) =>
      match h.netMessage with
      | none => .ok (.apdu h payload)
      | some c =>
          match kindOfCode c with
          | none => .ok (.unknownMessage h payload)
          | some k =>
              match decodeBody k payload with
              | .error e => .error e
              | .ok m => .ok (.message h m)

end BacVerif.Npci
