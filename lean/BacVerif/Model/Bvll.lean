/-
  Model.Bvll — the BACnet/IP virtual link layer codec of py34/bacpypes/bvll.py,
  the address packing helpers of pdu.py and the `AnnexJCodec` of
  bvllservice.py, transcribed branch for branch:

    pack_ip_addr / unpack_ip_addr        → `packIpAddr` / `unpackIpAddr`
    BVLCI.encode + BVLPDU.encode         → `encodeBvlpdu`
    BVLCI.decode + BVLPDU.decode         → `decodeBvlpdu`
    the twelve function classes          → `Msg`, `construct`, `encodeBody` / `decodeBody`
    register_bvlpdu_type / bvl_pdu_types → `Fn`, `fnOfCode` (checked against the
                                           regenerated `Gen.BvlTypes` in Props.C09)
    AnnexJCodec.indication               → `codecIndication`  (octets for the socket)
    AnnexJCodec.confirmation             → `codecConfirmation`

  The length field.  Every class stores `bvlciLength` in its constructor;
  five classes (ReadBroadcastDistributionTableAck, ForwardedNPDU,
  DistributeBroadcastToNetwork, OriginalUnicastNPDU, OriginalBroadcastNPDU)
  recompute it in `encode`, the other seven keep whatever the constructor left
  ("stale" if the table was changed afterwards).  `BVLCI.encode` then compares
  the stored value with the number of octets actually written and raises
  `EncodingError` on disagreement.  The model keeps the stored value in `Obj`
  so that this refusal is part of it.

  Conventions as in Model.Npci: `put n` fails with `Err.other` outside 0..255
  (Python `ValueError`), `put_short`/`put_long` mask (`be16`/`be32`), decoder
  failures are `Err.decoding`.  An IP address is the six octets `addrAddr`.

  Core Lean only (no Mathlib): used by the `drv_c09` executable and meant to be
  reused as the frame codec of the BBMD model (C13).
-/
import BacVerif.Model.Bytes
import BacVerif.Model.Npci
namespace BacVerif.Bvll
open BacVerif
open BacVerif.Npci (put)

/-! ## pack_ip_addr / unpack_ip_addr -/

/-- the tuple `('a.b.c.d', port)` -/
structure IpPort where
  a : Nat
  b : Nat
  c : Nat
  d : Nat
  port : Nat
deriving DecidableEq, Repr, Inhabited

/-- `pack_ip_addr`: `socket.inet_aton(addr) + struct.pack('!H', port & 0xFFFF)`.
    `inet_aton` refuses octets above 255 (`OSError`). -/
def packIpAddr (x : IpPort) : Except Err Bytes :=
  if x.a < 256 ∧ x.b < 256 ∧ x.c < 256 ∧ x.d < 256 then
    .ok ([UInt8.ofNat x.a, UInt8.ofNat x.b, UInt8.ofNat x.c, UInt8.ofNat x.d] ++ be16 x.port)
  else .error .other

/-- `unpack_ip_addr`: `(inet_ntoa(addr[0:4]), unpack('!H', addr[4:6]))`; octets
    after the sixth are ignored, fewer than six are an `OSError`/`struct.error`. -/
def unpackIpAddr : Bytes → Except Err IpPort
  | a :: b :: c :: d :: p :: q :: _ =>
      .ok { a := a.toNat, b := b.toNat, c := c.toNat, d := d.toNat, port := p.toNat * 256 + q.toNat }
  | _ => .error .other

/-! ## BVLCI / BVLPDU -/

/-- `BVLCI.encode` followed by `BVLPDU.encode`'s `put_data(pduData)`:
    type 0x81, function, then — only if the stored length equals the octets
    actually present — the length and the data. -/
def encodeBvlpdu (fn len : Nat) (data : Bytes) : Except Err Bytes :=
  match put 0x81 with
  | .error e => .error e
  | .ok t =>
  match put fn with
  | .error e => .error e
  | .ok f =>
      if len ≠ data.length + 4 then .error .encoding          -- "invalid BVLCI length"
      else .ok (t ++ f ++ be16 len ++ data)

/-- `BVLCI.decode` followed by `BVLPDU.decode`: (function, length, data) -/
def decodeBvlpdu (bs : Bytes) : Except Err (Nat × Nat × Bytes) :=
  match getU8 bs with
  | .error e => .error e
  | .ok (t, r0) =>
  if t ≠ 0x81 then .error .decoding else                      -- "invalid BVLCI type"
  match getU8 r0 with
  | .error e => .error e
  | .ok (fn, r1) =>
  match getU16 r1 with
  | .error e => .error e
  | .ok (len, r2) =>
      if len ≠ r2.length + 4 then .error .decoding             -- "invalid BVLCI length"
      else .ok (fn, len, r2)

/-! ## the twelve functions -/

/-- a broadcast distribution table entry: an `Address` with `addrMask` -/
structure BdtEntry where
  addr : Bytes      -- addrAddr (six octets for an IP address)
  mask : Nat        -- addrMask
deriving DecidableEq, Repr, Inhabited

/-- `FDTEntry` -/
structure FdtEntry where
  addr   : Bytes    -- fdAddress.addrAddr
  ttl    : Nat      -- fdTTL
  remain : Nat      -- fdRemain
deriving DecidableEq, Repr, Inhabited

/-- the registered function classes -/
inductive Fn
  | result | writeBroadcastDistributionTable | readBroadcastDistributionTable
  | readBroadcastDistributionTableAck | forwardedNPDU | registerForeignDevice
  | readForeignDeviceTable | readForeignDeviceTableAck | deleteForeignDeviceTableEntry
  | distributeBroadcastToNetwork | originalUnicastNPDU | originalBroadcastNPDU
deriving DecidableEq, Repr, Inhabited

def Fn.all : List Fn :=
  [.result, .writeBroadcastDistributionTable, .readBroadcastDistributionTable,
   .readBroadcastDistributionTableAck, .forwardedNPDU, .registerForeignDevice,
   .readForeignDeviceTable, .readForeignDeviceTableAck, .deleteForeignDeviceTableEntry,
   .distributeBroadcastToNetwork, .originalUnicastNPDU, .originalBroadcastNPDU]

/-- `klass.messageType` -/
def Fn.code : Fn → Nat
  | .result => 0x00 | .writeBroadcastDistributionTable => 0x01
  | .readBroadcastDistributionTable => 0x02 | .readBroadcastDistributionTableAck => 0x03
  | .forwardedNPDU => 0x04 | .registerForeignDevice => 0x05
  | .readForeignDeviceTable => 0x06 | .readForeignDeviceTableAck => 0x07
  | .deleteForeignDeviceTableEntry => 0x08 | .distributeBroadcastToNetwork => 0x09
  | .originalUnicastNPDU => 0x0A | .originalBroadcastNPDU => 0x0B

/-- `klass.__name__` -/
def Fn.className : Fn → String
  | .result => "Result"
  | .writeBroadcastDistributionTable => "WriteBroadcastDistributionTable"
  | .readBroadcastDistributionTable => "ReadBroadcastDistributionTable"
  | .readBroadcastDistributionTableAck => "ReadBroadcastDistributionTableAck"
  | .forwardedNPDU => "ForwardedNPDU"
  | .registerForeignDevice => "RegisterForeignDevice"
  | .readForeignDeviceTable => "ReadForeignDeviceTable"
  | .readForeignDeviceTableAck => "ReadForeignDeviceTableAck"
  | .deleteForeignDeviceTableEntry => "DeleteForeignDeviceTableEntry"
  | .distributeBroadcastToNetwork => "DistributeBroadcastToNetwork"
  | .originalUnicastNPDU => "OriginalUnicastNPDU"
  | .originalBroadcastNPDU => "OriginalBroadcastNPDU"

/-- the model's view of `bvl_pdu_types`, (code, class name), ascending -/
def registry : List (Nat × String) := Fn.all.map fun f => (f.code, f.className)

/-- `bvl_pdu_types.get(code)` -/
def fnOfCode (c : Nat) : Option Fn := Fn.all.find? fun f => f.code = c

/-- a BVLL message with its parameters -/
inductive Msg
  | result (code : Nat)                                   -- bvlciResultCode
  | writeBroadcastDistributionTable (bdt : List BdtEntry) -- bvlciBDT
  | readBroadcastDistributionTable
  | readBroadcastDistributionTableAck (bdt : List BdtEntry)
  | forwardedNPDU (addr : Bytes) (npdu : Bytes)           -- bvlciAddress.addrAddr, pduData
  | registerForeignDevice (ttl : Nat)                     -- bvlciTimeToLive
  | readForeignDeviceTable
  | readForeignDeviceTableAck (fdt : List FdtEntry)       -- bvlciFDT
  | deleteForeignDeviceTableEntry (addr : Bytes)          -- bvlciAddress.addrAddr
  | distributeBroadcastToNetwork (npdu : Bytes)           -- pduData
  | originalUnicastNPDU (npdu : Bytes)
  | originalBroadcastNPDU (npdu : Bytes)
deriving DecidableEq, Repr, Inhabited

def Msg.fn : Msg → Fn
  | .result _ => .result
  | .writeBroadcastDistributionTable _ => .writeBroadcastDistributionTable
  | .readBroadcastDistributionTable => .readBroadcastDistributionTable
  | .readBroadcastDistributionTableAck _ => .readBroadcastDistributionTableAck
  | .forwardedNPDU _ _ => .forwardedNPDU
  | .registerForeignDevice _ => .registerForeignDevice
  | .readForeignDeviceTable => .readForeignDeviceTable
  | .readForeignDeviceTableAck _ => .readForeignDeviceTableAck
  | .deleteForeignDeviceTableEntry _ => .deleteForeignDeviceTableEntry
  | .distributeBroadcastToNetwork _ => .distributeBroadcastToNetwork
  | .originalUnicastNPDU _ => .originalUnicastNPDU
  | .originalBroadcastNPDU _ => .originalBroadcastNPDU

/-- a message object: the parameters and the `bvlciLength` it currently stores -/
structure Obj where
  msg : Msg
  storedLength : Nat
deriving DecidableEq, Repr, Inhabited

/-- the `bvlciLength` each constructor computes -/
def ctorLength : Msg → Nat
  | .result _ => 6
  | .writeBroadcastDistributionTable bdt => 4 + 10 * bdt.length
  | .readBroadcastDistributionTable => 4
  | .readBroadcastDistributionTableAck bdt => 4 + 10 * bdt.length
  | .forwardedNPDU _ npdu => 10 + npdu.length
  | .registerForeignDevice _ => 6
  | .readForeignDeviceTable => 4
  | .readForeignDeviceTableAck fdt => 4 + 10 * fdt.length
  | .deleteForeignDeviceTableEntry _ => 10
  | .distributeBroadcastToNetwork npdu => 4 + npdu.length
  | .originalUnicastNPDU npdu => 4 + npdu.length
  | .originalBroadcastNPDU npdu => 4 + npdu.length

/-- `Klass(params…)` -/
def construct (m : Msg) : Obj := { msg := m, storedLength := ctorLength m }

/-- `put_data(addrAddr); put_long(addrMask)` for every entry -/
def encodeBdt : List BdtEntry → Bytes
  | [] => []
  | e :: es => e.addr ++ be32 e.mask ++ encodeBdt es

/-- `put_data(fdAddress.addrAddr); put_short(fdTTL); put_short(fdRemain)` for every entry -/
def encodeFdt : List FdtEntry → Bytes
  | [] => []
  | e :: es => e.addr ++ be16 e.ttl ++ be16 e.remain ++ encodeFdt es

/-- the `encode(bvlpdu)` method of each class: the `bvlciLength` handed to the
    BVLPDU (recomputed by five classes, the stored one otherwise) and the
    octets written as its data -/
def encodeBody (o : Obj) : Nat × Bytes :=
  match o.msg with
  | .result code => (o.storedLength, be16 code)
  | .writeBroadcastDistributionTable bdt => (o.storedLength, encodeBdt bdt)
  | .readBroadcastDistributionTable => (o.storedLength, [])
  | .readBroadcastDistributionTableAck bdt => (4 + 10 * bdt.length, encodeBdt bdt)
  | .forwardedNPDU addr npdu => (10 + npdu.length, addr ++ npdu)
  | .registerForeignDevice ttl => (o.storedLength, be16 ttl)
  | .readForeignDeviceTable => (o.storedLength, [])
  | .readForeignDeviceTableAck fdt => (o.storedLength, encodeFdt fdt)
  | .deleteForeignDeviceTableEntry addr => (o.storedLength, addr)
  | .distributeBroadcastToNetwork npdu => (4 + npdu.length, npdu)
  | .originalUnicastNPDU npdu => (4 + npdu.length, npdu)
  | .originalBroadcastNPDU npdu => (4 + npdu.length, npdu)

/-- `while bvlpdu.pduData: Address(unpack_ip_addr(get_data(6))); addrMask = get_long()`.
    The Python loop has no syntactic bound; the model is fuelled by the number
    of octets and `Props.C09.decodeBdt_fuel` shows the fuel is never exhausted
    (every turn consumes ten octets). -/
def decodeBdtFuel : Nat → Bytes → Except Err (List BdtEntry)
  | _, [] => .ok []
  | 0, _ :: _ => .error .other
  | fuel + 1, bs@(_ :: _) =>
      match getData 6 bs with
      | .error e => .error e
      | .ok (addr, r1) =>
      match getU32 r1 with
      | .error e => .error e
      | .ok (mask, r2) =>
      match decodeBdtFuel fuel r2 with
      | .error e => .error e
      | .ok es => .ok ({ addr := addr, mask := mask } :: es)

def decodeBdt (bs : Bytes) : Except Err (List BdtEntry) := decodeBdtFuel bs.length bs

/-- `while bvlpdu.pduData: fdAddress = …get_data(6); fdTTL = get_short(); fdRemain = get_short()` -/
def decodeFdtFuel : Nat → Bytes → Except Err (List FdtEntry)
  | _, [] => .ok []
  | 0, _ :: _ => .error .other
  | fuel + 1, bs@(_ :: _) =>
      match getData 6 bs with
      | .error e => .error e
      | .ok (addr, r1) =>
      match getU16 r1 with
      | .error e => .error e
      | .ok (ttl, r2) =>
      match getU16 r2 with
      | .error e => .error e
      | .ok (remain, r3) =>
      match decodeFdtFuel fuel r3 with
      | .error e => .error e
      | .ok es => .ok ({ addr := addr, ttl := ttl, remain := remain } :: es)

def decodeFdt (bs : Bytes) : Except Err (List FdtEntry) := decodeFdtFuel bs.length bs

/-- the `decode(bvlpdu)` method of each class on the BVLPDU's data.  Octets
    after the last field are ignored by the fixed-size classes (as in the code). -/
def decodeBody : Fn → Bytes → Except Err Msg
  | .result, r =>
      match getU16 r with
      | .error e => .error e
      | .ok (code, _) => .ok (.result code)
  | .writeBroadcastDistributionTable, r => (decodeBdt r).map .writeBroadcastDistributionTable
  | .readBroadcastDistributionTable, _ => .ok .readBroadcastDistributionTable
  | .readBroadcastDistributionTableAck, r => (decodeBdt r).map .readBroadcastDistributionTableAck
  | .forwardedNPDU, r =>
      match getData 6 r with
      | .error e => .error e
      | .ok (addr, npdu) => .ok (.forwardedNPDU addr npdu)
  | .registerForeignDevice, r =>
      match getU16 r with
      | .error e => .error e
      | .ok (ttl, _) => .ok (.registerForeignDevice ttl)
  | .readForeignDeviceTable, _ => .ok .readForeignDeviceTable
  | .readForeignDeviceTableAck, r => (decodeFdt r).map .readForeignDeviceTableAck
  | .deleteForeignDeviceTableEntry, r =>
      match getData 6 r with
      | .error e => .error e
      | .ok (addr, _) => .ok (.deleteForeignDeviceTableEntry addr)
  | .distributeBroadcastToNetwork, r => .ok (.distributeBroadcastToNetwork r)
  | .originalUnicastNPDU, r => .ok (.originalUnicastNPDU r)
  | .originalBroadcastNPDU, r => .ok (.originalBroadcastNPDU r)

/-! ## AnnexJCodec -/

/-- `AnnexJCodec.indication`: `rpdu.encode(bvlpdu); bvlpdu.encode(pdu)` — the
    octets handed to the UDP director -/
def codecIndication (o : Obj) : Except Err Bytes :=
  let (len, body) := encodeBody o
  encodeBvlpdu o.msg.fn.code len body

/-- what `AnnexJCodec.confirmation` does with a datagram -/
inductive Rx
  | delivered (o : Obj)            -- `self.response(rpdu)`
  | refused (e : Err)              -- `DecodingError` raised into the caller
  | unknownFunction (fn : Nat)     -- `KeyError` from `bvl_pdu_types[fn]`
deriving DecidableEq, Repr

/-- `AnnexJCodec.confirmation`: `bvlpdu.decode(pdu); rpdu =
    bvl_pdu_types[bvlpdu.bvlciFunction](); rpdu.decode(bvlpdu)`.  The decoded
    object carries the frame's length field (`BVLCI.update`). -/
def codecConfirmation (bs : Bytes) : Rx :=
  match decodeBvlpdu bs with
  | .error e => .refused e
  | .ok (fn, len, data) =>
      match fnOfCode fn with
      | none => .unknownFunction fn
      | some f =>
          match decodeBody f data with
          | .error e => .refused e
          | .ok m => .delivered { msg := m, storedLength := len }

end BacVerif.Bvll
