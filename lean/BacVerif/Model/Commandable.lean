/-
  Model.Commandable — the command-prioritisation mechanism of bacpypes' local
  commandable objects (py34/bacpypes/local/object.py):

    * `Commandable(datatype)._Commando.WriteProperty`     → `wp`
    * `_Commando._highest_priority_value`                 → `firstFrom` / `winner`
    * `Property.WriteProperty` of presentValue + monitors → the `present := …` step of `wp`
    * `MinOnOffTask.present_value_change`                 → `holdDelay` + the re-entrant call in `wp`
    * `MinOnOffTask.process_task` / `TaskManager`         → `step (.tick t)`

  The model is a transcription of the code as it stands AFTER the repairs
    fixes/C17-minonoff-swapped.patch     (a new *active* state is held for
        `minimumOnTime`, a new *inactive* state for `minimumOffTime`),
    fixes/C17-slot-write-validate.patch  (the value is checked before the slot
        is touched, so a refused write changes nothing),
    fixes/C17-datetime-default.patch     (construction only; no model content).

  Representation
    * values `V` are abstract (any type with decidable equality – Python `==`);
      `none : Option V` is BACnet Null (`()` in bacpypes);
    * the priority array is `slots : Nat → Option V`; `slots i` for `1 ≤ i ≤ 16`
      is `priorityArray[i]` (index 0 is the array length and is never stored);
      every index the code can reach is range-checked first (the two
      `ExecutionError` sites are modelled), so no out-of-range access exists;
    * time is `Nat` microseconds; `minimumOnTime/minimumOffTime` are seconds;
    * Python exceptions are `some err` next to the state reached when the
      exception left `WriteProperty` (the code mutates before it can fail in
      the monitor, so the state is part of the answer);
    * the re-entrant `WriteProperty(…, priority=6)` is a recursive call: the
      model recurses on `fuel` (Python's recursion depth).  `Props/C17.lean`
      proves depth 2 always suffices (`wp_fuel_irrelevant`).

  Core Lean only (no Mathlib) so that the driver links.
-/
namespace BacVerif.Commandable

/-- the ways `WriteProperty` can fail -/
inductive CErr
  | writeAccessDenied   -- ExecutionError('property','writeAccessDenied')
  | invalidArrayIndex   -- ExecutionError('property','invalidArrayIndex')
  | invalidDatatype     -- InvalidParameterDatatype: the value is not one of the datatype
  | valueOutOfRange     -- ExecutionError('property','valueOutOfRange'): enumeration value not in the table
  | valueError          -- ValueError("unrecognized present value …") in MinOnOffTask
  | recursion           -- RecursionError (fuel exhausted) – proved unreachable
  | monitorError        -- an exception raised by a user monitor of presentValue
  | notModelled         -- a property other than presentValue / priorityArray (C15's domain)
deriving DecidableEq, Repr, Inhabited

def CErr.name : CErr → String
  | .writeAccessDenied => "exec:property:writeAccessDenied"
  | .invalidArrayIndex => "exec:property:invalidArrayIndex"
  | .invalidDatatype => "invalidDatatype"
  | .valueOutOfRange => "exec:property:valueOutOfRange"
  | .valueError => "python:ValueError"
  | .recursion => "python:RecursionError"
  | .monitorError => "python:MonitorBoom"
  | .notModelled => "notModelled"

/-- which property a `WriteProperty` call names -/
inductive PropId
  | presentValue | priorityArray | other
deriving DecidableEq, Repr, Inhabited

/-- per-object configuration (fixed during a run) -/
structure Cfg (V : Type) where
  default : V            -- relinquishDefault (ReadableProperty: not writable through WriteProperty)
  check : V → Option CErr -- the value check made before a slot is touched (`none` = acceptable):
                         -- `datatype.is_valid(value)` / `isinstance(value, datatype)` → invalidDatatype,
                         -- Enumerated and `value not in _xlate_table` → valueOutOfRange
  minOnOff : Bool        -- the class carries the MinOnOff mix-in (generated table)
  inactive : V           -- BinaryPV 'inactive'
  active : V             -- BinaryPV 'active'
  minOn : Nat            -- `minimumOnTime or 0`, seconds
  minOff : Nat           -- `minimumOffTime or 0`, seconds

/-- the command state of one object -/
structure St (V : Type) where
  slots : Nat → Option V
  present : V
  now : Nat                  -- µs
  deadline : Option Nat      -- when the MinOnOffTask is scheduled (µs), if it is

/-- `priority_value.null = …; setattr(priority_value, choice, …)` on `priorityArray[i]` -/
def setSlot {V} (f : Nat → Option V) (i : Nat) (x : Option V) : Nat → Option V :=
  fun j => if j = i then x else f j

/-- scan `i, i+1, …, i+n-1` for the first slot whose `null is None` -/
def firstFrom {V} (f : Nat → Option V) : Nat → Nat → Option V
  | 0, _ => none
  | n + 1, i =>
    match f i with
    | some v => some v
    | none => firstFrom f n (i + 1)

/-- `_highest_priority_value`: `for i in range(1, 17): … break / else: relinquishDefault` -/
def winner {V} (cfg : Cfg V) (f : Nat → Option V) : V :=
  match firstFrom f 16 1 with
  | some v => v
  | none => cfg.default

/-- `MinOnOffTask.present_value_change`: which minimum time applies to the new
    state (`none` = the `raise ValueError` branch).  Fixed tree: inactive →
    minimumOffTime, active → minimumOnTime. -/
def holdDelay {V} [DecidableEq V] (cfg : Cfg V) (new : V) : Option Nat :=
  if new = cfg.inactive then some cfg.minOff
  else if new = cfg.active then some cfg.minOn
  else none

/-- `if value == (): … else: <check the value>` -/
def checkValue {V} (cfg : Cfg V) : Option V → Option CErr
  | none => none
  | some v => cfg.check v

/-- the first part of `_Commando.WriteProperty`: a presentValue write becomes a
    write of `priorityArray[priority]`, `priority is None` → 16 -/
def redirect (prop : PropId) (arrayIndex priority : Option Int) : PropId × Option Int :=
  match prop with
  | .presentValue =>
    match priority with
    | none => (.priorityArray, some 16)
    | some p => (.priorityArray, some p)
  | p => (p, arrayIndex)

/-- the checks `_Commando.WriteProperty` makes before anything is changed, in the
    order of the code: which slot a write addresses, or how it is refused -/
def target {V} (cfg : Cfg V) (prop : PropId) (value : Option V)
    (arrayIndex priority : Option Int) : Except CErr Nat :=
  match redirect prop arrayIndex priority with
  | (.other, _) => .error .notModelled
  | (.presentValue, _) => .error .notModelled      -- unreachable: redirect never returns it
  | (.priorityArray, none) =>
    -- "writing entire priorityArray": passed to Property.WriteProperty of a
    -- property that is not mutable
    .error .writeAccessDenied
  | (.priorityArray, some i) =>
    if i = 0 then .error .writeAccessDenied
    else if i < 1 ∨ i > 16 then .error .invalidArrayIndex
    else
      -- "check the value before anything is changed" (a null needs no check)
      match checkValue cfg value with
      | some e => .error e
      | none => .ok i.toNat

/-- `_Commando.WriteProperty(property, value, arrayIndex, priority)` (with
    `direct=False`), including what `Property.WriteProperty` of presentValue and
    the MinOnOff monitor do underneath.  Returns the state reached and the
    exception that left the call, if any. -/
def wp {V} [DecidableEq V] (cfg : Cfg V) :
    Nat → St V → PropId → Option V → Option Int → Option Int → St V × Option CErr
  | 0, s, _, _, _, _ => (s, some .recursion)
  | fuel + 1, s, prop, value, arrayIndex, priority =>
    match target cfg prop value arrayIndex priority with
    | .error e => (s, some e)
    | .ok i =>
      -- the null or the choice is set, the other cleared
      let s1 : St V := { s with slots := setSlot s.slots i value }
      -- look for the highest priority value, compare with the current value
      let w := winner cfg s1.slots
      if w = s1.present then (s1, none)            -- "no present value change"
      else
        -- Property.WriteProperty(presentValue, w): store, then the monitors
        let s2 : St V := { s1 with present := w }
        if cfg.minOnOff = false then (s2, none)
        else
          -- MinOnOffTask.present_value_change(old, new)
          if s1.present = w then (s2, none)        -- "no state change"
          else
            match holdDelay cfg w with
            | none => (s2, some .valueError)
            | some 0 => (s2, none)                 -- "no delay"
            | some (d + 1) =>
              -- self.binary_obj.WriteProperty("presentValue", new_value, priority=6)
              match wp cfg fuel s2 .presentValue (some w) none (some 6) with
              | (s3, some e) => (s3, some e)
              | (s3, none) =>
                -- self.install_task(delta=task_delay)  (re-installs if scheduled)
                ({ s3 with deadline := some (s3.now + 1000000 * (d + 1)) }, none)

/-- the recursion depth the drivers and theorems use (any value ≥ 2 gives the
    same function: `C17.wp_fuel_irrelevant`) -/
def FUEL : Nat := 8

/-- what the environment can do to the object -/
inductive Event (V : Type)
  | write (prop : PropId) (value : Option V) (arrayIndex priority : Option Int)
  | tick (t : Nat)      -- the scheduler looks at the clock at (absolute) time t
deriving Repr

/-- one event.  `tick t`: the clock reads `max now t`; `TaskManager.get_next_task`
    pops the task iff `when <= now`; `MinOnOffTask.process_task` then clears slot 6
    through `WriteProperty("presentValue", (), priority=6)`. -/
def step {V} [DecidableEq V] (cfg : Cfg V) (s : St V) : Event V → St V × Option CErr
  | .write p v ai pr => wp cfg FUEL s p v ai pr
  | .tick t =>
    let s' : St V := { s with now := max s.now t }
    match s'.deadline with
    | none => (s', none)
    | some dl =>
      if dl ≤ s'.now then
        wp cfg FUEL { s' with deadline := none } .presentValue none none (some 6)
      else (s', none)

def run {V} [DecidableEq V] (cfg : Cfg V) (s : St V) (evs : List (Event V)) : St V :=
  evs.foldl (fun s e => (step cfg s e).1) s

/-! ## user monitors of the present value (wave 5)

  `obj._property_monitors['presentValue'].append(fn)`: `Property.WriteProperty`
  stores the new present value and then calls every monitor, in list order, with
  the (old, new) pair of THAT change.  A monitor may command the object again
  from inside the callback; that is a nested `WriteProperty` which re-evaluates
  the priority array itself (and may call the monitors again).  Callbacks are
  data here: "when told the value became `trigger` (or on any change), and the
  rule still has firings left, command `value` at `prio`".  The per-rule budget
  bounds the nesting depth (the harness' callbacks keep the same counters). -/

structure Rule (V : Type) where
  trigger : Option V        -- none = on every change
  prio : Option Int
  value : Option V          -- none = relinquish
  raises : Bool := false    -- the callback raises instead of commanding
deriving Repr

/-- state of an object with user monitors: the command state plus firings left per rule -/
structure MSt (V : Type) where
  st : St V
  left : List Nat

def decrAt : List Nat → Nat → List Nat
  | [], _ => []
  | n :: ns, 0 => (n - 1) :: ns
  | n :: ns, k + 1 => n :: decrAt ns k

def leftAt : List Nat → Nat → Nat
  | [], _ => 0
  | n :: _, 0 => n
  | _ :: ns, k + 1 => leftAt ns k

def Rule.fires {V} [DecidableEq V] (r : Rule V) (new : V) (left : Nat) : Bool :=
  decide (0 < left) && (match r.trigger with | none => true | some t => decide (t = new))

/-- `for fn in obj._property_monitors[...]: fn(old_value, value)` over the user rules
    (rule number `k` onwards); `call` is the nested `obj.WriteProperty("presentValue", v,
    priority=p)`; an exception leaves the loop -/
def runRules {V} [DecidableEq V]
    (call : MSt V → Option V → Option Int → MSt V × Option CErr) (new : V) :
    List (Rule V) → Nat → MSt V → MSt V × Option CErr
  | [], _, m => (m, none)
  | r :: rs, k, m =>
    if r.fires new (leftAt m.left k) then
      if r.raises then
        -- the exception leaves `Property.WriteProperty` with the new value stored (and
        -- whatever earlier monitors did): nothing is rolled back, later monitors are
        -- not called, the caller of the outermost WriteProperty sees the exception
        ({ m with left := decrAt m.left k }, some .monitorError)
      else
      match call { m with left := decrAt m.left k } r.value r.prio with
      | (m', some e) => (m', some e)
      | (m', none) => runRules call new rs (k + 1) m'
    else runRules call new rs (k + 1) m

/-- `MinOnOffTask.present_value_change(old, new)` with the nested
    `self.binary_obj.WriteProperty("presentValue", new, priority=6)` as `call` -/
def minOnOffMon {V} [DecidableEq V] (cfg : Cfg V)
    (call : MSt V → Option V → Option Int → MSt V × Option CErr) (old new : V) (m : MSt V) :
    MSt V × Option CErr :=
  if cfg.minOnOff = false then (m, none)           -- the class has no such monitor
  else if old = new then (m, none)                 -- "no state change"
  else
    match holdDelay cfg new with
    | none => (m, some .valueError)
    | some 0 => (m, none)                          -- "no delay"
    | some (d + 1) =>
      match call m (some new) (some 6) with
      | (m3, some e) => (m3, some e)
      | (m3, none) =>
        -- self.install_task(delta=task_delay)
        ({ m3 with st := { m3.st with deadline := some (m3.st.now + 1000000 * (d + 1)) } }, none)

/-- the monitor loop of `Property.WriteProperty(presentValue)`: MinOnOffTask first
    (attached in `__init__`), then the user's, each told (old, new) of THIS change -/
def monitors {V} [DecidableEq V] (cfg : Cfg V) (rules : List (Rule V))
    (call : MSt V → Option V → Option Int → MSt V × Option CErr) (old new : V) (m : MSt V) :
    MSt V × Option CErr :=
  match minOnOffMon cfg call old new m with
  | (m3, some e) => (m3, some e)
  | (m3, none) => runRules call new rules 0 m3

/-- `_Commando.WriteProperty` on an object whose presentValue monitor list is
    [MinOnOffTask (if the mix-in is there), user rules …] -/
def wpM {V} [DecidableEq V] (cfg : Cfg V) (rules : List (Rule V)) :
    Nat → MSt V → PropId → Option V → Option Int → Option Int → MSt V × Option CErr
  | 0, m, _, _, _, _ => (m, some .recursion)
  | fuel + 1, m, prop, value, arrayIndex, priority =>
    match target cfg prop value arrayIndex priority with
    | .error e => (m, some e)
    | .ok i =>
      let s1 : St V := { m.st with slots := setSlot m.st.slots i value }
      let w := winner cfg s1.slots
      if w = s1.present then ({ m with st := s1 }, none)
      else
        -- Property.WriteProperty(presentValue, w): store, then the monitors; a monitor's
        -- own command is a nested WriteProperty on the same object
        monitors cfg rules (fun m' v p => wpM cfg rules fuel m' .presentValue v none p)
          s1.present w { m with st := { s1 with present := w } }

/-- recursion depth for objects with user monitors (budgets are small) -/
def FUELM : Nat := 64

def stepM {V} [DecidableEq V] (cfg : Cfg V) (rules : List (Rule V)) (m : MSt V) :
    Event V → MSt V × Option CErr
  | .write p v ai pr => wpM cfg rules FUELM m p v ai pr
  | .tick t =>
    let s' : St V := { m.st with now := max m.st.now t }
    match s'.deadline with
    | none => ({ m with st := s' }, none)
    | some dl =>
      if dl ≤ s'.now then
        wpM cfg rules FUELM { m with st := { s' with deadline := none } } .presentValue none none (some 6)
      else ({ m with st := s' }, none)

def runM {V} [DecidableEq V] (cfg : Cfg V) (rules : List (Rule V)) (m : MSt V)
    (evs : List (Event V)) : MSt V :=
  evs.foldl (fun m e => (stepM cfg rules m e).1) m

/-- `_Commando.__init__` with no command yet: sixteen nulls, present value given -/
def init {V} (present : V) (now : Nat := 0) : St V :=
  { slots := fun _ => none, present := present, now := now, deadline := none }

/-- a plain command: write (`some v`) or relinquish (`none`) presentValue at a priority -/
def command {V} (value : Option V) (priority : Option Int) : Event V :=
  .write .presentValue value none priority

/-- the sixteen slots as a list (for digests) -/
def slotList {V} (s : St V) : List (Option V) :=
  (List.range 16).map fun i => s.slots (i + 1)

end BacVerif.Commandable
