/-
  Model.Commandable — the command-prioritisation mechanism of bacpypes' local
  commandable objects (py34/bacpypes/local/object.py):

    * `Commandable(datatype)._Commando.WriteProperty`     → `wp`
    * `_Commando._highest_priority_value`                 → `firstFrom` / `winner`
    * `Property.WriteProperty` of presentValue + monitors → the `present := …` step of `wp`
    * `MinOnOffTask.present_value_change`                 → `holdDelay` + the re-entrant call in `wp`
    * `MinOnOffTask.process_task` / `TaskManager`         → `step (.tick t)`

  The model is a transcription of the code as it stands AFTER the repairs
    fixes/C17-minonoff-swapped.patch     (a new *active* state is held for
        `minimumOnTime`, a new *inactive* state for `minimumOffTime`),
    fixes/C17-slot-write-validate.patch  (the value is checked before the slot
        is touched, so a refused write changes nothing),
    fixes/C17-datetime-default.patch     (construction only; no model content).

  Representation
    * values `V` are abstract (any type with decidable equality – Python `==`);
      `none : Option V` is BACnet Null (`()` in bacpypes);
    * the priority array is `slots : Nat → Option V`; `slots i` for `1 ≤ i ≤ 16`
      is `priorityArray[i]` (index 0 is the array length and is never stored);
      every index the code can reach is range-checked first (the two
      `ExecutionError` sites are modelled), so no out-of-range access exists;
    * time is `Nat` microseconds; `minimumOnTime/minimumOffTime` are seconds;
    * Python exceptions are `some err` next to the state reached when the
      exception left `WriteProperty` (the code mutates before it can fail in
      the monitor, so the state is part of the answer);
    * the re-entrant `WriteProperty(…, priority=6)` is a recursive call: the
      model recurses on `fuel` (Python's recursion depth).  `Props/C17.lean`
      proves depth 2 always suffices (`wp_fuel_irrelevant`).

  Core Lean only (no Mathlib) so that the driver links.
-/
namespace BacVerif.Commandable

/-- the ways `WriteProperty` can fail -/
inductive CErr
  | writeAccessDenied   -- ExecutionError('property','writeAccessDenied')
  | invalidArrayIndex   -- ExecutionError('property','invalidArrayIndex')
  | invalidDatatype     -- InvalidParameterDatatype: the value is not one of the datatype
  | valueOutOfRange     -- ExecutionError('property','valueOutOfRange'): enumeration value not in the table
  | valueError          -- ValueError("unrecognized present value …") in MinOnOffTask
  | recursion           -- RecursionError (fuel exhausted) – proved unreachable
  | notModelled         -- a property other than presentValue / priorityArray (C15's domain)
deriving DecidableEq, Repr, Inhabited

def CErr.name : CErr → String
  | .writeAccessDenied => "exec:property:writeAccessDenied"
  | .invalidArrayIndex => "exec:property:invalidArrayIndex"
  | .invalidDatatype => "invalidDatatype"
  | .valueOutOfRange => "exec:property:valueOutOfRange"
  | .valueError => "python:ValueError"
  | .recursion => "python:RecursionError"
  | .notModelled => "notModelled"

/-- which property a `WriteProperty` call names -/
inductive PropId
  | presentValue | priorityArray | other
deriving DecidableEq, Repr, Inhabited

/-- per-object configuration (fixed during a run) -/
structure Cfg (V : Type) where
  default : V            -- relinquishDefault (ReadableProperty: not writable through WriteProperty)
  check : V → Option CErr -- the value check made before a slot is touched (`none` = acceptable):
                         -- `datatype.is_valid(value)` / `isinstance(value, datatype)` → invalidDatatype,
                         -- Enumerated and `value not in _xlate_table` → valueOutOfRange
  minOnOff : Bool        -- the class carries the MinOnOff mix-in (generated table)
  inactive : V           -- BinaryPV 'inactive'
  active : V             -- BinaryPV 'active'
  minOn : Nat            -- `minimumOnTime or 0`, seconds
  minOff : Nat           -- `minimumOffTime or 0`, seconds

/-- the command state of one object -/
structure St (V : Type) where
  slots : Nat → Option V
  present : V
  now : Nat                  -- µs
  deadline : Option Nat      -- when the MinOnOffTask is scheduled (µs), if it is

/-- `priority_value.null = …; setattr(priority_value, choice, …)` on `priorityArray[i]` -/
def setSlot {V} (f : Nat → Option V) (i : Nat) (x : Option V) : Nat → Option V :=
  fun j => if j = i then x else f j

/-- scan `i, i+1, …, i+n-1` for the first slot whose `null is None` -/
def firstFrom {V} (f : Nat → Option V) : Nat → Nat → Option V
  | 0, _ => none
  | n + 1, i =>
    match f i with
    | some v => some v
    | none => firstFrom f n (i + 1)

/-- `_highest_priority_value`: `for i in range(1, 17): … break / else: relinquishDefault` -/
def winner {V} (cfg : Cfg V) (f : Nat → Option V) : V :=
  match firstFrom f 16 1 with
  | some v => v
  | none => cfg.default

/-- `MinOnOffTask.present_value_change`: which minimum time applies to the new
    state (`none` = the `raise ValueError` branch).  Fixed tree: inactive →
    minimumOffTime, active → minimumOnTime. -/
def holdDelay {V} [DecidableEq V] (cfg : Cfg V) (new : V) : Option Nat :=
  if new = cfg.inactive then some cfg.minOff
  else if new = cfg.active then some cfg.minOn
  else none

/-- `if value == (): … else: <check the value>` -/
def checkValue {V} (cfg : Cfg V) : Option V → Option CErr
  | none => none
  | some v => cfg.check v

/-- the first part of `_Commando.WriteProperty`: a presentValue write becomes a
    write of `priorityArray[priority]`, `priority is None` → 16 -/
def redirect (prop : PropId) (arrayIndex priority : Option Int) : PropId × Option Int :=
  match prop with
  | .presentValue =>
    match priority with
    | none => (.priorityArray, some 16)
    | some p => (.priorityArray, some p)
  | p => (p, arrayIndex)

/-- the checks `_Commando.WriteProperty` makes before anything is changed, in the
    order of the code: which slot a write addresses, or how it is refused -/
def target {V} (cfg : Cfg V) (prop : PropId) (value : Option V)
    (arrayIndex priority : Option Int) : Except CErr Nat :=
  match redirect prop arrayIndex priority with
  | (.other, _) => .error .notModelled
  | (.presentValue, _) => .error .notModelled      -- unreachable: redirect never returns it
  | (.priorityArray, none) =>
    -- "writing entire priorityArray": passed to Property.WriteProperty of a
    -- property that is not mutable
    .error .writeAccessDenied
  | (.priorityArray, some i) =>
    if i = 0 then .error .writeAccessDenied
    else if i < 1 ∨ i > 16 then .error .invalidArrayIndex
    else
      -- "check the value before anything is changed" (a null needs no check)
      match checkValue cfg value with
      | some e => .error e
      | none => .ok i.toNat

/-- `_Commando.WriteProperty(property, value, arrayIndex, priority)` (with
    `direct=False`), including what `Property.WriteProperty` of presentValue and
    the MinOnOff monitor do underneath.  Returns the state reached and the
    exception that left the call, if any. -/
def wp {V} [DecidableEq V] (cfg : Cfg V) :
    Nat → St V → PropId → Option V → Option Int → Option Int → St V × Option CErr
  | 0, s, _, _, _, _ => (s, some .recursion)
  | fuel + 1, s, prop, value, arrayIndex, priority =>
    match target cfg prop value arrayIndex priority with
    | .error e => (s, some e)
    | .ok i =>
      -- the null or the choice is set, the other cleared
      let s1 : St V := { s with slots := setSlot s.slots i value }
      -- look for the highest priority value, compare with the current value
      let w := winner cfg s1.slots
      if w = s1.present then (s1, none)            -- "no present value change"
      else
        -- Property.WriteProperty(presentValue, w): store, then the monitors
        let s2 : St V := { s1 with present := w }
        if cfg.minOnOff = false then (s2, none)
        else
          -- MinOnOffTask.present_value_change(old, new)
          if s1.present = w then (s2, none)        -- "no state change"
          else
            match holdDelay cfg w with
            | none => (s2, some .valueError)
            | some 0 => (s2, none)                 -- "no delay"
            | some (d + 1) =>
              -- self.binary_obj.WriteProperty("presentValue", new_value, priority=6)
              match wp cfg fuel s2 .presentValue (some w) none (some 6) with
              | (s3, some e) => (s3, some e)
              | (s3, none) =>
                -- self.install_task(delta=task_delay)  (re-installs if scheduled)
                ({ s3 with deadline := some (s3.now + 1000000 * (d + 1)) }, none)

/-- the recursion depth the drivers and theorems use (any value ≥ 2 gives the
    same function: `C17.wp_fuel_irrelevant`) -/
def FUEL : Nat := 8

/-- what the environment can do to the object -/
inductive Event (V : Type)
  | write (prop : PropId) (value : Option V) (arrayIndex priority : Option Int)
  | tick (t : Nat)      -- the scheduler looks at the clock at (absolute) time t
deriving Repr

/-- one event.  `tick t`: the clock reads `max now t`; `TaskManager.get_next_task`
    pops the task iff `when <= now`; `MinOnOffTask.process_task` then clears slot 6
    through `WriteProperty("presentValue", (), priority=6)`. -/
def step {V} [DecidableEq V] (cfg : Cfg V) (s : St V) : Event V → St V × Option CErr
  | .write p v ai pr => wp cfg FUEL s p v ai pr
  | .tick t =>
    let s' : St V := { s with now := max s.now t }
    match s'.deadline with
    | none => (s', none)
    | some dl =>
      if dl ≤ s'.now then
        wp cfg FUEL { s' with deadline := none } .presentValue none none (some 6)
      else (s', none)

def run {V} [DecidableEq V] (cfg : Cfg V) (s : St V) (evs : List (Event V)) : St V :=
  evs.foldl (fun s e => (step cfg s e).1) s

/-- `_Commando.__init__` with no command yet: sixteen nulls, present value given -/
def init {V} (present : V) (now : Nat := 0) : St V :=
  { slots := fun _ => none, present := present, now := now, deadline := none }

/-- a plain command: write (`some v`) or relinquish (`none`) presentValue at a priority -/
def command {V} (value : Option V) (priority : Option Int) : Event V :=
  .write .presentValue value none priority

/-- the sixteen slots as a list (for digests) -/
def slotList {V} (s : St V) : List (Option V) :=
  (List.range 16).map fun i => s.slots (i + 1)

end BacVerif.Commandable
