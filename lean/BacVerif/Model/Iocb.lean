/-
  Model.Iocb — the I/O control block layer above the transaction state
  machines (py34/bacpypes/iocb.py: IOCB, IOQueue, IOController, IOQController,
  SieveQueue; py34/bacpypes/app.py: ApplicationIOController.process_io /
  _app_request / _app_complete / confirmation).

  Core Lean only (no Mathlib): the driver links this.

  One `ApplicationIOController` with its `queue_by_address` dictionary of
  `SieveQueue`s, the IOCBs the application created, and the list of pending
  `deferred(IOQController._trigger, queue)` calls.

      step : St → Ev → St × List Out

  Conventions
  * an IOCB is named by its position in `St.iocbs` (creation order; the code's
    `ioID` minus the first one); a `SieveQueue` object by a serial `qid`;
  * `wait_time` is 0.0 (class default, never changed by ApplicationIOController):
    the WAITING state and `_wait_trigger` do not occur;
  * IOCB time-outs (`set_timeout`), chains and groups are not used by
    ApplicationIOController and are not modelled; every IOCB carries exactly
    one application callback (output `callback`);
  * RE-ENTRANCY: `IOCB.trigger()` calls the callback synchronously in the middle
    of `complete_io` / `abort_io` — after the IOCB left its queue and got its
    final state, BEFORE the controller clears `active_iocb` and defers its
    trigger.  What the application does inside the callback is a script of
    operations (`CbOp`: request_io of a new IOCB to any destination, abort of
    any IOCB) armed beforehand (`Ev.arm`); the first callback that fires takes
    the script and runs it at exactly that point; callbacks fired by those
    nested operations find no script.  Every operation is therefore a function
    of "what a callback does" (`Cb`): level 0 (`cb0`, nothing) for the nested
    operations, level 1 (`cb1`, run the armed script at level 0) for events;
  * messages and errors are opaque tokens (`Nat`);
  * a `SieveQueue` dropped from `queue_by_address` is forgotten by the model
    too: the only references the code keeps to it are `iocb.ioController` of
    finished IOCBs and pending deferred `_trigger` calls, and on such an object
    (idle, empty, no active IOCB) both are no-ops — the lockstep run compares
    outputs and digests after every event, including after such calls;
  * `IOQueue.put` inserts by `bisect_left(queue, (priority+1,))`; on the sorted
    list the queue always is, that is "behind every entry with priority ≤ p".
-/
namespace BacVerif.Iocb

abbrev Addr := Nat

/-- `ioState` (iocb.py: IDLE 0, PENDING 1, ACTIVE 2, COMPLETED 3, ABORTED 4) -/
inductive IoSt | idle | pending | active | completed | aborted
deriving DecidableEq, Repr, Inhabited

def IoSt.code : IoSt → Nat
  | .idle => 0 | .pending => 1 | .active => 2 | .completed => 3 | .aborted => 4

/-- `ioState in (COMPLETED, ABORTED)` -/
def IoSt.terminal : IoSt → Bool
  | .completed | .aborted => true
  | _ => false

/-- error tokens of the exceptions the layer itself produces -/
def tokRequestFailed : Nat := 1000001     -- the exception `request_fn` raised (stack below refused)
def tokInvalidTransition : Nat := 1000002 -- RuntimeError("invalid state transition …") of `active_io`

structure Iocb where
  dest : Addr                    -- args[0].pduDestination
  prio : Nat := 0                -- ioPriority
  unconf : Bool := false         -- args[0] is an UnconfirmedRequestPDU
  fails : Bool := false          -- the stack below raises when handed this request
  st : IoSt := .idle             -- ioState
  ctrl : Option Nat := none      -- ioController: `none` = the application, `some q` = SieveQueue q
  inq : Option Nat := none       -- ioQueue (back pointer; `IOQueue.remove` does not clear it)
  resp : Option Nat := none      -- ioResponse
  err : Option Nat := none       -- ioError
deriving DecidableEq, Repr, Inhabited

/-- one `SieveQueue` (an `IOQController` with its `IOQueue`) -/
structure Q where
  qid : Nat
  busy : Bool := false             -- `self.state != CTRL_IDLE`
  active : Option Nat := none      -- `active_iocb`
  queue : List (Nat × Nat) := []   -- `ioQueue.queue`: (priority, IOCB)
deriving DecidableEq, Repr, Inhabited

/-- an operation the application issues from inside a completion callback -/
inductive CbOp
  | submit (dest prio : Nat) (unconf fails : Bool)   -- `request_io(IOCB(...))`
  | abort (id tok : Nat)                             -- `iocb.abort(err)`
deriving DecidableEq, Repr, Inhabited

structure St where
  iocbs : List Iocb := []
  queues : List (Addr × Q) := []   -- `queue_by_address`, dictionary (insertion) order
  nextQ : Nat := 0
  deferred : List Nat := []        -- pending `deferred(IOQController._trigger, q)`, by qid
  script : List CbOp := []         -- what the next completion callback will do
deriving DecidableEq, Repr, Inhabited

def St.init : St := {}

/-- what `_app_complete` is handed: `None`/SimpleAck/ComplexAck, Error/Reject/Abort,
    or anything else (`RuntimeError("unrecognized APDU type")`) -/
inductive Conf | ack | err | other
deriving DecidableEq, Repr, Inhabited

inductive Raise | unrecognized
deriving DecidableEq, Repr, Inhabited

inductive Out
  /-- `request_fn(iocb.args[0])`: the request of this IOCB goes down the stack -/
  | sent (id : Nat)
  /-- the IOCB's callback ran; it saw this `ioState`, `ioResponse`, `ioError` -/
  | callback (id : Nat) (st : IoSt) (resp err : Option Nat)
  | raised (r : Raise)
deriving DecidableEq, Repr, Inhabited

inductive Ev
  /-- the application builds an IOCB (one callback) and calls `request_io` -/
  | submit (dest prio : Nat) (unconf fails : Bool)
  /-- the application calls `iocb.abort(err)` -/
  | abort (id tok : Nat)
  /-- `ApplicationIOController.confirmation(apdu)` with `apdu.pduSource = addr` -/
  | confirm (addr : Addr) (kind : Conf) (tok : Nat)
  /-- the core loop runs the oldest deferred function -/
  | runDeferred
  /-- the application decides what its next completion callback will do -/
  | arm (script : List CbOp)
deriving DecidableEq, Repr, Inhabited

/-! ### dictionaries and lists -/

/-- `queue_by_address.get(addr)` -/
def lookupQ (l : List (Addr × Q)) (a : Addr) : Option Q :=
  match l with
  | [] => none
  | (b, q) :: rest => if b = a then some q else lookupQ rest a

/-- the queue object with serial `qid`, if the dictionary still holds it -/
def findQ (l : List (Addr × Q)) (qid : Nat) : Option Q :=
  match l with
  | [] => none
  | (_, q) :: rest => if q.qid = qid then some q else findQ rest qid

/-- mutate the queue object `qid` in place -/
def updQ (l : List (Addr × Q)) (qid : Nat) (f : Q → Q) : List (Addr × Q) :=
  l.map fun (a, q) => if q.qid = qid then (a, f q) else (a, q)

/-- `del queue_by_address[addr]` -/
def delQ (l : List (Addr × Q)) (a : Addr) : List (Addr × Q) :=
  l.filter fun (b, _) => b ≠ a

/-- mutate IOCB `id` in place -/
def updI (l : List Iocb) (id : Nat) (f : Iocb → Iocb) : List Iocb :=
  match l[id]? with
  | some io => l.set id (f io)
  | none => l

/-- `IOQueue.put`: behind every entry of priority ≤ `p` -/
def put (l : List (Nat × Nat)) (p id : Nat) : List (Nat × Nat) :=
  match l with
  | [] => [(p, id)]
  | (p', i') :: t => if p' ≤ p then (p', i') :: put t p id else (p, id) :: (p', i') :: t

/-- `IOQueue.remove(iocb)`: first entry holding it -/
def removeId (l : List (Nat × Nat)) (id : Nat) : List (Nat × Nat) :=
  match l with
  | [] => []
  | (p, i) :: t => if i = id then t else (p, i) :: removeId t id

/-! ### IOCB / IOController -/

/-- what the application's callback of IOCB `id` does, invoked in state `s` -/
abbrev Cb := St → Nat → St × List Out

/-- `if self.ioQueue: self.ioQueue.remove(self)` -/
def dequeue (s : St) (io : Iocb) (id : Nat) : St :=
  match io.inq with
  | some q => { s with queues := updQ s.queues q fun x => { x with queue := removeId x.queue id } }
  | none => s

section family
variable (F : Cb)

/-- `IOCB.trigger()`: leave the queue it is in (if any), run the callback -/
def fire (s : St) (id : Nat) : St × List Out :=
  match s.iocbs[id]? with
  | none => (s, [])
  | some io =>
    let (s', o) := F (dequeue s io id) id
    (s', .callback id io.st io.resp io.err :: o)

/-- `IOController.complete_io(iocb, msg)` -/
def baseComplete (s : St) (id : Nat) (msg : Option Nat) : St × List Out :=
  match s.iocbs[id]? with
  | none => (s, [])
  | some io =>
    if io.st = .completed then (s, [])
    else if io.st = .aborted then (s, [])
    else fire F { s with iocbs := updI s.iocbs id fun x => { x with st := .completed, resp := msg } } id

/-- `IOController.abort_io(iocb, err)` -/
def baseAbort (s : St) (id : Nat) (err : Nat) : St × List Out :=
  match s.iocbs[id]? with
  | none => (s, [])
  | some io =>
    if io.st = .completed then (s, [])
    else if io.st = .aborted then (s, [])
    else fire F { s with iocbs := updI s.iocbs id fun x => { x with st := .aborted, err := some err } } id

/-! ### IOQController -/

/-- the tail of `complete_io` / `abort_io` for the active IOCB:
    `active_iocb = None; state = CTRL_IDLE; deferred(_trigger, self)` -/
def release (s : St) (qid : Nat) : St :=
  { s with queues := updQ s.queues qid fun x => { x with active := none, busy := false },
           deferred := s.deferred ++ [qid] }

/-- `IOQController.complete_io(active_iocb, msg)` (only ever called with the
    active IOCB): the callbacks run first, then the controller lets go -/
def qComplete (s : St) (qid id : Nat) (msg : Option Nat) : St × List Out :=
  let (s, o) := baseComplete F s id msg
  (release s qid, o)

/-- `IOQController.abort_io(iocb, err)`: `active_iocb` is compared AFTER the callbacks -/
def qAbort (s : St) (qid id : Nat) (err : Nat) : St × List Out :=
  let (s, o) := baseAbort F s id err
  match findQ s.queues qid with
  | none => (s, o)                      -- forgotten queue object: `active_iocb` is None
  | some q =>
    if q.active ≠ some id then (s, o)   -- "not current iocb"
    else (release s qid, o)

/-! ### ApplicationIOController -/

/-- `_app_complete(address, apdu)` -/
def appComplete (s : St) (addr : Addr) (kind : Conf) (msg : Option Nat) : St × List Out :=
  match lookupQ s.queues addr with
  | none => (s, [])                     -- "no queue for …"
  | some q =>
    match q.active with
    | none => (s, [])                   -- "no active request for …"
    | some id =>
      let r : Option (St × List Out) :=
        match kind with
        | .ack => some (qComplete F s q.qid id msg)
        | .err => some (qAbort F s q.qid id (msg.getD 0))
        | .other => none
      match r with
      | none => (s, [.raised .unrecognized])
      | some (s, o) =>
        -- "if the queue is empty and idle, forget about the controller" (looked at AFTER the callbacks)
        match findQ s.queues q.qid with
        | none => (s, o)
        | some q' =>
          if q'.queue.isEmpty && q'.active.isNone then ({ s with queues := delQ s.queues addr }, o)
          else (s, o)

/-- `SieveQueue.process_io(iocb)` inside the `try … except: abort_io` of
    `request_io` / `_trigger`: `active_io`, then `request_fn` = `_app_request` -/
def launch (s : St) (qid id : Nat) : St × List Out :=
  match s.iocbs[id]? with
  | none => (s, [])
  | some io =>
    if io.st ≠ .idle ∧ io.st ≠ .pending then
      qAbort F s qid id tokInvalidTransition           -- `active_io` raised
    else
      let s := { s with iocbs := updI s.iocbs id fun x => { x with st := .active },
                        queues := updQ s.queues qid fun x => { x with busy := true, active := some id } }
      if io.fails then
        let (s, o) := qAbort F s qid id tokRequestFailed
        (s, .sent id :: o)
      else if io.unconf then
        -- "if this was an unconfirmed request, it's complete, no message"
        let (s, o) := appComplete F s io.dest .ack none
        (s, .sent id :: o)
      else (s, [.sent id])

/-- `ApplicationIOController.request_io(iocb)` for a fresh IOCB -/
def submit (s : St) (dest prio : Nat) (unconf fails : Bool) : St × List Out :=
  let id := s.iocbs.length
  -- IOController.request_io: bind, PENDING
  let io : Iocb := { dest := dest, prio := prio, unconf := unconf, fails := fails, st := .pending }
  let s := { s with iocbs := s.iocbs ++ [io] }
  -- process_io: look up / create the queue of the destination
  let (s, q) :=
    match lookupQ s.queues dest with
    | some q => (s, q)
    | none =>
      let q : Q := { qid := s.nextQ }
      ({ s with queues := s.queues ++ [(dest, q)], nextQ := s.nextQ + 1 }, q)
  -- IOQController.request_io
  let s := { s with iocbs := updI s.iocbs id fun x => { x with ctrl := some q.qid } }
  if q.busy then
    ({ s with iocbs := updI s.iocbs id fun x => { x with st := .pending, inq := some q.qid },
              queues := updQ s.queues q.qid fun x => { x with queue := put x.queue prio id } }, [])
  else launch F s q.qid id

/-- `iocb.abort(err)` by the application -/
def appAbort (s : St) (id tok : Nat) : St × List Out :=
  match s.iocbs[id]? with
  | none => (s, [])
  | some io =>
    match io.ctrl with
    | some qid => qAbort F s qid id tok
    | none => baseAbort F s id tok

/-- `IOQController._trigger(queue)` run from the deferred list -/
def trigger (s : St) (qid : Nat) : St × List Out :=
  match findQ s.queues qid with
  | none => (s, [])                        -- forgotten queue object: idle and empty
  | some q =>
    if q.busy then (s, [])
    else
      match q.queue with
      | [] => (s, [])
      | (_, id) :: rest =>
        -- ioQueue.get()
        let s := { s with queues := updQ s.queues qid fun x => { x with queue := rest },
                          iocbs := updI s.iocbs id fun x => { x with inq := none } }
        let (s, o) := launch F s qid id
        -- "if we're idle, call again"
        let idle := match findQ s.queues qid with
          | some q' => !q'.busy
          | none => true
        (if idle then { s with deferred := s.deferred ++ [qid] } else s, o)

end family

/-! ### what a callback does -/

/-- level 0: the callbacks of nested operations do nothing -/
def cb0 : Cb := fun s _ => (s, [])

/-- one operation of the script, issued by the callback of IOCB `caller`
    (the rig's application never aborts the IOCB it is being called back for) -/
def runOp0 (caller : Nat) (s : St) : CbOp → St × List Out
  | .submit dest prio unconf fails => submit cb0 s dest prio unconf fails
  | .abort id tok => if id = caller then (s, []) else appAbort cb0 s id tok

def runScript0 (caller : Nat) : St → List CbOp → St × List Out
  | s, [] => (s, [])
  | s, op :: ops =>
    let (s1, o1) := runOp0 caller s op
    let (s2, o2) := runScript0 caller s1 ops
    (s2, o1 ++ o2)

/-- level 1: the first callback of an event takes the armed script and runs
    it, right there -/
def cb1 : Cb := fun s caller => runScript0 caller { s with script := [] } s.script

def step (s : St) : Ev → St × List Out
  | .submit dest prio unconf fails => submit cb1 s dest prio unconf fails
  | .abort id tok => appAbort cb1 s id tok
  | .confirm addr kind tok => appComplete cb1 s addr kind (some tok)
  | .runDeferred =>
    match s.deferred with
    | [] => (s, [])
    | qid :: rest => trigger cb1 { s with deferred := rest } qid
  | .arm sc => ({ s with script := sc }, [])

def run : St → List Ev → St × List Out
  | s, [] => (s, [])
  | s, e :: es =>
    let (s1, o1) := step s e
    let (s2, o2) := run s1 es
    (s2, o1 ++ o2)

end BacVerif.Iocb
