/-
  Model.Tag — Tag.encode / Tag.decode / TagList.encode / TagList.decode /
  TagList.get_context / Any.decode  (py34/bacpypes/primitivedata.py,
  py34/bacpypes/constructeddata.py), branch for branch.
-/
import BacVerif.Model.Bytes
namespace BacVerif

inductive TagClass | app | ctx | opening | closing
deriving DecidableEq, Repr, Inhabited

def TagClass.code : TagClass → Nat
  | .app => 0 | .ctx => 1 | .opening => 2 | .closing => 3

structure Tag where
  cls  : TagClass
  num  : Nat
  lvt  : Nat
  data : Bytes
deriving DecidableEq, Repr, Inhabited

/-- the class/LVT bits `Tag.encode` starts from -/
def clsBits : TagClass → Nat
  | .app => 0x00 | .ctx => 0x08 | .opening => 0x0E | .closing => 0x0F

/-- the length escape of `Tag.encode` (everything after the initial octet and
    the optional extended tag number, before the data) -/
def lenEscape (lvt : Nat) : Bytes :=
  if lvt < 5 then []
  else if lvt ≤ 253 then [UInt8.ofNat lvt]
  else if lvt ≤ 65535 then UInt8.ofNat 254 :: be16 lvt
  else UInt8.ofNat 255 :: be32 lvt

/-- first octet of `Tag.encode`.  Python computes
    `data = clsBits + (num << 4 | 0xF0) + (lvt | 5)` with `+`, exactly as here. -/
def firstOctet (t : Tag) : Nat :=
  clsBits t.cls + (if t.num < 15 then t.num * 16 else 0xF0) + (if t.lvt < 5 then t.lvt else 5)

/-- the extended tag-number octet -/
def numExt (num : Nat) : Bytes := if num ≥ 15 then [UInt8.ofNat num] else []

/-- `Tag.encode` (header only) -/
def tagHeader (t : Tag) : Bytes :=
  UInt8.ofNat (firstOctet t) :: (numExt t.num ++ lenEscape t.lvt)

/-- `Tag.encode` -/
def serializeTag (t : Tag) : Bytes := tagHeader t ++ t.data

/-- `TagList.encode` -/
def serializeTags : List Tag → Bytes
  | [] => []
  | t :: ts => serializeTag t ++ serializeTags ts

/-- the `except DecodingError: raise InvalidTag` wrapper of `Tag.decode` -/
def asInvalidTag {α} : Except Err α → Except Err α
  | .ok a => .ok a
  | .error _ => .error .invalidTag

/-- tag-number part of `Tag.decode` -/
def parseNum (first : Nat) (r : Bytes) : Except Err (Nat × Bytes) :=
  if first / 16 = 15 then getU8 r else .ok (first / 16, r)

/-- length/value/type part of `Tag.decode`; `l = first & 7` -/
def parseLen (cls0 : TagClass) (l : Nat) (r : Bytes) : Except Err (TagClass × Nat × Bytes) :=
  if l = 5 then
    match getU8 r with
    | .error e => .error e
    | .ok (x, r') =>
      if x = 254 then
        match getU16 r' with
        | .error e => .error e
        | .ok (y, r'') => .ok (cls0, y, r'')
      else if x = 255 then
        match getU32 r' with
        | .error e => .error e
        | .ok (y, r'') => .ok (cls0, y, r'')
      else .ok (cls0, x, r')
  else if l = 6 then .ok (.opening, 0, r)
  else if l = 7 then .ok (.closing, 0, r)
  else .ok (cls0, l, r)

/-- data part of `Tag.decode` -/
def parseData (cls : TagClass) (num lvt : Nat) (r : Bytes) : Except Err (Tag × Bytes) :=
  if cls = .app ∧ num = 1 then
    .ok ({ cls := cls, num := num, lvt := lvt, data := [] }, r)
  else
    match getData lvt r with
    | .error e => .error e
    | .ok (d, r') => .ok ({ cls := cls, num := num, lvt := lvt, data := d }, r')

/-- body of `Tag.decode` -/
def parseTagRaw (bs : Bytes) : Except Err (Tag × Bytes) :=
  match bs with
  | [] => .error .decoding
  | b :: r1 =>
    let first := b.toNat
    let cls0 : TagClass := if (first / 8) % 2 = 1 then .ctx else .app
    match parseNum first r1 with
    | .error e => .error e
    | .ok (num, r2) =>
      match parseLen cls0 (first % 8) r2 with
      | .error e => .error e
      | .ok (cls, lvt, r3) => parseData cls num lvt r3

/-- `Tag.decode` -/
def parseTag (bs : Bytes) : Except Err (Tag × Bytes) := asInvalidTag (parseTagRaw bs)

/-- `TagList.decode`: `while pdu.pduData: append(Tag(pdu))`.  The Python loop
    has no syntactic bound; here fuel = number of octets, and
    `Props.C02.parseTags_fuel_irrelevant` shows the fuel is never exhausted
    (each tag consumes at least one octet). -/
def parseTagsFuel : Nat → Bytes → Except Err (List Tag)
  | _, [] => .ok []
  | 0, _ :: _ => .error .other
  | fuel + 1, bs@(_ :: _) =>
      match parseTag bs with
      | .error e => .error e
      | .ok (t, rest) =>
          match parseTagsFuel fuel rest with
          | .error e => .error e
          | .ok ts => .ok (t :: ts)

def parseTags (bs : Bytes) : Except Err (List Tag) := parseTagsFuel bs.length bs

/-! ### `TagList.get_context` -/

/-- inner loop of `get_context`: collect tags up to the closing tag that
    brings the level below zero.  Returns the collected group and the tags
    *after* that closing tag, or `none` if the list ends first
    ("mismatched open/close tags"). -/
def collectGroup : Nat → List Tag → Option (List Tag × List Tag)
  | _, [] => none
  | lvl, t :: ts =>
      match t.cls with
      | .opening => (collectGroup (lvl + 1) ts).map fun (g, r) => (t :: g, r)
      | .closing =>
          if lvl = 0 then some ([], ts)
          else (collectGroup (lvl - 1) ts).map fun (g, r) => (t :: g, r)
      | _ => (collectGroup lvl ts).map fun (g, r) => (t :: g, r)

inductive CtxResult
  | none                      -- `return None`
  | tag (t : Tag)             -- a context-encoded atomic value
  | group (ts : List Tag)     -- a context-encoded group
deriving DecidableEq, Repr

/-- `collectGroup` returns a strictly shorter remainder -/
theorem collectGroup_length : ∀ (lvl : Nat) (ts g r : List Tag),
    collectGroup lvl ts = some (g, r) → r.length < ts.length := by
  intro lvl ts
  induction ts generalizing lvl with
  | nil => intro g r h; simp [collectGroup] at h
  | cons t ts ih =>
    intro g r h
    unfold collectGroup at h
    split at h
    · simp only [Option.map_eq_some_iff] at h
      obtain ⟨⟨g', r'⟩, h1, h2⟩ := h
      have := ih _ _ _ h1
      simp only [Prod.mk.injEq] at h2
      obtain ⟨_, rfl⟩ := h2
      simp; omega
    · split at h
      · simp only [Option.some.injEq, Prod.mk.injEq] at h
        obtain ⟨_, rfl⟩ := h; simp
      · simp only [Option.map_eq_some_iff] at h
        obtain ⟨⟨g', r'⟩, h1, h2⟩ := h
        have := ih _ _ _ h1
        simp only [Prod.mk.injEq] at h2
        obtain ⟨_, rfl⟩ := h2
        simp; omega
    · simp only [Option.map_eq_some_iff] at h
      obtain ⟨⟨g', r'⟩, h1, h2⟩ := h
      have := ih _ _ _ h1
      simp only [Prod.mk.injEq] at h2
      obtain ⟨_, rfl⟩ := h2
      simp; omega

/-- `TagList.get_context(context)` -/
def getContext (c : Nat) : List Tag → Except Err CtxResult
  | [] => .ok .none
  | t :: ts =>
      match t.cls with
      | .app => getContext c ts
      | .ctx => if t.num = c then .ok (.tag t) else getContext c ts
      | .opening =>
          match h : collectGroup 0 ts with
          | none => .error .invalidTag
          | some (g, r) =>
              if t.num = c then .ok (.group g) else
                have : r.length < ts.length := collectGroup_length 0 ts g r h
                getContext c r
      | .closing => .error .invalidTag
termination_by ts => ts.length
decreasing_by all_goals simp_wf <;> omega

/-! ### `Any.decode`: take tags while the nesting level stays ≥ 0 -/

/-- returns (taken, rest); `rest` starts at the unmatched closing tag if any.
    `lvl > 0` at the end of the list is the "mismatched open/close tags"
    `DecodingError`. -/
def anyTake : Nat → List Tag → Except Err (List Tag × List Tag)
  | lvl, [] => if lvl = 0 then .ok ([], []) else .error .decoding
  | lvl, t :: ts =>
      match t.cls with
      | .opening => (anyTake (lvl + 1) ts).map fun (g, r) => (t :: g, r)
      | .closing =>
          if lvl = 0 then .ok ([], t :: ts)
          else (anyTake (lvl - 1) ts).map fun (g, r) => (t :: g, r)
      | _ => (anyTake lvl ts).map fun (g, r) => (t :: g, r)

def anyDecode (ts : List Tag) : Except Err (List Tag × List Tag) := anyTake 0 ts

end BacVerif
