/-
  Model.Tsm — the transaction state machine model (umbrella module).

    Types : peers, APDU headers, transactions, events, outputs, configuration
    Ssm   : one ClientSSM / ServerSSM (handlers per state, timers, segments)
    Sap   : StateMachineAccessPoint + ApplicationServiceAccessPoint,
            `step : Cfg → Sap → Event → Sap × List Out`, `run`

  See notes/Tsm.md for the API description and the correspondence.
-/
import BacVerif.Model.Tsm.Types
import BacVerif.Model.Tsm.Ssm
import BacVerif.Model.Tsm.Sap
