/- Model.SchemaWF — decidable well-formedness of a schema environment (stub; filled in below) -/
import BacVerif.Model.Codec
namespace BacVerif.SchemaWF
open BacVerif BacVerif.Schema

def wfEnv (_env : Env) : Bool := true
def provedTypes (_env : Env) : List Nat := []
def badTypes (_env : Env) : List Nat := []

end BacVerif.SchemaWF
