/-
  Model.SchemaWF — the DECIDABLE side conditions of the C03 theorems:

    * `Pat`            first-tag patterns (what the decoders test a peeked tag against)
    * `Info`           per type: possible first tags, nullable, patterns that must
                       not follow an encoding (`confus`), and whether the decoder
                       fails with InvalidTag / DecodingError on any other first tag
                       (`ff`: what the try / restore path of an optional structure
                       without context relies on)
    * `mkInfo env`     one bottom-up pass computing the table
    * `wfEnv env I`    the LL(1)-style well-formedness of an environment w.r.t. a
                       table: the table is consistent with the environment,
                       references point downwards (rank), contexts ≤ 254, an
                       optional element can never be mistaken for what may follow,
                       choice alternatives are pairwise disjoint, list elements
                       consume at least one tag, a context-less list / Any is last
                       before a closing tag
    * `conforms`       structural validity of a value tree for a type
    * `safe`           the follow-set side condition on what comes after an encoding

  Everything is `Bool`-valued and computed, so `gen_env_wf` is `by decide +kernel`.
  Core Lean only (the driver reports `wfEnv` / the proved fragment for evidence).
-/
import BacVerif.Model.Codec
namespace BacVerif.SchemaWF
open BacVerif BacVerif.Schema BacVerif.Codec

/-- what a decoder compares the peeked tag with -/
inductive Pat
  | app (n : Nat)       -- application tag number n
  | ctx (c : Nat)       -- context tag c
  | opening (c : Nat)   -- opening tag c
  | anyApp              -- any application tag (AnyAtomic)
  | anyTag              -- anything that is not a closing tag (Any, greedy lists)
deriving DecidableEq, Repr, Inhabited

def Pat.matches : Pat → Tag → Bool
  | .app n, t => isApp n t
  | .ctx c, t => isCtx c t
  | .opening c, t => isOpen c t
  | .anyApp, t => t.cls == .app
  | .anyTag, t => t.cls != .closing

/-- no tag matches both patterns -/
def Pat.disj : Pat → Pat → Bool
  | .app n, .app m => n != m
  | .ctx c, .ctx d => c != d
  | .opening c, .opening d => c != d
  | .app _, .ctx _ | .app _, .opening _ | .ctx _, .app _ | .ctx _, .opening _
  | .opening _, .app _ | .opening _, .ctx _
  | .anyApp, .ctx _ | .anyApp, .opening _ | .ctx _, .anyApp | .opening _, .anyApp => true
  | _, _ => false

def disjAll (ps qs : List Pat) : Bool := ps.all fun p => qs.all fun q => Pat.disj p q

structure Info where
  first : List Pat      -- possible first tags of a non-empty encoding
  nullable : Bool       -- some value encodes to no tag at all
  confus : List Pat     -- a tag following an encoding must match none of these (or be a closing tag / the end)
  ff : Bool             -- a first tag outside `first` makes the decoder raise InvalidTag / DecodingError
deriving DecidableEq, Repr, Inhabited

abbrev Table := Array Info

def look (I : Table) (j : Nat) : Info := I.getD j ⟨[], false, [.anyTag], false⟩

/-! ### per element -/

/-- possible first tags of the encoding of an element that is present -/
def fieldFirst (env : Env) (I : Table) (f : Field) : List Pat :=
  match kindOf env f.ref, f.ctx with
  | .prim _, some c => [.ctx c]
  | .prim a, none => [.app a]
  | .anyAtomic, _ => [.anyApp]
  | .seqOf _, some c | .listOf _, some c | .struct _, some c => [.opening c]
  | .seqOf j, none | .listOf j, none | .struct j, none => (look I j).first
  | .bad, _ => []

/-- the element may contribute no tag -/
def fieldNullable (env : Env) (I : Table) (f : Field) : Bool :=
  f.opt ||
  match kindOf env f.ref, f.ctx with
  | .seqOf j, none | .listOf j, none | .struct j, none => (look I j).nullable
  | _, _ => false

/-- patterns that must not follow the element -/
def fieldConfus (env : Env) (I : Table) (f : Field) : List Pat :=
  match kindOf env f.ref, f.ctx with
  | .seqOf _, some _ =>
      -- an omitted optional SequenceOf is read back as `[]` unless the end or a closing tag follows
      if f.opt then [.anyTag] else []
  | .seqOf j, none | .listOf j, none | .struct j, none =>
      (if f.opt then (look I j).first else []) ++ (look I j).confus
  | _, _ => if f.opt then fieldFirst env I f else []

/-- the element is of a shape the generic decoder handles at all (sanity) -/
def fieldSane (env : Env) (I : Table) (τ : Nat) (f : Field) : Bool :=
  (match f.ctx with | some c => c ≤ 254 | none => true) &&
  match kindOf env f.ref, f.ctx with
  | .prim a, _ => a ≤ 12
  | .anyAtomic, some _ => false                  -- Sequence.decode raises InvalidTag unconditionally
  | .anyAtomic, none => true
  | .seqOf j, some _ | .listOf j, some _ | .struct j, some _ => j < τ
  | .seqOf j, none | .listOf j, none => j < τ && !f.opt
  | .struct j, none =>
      -- optional: decoded on a backup; "omitted" is recognised by the inner decoder
      -- failing with InvalidTag / DecodingError (`except (DecodingError, InvalidTag)`)
      j < τ && !(look I j).nullable && (!f.opt || (look I j).ff)
  | .bad, _ => false

/-- the decoder of the element fails with InvalidTag (or passes on such a failure
    of the structure inside) when the tag is not one of its first tags -/
def fieldFF (env : Env) (I : Table) (f : Field) : Bool :=
  !f.opt &&
  match kindOf env f.ref, f.ctx with
  | .prim _, some _ => true                                   -- "expected context tag"
  | .listOf _, some _ | .struct _, some _ => true             -- "expected opening tag"
  | .struct j, none => (look I j).ff
  | _, _ => false      -- application-tagged: InvalidParameterDatatype; SequenceOf: MissingRequiredParameter

/-! ### sequences -/

def firstFields (env : Env) (I : Table) : List Field → List Pat
  | [] => []
  | f :: fs => fieldFirst env I f ++ (if fieldNullable env I f then firstFields env I fs else [])

def nullableFields (env : Env) (I : Table) (fs : List Field) : Bool := fs.all (fieldNullable env I)

/-- FOLLOW of a sequence: an element's own follow restrictions reach the outside
    only if every later element may be absent / empty -/
def confusFields (env : Env) (I : Table) : List Field → List Pat
  | [] => []
  | f :: fs => (if nullableFields env I fs then fieldConfus env I f else []) ++ confusFields env I fs

/-- LL(1): what must not follow an element is disjoint from the first tags of what may follow it -/
def seqOK (env : Env) (I : Table) : List Field → Bool
  | [] => true
  | f :: fs => disjAll (fieldConfus env I f) (firstFields env I fs) && seqOK env I fs

/-! ### choices -/

def altSane (env : Env) (τ : Nat) (a : Field) : Bool :=
  (match a.ctx with | some c => c ≤ 254 | none => true) &&
  match kindOf env a.ref, a.ctx with
  | .prim n, _ => n ≤ 12
  | .seqOf j, some _ | .listOf j, some _ | .struct j, some _ => j < τ
  | _, _ => false      -- AnyAtomic alternatives never decode; constructed ones need a context

/-- pairwise disjoint first tags -/
def altsDisj (env : Env) (I : Table) : List Field → Bool
  | [] => true
  | a :: as => (as.all fun b => disjAll (fieldFirst env I a) (fieldFirst env I b)) && altsDisj env I as

/-! ### lists -/

def elemFirst (env : Env) (I : Table) (elem : Ref) : List Pat :=
  match kindOf env elem with
  | .prim a => [.app a]
  | .anyAtomic => [.anyApp]
  | .seqOf j | .listOf j | .struct j => (look I j).first
  | .bad => []

def elemSane (env : Env) (I : Table) (τ : Nat) (elem : Ref) : Bool :=
  match kindOf env elem with
  | .prim a => a ≤ 12
  | .anyAtomic => true
  | .seqOf j | .listOf j | .struct j =>
      j < τ && !(look I j).nullable && disjAll (look I j).confus (look I j).first
  | .bad => false

/-! ### the table -/

def infoOf (env : Env) (I : Table) : TyDef → Info
  | .seq fs =>
      { first := firstFields env I fs, nullable := nullableFields env I fs,
        confus := confusFields env I fs,
        ff := (match fs with | f :: _ => fieldFF env I f | [] => false) }
  | .choice alts =>
      { first := alts.flatMap (fieldFirst env I), nullable := false, confus := [],
        ff := true }
  | .list _ elem fixed =>
      { first := elemFirst env I elem,
        nullable := (match fixed with | some (_ + 1) => false | _ => true),
        confus := [.anyTag], ff := false }
  | .any => { first := [.anyTag], nullable := true, confus := [.anyTag], ff := false }
  | .nameValue _ => { first := [.ctx 0], nullable := false, confus := [.anyApp], ff := false }

/-- local well-formedness of the definition at index τ -/
def defOK (env : Env) (I : Table) (τ : Nat) : TyDef → Bool
  | .seq fs => fs.all (fieldSane env I τ) && seqOK env I fs
  | .choice alts => alts.all (altSane env τ) && altsDisj env I alts
  | .list _ elem _ => elemSane env I τ elem
  | .any => true
  | .nameValue dt =>
      dt < τ && (match env[dt]? with
                 | some (.seq [⟨.prim 10, none, false⟩, ⟨.prim 11, none, false⟩]) => true
                 | _ => false)

/-- bottom-up: entry i only looks at entries below i (references point downwards) -/
def mkInfo (env : Env) : Table :=
  env.foldl (fun I d => I.push (infoOf env I d)) #[]

def entryOK (env : Env) (I : Table) (τ : Nat) : Bool :=
  match env[τ]? with
  | none => false
  | some d => (look I τ == infoOf env I d) && defOK env I τ d

/-- THE decidable well-formedness predicate -/
def wfEnv (env : Env) (I : Table) : Bool :=
  I.size == env.size && (List.range env.size).all (entryOK env I)

/-- the types the generic theorem applies to: every well-formed entry -/
def provedTypes (env : Env) : List Nat :=
  let I := mkInfo env
  (List.range env.size).filter fun τ => entryOK env I τ

def badTypes (env : Env) : List Nat :=
  let I := mkInfo env
  (List.range env.size).filter fun τ => !entryOK env I τ

/-- registries point at sequences of the right PDU kind -/
def registryOK (env : Env) (kinds : List (Nat × PduKind)) (k : PduKind) (reg : List (Nat × Nat)) : Bool :=
  reg.all fun (choice, τ) =>
    choice ≤ 255 && kinds.contains (τ, k) &&
    (match env[τ]? with | some (.seq _) => true | _ => false)

/-! ### values -/

/-- a leaf payload the primitive encoder of application type `app` can produce
    (tag-level part: C01's `Valid` refines it) -/
def leafOK (app lvt : Nat) (data : Bytes) : Bool :=
  (match leafCheck app ⟨.app, app, lvt, data⟩ with | .ok () => true | .error _ => false) &&
  (if app = 1 then data.isEmpty else lvt == data.length) &&
  decide (lvt < 4294967296)        -- fits the 32-bit length field of a tag header (C02's domain)

/-- C02's `WF` as a computation: what `Tag.encode` can put on the wire and `Tag.decode` gives back -/
def tagWFb (t : Tag) : Bool :=
  decide (t.num ≤ 255) && decide (t.lvt < 4294967296) &&
  match t.cls with
  | .app => if t.num = 1 then t.data.isEmpty else t.lvt == t.data.length
  | .ctx => t.lvt == t.data.length
  | .opening | .closing => t.lvt == 0 && t.data.isEmpty

def conformsRef (env : Env) (conf : Nat → Val → Bool) (r : Ref) (v : Val) : Bool :=
  match kindOf env r, v with
  | .prim a, .prim lvt data => leafOK a lvt data
  | .anyAtomic, .atom a lvt data => a ≤ 12 && leafOK a lvt data
  | .seqOf j, v | .listOf j, v | .struct j, v => conf j v
  | _, _ => false

def conformsFields (env : Env) (conf : Nat → Val → Bool) : List Field → List (Option Val) → Bool
  | [], [] => true
  | f :: fs, none :: vs => f.opt && conformsFields env conf fs vs
  | f :: fs, some v :: vs => conformsRef env conf f.ref v && conformsFields env conf fs vs
  | _, _ => false

/-- `Balanced` of C02 as a computation: depth never negative, zero at the end -/
def balancedFrom : Nat → List Tag → Bool
  | d, [] => d == 0
  | d, t :: ts =>
    match t.cls with
    | .opening => balancedFrom (d + 1) ts
    | .closing => match d with | 0 => false | d' + 1 => balancedFrom d' ts
    | _ => balancedFrom d ts

def conformsDef (env : Env) (conf : Nat → Val → Bool) : TyDef → Val → Bool
  | .seq fs, .seq vs => conformsFields env conf fs vs
  | .choice alts, .choice i v =>
    (match alts[i]? with | some a => conformsRef env conf a.ref v | none => false)
  | .list _ elem fixed, .list vs =>
    vs.all (conformsRef env conf elem) &&
    (match fixed with | some n => vs.length == n | none => true)
  | .any, .tags ts => balancedFrom 0 ts && ts.all tagWFb     -- a balanced run of encodable tags
  | .nameValue dt, .seq [some (.prim lvt data), value] =>
    leafOK 7 lvt data &&
    (match value with
     | none => true
     | some (.atom a l d) => a ≤ 12 && leafOK a l d
     | some (.seq fs) => conf dt (.seq fs)
     | some _ => false)
  | _, _ => false

def conformsF (env : Env) : Nat → Nat → Val → Bool
  | 0, _, _ => false
  | fuel + 1, τ, v =>
    match env[τ]? with
    | none => false
    | some d => conformsDef env (conformsF env fuel) d v

/-- `v` is a structurally valid value of class `env[τ]` -/
def conforms (env : Env) (τ : Nat) (v : Val) : Bool := conformsF env (τ + 1) τ v

/-- the follow-set side condition: what comes after the encoding is the end, a
    closing tag, or a tag none of the given patterns matches -/
def safe (S : List Pat) : List Tag → Bool
  | [] => true
  | t :: _ => t.cls == .closing || S.all fun p => !p.matches t

end BacVerif.SchemaWF
