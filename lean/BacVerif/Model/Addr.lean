/-
  Model.Addr — `Address` of py34/bacpypes/pdu.py, branch for branch:
  `Address.__init__` (one- and two-argument forms), `decode_address` (str /
  int / bytes / tuple), `__str__`, `__eq__`, `_tuple`/`__hash__`, the typed
  constructors LocalStation / RemoteStation / LocalBroadcast / RemoteBroadcast
  / GlobalBroadcast and `pack_ip_addr` / `unpack_ip_addr`.

  The string form is a character-level recursive-descent recogniser that is
  equivalent, on ASCII strings without a route suffix, to

      combined_pattern = ^(?:(?:([0-9]+)|([*])):)?(?:([*])|FIELD|IPMP)$
      FIELD            = (\d+) | 0x([0-9A-Fa-f]{2})+
      IPMP             = (\d+\.\d+\.\d+\.\d+)(?:/(\d+))?(?::(\d+))?

  followed by the fall-through patterns that `combined_pattern` does not
  shadow (ethernet `HH:HH:HH:HH:HH:HH`, `X'..'`, `net:X'..'`).  Python's `$`
  also matches before one trailing "\n"; no pattern can consume a "\n", so the
  recogniser runs on `stripNl s`.

  Outside the model (and outside the claim): route suffixes `@…`, non-ASCII
  digits (`\d` is Unicode-aware), interface names (needs `netifaces`, absent).

  The model describes the tree AFTER the three proposed repairs
  (fixes/C18-*.patch): the two-argument constructor validates the network,
  ports outside 0..65535 are refused, and `*:<station>` is refused.

  `socket.inet_aton` is modelled on digit-and-dot strings the way the C
  library reads them (1..4 parts, a part with a leading 0 is octal);
  `socket.inet_ntoa` is dotted decimal.  Python's `~m` on a 32-bit mask is
  modelled by `not32 m = 2^32-1-m` (the two's-complement identity
  `x & ~m = x & ((~m) mod 2^32)` for `0 ≤ x < 2^32`).

  Core Lean only.
-/
import BacVerif.Model.Bytes
namespace BacVerif.Addr
open BacVerif

/-! ## characters, decimal and hexadecimal scanners and printers -/

/-- `[0-9]` -/
def isDig (c : Char) : Bool := 48 ≤ c.toNat && c.toNat ≤ 57

/-- value of a decimal digit -/
def dval (c : Char) : Nat := c.toNat - 48

/-- `int(ds)` for a digit string -/
def decVal (ds : List Char) : Nat := ds.foldl (fun a c => 10 * a + dval c) 0

/-- value of an octal digit string -/
def octVal (ds : List Char) : Nat := ds.foldl (fun a c => 8 * a + dval c) 0

/-- `[0-9A-Fa-f]` with its value -/
def hexVal (c : Char) : Option Nat :=
  let n := c.toNat
  if 48 ≤ n ∧ n ≤ 57 then some (n - 48)
  else if 97 ≤ n ∧ n ≤ 102 then some (n - 87)
  else if 65 ≤ n ∧ n ≤ 70 then some (n - 55)
  else none

/-- greedy `\d*`: (digits, rest) -/
def digits : List Char → List Char × List Char
  | [] => ([], [])
  | c :: cs => if isDig c then ((c :: (digits cs).1), (digits cs).2) else ([], c :: cs)

/-- `xtob` of a string of hex pairs (`(?:[0-9A-Fa-f][0-9A-Fa-f])*` to the end) -/
def hexBytes : List Char → Option Bytes
  | [] => some []
  | [_] => none
  | a :: b :: r =>
    match hexVal a, hexVal b, hexBytes r with
    | some x, some y, some bs => some (UInt8.ofNat (16 * x + y) :: bs)
    | _, _, _ => none

/-- hex pairs up to a closing quote that ends the string -/
def hexUntilQuote : List Char → Option Bytes
  | [] => none
  | [c] => if c = '\'' then some [] else none
  | a :: b :: r =>
    match hexVal a, hexVal b, hexUntilQuote r with
    | some x, some y, some bs => some (UInt8.ofNat (16 * x + y) :: bs)
    | _, _, _ => none

def digitChar (d : Nat) : Char :=
  match d with
  | 0 => '0' | 1 => '1' | 2 => '2' | 3 => '3' | 4 => '4'
  | 5 => '5' | 6 => '6' | 7 => '7' | 8 => '8' | _ => '9'

def printDecAux : Nat → Nat → List Char → List Char
  | 0, _, acc => acc
  | fuel + 1, n, acc =>
    if n < 10 then digitChar n :: acc
    else printDecAux fuel (n / 10) (digitChar (n % 10) :: acc)

/-- `str(n)` / `"%d" % n` for a natural number -/
def printDec (n : Nat) : List Char := printDecAux (n + 1) n []

def hexDigit (d : Nat) : Char :=
  match d with
  | 0 => '0' | 1 => '1' | 2 => '2' | 3 => '3' | 4 => '4' | 5 => '5' | 6 => '6' | 7 => '7'
  | 8 => '8' | 9 => '9' | 10 => 'a' | 11 => 'b' | 12 => 'c' | 13 => 'd' | 14 => 'e' | _ => 'f'

/-- `btox` -/
def hexOf : Bytes → List Char
  | [] => []
  | b :: r => hexDigit (b.toNat / 16) :: hexDigit (b.toNat % 16) :: hexOf r

/-! ## the address value -/

inductive AType
  | null | localBroadcast | localStation | remoteBroadcast | remoteStation | globalBroadcast
deriving DecidableEq, Repr, Inhabited

def AType.code : AType → Nat
  | .null => 0 | .localBroadcast => 1 | .localStation => 2
  | .remoteBroadcast => 3 | .remoteStation => 4 | .globalBroadcast => 5

/-- the IP helper fields (`addrIP, addrMask, addrHost, addrSubnet, addrPort,
    addrTuple, addrBroadcastTuple`); both tuples carry `port` -/
structure IPInfo where
  ip : Nat
  mask : Nat
  host : Option Nat
  subnet : Option Nat
  port : Nat
  tupHost : List Char
  bcastHost : List Char
deriving DecidableEq, Repr

structure Addr where
  ty : AType
  net : Option Nat
  addr : Option Bytes
  ip : Option IPInfo
deriving DecidableEq, Repr

/-- `addrLen` (always `len(addrAddr)` or `None`) -/
def Addr.len (a : Addr) : Option Nat := a.addr.map List.length

def mkLocalBroadcast : Addr := ⟨.localBroadcast, none, none, none⟩
def mkGlobalBroadcast : Addr := ⟨.globalBroadcast, none, none, none⟩
def mkNull : Addr := ⟨.null, none, none, none⟩

/-! ## IP arithmetic -/

def longMask : Nat := 0xFFFFFFFF

/-- `~m` seen through 32 bits -/
def not32 (m : Nat) : Nat := longMask - m

/-- `(_long_mask << (32 - n)) & _long_mask` -/
def maskOf (n : Nat) : Nat := (longMask <<< (32 - n)) &&& longMask

/-- `addrIP & ~addrMask` -/
def hostOf (ip mask : Nat) : Nat := ip &&& not32 mask

/-- `addrIP & addrMask` -/
def subnetOf (ip mask : Nat) : Nat := ip &&& mask

/-- `(addrSubnet | ~addrMask) & _long_mask` -/
def bcastOf (ip mask : Nat) : Nat := (subnetOf ip mask ||| not32 mask) &&& longMask

/-- `socket.inet_ntoa(struct.pack('!L', v))` -/
def ntoa (v : Nat) : List Char :=
  printDec (v / 16777216 % 256) ++ '.' :: (printDec (v / 65536 % 256) ++
    '.' :: (printDec (v / 256 % 256) ++ '.' :: printDec (v % 256)))

/-- one numeric part of `inet_aton` (a non-empty digit string): a leading 0
    makes it octal, a non-octal digit then makes the address illegal -/
def atonPart (ds : List Char) : Option Nat :=
  match ds with
  | [] => none
  | c :: r =>
    if c = '0' then
      (if r.all (fun d => dval d < 8) then some (octVal r) else none)
    else some (decVal ds)

/-- split at every '.' -/
def splitDots : List Char → List (List Char)
  | [] => [[]]
  | c :: r =>
    match splitDots r with
    | [] => [[c]]      -- unreachable: splitDots never returns []
    | p :: ps => if c = '.' then [] :: p :: ps else (c :: p) :: ps

def allDigits (ds : List Char) : Bool := ds.all isDig

def atonParts : List (List Char) → Option (List Nat)
  | [] => some []
  | p :: ps =>
    if allDigits p then
      match atonPart p, atonParts ps with
      | some v, some vs => some (v :: vs)
      | _, _ => none
    else none

/-- `struct.unpack('!L', socket.inet_aton(s))[0]` on digit-and-dot strings -/
def inetAton (s : List Char) : Option Nat :=
  match atonParts (splitDots s) with
  | some [a] => if a < 4294967296 then some a else none
  | some [a, b] => if a < 256 ∧ b < 16777216 then some (a * 16777216 + b) else none
  | some [a, b, c] =>
      if a < 256 ∧ b < 256 ∧ c < 65536 then some (a * 16777216 + b * 65536 + c) else none
  | some [a, b, c, d] =>
      if a < 256 ∧ b < 256 ∧ c < 256 ∧ d < 256
      then some (a * 16777216 + b * 65536 + c * 256 + d) else none
  | _ => none

/-- the four-part case, as reached from the `\d+\.\d+\.\d+\.\d+` group -/
def inetAton4 (a b c d : List Char) : Option Nat :=
  match atonPart a, atonPart b, atonPart c, atonPart d with
  | some a, some b, some c, some d =>
      if a < 256 ∧ b < 256 ∧ c < 256 ∧ d < 256
      then some (a * 16777216 + b * 65536 + c * 256 + d) else none
  | _, _, _, _ => none

def dotted4 (a b c d : List Char) : List Char :=
  a ++ '.' :: (b ++ '.' :: (c ++ '.' :: d))

/-! ## `combined_pattern` -/

inductive Pfx
  | none
  | net (ds : List Char)
  | star
deriving DecidableEq, Repr

inductive Body
  | star
  | dec (ds : List Char)
  | hex (bs : Bytes)
  | ip (a b c d : List Char) (mask port : Option (List Char))
deriving DecidableEq, Repr

/-- `(?:SEP(\d+))?` -/
def optNum (sep : Char) (s : List Char) : Option (Option (List Char) × List Char) :=
  match s with
  | [] => some (none, [])
  | c :: r =>
    if c = sep then
      (if (digits r).1 = [] then none else some (some (digits r).1, (digits r).2))
    else some (none, c :: r)

/-- after the first `\d+` and its '.', the rest of IPMP up to the end -/
def matchIPTail (a : List Char) (s : List Char) : Option Body :=
  let b := (digits s).1
  match (digits s).2 with
  | '.' :: s2 =>
    let c := (digits s2).1
    match (digits s2).2 with
    | '.' :: s3 =>
      let d := (digits s3).1
      if b = [] ∨ c = [] ∨ d = [] then none else
      match optNum '/' (digits s3).2 with
      | none => none
      | some (mask, s4) =>
        match optNum ':' s4 with
        | some (port, []) => some (.ip a b c d mask port)
        | _ => none
    | _ => none
  | _ => none

/-- `(?:([*])|FIELD|IPMP)$` -/
def matchBody (s : List Char) : Option Body :=
  if s = ['*'] then some .star else
  let d1 := (digits s).1
  if d1 = [] then none else
  match (digits s).2 with
  | [] => some (.dec d1)
  | 'x' :: hs =>
      if d1 = ['0'] then
        match hexBytes hs with
        | some [] => none
        | some bs => some (.hex bs)
        | none => none
      else none
  | '.' :: r => matchIPTail d1 r
  | _ => none

/-- the whole pattern (no route) -/
def matchCombined (s : List Char) : Option (Pfx × Body) :=
  match s with
  | '*' :: ':' :: r => (matchBody r).map (fun b => (Pfx.star, b))
  | _ =>
    match (digits s).1, (digits s).2 with
    | _ :: _, ':' :: r => (matchBody r).map (fun b => (Pfx.net (digits s).1, b))
    | _, _ => (matchBody s).map (fun b => (Pfx.none, b))

/-- the `if global_broadcast and local_broadcast … elif net:` chain -/
def interpPfx (p : Pfx) (b : Body) : Except Err (AType × Option Nat) :=
  match p, b with
  | .star, .star => .ok (.globalBroadcast, none)
  | .net ds, .star =>
      if decVal ds ≥ 65535 then .error .valueRange else .ok (.remoteBroadcast, some (decVal ds))
  | _, .star => .ok (.localBroadcast, none)
  | .net ds, _ =>
      if decVal ds ≥ 65535 then .error .valueRange else .ok (.remoteStation, some (decVal ds))
  | .star, _ => .error .valueRange        -- repaired: `*:<station>` is not a notation
  | .none, _ => .ok (.localStation, none)

/-- the `if local_ip_addr:` block -/
def ipFromStr (a b c d : List Char) (mask port : Option (List Char)) :
    Except Err (Bytes × IPInfo) :=
  let p := decVal (port.getD ['4', '7', '8', '0', '8'])
  if p > 65535 then .error .valueRange else        -- repaired: port range
  match inetAton4 a b c d with
  | none => .error .other                           -- OSError from inet_aton
  | some ip =>
    let n := decVal (mask.getD ['3', '2'])
    if n > 32 then .error .valueRange else           -- "negative shift count"
    let m := maskOf n
    .ok (be32 ip ++ be16 p,
         { ip := ip, mask := m, host := some (hostOf ip m), subnet := some (subnetOf ip m),
           port := p, tupHost := dotted4 a b c d, bcastHost := ntoa (bcastOf ip m) })

/-- the `if local_addr:` / `if local_ip_addr:` blocks -/
def interpBody : Body → Except Err (Option Bytes × Option IPInfo)
  | .star => .ok (none, none)
  | .dec ds =>
      if decVal ds ≥ 256 then .error .valueRange else .ok (some [UInt8.ofNat (decVal ds)], none)
  | .hex bs => .ok (some bs, none)
  | .ip a b c d mask port =>
      match ipFromStr a b c d mask port with
      | .ok (bs, info) => .ok (some bs, some info)
      | .error e => .error e

def interp (pb : Pfx × Body) : Except Err Addr :=
  match interpPfx pb.1 pb.2 with
  | .error e => .error e
  | .ok (ty, net) =>
    match interpBody pb.2 with
    | .error e => .error e
    | .ok (addr, ip) => .ok ⟨ty, net, addr, ip⟩

/-! ## fall-through patterns -/

/-- `^([0-9A-Fa-f][0-9A-Fa-f][:]){n}([0-9A-Fa-f][0-9A-Fa-f])$` -/
def ethGroups : Nat → List Char → Option Bytes
  | 0, s => match s with
      | [a, b] => hexBytes [a, b]
      | _ => none
  | n + 1, s => match s with
      | a :: b :: ':' :: r =>
        match hexBytes [a, b], ethGroups n r with
        | some x, some y => some (x ++ y)
        | _, _ => none
      | _ => none

def matchEthernet (s : List Char) : Option Bytes := ethGroups 5 s

/-- `^X'([0-9A-Fa-f][0-9A-Fa-f])+'$` -/
def matchXHex (s : List Char) : Option Bytes :=
  match s with
  | 'X' :: '\'' :: r =>
    match hexUntilQuote r with
    | some [] => none
    | some bs => some bs
    | none => none
  | _ => none

/-- `^\d+:X'([0-9A-Fa-f][0-9A-Fa-f])+'$` -/
def matchNetXHex (s : List Char) : Option (List Char × Bytes) :=
  match (digits s).1, (digits s).2 with
  | _ :: _, ':' :: r => (matchXHex r).map (fun bs => ((digits s).1, bs))
  | _, _ => none

/-- what `$` tolerates: exactly one trailing newline -/
def stripNl : List Char → List Char
  | [] => []
  | c :: r => if c = '\n' ∧ r = [] then [] else c :: stripNl r

def mkLocalStation (bs : Bytes) : Addr := ⟨.localStation, none, some bs, none⟩
def mkRemoteStation (n : Nat) (bs : Bytes) : Addr := ⟨.remoteStation, some n, some bs, none⟩
def mkRemoteBroadcast (n : Nat) : Addr := ⟨.remoteBroadcast, some n, none, none⟩

/-- `decode_address(addr)` for `str` -/
def parse (s : List Char) : Except Err Addr :=
  if s = ['*'] then .ok mkLocalBroadcast
  else if s = ['*', ':', '*'] then .ok mkGlobalBroadcast
  else
    let t := stripNl s
    match matchCombined t with
    | some pb => interp pb
    | none =>
    match matchEthernet t with
    | some bs => .ok (mkLocalStation bs)
    | none =>
    match matchXHex t with
    | some bs => .ok (mkLocalStation bs)
    | none =>
    match matchNetXHex t with
    | some (ns, bs) =>
        if decVal ns ≥ 65535 then .error .valueRange else .ok (mkRemoteStation (decVal ns) bs)
    | none => .error .valueRange          -- "unrecognized format"

/-! ## the other argument types of `decode_address` -/

/-- `isinstance(addr, int)` -/
def ofInt (n : Int) : Except Err Addr :=
  if n < 0 ∨ n ≥ 256 then .error .valueRange
  else .ok (mkLocalStation [UInt8.ofNat n.toNat])

/-- `isinstance(addr, (bytes, bytearray))` -/
def ofBytes (bs : Bytes) : Except Err Addr :=
  if bs.length = 6 then
    let ip := beVal (bs.take 4)
    let m := longMask
    let p := beVal (bs.drop 4)
    .ok ⟨.localStation, none, some bs,
         some { ip := ip, mask := m, host := some (hostOf ip m), subnet := some (subnetOf ip m),
                port := p, tupHost := ntoa ip,
                bcastHost := ntoa 4294967295 }⟩
  else .ok (mkLocalStation bs)

def tupleAddr (ip : Nat) (p : Nat) (th : List Char) : Addr :=
  ⟨.localStation, none, some (be32 ip ++ be16 p),
   some { ip := ip, mask := longMask, host := none, subnet := none, port := p,
          tupHost := th, bcastHost := th }⟩

/-- `isinstance(addr, tuple)` with a string host (digits and dots, or empty) -/
def ofTupleStr (h : List Char) (port : Int) : Except Err Addr :=
  if port < 0 ∨ port > 65535 then .error .valueRange else    -- repaired: port range
  if h = [] then .ok (tupleAddr 0 port.toNat [])
  else match inetAton h with
    | none => .error .other
    | some ip => .ok (tupleAddr ip port.toNat h)

/-- `isinstance(addr, tuple)` with an integer host: `addr & _long_mask` -/
def ofTupleInt (h : Int) (port : Int) : Except Err Addr :=
  if port < 0 ∨ port > 65535 then .error .valueRange else
  let ip := (h % 4294967296).toNat
  .ok (tupleAddr ip port.toNat (ntoa ip))

/-- `Address(net, x)` given the outcome of `decode_address(x)`; repaired: the
    network is validated like `RemoteStation` does -/
def ctor2 (net : Int) (dec : Except Err Addr) : Except Err Addr :=
  if net < 0 ∨ net ≥ 65535 then .error .valueRange else
  match dec with
  | .error e => .error e
  | .ok a =>
    if a.ty = .localStation then .ok { a with ty := .remoteStation, net := some net.toNat }
    else if a.ty = .localBroadcast then .ok { a with ty := .remoteBroadcast, net := some net.toNat }
    else .error .valueRange            -- "unrecognized address ctor form"

/-! ## typed constructors -/

def localStationInt (n : Int) : Except Err Addr :=
  if n < 0 ∨ n ≥ 256 then .error .valueRange else .ok (mkLocalStation [UInt8.ofNat n.toNat])

def localStationBytes (bs : Bytes) : Except Err Addr := .ok (mkLocalStation bs)

def remoteStationInt (net : Int) (n : Int) : Except Err Addr :=
  if net < 0 ∨ net ≥ 65535 then .error .valueRange
  else if n < 0 ∨ n ≥ 256 then .error .valueRange
  else .ok (mkRemoteStation net.toNat [UInt8.ofNat n.toNat])

def remoteStationBytes (net : Int) (bs : Bytes) : Except Err Addr :=
  if net < 0 ∨ net ≥ 65535 then .error .valueRange
  else .ok (mkRemoteStation net.toNat bs)

def remoteBroadcast (net : Int) : Except Err Addr :=
  if net < 0 ∨ net ≥ 65535 then .error .valueRange else .ok (mkRemoteBroadcast net.toNat)

/-- `pack_ip_addr((host, port))` -/
def packIp (h : List Char) (port : Nat) : Except Err Bytes :=
  match inetAton h with
  | none => .error .other
  | some ip => .ok (be32 ip ++ be16 port)

/-- `unpack_ip_addr(octets)` for six octets -/
def unpackIp (bs : Bytes) : List Char × Nat := (ntoa (beVal (bs.take 4)), beVal ((bs.drop 4).take 2))

/-! ## `__str__` -/

/-- the station part of `__str__` -/
def printStation (bs : Bytes) : Except Err (List Char) :=
  match bs with
  | [] => .error .encoding                 -- struct.error: unpack of b''[-2:]
  | [b] => .ok (printDec b.toNat)
  | _ =>
    let port := beVal (bs.drop (bs.length - 2))
    if bs.length = 6 ∧ 47808 ≤ port ∧ port ≤ 47823 then
      .ok (ntoa (beVal (bs.take 4)) ++ (if port ≠ 47808 then ':' :: printDec port else []))
    else .ok ('0' :: 'x' :: hexOf bs)

def printAddr (a : Addr) : Except Err (List Char) :=
  match a.ty with
  | .null => .ok ['N', 'u', 'l', 'l']
  | .localBroadcast => .ok ['*']
  | .localStation =>
      match a.addr with
      | none => .error .invalidDatatype
      | some bs => printStation bs
  | .remoteBroadcast =>
      match a.net with
      | none => .error .invalidDatatype      -- '%d' % None
      | some n => .ok (printDec n ++ [':', '*'])
  | .remoteStation =>
      match a.net, a.addr with
      | some n, some bs =>
          match printStation bs with
          | .ok s => .ok (printDec n ++ ':' :: s)
          | .error e => .error e
      | _, _ => .error .invalidDatatype
  | .globalBroadcast => .ok ['*', ':', '*']

/-! ## `__eq__`, `_tuple`, `__hash__` (no routes) -/

/-- `__eq__`: type, then network, then octets -/
def addrEq (a b : Addr) : Bool :=
  (a.ty.code == b.ty.code) && (a.net == b.net) && (a.addr == b.addr)

/-- `(type, net, octets)` -/
def eqKey (a : Addr) : Nat × Option Nat × Option Bytes := (a.ty.code, a.net, a.addr)

/-- what `__hash__` hashes: `_tuple()` = `(type, net, octets, None)` -/
def hashKey (a : Addr) : Nat × Option Nat × Option Bytes × Option Unit :=
  (a.ty.code, a.net, a.addr, none)

/-! ## `__eq__` on addresses that carry a route (`addrRoute`)

Outside the notations of the claim, modelled to state exactly what the claim
needs from the stack: under default settings (`settings.route_aware` off) the
network layer never attaches a route, and `_tuple()` ignores routes. -/

/-- an address together with its `addrRoute` -/
structure RAddr where
  base : Addr
  route : Option Addr
deriving DecidableEq, Repr

/-- `__eq__`: basic components, and the routes only `if rslt and self.addrRoute and arg.addrRoute` -/
def addrEqR (a b : RAddr) : Bool :=
  addrEq a.base b.base &&
    (match a.route, b.route with
     | some r, some s => addrEq r s
     | _, _ => true)

/-- `_tuple()` with `settings.route_aware` off -/
def hashKeyR (a : RAddr) : Nat × Option Nat × Option Bytes × Option Unit := hashKey a.base

/-- `_tuple()` under either value of `settings.route_aware`:
    `(type, net, octets, None)` if not route aware or no route, else with the route's tuple -/
def tupleR (aware : Bool) (a : RAddr) :
    (Nat × Option Nat × Option Bytes) × Option (Nat × Option Nat × Option Bytes) :=
  if aware then (eqKey a.base, a.route.map eqKey) else (eqKey a.base, none)

/-! ## dictionary keys of both kinds (ints and addresses in one table, as `DeviceInfoCache.cache`)

A Python dict treats `x` and `y` as one key iff `hash(x) == hash(y)` and `x == y`.
`Address.__eq__` coerces a non-address argument (`arg = Address(arg)`), so
`Address(5) == 5` is true: what keeps the int 5 and station 5 apart in a table
is the hash alone.  The hash of the unchanged code is `hash(_tuple())`, a tuple
hash; modelled as the abstract injective key `PyKey`. -/

/-- what a dict key is worth: an int hashes as itself, an address as its `_tuple()` -/
inductive PyKey
  | int (n : Int)
  | addr (k : Nat × Option Nat × Option Bytes × Option Unit)
deriving DecidableEq, Repr

def keyOfAddr (a : Addr) : PyKey := .addr (hashKey a)
def keyOfInt (n : Int) : PyKey := .int n

/-- `address == n` for an int `n`: `Address(n)` first (may raise), then `__eq__` -/
def addrEqInt (a : Addr) (n : Int) : Except Err Bool :=
  match ofInt n with
  | .ok b => .ok (addrEq a b)
  | .error e => .error e

end BacVerif.Addr
