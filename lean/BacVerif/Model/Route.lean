/-
  Model.Route — the BACnet network layer of one node and a global simulator
  (py34/bacpypes/netservice.py: NetworkAdapter, NetworkServiceAccessPoint
  .indication / .process_npdu / pending_nets, NetworkServiceElement
  .WhoIsRouterToNetwork / .IAmRouterToNetwork / .WhatIsNetworkNumber /
  .NetworkNumberIs / .startup / .what_is_network_number / .network_number_is;
  py34/bacpypes/vlan.py: Network.process_pdu, Node.indication).

  Core Lean only (no Mathlib): `drv_c06` links against this file.

  The model describes the tree AFTER fixes/C06-no-echo-via-cache.patch (the
  router-cache search of `process_npdu` skips the arrival adapter) and
  fixes/C06-router-without-address.patch (a local adapter bound without an
  address never matches a remote-station DADR instead of raising AttributeError).

  Domain
  * The entry point for received traffic is `NetworkAdapter.confirmation`, which
    decodes octets with `NPDU.decode`.  So the model's `Npci` ranges over what
    that decoder can produce: DADR is remote station / remote broadcast / global
    broadcast, SADR is a remote station, the hop count is present exactly when
    DADR is (field `hop` is meaningless without DADR and never read then).
    The `nullAddr` / "invalid destination address type" branches of
    `process_npdu` are unreachable from octets and not modelled.
  * `settings.route_aware` is False (the default; asserted by the harness).
  * The link source of a received frame is a station address (`Mac`); the link
    destination is a station address or the local broadcast (`Link`).
  * The router information cache is abstract: a finite map
    `(snet, dnet) ↦ router MAC` with `update` (= `update_router_info`, which
    in every coherent state of the real cache — C19 — makes `address` the
    router for each listed dnet and changes nothing else) and `renumber`
    (= `update_source_network`).
  * `self.adapters` is a dict keyed by network number: an insertion-ordered
    list of `Adapter` records whose key is their `net`.  Object identity of
    adapters (`is`) is equality of `aid` (the bind index).  The one way to
    break "key = net, keys distinct" — a Network-Number-Is that renumbers an
    adapter onto the number of another adapter of the same node — is outside
    the model (the harness never generates it).
  * Python exceptions that escape are an output `raised k` emitted after the
    effects that preceded them, as in the code.
-/
import BacVerif.Model.Bytes
namespace BacVerif.Route
open BacVerif

abbrev Mac := Bytes

/-- addresses as shown to the layer above (pdu.py `Address`) -/
inductive Addr
  | null
  | localBroadcast
  | localStation (mac : Mac)
  | remoteBroadcast (net : Nat)
  | remoteStation (net : Nat) (mac : Mac)
  | global
deriving DecidableEq, Repr, Inhabited

/-- decoded DADR -/
inductive Dadr
  | rs (net : Nat) (mac : Mac)     -- RemoteStation
  | rb (net : Nat)                 -- RemoteBroadcast
  | gb                             -- GlobalBroadcast
deriving DecidableEq, Repr, Inhabited

def Dadr.toAddr : Dadr → Addr
  | .rs n m => .remoteStation n m
  | .rb n => .remoteBroadcast n
  | .gb => .global

/-- link-level destination of a frame -/
inductive Link
  | bcast
  | to (mac : Mac)
deriving DecidableEq, Repr, Inhabited

def Link.toAddr : Link → Addr
  | .bcast => .localBroadcast
  | .to m => .localStation m

/-- decoded NPCI + payload (own structure; C08's `Npci.Npci` is the octet codec) -/
structure Npci where
  dadr   : Option Dadr := none
  sadr   : Option (Nat × Mac) := none
  hop    : Nat := 0                 -- meaningful only when `dadr` is present
  msg    : Option Nat := none       -- npduNetMessage
  vendor : Option Nat := none       -- npduVendorID
  er     : Bool := false            -- pduExpectingReply
  prio   : Nat := 0                 -- pduNetworkPriority
  data   : Bytes := []
deriving DecidableEq, Repr, Inhabited

/-- `NetworkAdapter`.  `lan`/`mac` say where the adapter is physically attached
    (which vlan.Network, which vlan.Node address); the node's code never reads
    them — only the global simulator does. -/
structure Adapter where
  aid  : Nat
  net  : Option Nat          -- adapterNet
  addr : Option Mac          -- adapterAddr (a LocalStation) or None
  conf : Option Nat := none  -- adapterNetConfigured
  lan  : Nat := 0
  mac  : Mac := []
deriving DecidableEq, Repr, Inhabited

/-- `NetworkServiceAccessPoint`: adapters in dict order, local adapter, whether
    an application is bound above (`serverPeer`) -/
structure Node where
  adapters : List Adapter
  localAid : Nat
  hasApp   : Bool
deriving DecidableEq, Repr, Inhabited

def Node.loc (n : Node) : Option Adapter := n.adapters.find? (·.aid == n.localAid)
/-- `net in self.adapters` -/
def Node.hasNet (n : Node) (net : Option Nat) : Bool := n.adapters.any (·.net == net)
/-- `self.adapters[net]` -/
def Node.byNet (n : Node) (net : Option Nat) : Option Adapter := n.adapters.find? (·.net == net)
/-- every adapter except the given one (`xadapter is not adapter`) -/
def Node.others (n : Node) (arr : Adapter) : List Adapter := n.adapters.filter (·.aid != arr.aid)

/-! ## abstract router cache -/

abbrev Cache := List ((Option Nat × Nat) × Mac)

def Cache.get (c : Cache) (snet : Option Nat) (dnet : Nat) : Option Mac :=
  (c.find? (fun e => e.1 == (snet, dnet))).map (·.2)

def Cache.set1 (c : Cache) (snet : Option Nat) (dnet : Nat) (m : Mac) : Cache :=
  ((snet, dnet), m) :: c.filter (fun e => !(e.1 == (snet, dnet)))

/-- `update_router_info(snet, address, dnets)` -/
def Cache.update (c : Cache) (snet : Option Nat) (m : Mac) (dnets : List Nat) : Cache :=
  dnets.foldl (fun c d => c.set1 snet d m) c

/-- `update_source_network(old, new)`: every path of `old` moves to `new` -/
def Cache.renumber (c : Cache) (old new : Option Nat) : Cache :=
  let moved := c.filter (fun e => e.1.1 == old)
  let kept := c.filter (fun e => !(e.1.1 == old) && !(moved.any (fun m => (new, m.1.2) == e.1)))
  moved.map (fun e => ((new, e.1.2), e.2)) ++ kept

/-- `for snet, snet_adapter in adapters.items(): info = cache.get_router_info(snet, dnet); if info: break` -/
def findPath (c : Cache) : List Adapter → Nat → Option (Adapter × Mac)
  | [], _ => none
  | a :: rest, dnet =>
    match c.get a.net dnet with
    | some m => some (a, m)
    | none => findPath c rest dnet

/-! ## outputs -/

inductive Raised
  | configuration     -- ConfigurationError("no adapters")
  | attribute         -- AttributeError (adapterAddr is None)
  | typeErr           -- TypeError (RemoteStation(None, …), put_short(None))
  | runtime           -- RuntimeError
  | decoding          -- DecodingError
deriving DecidableEq, Repr, Inhabited

def Raised.name : Raised → String
  | .configuration => "ConfigurationError" | .attribute => "AttributeError"
  | .typeErr => "TypeError" | .runtime => "RuntimeError" | .decoding => "DecodingError"

/-- what `self.response(apdu)` hands to the layer above -/
structure Up where
  src  : Addr
  dst  : Option Addr        -- `None` when `adapterAddr` is None
  er   : Bool
  prio : Nat
  data : Bytes
deriving DecidableEq, Repr, Inhabited

inductive Out
  | send (via : Adapter) (dst : Link) (p : Npci)   -- adapter.process_npdu(npdu)
  | up (u : Up)                                    -- self.response(apdu)
  | raised (k : Raised)
deriving DecidableEq, Repr, Inhabited

/-! ## process_npdu: the decision -/

inductive Class
  | drop (k : Nat)                                 -- "path error (k)"
  | go (processLocally forwardMessage : Bool)
  | raised (k : Raised)
deriving DecidableEq, Repr

/-- the destination-routing block of `process_npdu` -/
def classify (loc arr : Adapter) (p : Npci) : Class :=
  match p.dadr with
  | none => .go (arr.aid == loc.aid || p.msg.isSome) false
  | some (.rb d) =>
      if some d == arr.net then .drop 2 else .go (some d == loc.net) true
  | some (.rs d m) =>
      if some d == arr.net then .drop 3
      else if some d == loc.net then
        match loc.addr with
        | none => .go false true          -- bound without an address: no station of its own
        | some a => .go (m == a) (!(m == a))
      else .go false true
  | some .gb => .go true true

/-- source and destination of the APDU handed upward -/
def shown (n : Node) (loc arr : Adapter) (src : Mac) (dst : Link) (p : Npci) : Except Raised Up :=
  if n.adapters.length > 1 && arr.aid != loc.aid then
    -- "see if it needs to look routed"
    let d : Option Addr := match p.dadr with
      | none => loc.addr.map .localStation
      | some .gb => some .global
      | some (.rb _) => some .localBroadcast
      | some (.rs _ _) => loc.addr.map .localStation
    match p.sadr with
    | some (sn, sm) => .ok ⟨.remoteStation sn sm, d, p.er, p.prio, p.data⟩
    | none =>
      match arr.net with
      | none => .error .typeErr
      | some an => .ok ⟨.remoteStation an src, d, p.er, p.prio, p.data⟩
  else
    let s : Addr := match p.sadr with
      | some (sn, sm) => .remoteStation sn sm
      | none => .localStation src
    let d : Addr := match p.dadr with
      | some .gb => .global
      | _ => dst.toAddr
    .ok ⟨s, some d, p.er, p.prio, p.data⟩

/-- the Who-Is-Router-To-Network a node emits for `dnet` -/
def whoIs (dnet : Nat) : Npci := { msg := some 0, data := be16 dnet }

/-- link destination of the last leg -/
def lastLeg : Dadr → Link
  | .rs _ m => .to m
  | _ => .bcast

/-- SADR of a forwarded copy: the inbound SADR if present, else
    `RemoteStation(adapter.adapterNet, npdu.pduSource.addrAddr)` (TypeError = none) -/
def fwdSadr (arr : Adapter) (src : Mac) (p : Npci) : Option (Nat × Mac) :=
  match p.sadr with
  | some s => some s
  | none => arr.net.map (fun an => (an, src))

/-- remote station / remote broadcast: directly connected, known path, or discovery -/
def fwdRemote (n : Node) (c : Cache) (arr : Adapter) (q : Npci) (d : Dadr) (dn : Nat) : List Out :=
  match n.byNet (some dn) with
  | some x =>
      if x.aid == arr.aid then []               -- "path error (4)"
      else [.send x (lastLeg d) { q with dadr := none }]   -- last leg
  | none =>
    match findPath c (n.others arr) dn with     -- (fix: the arrival adapter is skipped)
    | some (a, m) => [.send a (.to m) q]
    | none => (n.others arr).map (fun a => .send a .bcast (whoIs dn))

def fwdCopies (n : Node) (c : Cache) (arr : Adapter) (q : Npci) : Dadr → List Out
  | .gb => (n.others arr).map (fun a => .send a .bcast q)
  | .rs dn m => fwdRemote n c arr q (.rs dn m) dn
  | .rb dn => fwdRemote n c arr q (.rb dn) dn

/-- the forwarding block of `process_npdu` (after "might not need to forward") -/
def forward (n : Node) (c : Cache) (arr : Adapter) (src : Mac) (p : Npci) : List Out :=
  if n.adapters.length == 1 then []            -- "not a router"
  else if p.hop == 0 then []                    -- "no more hops"
  else
    match p.dadr with
    | none => []
    | some d =>
      match fwdSadr arr src p with
      | none => [.raised .typeErr]              -- RemoteStation(None, …)
      | some s => fwdCopies n c arr { p with hop := p.hop - 1, sadr := some s } d

/-- decision of `process_npdu` for one received NPDU, given the cache contents
    at forwarding time -/
structure Decision where
  dropped : Option Nat := none                       -- path error number
  learn   : Option (Option Nat × Mac × Nat) := none  -- update_router_info(arr.net, src, [snet])
  up      : Option Up := none                        -- local delivery to the application
  toNse   : Bool := false                            -- handed to the network service element
  out     : List Out := []                           -- forwarded copies / Who-Is-Router / raised
deriving Repr

def Decision.sends (d : Decision) : List (Adapter × Link × Npci) :=
  d.out.filterMap fun | .send a l p => some (a, l, p) | _ => none

/-- npdu_types of the tree under test (checked against the live registry by the harness) -/
def knownTypes : List Nat := [0, 1, 2, 3, 4, 5, 6, 7, 8, 9, 18, 19]

/-- "attempting to spoof a directly connected network": SADR names a network of this node -/
def spoofed (n : Node) (p : Npci) : Bool :=
  match p.sadr with
  | some (sn, _) => n.hasNet (some sn)
  | none => false

/-- the cache after "pass this new path along to the cache" -/
def learned (c : Cache) (arr : Adapter) (src : Mac) (p : Npci) : Cache :=
  match p.sadr with
  | some (sn, _) => c.update arr.net src [sn]
  | none => c

/-- the part of `process_npdu` after the destination-routing block -/
def routeGo (n : Node) (c' : Cache) (loc arr : Adapter) (src : Mac) (dst : Link) (p : Npci)
    (learn : Option (Option Nat × Mac × Nat)) (pl fm : Bool) : Decision :=
  let fwd := if fm then forward n c' arr src p else []
  match p.msg with
  | none =>
    if pl && n.hasApp then
      match shown n loc arr src dst p with
      | .ok u => { learn := learn, up := some u, out := fwd }
      | .error k => { learn := learn, out := [.raised k] }
    else { learn := learn, out := fwd }
  | some t =>
    if pl then
      if knownTypes.contains t then { learn := learn, toNse := true, out := fwd }
      else { learn := learn }               -- "unknown npdu type": return, no forwarding
    else { learn := learn, out := fwd }

def route (n : Node) (c : Cache) (arr : Adapter) (src : Mac) (dst : Link) (p : Npci) : Decision :=
  match n.loc with
  | none => { out := [.raised .attribute] }
  | some loc =>
    if spoofed n p then { dropped := some 1 } else
    let learn := p.sadr.map (fun s => (arr.net, src, s.1))
    match classify loc arr p with
    | .drop k => { dropped := some k, learn := learn }
    | .raised k => { learn := learn, out := [.raised k] }
    | .go pl fm => routeGo n (learned c arr src p) loc arr src dst p learn pl fm

/-! ## the node as a state machine (process_npdu + service element + indication) -/

structure St where
  node    : Node
  cache   : Cache := []
  pending : List (Nat × List Npci) := []     -- pending_nets (dict order)
  nniTask : Option Nat := none               -- network_number_is_task (adapter aid)
  nniArmed : Bool := false                   -- … still scheduled
deriving Repr, Inhabited

def St.adapter (s : St) (aid : Nat) : Option Adapter := s.node.adapters.find? (·.aid == aid)

def be16s : List Nat → Bytes
  | [] => []
  | n :: r => be16 n ++ be16s r

/-- `IAmRouterToNetwork.decode`: `while pduData: get_short()` -/
def getShorts : Bytes → Except Raised (List Nat)
  | [] => .ok []
  | [_] => .error .decoding
  | a :: b :: r => do
      let rest ← getShorts r
      pure ((a.toNat * 256 + b.toNat) :: rest)

/-- `InitializeRoutingTable(.Ack).decode`: the entries -/
def tableOk : Nat → Bytes → Bool
  | 0, _ => true
  | k + 1, _ :: _ :: _ :: len :: r => if r.length < len.toNat then false else tableOk k (r.drop len.toNat)
  | _ + 1, _ => false

/-- does `npdu_types[t]().decode` succeed on this payload (types whose handler does nothing) -/
def otherDecodes (t : Nat) (d : Bytes) : Bool :=
  match t with
  | 2 => d.length ≥ 3 | 3 => d.length ≥ 3
  | 4 => d.length % 2 == 0 | 5 => d.length % 2 == 0
  | 6 | 7 => match d with | [] => false | k :: r => tableOk k.toNat r
  | 8 => d.length ≥ 3 | 9 => d.length ≥ 2
  | _ => true

def pendingTake (pend : List (Nat × List Npci)) (dnet : Nat) : Option (List Npci) × List (Nat × List Npci) :=
  match pend.find? (·.1 == dnet) with
  | some e => (some e.2, pend.filter (fun x => !(x.1 == dnet)))
  | none => (none, pend)

def pendingAdd (pend : List (Nat × List Npci)) (dnet : Nat) (p : Npci) : List (Nat × List Npci) :=
  if pend.any (·.1 == dnet) then pend.map (fun e => if e.1 == dnet then (e.1, e.2 ++ [p]) else e)
  else pend ++ [(dnet, [p])]

/-- `NetworkServiceElement.network_number_is(adapter)` -/
def nniOut (a : Adapter) : List Out :=
  match a.net with
  | none => []
  | some n =>
    match a.conf with
    | none => [.raised .typeErr]                -- put(None)
    | some f => [.send a .bcast { msg := some 19, data := be16 n ++ [UInt8.ofNat f] }]

/-- `NetworkServiceElement.WhoIsRouterToNetwork` -/
def nseWhoIs (s : St) (arr : Adapter) (src : Mac) (p : Npci) (wirtn : Option Nat) : List Out :=
  let n := s.node
  if n.adapters.length == 1 then [] else
  match wirtn with
  | none =>
    let nets := (n.others arr).map (·.net)
    if nets.isEmpty then [] else
    if nets.any (·.isNone) then [.raised .typeErr] else
    [.send arr (.to src) { msg := some 1, data := be16s (nets.filterMap id) }]
  | some dnet =>
    match n.byNet (some dnet) with
    | some x =>
      if x.aid == arr.aid then []
      else [.send arr (.to src) { msg := some 1, data := be16 dnet }]
    | none =>
      match findPath s.cache n.adapters dnet with
      | some (a, _) =>
        if a.aid == arr.aid then []
        else [.send arr (.to src) { msg := some 1, data := be16 dnet }]
      | none =>
        let sadr : Option (Nat × Mac) := match p.sadr with
          | some x => some x
          | none => arr.net.map (fun an => (an, src))
        match sadr with
        | none => [.raised .typeErr]
        | some sa =>
          (n.others arr).map (fun a => .send a .bcast { msg := some 0, sadr := some sa, data := be16 dnet })

/-- release of parked packets in `NetworkServiceElement.IAmRouterToNetwork` -/
def release (arr : Adapter) (src : Mac) :
    List Nat → List (Nat × List Npci) → List (Nat × List Npci) × List Out
  | [], pend => (pend, [])
  | d :: ds, pend =>
    match pendingTake pend d with
    | (some ps, pend') =>
      let (pend'', outs) := release arr src ds pend'
      (pend'', ps.map (fun q => .send arr (.to src) q) ++ outs)
    | (none, _) => release arr src ds pend

/-- `NetworkServiceElement.IAmRouterToNetwork` -/
def nseIAm (s : St) (arr : Adapter) (src : Mac) (nets : List Nat) : St × List Out :=
  let n := s.node
  if !n.hasNet arr.net then (s, [.raised .runtime]) else
  let c := s.cache.update arr.net src nets
  let relay : List Out :=
    if n.adapters.length == 1 then []
    else (n.others arr).map (fun a => .send a .bcast { msg := some 1, data := be16s nets })
  let (pend, rel) := release arr src nets s.pending
  ({ s with cache := c, pending := pend }, relay ++ rel)

/-- `NetworkServiceElement.WhatIsNetworkNumber` -/
def nseWhatIs (s : St) (arr : Adapter) (dst : Link) : St × List Out :=
  match arr.net with
  | none => (s, [])
  | some _ =>
    if dst == .bcast && s.node.adapters.length == 1 && s.nniTask.isNone then
      ({ s with nniTask := some arr.aid, nniArmed := true }, [])
    else (s, nniOut arr)

def setAdapter (n : Node) (a : Adapter) : Node :=
  { n with adapters := n.adapters.filter (·.aid != a.aid) ++ [a] }

/-- `NetworkServiceElement.NetworkNumberIs` -/
def nseNni (s : St) (arr : Adapter) (dst : Link) (net flag : Nat) : St :=
  if dst != .bcast then s else
  let s := { s with nniTask := none, nniArmed := false }
  match arr.net with
  | none =>
    { s with cache := s.cache.renumber none (some net),
             node := setAdapter s.node { arr with net := some net, conf := some 0 } }
  | some cur =>
    if cur == net then s
    else if arr.conf == some 1 then s
    else
      { s with cache := s.cache.renumber (some cur) (some net),
               node := setAdapter s.node { arr with net := some net, conf := some flag } }

/-- `sap_request(adapter, xpdu)` → `NetworkServiceElement.indication` -/
def nse (s : St) (arr : Adapter) (src : Mac) (dst : Link) (p : Npci) (t : Nat) : St × List Out :=
  match t with
  | 0 =>
    match p.data with
    | [] => (s, nseWhoIs s arr src p none)
    | [_] => (s, [.raised .decoding])
    | a :: b :: _ => (s, nseWhoIs s arr src p (some (a.toNat * 256 + b.toNat)))
  | 1 =>
    match getShorts p.data with
    | .error k => (s, [.raised k])
    | .ok nets => nseIAm s arr src nets
  | 18 => nseWhatIs s arr dst
  | 19 =>
    match p.data with
    | a :: b :: f :: _ => (nseNni s arr dst (a.toNat * 256 + b.toNat) f.toNat, [])
    | _ => (s, [.raised .decoding])
  | t => if otherDecodes t p.data then (s, []) else (s, [.raised .decoding])

def hasRaised (o : List Out) : Bool := o.any fun | .raised _ => true | _ => false

/-- `NetworkAdapter.confirmation` → `NetworkServiceAccessPoint.process_npdu` -/
def recv (s : St) (arr : Adapter) (src : Mac) (dst : Link) (p : Npci) : St × List Out :=
  let n := s.node
  if n.adapters.isEmpty then (s, [.raised .configuration]) else
  match n.loc with
  | none => (s, [.raised .attribute])
  | some loc =>
    if spoofed n p then (s, []) else
    let s1 : St := { s with cache := learned s.cache arr src p }
    match classify loc arr p with
    | .drop _ => (s1, [])
    | .raised k => (s1, [.raised k])
    | .go pl fm =>
      match p.msg with
      | none =>
        let ups : List Out :=
          if pl && n.hasApp then
            match shown n loc arr src dst p with
            | .ok u => [.up u]
            | .error k => [.raised k]
          else []
        if hasRaised ups then (s1, ups)
        else (s1, ups ++ (if fm then forward n s1.cache arr src p else []))
      | some t =>
        if pl then
          if !knownTypes.contains t then (s1, [])
          else
            let (s2, o) := nse s1 arr src dst p t
            if hasRaised o then (s2, o)
            else
              -- the service element may have renumbered the arrival adapter
              let arr' := (s2.adapter arr.aid).getD arr
              (s2, o ++ (if fm then forward s2.node s2.cache arr' src p else []))
        else (s1, if fm then forward n s1.cache arr src p else [])

/-- `NetworkServiceAccessPoint.indication` -/
def originate (s : St) (dest : Addr) (er : Bool) (prio : Nat) (data : Bytes) : St × List Out :=
  let n := s.node
  if n.adapters.isEmpty then (s, [.raised .configuration]) else
  match n.loc with
  | none => (s, [.raised .attribute])
  | some loc =>
    let base : Npci := { hop := 255, er := er, prio := prio, data := data }
    let remote (dn : Nat) (d : Dadr) (l : Link) : St × List Out :=
      if some dn == loc.net then (s, [.send loc l base])
      else
        let q := { base with dadr := some d }
        if s.pending.any (·.1 == dn) then ({ s with pending := pendingAdd s.pending dn q }, [])
        else
          match findPath s.cache n.adapters dn with
          | some (a, m) => (s, [.send a (.to m) q])
          | none =>
            ({ s with pending := pendingAdd s.pending dn q },
             n.adapters.map (fun a => .send a .bcast (whoIs dn)))
    match dest with
    | .localStation m => (s, [.send loc (.to m) base])
    | .localBroadcast => (s, [.send loc .bcast base])
    | .global => (s, n.adapters.map (fun a => .send a .bcast { base with dadr := some .gb }))
    | .remoteBroadcast dn => remote dn (.rb dn) .bcast
    | .remoteStation dn m => remote dn (.rs dn m) (.to m)
    | .null => (s, [.raised .runtime])

/-- `NetworkServiceElement.startup` -/
def startup (s : St) : List Out :=
  let n := s.node
  n.adapters.flatMap fun a =>
    if a.net.isNone || a.addr.isNone then [] else
    let nets := ((n.others a).filter (fun x => x.net.isSome && x.addr.isSome)).filterMap (·.net)
    if nets.isEmpty then [] else
    -- i_am_router_to_network(adapter=a, network=nets)
    let nets2 := ((n.others a).filterMap (·.net)).filter (nets.contains ·)
    [.send a .bcast { msg := some 1, data := be16s nets2 }]

/-- `NetworkServiceElement.what_is_network_number()` -/
def askNetworkNumber (s : St) : List Out :=
  (s.node.adapters.filter (·.net.isNone)).map (fun a => .send a .bcast { msg := some 18 })

/-- `NetworkServiceElement.network_number_is()` -/
def announceNetworkNumber (s : St) : List Out :=
  (s.node.adapters.filter (fun a => a.net.isSome && a.conf == some 1)).flatMap nniOut

/-- the armed `network_number_is_task` fires -/
def fireNni (s : St) : St × List Out :=
  if !s.nniArmed then (s, []) else
  match s.nniTask.bind s.adapter with
  | none => ({ s with nniArmed := false }, [])
  | some a => ({ s with nniArmed := false }, nniOut a)

/-! ## global simulator -/

/-- a node of an internetwork with its (static) cache -/
structure TNode where
  node  : Node
  cache : Cache := []
deriving DecidableEq, Repr, Inhabited

abbrev Topology := List TNode

/-- a frame in flight on a LAN (`vlan.Network.process_pdu`) -/
structure Packet where
  lan  : Nat
  src  : Mac
  dst  : Link
  npci : Npci
deriving DecidableEq, Repr, Inhabited

/-- who receives a frame (`Network.process_pdu`): on a broadcast every node
    whose address differs from the source, otherwise the addressed node -/
def hears (f : Packet) (a : Adapter) : Bool :=
  a.lan == f.lan && (match f.dst with
    | .bcast => a.mac != f.src
    | .to m => a.mac == m)

structure Delivery where
  lan : Nat
  mac : Mac
  up  : Up
deriving DecidableEq, Repr, Inhabited

/-- the measure: a frame without DADR is never forwarded; with DADR it can be
    forwarded `hop` more times -/
def Npci.fuel (p : Npci) : Nat := if p.dadr.isSome then p.hop else 0

/-- frames a node puts on LANs when it hears `f` on adapter `a` -/
def emitted (t : TNode) (a : Adapter) (f : Packet) : List Packet :=
  ((route t.node t.cache a f.src f.dst f.npci).sends).map
    (fun (x : Adapter × Link × Npci) => ⟨x.1.lan, x.1.mac, x.2.1, x.2.2⟩)

def delivered (t : TNode) (a : Adapter) (f : Packet) : List Delivery :=
  match (route t.node t.cache a f.src f.dst f.npci).up with
  | some u => [⟨a.lan, a.mac, u⟩]
  | none => []

/-! ## forwarding strictly lowers the measure (needed to define the simulator) -/

theorem fwdRemote_fuel (n : Node) (c : Cache) (arr : Adapter) (q : Npci) (d : Dadr) (dn : Nat)
    (a : Adapter) (l : Link) (r : Npci) (h : Out.send a l r ∈ fwdRemote n c arr q d dn) :
    r.fuel ≤ q.hop := by
  unfold fwdRemote at h
  split at h
  · split at h
    · simp at h
    · simp only [List.mem_singleton] at h
      injection h with _ _ hq
      subst hq
      simp [Npci.fuel]
  · split at h
    · simp only [List.mem_singleton] at h
      injection h with _ _ hq
      subst hq
      simp only [Npci.fuel]; split <;> omega
    · simp only [List.mem_map] at h
      obtain ⟨x, _, hx⟩ := h
      injection hx with _ _ hq
      subst hq
      simp [Npci.fuel, whoIs]

theorem fwdCopies_fuel (n : Node) (c : Cache) (arr : Adapter) (q : Npci) (d : Dadr)
    (a : Adapter) (l : Link) (r : Npci) (h : Out.send a l r ∈ fwdCopies n c arr q d) :
    r.fuel ≤ q.hop := by
  cases d with
  | gb =>
    simp only [fwdCopies, List.mem_map] at h
    obtain ⟨x, _, hx⟩ := h
    injection hx with _ _ hq
    subst hq
    simp only [Npci.fuel]; split <;> omega
  | rs dn m => exact fwdRemote_fuel _ _ _ _ _ _ _ _ _ h
  | rb dn => exact fwdRemote_fuel _ _ _ _ _ _ _ _ _ h

theorem forward_fuel (n : Node) (c : Cache) (arr : Adapter) (src : Mac) (p : Npci)
    (a : Adapter) (l : Link) (q : Npci) (h : Out.send a l q ∈ forward n c arr src p) :
    q.fuel < p.fuel := by
  unfold forward at h
  split at h
  · simp at h
  split at h
  · simp at h
  rename_i hlen hhop
  split at h
  · simp at h
  rename_i d hd
  have hp : p.fuel = p.hop := by simp [Npci.fuel, hd]
  have hh : p.hop ≠ 0 := by simpa using hhop
  split at h
  · simp at h
  have := fwdCopies_fuel _ _ _ _ _ _ _ _ h
  simp at this
  omega

theorem routeGo_out (n : Node) (c' : Cache) (loc arr : Adapter) (src : Mac) (dst : Link) (p : Npci)
    (learn) (pl fm : Bool) :
    (routeGo n c' loc arr src dst p learn pl fm).out = forward n c' arr src p ∨
    (routeGo n c' loc arr src dst p learn pl fm).out = [] ∨
    ∃ k, (routeGo n c' loc arr src dst p learn pl fm).out = [.raised k] := by
  unfold routeGo
  cases fm <;> cases p.msg <;> simp <;> (repeat' split) <;> simp

/-- every frame `route` sends is a product of the forwarding block -/
theorem route_out (n : Node) (c : Cache) (arr : Adapter) (src : Mac) (dst : Link) (p : Npci) :
    (route n c arr src dst p).out = forward n (learned c arr src p) arr src p ∨
    (route n c arr src dst p).out = [] ∨
    ∃ k, (route n c arr src dst p).out = [.raised k] := by
  unfold route
  split
  · simp
  split
  · simp
  split
  · simp
  · simp
  · exact routeGo_out ..

theorem route_out_forward (n : Node) (c : Cache) (arr : Adapter) (src : Mac) (dst : Link) (p : Npci)
    (a : Adapter) (l : Link) (q : Npci)
    (h : Out.send a l q ∈ (route n c arr src dst p).out) :
    Out.send a l q ∈ forward n (learned c arr src p) arr src p := by
  rcases route_out n c arr src dst p with h1 | h1 | ⟨k, h1⟩
  · rwa [h1] at h
  · rw [h1] at h; simp at h
  · rw [h1] at h; simp at h

theorem emitted_fuel (t : TNode) (a : Adapter) (f g : Packet) (h : g ∈ emitted t a f) :
    g.npci.fuel < f.npci.fuel := by
  simp only [emitted, Decision.sends, List.mem_map, List.mem_filterMap] at h
  obtain ⟨x, ⟨o, ho, hx⟩, rfl⟩ := h
  cases o with
  | send v l q =>
    simp at hx
    subst hx
    exact forward_fuel _ _ _ _ _ _ _ _ (route_out_forward _ _ _ _ _ _ _ _ _ ho)
  | up u => simp at hx
  | raised k => simp at hx

/-- everything the applications of an internetwork receive because frame `f`
    was put on LAN `f.lan`: every hearing node decides with `route`; every copy
    it forwards is a new frame on another LAN.  Caches are static (the paths a
    frame teaches on its way concern its SOURCE network, never its destination).
    Lean accepts the recursion with `Npci.fuel` (hop count) as the measure. -/
def deliverAll (topo : Topology) (f : Packet) : List Delivery :=
  topo.flatMap fun t =>
    (t.node.adapters.filter (hears f)).flatMap fun a =>
      delivered t a f ++ (emitted t a f).attach.flatMap (fun g => deliverAll topo g.1)
termination_by f.npci.fuel
decreasing_by exact emitted_fuel t a f g.1 g.2

theorem deliverAll_eq (topo : Topology) (f : Packet) :
    deliverAll topo f = topo.flatMap fun t =>
      (t.node.adapters.filter (hears f)).flatMap fun a =>
        delivered t a f ++ (emitted t a f).flatMap (fun g => deliverAll topo g) := by
  rw [deliverAll]
  simp [List.flatMap_subtype]


/-- the frames an originating node puts on its LANs -/
def originPackets (outs : List Out) : List Packet :=
  outs.filterMap fun
    | .send a l p => some ⟨a.lan, a.mac, l, p⟩
    | _ => none

/-! ## stateful global simulator (caches, parked packets and discovery evolve)

  `vlan.Network.process_pdu` hands a frame to every hearing node in turn; each node's
  `process_npdu` runs synchronously and the frames it sends are queued behind everything
  already in flight (zero-delay tasks of the task manager are FIFO). -/

abbrev World := List St

/-- the APDUs a node hands upward, labelled with the adapter they arrived on -/
def upsOf (a : Adapter) (o : List Out) : List Delivery :=
  o.filterMap fun
    | .up u => some ⟨a.lan, a.mac, u⟩
    | _ => none

/-- one node hears (or does not hear) a frame: new state, frames sent, APDUs handed upward -/
def stepNode (s : St) (f : Packet) : St × List Packet × List Delivery :=
  (s.node.adapters.filter (hears f)).foldl
    (fun (acc : St × List Packet × List Delivery) a =>
      let r := recv acc.1 a f.src f.dst f.npci
      (r.1, acc.2.1 ++ originPackets r.2, acc.2.2 ++ upsOf a r.2))
    (s, [], [])

/-- one frame is processed by the whole internetwork -/
def stepWorld (w : World) (f : Packet) : World × List Packet × List Delivery :=
  (w.map (fun s => (stepNode s f).1),
   w.flatMap (fun s => (stepNode s f).2.1),
   w.flatMap (fun s => (stepNode s f).2.2))

/-- `n` frames are processed in FIFO order -/
def runWorld : Nat → World → List Packet → List Delivery → World × List Packet × List Delivery
  | 0, w, q, d => (w, q, d)
  | _ + 1, w, [], d => (w, [], d)
  | n + 1, w, f :: q, d =>
    let r := stepWorld w f
    runWorld n r.1 (q ++ r.2.1) (d ++ r.2.2)

end BacVerif.Route
