/-
  Model.Bytes — octet strings and the PDUData get/put primitives
  (py34/bacpypes/comm.py: PDUData.get / get_data / get_short / get_long /
  put / put_data / put_short / put_long).

  Core Lean only (no Mathlib) so that the drivers link as executables.
-/
namespace BacVerif

abbrev Bytes := List UInt8

/-- The error enum shared by every model: Python exception classes are mapped
    onto it by the harness (`harness/core.py: EXC_MAP`). -/
inductive Err
  | invalidTag | decoding | missingRequired | invalidDatatype | tooMany
  | valueRange | encoding | other
deriving DecidableEq, Repr, Inhabited

def Err.name : Err → String
  | .invalidTag => "invalidTag" | .decoding => "decoding"
  | .missingRequired => "missingRequired" | .invalidDatatype => "invalidDatatype"
  | .tooMany => "tooMany" | .valueRange => "valueRange"
  | .encoding => "encoding" | .other => "other"

/-- `struct.pack('>H', n & 0xFFFF)` -/
def be16 (n : Nat) : Bytes := [UInt8.ofNat (n / 256 % 256), UInt8.ofNat (n % 256)]

/-- `struct.pack('>L', n & 0xFFFFFFFF)` -/
def be32 (n : Nat) : Bytes :=
  [UInt8.ofNat (n / 16777216 % 256), UInt8.ofNat (n / 65536 % 256),
   UInt8.ofNat (n / 256 % 256), UInt8.ofNat (n % 256)]

/-- big-endian value of an octet string (`struct.unpack` of any width) -/
def beVal : Bytes → Nat
  | bs => bs.foldl (fun acc b => acc * 256 + b.toNat) 0

/-- `PDUData.get` -/
def getU8 : Bytes → Except Err (Nat × Bytes)
  | [] => .error .decoding
  | b :: rest => .ok (b.toNat, rest)

/-- `PDUData.get_data(n)` -/
def getData (n : Nat) (bs : Bytes) : Except Err (Bytes × Bytes) :=
  if bs.length < n then .error .decoding else .ok (bs.take n, bs.drop n)

/-- `PDUData.get_short` -/
def getU16 : Bytes → Except Err (Nat × Bytes)
  | a :: b :: rest => .ok (a.toNat * 256 + b.toNat, rest)
  | _ => .error .decoding

/-- `PDUData.get_long` -/
def getU32 : Bytes → Except Err (Nat × Bytes)
  | a :: b :: c :: d :: rest =>
      .ok (((a.toNat * 256 + b.toNat) * 256 + c.toNat) * 256 + d.toNat, rest)
  | _ => .error .decoding

end BacVerif
