/-
  Model.Apci — the APDU fixed header (APCI) codec of py34/bacpypes/apdu.py

    * `Apci`                      the thirteen attributes set by `APCI.__init__`
    * `encodeApci` / `decodeApci` `APCI.encode` / `APCI.decode`, branch for branch
    * `encodeApdu` / `decodeApdu` `APDU.encode` / `APDU.decode` (header + payload)
    * `apciCopiesData`            which branches of `APCI.decode` end with
                                  `self.pduData = pdu.pduData`
    * `encodeMaxSegs` / `decodeMaxSegs` / `encodeMaxApdu` / `decodeMaxApdu`
                                  the four table functions and their two tables

  Conventions
    * Python `None` is `none`; every attribute except `apduType` is optional
      (a decoded header has exactly the attributes of its PDU type, all others
      stay `None`).
    * `apduMaxSegs` / `apduMaxResp` hold the *codes* (0..7 / 0..15) exactly as
      the Python attributes do — the comment "(decoded)" in `APCI.__init__` is
      wrong; the numeric meaning is obtained by `decodeMaxSegs`/`decodeMaxApdu`
      (that is what `appservice.py` does).
    * flags are `Option Bool`; `APCI.encode` tests them by truthiness, so `None`
      encodes like `False` (`truthy`); `APCI.decode` always yields `True/False`.
    * `pdu.put(n)` is `bytes([n])`: `None` raises `TypeError`, `n ≥ 256` raises
      `ValueError` — both are `Err.encoding` here (`putOctet`).  The explicit
      `raise ValueError("invalid APCI.apduType")` is `Err.other`.
    * `pdu.get()` on an exhausted buffer raises `DecodingError` = `Err.decoding`
      (`getU8`); an unknown type nibble raises `DecodingError` as well.
    * bit tests `(buff & m) != 0` and shifts `>> 4` are written with `/` and `%`
      (`BacVerif.C07.mask_semantics` proves the two readings equal for all octets).

  Core Lean only (no Mathlib): imported by `Drv.C07` and, later, by the
  transaction state machine models as their frame codec.
-/
import BacVerif.Model.Bytes
namespace BacVerif

/-- The attribute set of `APCI.__init__` (apdu.py).  `apduType` is a plain
    number: every header the codec handles has one. -/
structure Apci where
  apduType : Nat
  seg      : Option Bool := none   -- apduSeg   segmented message
  mor      : Option Bool := none   -- apduMor   more follows
  sa       : Option Bool := none   -- apduSA    segmented response accepted
  srv      : Option Bool := none   -- apduSrv   sent by server
  nak      : Option Bool := none   -- apduNak   negative acknowledgement
  seq      : Option Nat  := none   -- apduSeq   sequence number
  win      : Option Nat  := none   -- apduWin   actual / proposed window size
  maxSegs  : Option Nat  := none   -- apduMaxSegs   CODE 0..7
  maxResp  : Option Nat  := none   -- apduMaxResp   CODE 0..15
  service  : Option Nat  := none   -- apduService   service / ack / error choice
  invokeID : Option Nat  := none   -- apduInvokeID
  reason   : Option Nat  := none   -- apduAbortRejectReason
deriving DecidableEq, Repr, Inhabited

/-! ## PDU type numbers (`pduType` of the eight classes registered in `apdu_types`) -/

def tConfirmedRequest   : Nat := 0
def tUnconfirmedRequest : Nat := 1
def tSimpleAck          : Nat := 2
def tComplexAck         : Nat := 3
def tSegmentAck         : Nat := 4
def tError              : Nat := 5
def tReject             : Nat := 6
def tAbort              : Nat := 7

/-! ## constructors, one per PDU type

  What the eight classes' `__init__` + the callers in `appservice.py` fill in.
  `sw = some (sequenceNumber, windowSize)` makes a segmented PDU.  Every header
  built here from in-range numbers is well formed (`C07.wf_mk*`) and therefore
  round-trips (`C07.apci_roundtrip`). -/

namespace Apci

def mkConfirmed (sw : Option (Nat × Nat)) (mor sa : Bool)
    (maxSegs maxResp invokeID service : Nat) : Apci :=
  { apduType := 0, seg := some sw.isSome, mor := some mor, sa := some sa,
    maxSegs := some maxSegs, maxResp := some maxResp, invokeID := some invokeID,
    seq := sw.map (·.1), win := sw.map (·.2), service := some service }

def mkUnconfirmed (service : Nat) : Apci :=
  { apduType := 1, service := some service }

def mkSimpleAck (invokeID service : Nat) : Apci :=
  { apduType := 2, invokeID := some invokeID, service := some service }

def mkComplexAck (sw : Option (Nat × Nat)) (mor : Bool) (invokeID service : Nat) : Apci :=
  { apduType := 3, seg := some sw.isSome, mor := some mor, invokeID := some invokeID,
    seq := sw.map (·.1), win := sw.map (·.2), service := some service }

def mkSegmentAck (nak srv : Bool) (invokeID seq win : Nat) : Apci :=
  { apduType := 4, nak := some nak, srv := some srv, invokeID := some invokeID,
    seq := some seq, win := some win }

def mkError (invokeID service : Nat) : Apci :=
  { apduType := 5, invokeID := some invokeID, service := some service }

def mkReject (invokeID reason : Nat) : Apci :=
  { apduType := 6, invokeID := some invokeID, reason := some reason }

def mkAbort (srv : Bool) (invokeID reason : Nat) : Apci :=
  { apduType := 7, srv := some srv, invokeID := some invokeID, reason := some reason }

end Apci

/-! ## encoding -/

/-- Python truthiness of a flag attribute (`if self.apduSeg:`). -/
def truthy : Option Bool → Bool
  | some true => true
  | _ => false

/-- contribution of a flag to the first octet: `if flag: buff += w` -/
def flagBit (f : Option Bool) (w : Nat) : Nat := if truthy f then w else 0

/-- `pdu.put(n)`: `None` → `TypeError`, `n ∉ range(256)` → `ValueError`. -/
def putOctet : Option Nat → Except Err UInt8
  | some n => if n < 256 then .ok (UInt8.ofNat n) else .error .encoding
  | none => .error .encoding

/-- `(self.apduMaxSegs << 4) + self.apduMaxResp` (`None` operand → `TypeError`) -/
def maxOctet (segs resp : Option Nat) : Option Nat :=
  match segs, resp with
  | some s, some r => some (s * 16 + r)
  | _, _ => none

/-- `if self.apduSeg: pdu.put(self.apduSeq); pdu.put(self.apduWin)` -/
def putSeqWin (h : Apci) : Except Err Bytes :=
  if truthy h.seg then do
    let s ← putOctet h.seq
    let w ← putOctet h.win
    pure [s, w]
  else pure []

/-- `APCI.encode`: the header octets appended to the (empty) PDU.
    The first octet is `apduType << 4` plus the flag weights; for the eight
    known types it is below 256 by construction. -/
def encodeApci (h : Apci) : Except Err Bytes :=
  match h.apduType with
  | 0 => do   -- ConfirmedRequestPDU
      let b0 := UInt8.ofNat (0 * 16 + flagBit h.seg 8 + flagBit h.mor 4 + flagBit h.sa 2)
      let b1 ← putOctet (maxOctet h.maxSegs h.maxResp)
      let b2 ← putOctet h.invokeID
      let sw ← putSeqWin h
      let b3 ← putOctet h.service
      pure ([b0, b1, b2] ++ sw ++ [b3])
  | 1 => do   -- UnconfirmedRequestPDU
      let b1 ← putOctet h.service
      pure [UInt8.ofNat (1 * 16), b1]
  | 2 => do   -- SimpleAckPDU
      let b1 ← putOctet h.invokeID
      let b2 ← putOctet h.service
      pure [UInt8.ofNat (2 * 16), b1, b2]
  | 3 => do   -- ComplexAckPDU
      let b0 := UInt8.ofNat (3 * 16 + flagBit h.seg 8 + flagBit h.mor 4)
      let b1 ← putOctet h.invokeID
      let sw ← putSeqWin h
      let b2 ← putOctet h.service
      pure ([b0, b1] ++ sw ++ [b2])
  | 4 => do   -- SegmentAckPDU
      let b0 := UInt8.ofNat (4 * 16 + flagBit h.nak 2 + flagBit h.srv 1)
      let b1 ← putOctet h.invokeID
      let b2 ← putOctet h.seq
      let b3 ← putOctet h.win
      pure [b0, b1, b2, b3]
  | 5 => do   -- ErrorPDU
      let b1 ← putOctet h.invokeID
      let b2 ← putOctet h.service
      pure [UInt8.ofNat (5 * 16), b1, b2]
  | 6 => do   -- RejectPDU
      let b1 ← putOctet h.invokeID
      let b2 ← putOctet h.reason
      pure [UInt8.ofNat (6 * 16), b1, b2]
  | 7 => do   -- AbortPDU
      let b0 := UInt8.ofNat (7 * 16 + flagBit h.srv 1)
      let b1 ← putOctet h.invokeID
      let b2 ← putOctet h.reason
      pure [b0, b1, b2]
  | _ => .error .other   -- raise ValueError("invalid APCI.apduType")

/-- Number of header octets `APCI.encode` writes for a header of a known type
    (`C07.encode_length`); also the number `APCI.decode` consumes
    (`C07.decode_suffix`).  Unknown types have no header (0). -/
def apciLen (h : Apci) : Nat :=
  match h.apduType with
  | 0 => if truthy h.seg then 6 else 4
  | 1 => 2
  | 2 => 3
  | 3 => if truthy h.seg then 5 else 3
  | 4 => 4
  | 5 => 3
  | 6 => 3
  | 7 => 3
  | _ => 0

/-- `APDU.encode`: `APCI.encode(self, pdu); pdu.put_data(self.pduData)` -/
def encodeApdu (h : Apci) (payload : Bytes) : Except Err Bytes := do
  let hdr ← encodeApci h
  pure (hdr ++ payload)

/-! ## decoding -/

/-- `(buff & w) != 0` for a single-bit mask `w ∈ {1,2,4,8}` -/
def bitSet (buff w : Nat) : Bool := buff / w % 2 == 1

/-- `if self.apduSeg: self.apduSeq = pdu.get(); self.apduWin = pdu.get()` -/
def getSeqWin (seg : Bool) (bs : Bytes) : Except Err (Option Nat × Option Nat × Bytes) :=
  if seg then do
    let (s, r) ← getU8 bs
    let (w, r) ← getU8 r
    pure (some s, some w, r)
  else pure (none, none, bs)

/-- `APCI.decode`: the decoded header and what is left in `pdu.pduData`
    (the service payload).  Only the attributes of the PDU type are set. -/
def decodeApci (bs : Bytes) : Except Err (Apci × Bytes) := do
  let (buff, r) ← getU8 bs
  match (buff / 16) % 16 with     -- (buff >> 4) & 0x0F
  | 0 => do   -- ConfirmedRequestPDU
      let seg := bitSet buff 8
      let mor := bitSet buff 4
      let sa  := bitSet buff 2
      let (b1, r) ← getU8 r
      let maxSegs := (b1 / 16) % 8      -- (buff >> 4) & 0x07
      let maxResp := b1 % 16            -- buff & 0x0F
      let (inv, r) ← getU8 r
      let (sq, wn, r) ← getSeqWin seg r
      let (svc, r) ← getU8 r
      pure ({ apduType := 0, seg := some seg, mor := some mor, sa := some sa,
              maxSegs := some maxSegs, maxResp := some maxResp, invokeID := some inv,
              seq := sq, win := wn, service := some svc }, r)
  | 1 => do   -- UnconfirmedRequestPDU
      let (svc, r) ← getU8 r
      pure ({ apduType := 1, service := some svc }, r)
  | 2 => do   -- SimpleAckPDU
      let (inv, r) ← getU8 r
      let (svc, r) ← getU8 r
      pure ({ apduType := 2, invokeID := some inv, service := some svc }, r)
  | 3 => do   -- ComplexAckPDU
      let seg := bitSet buff 8
      let mor := bitSet buff 4
      let (inv, r) ← getU8 r
      let (sq, wn, r) ← getSeqWin seg r
      let (svc, r) ← getU8 r
      pure ({ apduType := 3, seg := some seg, mor := some mor, invokeID := some inv,
              seq := sq, win := wn, service := some svc }, r)
  | 4 => do   -- SegmentAckPDU
      let nak := bitSet buff 2
      let srv := bitSet buff 1
      let (inv, r) ← getU8 r
      let (sq, r) ← getU8 r
      let (wn, r) ← getU8 r
      pure ({ apduType := 4, nak := some nak, srv := some srv, invokeID := some inv,
              seq := some sq, win := some wn }, r)
  | 5 => do   -- ErrorPDU
      let (inv, r) ← getU8 r
      let (svc, r) ← getU8 r
      pure ({ apduType := 5, invokeID := some inv, service := some svc }, r)
  | 6 => do   -- RejectPDU
      let (inv, r) ← getU8 r
      let (rsn, r) ← getU8 r
      pure ({ apduType := 6, invokeID := some inv, reason := some rsn }, r)
  | 7 => do   -- AbortPDU
      let srv := bitSet buff 1
      let (inv, r) ← getU8 r
      let (rsn, r) ← getU8 r
      pure ({ apduType := 7, srv := some srv, invokeID := some inv, reason := some rsn }, r)
  | _ => .error .decoding   -- raise DecodingError("invalid APDU type")

/-- Octets `APCI.decode` needs (first octet included) given the first octet:
    fewer → `DecodingError("no more packet data")`; unknown type → 0 (refused
    regardless of length).  `C07.decode_ok_iff`. -/
def apciNeed (buff : Nat) : Nat :=
  match (buff / 16) % 16 with
  | 0 => if bitSet buff 8 then 6 else 4
  | 1 => 2
  | 2 => 3
  | 3 => if bitSet buff 8 then 5 else 3
  | 4 => 4
  | 5 => 3
  | 6 => 3
  | 7 => 3
  | _ => 0

/-- The branches of `APCI.decode` that end with `self.pduData = pdu.pduData`
    (confirmed/unconfirmed request, complex ack, error, abort).  The other three
    (simple ack, segment ack, reject) leave `self.pduData` as it was; the
    remaining octets stay in the source `pdu.pduData` in every case. -/
def apciCopiesData (t : Nat) : Bool := t == 0 || t == 1 || t == 3 || t == 5 || t == 7

/-- `self.pduData` of a fresh `APDU()` after `APCI.decode(self, pdu)` -/
def ownDataAfterApciDecode (h : Apci) (rest : Bytes) : Bytes :=
  if apciCopiesData h.apduType then rest else []

/-- `APDU.decode`: `APCI.decode(self, pdu); self.pduData = pdu.get_data(len(pdu.pduData))`
    — for all eight types the payload is everything after the header. -/
def decodeApdu (bs : Bytes) : Except Err (Apci × Bytes) := do
  let (h, rest) ← decodeApci bs
  let (d, _) ← getData rest.length rest
  pure (h, d)

/-! ## the two code tables (clause 20.1.2.4 / 20.1.2.5) -/

/-- `_max_segments_accepted_encoding`: code → number of segments; codes 0
    ("unspecified") and 7 ("more than 64") carry no number. -/
def maxSegsTable : List (Option Nat) :=
  [none, some 2, some 4, some 8, some 16, some 32, some 64, none]

/-- `_max_apdu_length_encoding`: code → octets; codes 6..15 are reserved. -/
def maxApduTable : List (Option Nat) :=
  [some 50, some 128, some 206, some 480, some 1024, some 1476,
   none, none, none, none, none, none, none, none, none, none]

/-- `for i in range(lo+n-1, lo-1, -1): if tbl[i] <= arg: return i` — `none` when
    the loop falls through.  A `None` entry or an index outside the table would
    be a `TypeError`/`IndexError` in Python; the index ranges used below (1..6
    and 0..5) only meet numeric entries (`C07.scan_ranges_numeric`). -/
def scanDown (tbl : List (Option Nat)) (arg lo : Nat) : Nat → Option Nat
  | 0 => none
  | n + 1 =>
    match tbl[lo + n]? with
    | some (some v) => if v ≤ arg then some (lo + n) else scanDown tbl arg lo n
    | _ => none

/-- `encode_max_segments_accepted(arg)`; `arg` may be `None`. -/
def encodeMaxSegs (arg : Option Nat) : Except Err Nat :=
  match arg with
  | none => .ok 0                      -- if not arg: return 0
  | some n =>
    if n = 0 then .ok 0                -- if not arg: return 0
    else if n > 64 then .ok 7
    else match scanDown maxSegsTable n 1 6 with
      | some i => .ok i
      | none => .error .valueRange     -- raise ValueError (arg = 1)

/-- `decode_max_segments_accepted(arg)` = `table[arg]` (`IndexError` → `other`) -/
def decodeMaxSegs (code : Nat) : Except Err (Option Nat) :=
  match maxSegsTable[code]? with
  | some v => .ok v
  | none => .error .other

/-- `encode_max_apdu_length_accepted(arg)` -/
def encodeMaxApdu (n : Nat) : Except Err Nat :=
  match scanDown maxApduTable n 0 6 with
  | some i => .ok i
  | none => .error .valueRange         -- raise ValueError (arg < 50)

/-- `decode_max_apdu_length_accepted(arg)`: reserved code → `ValueError`,
    index outside the list → `IndexError` (`other`). -/
def decodeMaxApdu (code : Nat) : Except Err Nat :=
  match maxApduTable[code]? with
  | some (some v) => if v = 0 then .error .valueRange else .ok v   -- `if not v: raise`
  | some none => .error .valueRange
  | none => .error .other

end BacVerif
