/-
  Model.Schema — the declarative wire schema of bacpypes' constructed types and
  the value trees they carry (C03; also used by C10, C15, C16).

  A schema environment is an `Array TyDef`; constructed types refer to each
  other by index (`Ref.ty i`).  Primitive leaves are inlined into the reference
  (`Ref.prim app` = an `Atomic` subclass with `_app_tag = app`; `Ref.anyAtomic`).
  The environment of the tree under test is GENERATED (`Gen/Schemas.lean`) by
  `translator/c03.py` from the live `sequenceElements` / `choiceElements` /
  `SequenceOf`-`ListOf`-`ArrayOf` classes.

  Core Lean only.
-/
import BacVerif.Model.Tag
namespace BacVerif.Schema
open BacVerif

/-- what an `Element.klass` can be -/
inductive Ref
  | prim (app : Nat)      -- subclass of `Atomic` with application tag number `app`
  | anyAtomic             -- `AnyAtomic`
  | ty (i : Nat)          -- a constructed class: index into the environment
deriving DecidableEq, Repr, Inhabited

/-- `Element(name, klass, context, optional)` (the name is not on the wire) -/
structure Field where
  ref : Ref
  ctx : Option Nat
  opt : Bool
deriving DecidableEq, Repr, Inhabited

/-- which factory made a list class: the generic code treats them differently
    (`_sequence_of_classes`, `_list_of_classes`, `_array_of_classes`) -/
inductive ListKind | seqof | listof | arrayof
deriving DecidableEq, Repr, Inhabited

inductive PduKind | confirmed | complexAck | unconfirmed | error
deriving DecidableEq, Repr, Inhabited

inductive TyDef
  | seq (fields : List Field)                                   -- generic `Sequence`
  | choice (alts : List Field)                                  -- generic `Choice`
  | list (kind : ListKind) (elem : Ref) (fixed : Option Nat)    -- SequenceOf / ListOf / ArrayOf
  | any                                                         -- `Any`, `SequenceOfAny`
  | nameValue (dt : Nat)                                        -- hand-written `NameValue`; `dt` = DateTime
deriving DecidableEq, Repr, Inhabited

abbrev Env := Array TyDef

/-- Value trees.  A primitive leaf is kept as the payload of its APPLICATION
    tag (`tagLVT`, `tagData`): what the leaf means is C01's theorem
    (`Model.Prim`), C03 is about the structure around it. -/
inductive Val
  | prim (lvt : Nat) (data : Bytes)          -- an `Atomic` value of the class the schema names
  | atom (app lvt : Nat) (data : Bytes)      -- an `AnyAtomic` value: any application tag
  | tags (ts : List Tag)                     -- an `Any`: the raw tag run
  | seq (fs : List (Option Val))             -- one entry per element, `none` = attribute is None
  | choice (i : Nat) (v : Val)               -- the i-th alternative is set
  | list (vs : List Val)
deriving Repr, Inhabited

/-! Boolean equality of value trees (the type is nested, `DecidableEq` is not
    derivable); used by the driver-independent tests (`decide +kernel` examples). -/
mutual
def Val.beq : Val → Val → Bool
  | .prim l d, .prim l' d' => l == l' && d == d'
  | .atom a l d, .atom a' l' d' => a == a' && l == l' && d == d'
  | .tags t, .tags t' => t == t'
  | .seq fs, .seq fs' => Val.beqOpts fs fs'
  | .choice i v, .choice i' v' => i == i' && Val.beq v v'
  | .list vs, .list vs' => Val.beqList vs vs'
  | _, _ => false
def Val.beqOpts : List (Option Val) → List (Option Val) → Bool
  | [], [] => true
  | none :: a, none :: b => Val.beqOpts a b
  | some x :: a, some y :: b => Val.beq x y && Val.beqOpts a b
  | _, _ => false
def Val.beqList : List Val → List Val → Bool
  | [], [] => true
  | x :: a, y :: b => Val.beq x y && Val.beqList a b
  | _, _ => false
end

/-- how `Sequence.encode/decode`, `Choice.encode/decode` and the list loops
    classify an element class -/
inductive Kind
  | prim (app : Nat)
  | anyAtomic
  | seqOf (i : Nat)     -- `klass in _sequence_of_classes`
  | listOf (i : Nat)    -- `klass in _list_of_classes`
  | struct (i : Nat)    -- anything else (Sequence, Choice, Any, ArrayOf, NameValue)
  | bad                 -- dangling index (never in a generated table)
deriving DecidableEq, Repr, Inhabited

def kindOf (env : Env) : Ref → Kind
  | .prim a => .prim a
  | .anyAtomic => .anyAtomic
  | .ty i =>
    match env[i]? with
    | some (.list .seqof _ _) => .seqOf i
    | some (.list .listof _ _) => .listOf i
    | some _ => .struct i
    | none => .bad

end BacVerif.Schema
