/-
  Model.Object — property reads and writes of a BACnet device, as served by
    py34/bacpypes/service/object.py   ReadWritePropertyServices.do_ReadPropertyRequest /
                                      do_WritePropertyRequest, read_property_to_any,
                                      read_property_to_result_element,
                                      ReadWritePropertyMultipleServices.do_ReadPropertyMultipleRequest
    py34/bacpypes/object.py           Property.ReadProperty / WriteProperty (validation ladder),
                                      ObjectIdentifierProperty, Object.__init__ / ReadProperty /
                                      WriteProperty / get_datatype, register_object_type
    py34/bacpypes/constructeddata.py  ArrayOf.__getitem__ / __setitem__ / fix_length,
                                      Any.cast_out (outer shell)
    py34/bacpypes/local/object.py     CurrentPropertyList, WriteableObjectName,
                                      Commandable(...).WriteProperty (presentValue / priorityArray)
    py34/bacpypes/local/device.py     CurrentLocalDate/Time, CurrentProtocolServicesSupported
    py34/bacpypes/app.py              Application.indication (exception → Error mapping)
    py34/bacpypes/appservice.py       ApplicationServiceAccessPoint.indication (RejectException → Reject)

  Values are *abstractly typed*: a value is the list of tags it encodes to
  (`Model.Tag`), together with the element type it was decoded as; Python-level
  `isinstance` / `is_valid` checks are modelled on these (application tag number,
  Unsigned range limits, class identity of constructed values).  Decoding of a
  *constructed* value (Sequence/Choice) is the generic codec of C03 and is not
  re-modelled here: its outcome arrives with the request (`Wire.dec`).

  The model describes the tree with fixes/C15-*.patch applied.

  Core Lean only (no Mathlib): the driver `drv_c15` links against this file.
-/
import BacVerif.Model.Tag
namespace BacVerif.Obj
open BacVerif

/-! ## identifiers fixed by the enumerations (checked against the live tables in `Gen/Objects.lean`) -/

def pidAll : Nat := 8
def pidOptional : Nat := 80
def pidRequired : Nat := 105
def pidPropertyList : Nat := 371
def pidObjectIdentifier : Nat := 75
def pidObjectName : Nat := 77
def pidObjectType : Nat := 79
def otDevice : Nat := 8
/-- `('device', 4194303)`: the wildcard device instance -/
def wildcardInstance : Nat := 4194303

/-! ## replies other than an acknowledgement -/

/-- How a request is refused.  The first group are `ExecutionError`s raised by
    the library (→ Error PDU with that class/code); `opProblem` is
    `Application.indication`'s catch-all for any other Python exception
    (Error(device, operationalProblem)); `reject n` is a `RejectException`
    with reason number `n` (→ Reject PDU). -/
inductive Refusal
  | unknownObject        -- Error(object,   unknownObject)
  | unknownProperty      -- Error(property, unknownProperty)
  | notAnArray           -- Error(property, propertyIsNotAnArray)
  | invalidArrayIndex    -- Error(property, invalidArrayIndex)
  | writeAccessDenied    -- Error(property, writeAccessDenied)
  | valueOutOfRange      -- Error(property, valueOutOfRange)
  | duplicateName        -- Error(property, duplicateName)
  | opProblem            -- Error(device,   operationalProblem)
  | reject (reason : Nat)
deriving DecidableEq, Repr, Inhabited

def rejInvalidParameterDatatype : Nat := 3
def rejInvalidTag : Nat := 4

/-- the refusals that are `ExecutionError`s: these, and only these, are embedded
    in a ReadPropertyMultiple answer by `read_property_to_result_element` -/
def Refusal.isExec : Refusal → Bool
  | .opProblem => false
  | .reject _ => false
  | _ => true

/-! ## datatypes and values -/

/-- an encoded element.  `unenc r`: a Python object whose `encode` raises (the
    un-initialised `subtype()` that `ArrayOf.fix_length` appends); `r` is what
    the client gets when a read tries to encode it. -/
inductive Item
  | enc (tags : List Tag)
  | unenc (r : Refusal)
deriving DecidableEq, Repr, Inhabited

/-- element datatype -/
inductive ElemTy
  /-- `Atomic` subclass: application tag number, `_low_limit`, `_high_limit`
      (limits only matter for tag 2, Unsigned and its subclasses) -/
  | atomic (tag lo : Nat) (hi : Option Nat)
  | anyAtomic
  /-- Sequence / Choice subclass, by index into the generated class-name table -/
  | cons (ty : Nat)
deriving DecidableEq, Repr, Inhabited

/-- property datatype -/
inductive DT
  | scalar (e : ElemTy)
  /-- `ArrayOf(e, fixed_length, prototype)`; `dflt` = what `fix_length` appends -/
  | arrayOf (e : ElemTy) (fixed : Option Nat) (dflt : Item)
  | listOf (e : ElemTy)
deriving DecidableEq, Repr, Inhabited

def DT.isArray : DT → Bool
  | .arrayOf .. => true
  | _ => false

/-- stored property value (`obj._values[pid]`) -/
inductive PVal
  | absent                    -- Python `None`
  | one (it : Item)           -- atomic value / Sequence / Choice instance
  | arr (its : List Item)     -- `ArrayOf` instance; `value[0]` is `its.length`
  | lst (its : List Item)     -- `ListOf` instance or plain Python list
deriving DecidableEq, Repr, Inhabited

/-- which `Property` subclass serves the property -/
inductive Custom
  | std        -- Property / StandardProperty family: `Property.ReadProperty`, `Property.WriteProperty`
  | objId      -- object.ObjectIdentifierProperty
  | propList   -- local.object.CurrentPropertyList
  | wrName     -- local.object.WriteableObjectName
  | computed (val : PVal)
               -- local.device.CurrentLocalDate / CurrentLocalTime / CurrentProtocolServicesSupported,
               -- service.cov.ActiveCOVSubscriptions (a list): `val` is computed on each read (clock,
               -- service table, subscription list: supplied), never an array, never writable; the
               -- stored `_values` entry only counts for propertyList
deriving DecidableEq, Repr, Inhabited

/-- property descriptor (`Property.__init__` arguments + serving class) -/
structure PropDesc where
  id : Nat
  /-- rank of the identifier's *name* in the sorted list of all names
      (`CurrentPropertyList` sorts names, not numbers) -/
  rank : Nat
  dt : DT
  optional : Bool
  mutable : Bool
  custom : Custom
  dflt : Option Item
deriving DecidableEq, Repr, Inhabited

structure Slot where
  d : PropDesc
  v : PVal
deriving DecidableEq, Repr, Inhabited

/-- the `Commandable(datatype)` mix-in: identifiers of presentValue /
    priorityArray / relinquishDefault -/
structure Cmd where
  pv : Nat
  pa : Nat
  rd : Nat
deriving DecidableEq, Repr, Inhabited

structure Object where
  ty : Nat
  props : List Slot            -- `_properties.items()` order
  cmd : Option Cmd
deriving DecidableEq, Repr, Inhabited

abbrev Oid := Nat × Nat       -- (object type number, instance)

structure Device where
  objs : List (Oid × Object)   -- `Application.objectIdentifier`
  localDev : Option Oid        -- `Application.localDevice.objectIdentifier`
deriving DecidableEq, Repr, Inhabited

/-- row of the generated table: one registered object type -/
structure ObjType where
  num : Nat
  props : List PropDesc
deriving DecidableEq, Repr, Inhabited

/-! ## small encoders used by the handlers themselves -/

/-- minimal big-endian octets, at least one (`Unsigned.encode` / `Enumerated.encode`
    after stripping leading zeros).  Fuel 4: the library packs with `'>L'`. -/
def natOctets (n : Nat) : Bytes :=
  if n < 256 then [UInt8.ofNat n]
  else if n < 65536 then [UInt8.ofNat (n / 256), UInt8.ofNat (n % 256)]
  else if n < 16777216 then [UInt8.ofNat (n / 65536), UInt8.ofNat (n / 256 % 256), UInt8.ofNat (n % 256)]
  else be32 n

def appTag (num : Nat) (data : Bytes) : Tag :=
  { cls := .app, num := num, lvt := data.length, data := data }

/-- `Unsigned(n)` cast into an `Any` -/
def unsignedItem (n : Nat) : Item := .enc [appTag 2 (natOctets n)]
/-- `Enumerated(n)` cast into an `Any` -/
def enumItem (n : Nat) : Item := .enc [appTag 9 (natOctets n)]
/-- `Null()` cast into an `Any` -/
def nullTag : Tag := appTag 0 []

/-- encode a sequence of items: first un-encodable one raises -/
def encItems : List Item → Except Refusal (List Tag)
  | [] => .ok []
  | .unenc r :: _ => .error r
  | .enc t :: rest =>
      match encItems rest with
      | .error r => .error r
      | .ok ts => .ok (t ++ ts)

def encItem : Item → Except Refusal (List Tag)
  | .enc t => .ok t
  | .unenc r => .error r

/-! ## lookup -/

def findSlot (pid : Nat) : List Slot → Option Slot
  | [] => none
  | s :: rest => if s.d.id = pid then some s else findSlot pid rest

/-- replace the value of the first slot with this identifier -/
def setSlot (pid : Nat) (v : PVal) : List Slot → List Slot
  | [] => []
  | s :: rest => if s.d.id = pid then { s with v := v } :: rest else s :: setSlot pid v rest

def findObj (oid : Oid) : List (Oid × Object) → Option Object
  | [] => none
  | (k, o) :: rest => if k = oid then some o else findObj oid rest

def setObj (oid : Oid) (o : Object) : List (Oid × Object) → List (Oid × Object)
  | [] => []
  | (k, x) :: rest => if k = oid then (k, o) :: rest else (k, x) :: setObj oid o rest

/-! ## `register_object_type` and `Object.__init__` -/

/-- the MRO walk of `register_object_type` for a subclass that declares `own`
    over a registered class with table `base`: first declaration wins -/
def mergeProps (own base : List PropDesc) : List PropDesc :=
  own ++ base.filter fun b => !(own.any fun o => o.id = b.id)

/-- `Object.__init__`: keyword value (written `direct=True`, i.e. stored as
    given), else the property's default, else `None` -/
def initSlot (init : List (Nat × PVal)) (d : PropDesc) : Slot :=
  match init.find? (fun kv => kv.1 = d.id) with
  | some kv => { d := d, v := kv.2 }
  | none =>
    match d.dflt with
    | some it => { d := d, v := .one it }
    | none => { d := d, v := .absent }

def mkObject (ty : Nat) (props : List PropDesc) (cmd : Option Cmd) (init : List (Nat × PVal)) : Object :=
  { ty := ty, props := props.map (initSlot init), cmd := cmd }

/-! ## reading -/

/-- what `Property.ReadProperty` returns -/
inductive RVal
  | none                 -- Python `None`
  | whole (v : PVal)     -- the stored value (never `.absent`)
  | len (n : Nat)        -- `value[0]`
  | elem (it : Item)     -- `value[i]`, 1 ≤ i ≤ n
deriving DecidableEq, Repr, Inhabited

/-- `ArrayOf.__getitem__` on the stored array -/
def arrayGet (its : List Item) (i : Nat) : Except Refusal RVal :=
  if i > its.length then .error .invalidArrayIndex      -- IndexError → ExecutionError
  else if i = 0 then .ok (.len its.length)
  else match its[i - 1]? with
    | some it => .ok (.elem it)
    | none => .error .invalidArrayIndex                  -- unreachable (i ≤ length)

/-- `Property.ReadProperty(obj, arrayIndex)` -/
def stdRead (s : Slot) (idx : Option Nat) : Except Refusal RVal :=
  match idx with
  | none =>
      match s.v with
      | .absent => .ok .none
      | v => .ok (.whole v)
  | some i =>
      if !s.d.dt.isArray then .error .notAnArray
      else
        match s.v with
        | .absent => .ok .none
        | .arr its => arrayGet its i
        | _ => .error .opProblem     -- an array property not holding an ArrayOf: outside the modelled states

/-- insertion into a list sorted by `rank` (the `property_list.sort()` of names) -/
def insertByRank (d : PropDesc) : List PropDesc → List PropDesc
  | [] => [d]
  | x :: rest => if d.rank ≤ x.rank then d :: x :: rest else x :: insertByRank d rest

def sortByRank : List PropDesc → List PropDesc
  | [] => []
  | d :: rest => insertByRank d (sortByRank rest)

/-- the identifiers `CurrentPropertyList.ReadProperty` lists: every property
    with a value, except the four the standard excludes -/
def listedProps (props : List Slot) : List PropDesc :=
  sortByRank ((props.filter fun s =>
    s.v != .absent && s.d.id != pidObjectName && s.d.id != pidObjectType
      && s.d.id != pidObjectIdentifier && s.d.id != pidPropertyList).map (·.d))

/-- `CurrentPropertyList.ReadProperty` -/
def propListRead (o : Object) (idx : Option Nat) : Except Refusal RVal :=
  let ids := (listedProps o.props).map fun d => enumItem d.id
  match idx with
  | none => .ok (.whole (.arr ids))
  | some i =>
      if i = 0 then .ok (.len ids.length)
      else if i > ids.length then .error .invalidArrayIndex
      else match ids[i - 1]? with
        | some it => .ok (.elem it)
        | none => .error .invalidArrayIndex

/-- `prop.ReadProperty(obj, arrayIndex)` dispatched on the serving class -/
def propRead (o : Object) (s : Slot) (idx : Option Nat) : Except Refusal RVal :=
  match s.d.custom with
  | .propList => propListRead o idx
  | .computed val =>
      match idx with
      | some _ => .error .notAnArray
      | none => .ok (.whole val)
  | _ => stdRead s idx

/-- `Object.ReadProperty(propid, arrayIndex)`; `PropertyError` → unknownProperty -/
def objRead (o : Object) (pid : Nat) (idx : Option Nat) : Except Refusal RVal :=
  match findSlot pid o.props with
  | none => .error .unknownProperty
  | some s => propRead o s idx

/-- "change atomic values into something encodeable" + `Any.cast_in` of
    `do_ReadPropertyRequest` (with fixes/C15-rp-list.patch: the extra
    `elif issubclass(datatype, List): value = datatype(value)` branch is gone).
    Shape mismatches are the `TypeError("invalid result datatype…")` /
    constructor `TypeError` paths → operationalProblem. -/
def rpEncode (dt : DT) (idx : Option Nat) (rv : RVal) : Except Refusal (List Tag) :=
  match rv with
  | .none => .error .unknownProperty                 -- `if value is None: raise PropertyError`
  | .len n => encItem (unsignedItem n)               -- `Unsigned(value)`
  | .elem it => encItem it                           -- `datatype.subtype(value)` / isinstance check
  | .whole v =>
    match dt, idx, v with
    | .scalar _, _, .one it => encItem it             -- `datatype(value)` / isinstance(value, datatype)
    | .arrayOf .., none, .arr its => encItems its     -- isinstance(value, datatype)
    | .listOf _, _, .lst its => encItems its          -- `datatype(value)` (plain list) / isinstance (ListOf)
    | _, _, _ => .error .opProblem

/-- the same step as transcribed from `read_property_to_any` (a separate copy
    of the code in the library) -/
def rpmEncode (dt : DT) (idx : Option Nat) (rv : RVal) : Except Refusal (List Tag) :=
  match rv with
  | .none => .error .unknownProperty                 -- ExecutionError(property, unknownProperty)
  | .whole v =>
    match dt, v with
    | .scalar _, .one it => encItem it
    | .arrayOf .., .arr its => if idx.isNone then encItems its else .error .opProblem
    | .listOf _, .lst its => encItems its
    | _, _ => .error .opProblem
  | .len n => if idx = some 0 then encItem (unsignedItem n) else .error .opProblem
  | .elem it => if idx.isSome then encItem it else .error .opProblem

/-- wildcard device instance → the local device's identifier -/
def resolveOid (d : Device) (oid : Oid) : Oid :=
  if oid = (otDevice, wildcardInstance) then
    match d.localDev with
    | some l => l
    | none => oid
  else oid

/-- `do_ReadPropertyRequest` → value octets (as tags) or the refusal -/
def readService (d : Device) (oid : Oid) (pid : Nat) (idx : Option Nat) : Except Refusal (List Tag) :=
  match findObj (resolveOid d oid) d.objs with
  | none => .error .unknownObject
  | some o =>
    match findSlot pid o.props with              -- obj.get_datatype → PropertyError
    | none => .error .unknownProperty
    | some s =>
      match propRead o s idx with
      | .error r => .error r
      | .ok rv => rpEncode s.d.dt idx rv

/-! ## ReadPropertyMultiple -/

inductive ReadResult
  | val (tags : List Tag)       -- propertyValue
  | err (r : Refusal)           -- propertyAccessError (an `isExec` refusal)
deriving DecidableEq, Repr, Inhabited

structure RElem where
  pid : Nat
  idx : Option Nat
  res : ReadResult
deriving DecidableEq, Repr, Inhabited

structure PropRef where
  pid : Nat
  idx : Option Nat
deriving DecidableEq, Repr, Inhabited

/-- `read_property_to_any(obj, pid, idx)` -/
def readToAny (o : Object) (pid : Nat) (idx : Option Nat) : Except Refusal (List Tag) :=
  match findSlot pid o.props with
  | none => .error .unknownProperty
  | some s =>
    match propRead o s idx with
    | .error r => .error r
    | .ok rv => rpmEncode s.d.dt idx rv

/-- `read_property_to_result_element`: ExecutionError / PropertyError become an
    embedded error, anything else escapes and fails the whole request -/
def readToElem (o : Option Object) (pid : Nat) (idx : Option Nat) : Except Refusal RElem :=
  match o with
  | none => .ok { pid := pid, idx := idx, res := .err .unknownObject }
  | some o =>
    match readToAny o pid idx with
    | .ok tags => .ok { pid := pid, idx := idx, res := .val tags }
    | .error r => if r.isExec then .ok { pid := pid, idx := idx, res := .err r } else .error r

/-- the property filter of the `all` / `required` / `optional` selectors -/
def selects (sel : Nat) (d : PropDesc) : Bool :=
  d.id != pidPropertyList &&
    (sel = pidAll || (sel = pidRequired && !d.optional) || (sel = pidOptional && d.optional))

/-- the loop over `obj._properties.items()` for a selector -/
def expandSel (o : Object) (sel : Nat) (idx : Option Nat) : List Slot → Except Refusal (List RElem)
  | [] => .ok []
  | s :: rest =>
    if selects sel s.d then
      match readToElem (some o) s.d.id idx with
      | .error r => .error r
      | .ok e =>
        match expandSel o sel idx rest with
        | .error r => .error r
        | .ok es => if e.res = .err .unknownProperty then .ok es else .ok (e :: es)
    else expandSel o sel idx rest

def isSelector (pid : Nat) : Bool := pid = pidAll || pid = pidRequired || pid = pidOptional

/-- one property reference of a read access specification -/
def rpmRef (o : Option Object) (r : PropRef) : Except Refusal (List RElem) :=
  if isSelector r.pid then
    match o with
    | none => .ok [{ pid := r.pid, idx := r.idx, res := .err .unknownObject }]
    | some ob => expandSel ob r.pid r.idx ob.props
  else
    match readToElem o r.pid r.idx with
    | .error e => .error e
    | .ok e => .ok [e]

def rpmRefs (o : Option Object) : List PropRef → Except Refusal (List RElem)
  | [] => .ok []
  | r :: rest =>
    match rpmRef o r with
    | .error e => .error e
    | .ok es =>
      match rpmRefs o rest with
      | .error e => .error e
      | .ok more => .ok (es ++ more)

/-- `do_ReadPropertyMultipleRequest` -/
def rpmService (d : Device) : List (Oid × List PropRef) → Except Refusal (List (Oid × List RElem))
  | [] => .ok []
  | (oid, refs) :: rest =>
    let oid' := resolveOid d oid
    match rpmRefs (findObj oid' d.objs) refs with
    | .error e => .error e
    | .ok es =>
      match rpmService d rest with
      | .error e => .error e
      | .ok more => .ok ((oid', es) :: more)

/-! ## writing -/

/-- outcome of decoding a constructed value with the generic codec (supplied) -/
inductive Dec
  | ok
  | reject (reason : Nat)    -- a RejectException (InvalidTag, MissingRequiredParameter, …)
  | other                    -- any other exception (DecodingError, ValueError, AttributeError, …)
deriving DecidableEq, Repr, Inhabited

/-- the `propertyValue` of a WriteProperty request -/
structure Wire where
  /-- the tag list of the `Any`, cut into the elements the generic codec finds
      when `dec = ok` and the target is constructed (one chunk for a scalar) -/
  chunks : List (List Tag)
  dec : Dec
deriving DecidableEq, Repr, Inhabited

def Wire.tags (w : Wire) : List Tag := w.chunks.flatten

/-- the Python value handed to `WriteProperty` -/
inductive WVal
  | null                                   -- `()`
  | one (e : ElemTy) (it : Item)           -- a value / instance of element type `e`
  | many (e : ElemTy) (its : List Item)    -- a Python list of such values
deriving DecidableEq, Repr, Inhabited

/-- `Any.is_application_class_null` -/
def isAppNull : List Tag → Bool
  | [t] => t.cls = .app && t.num = 0
  | _ => false

/-- a non-reject exception inside `cast_out` (fixes/C15-wp-decode-error.patch:
    answered as an invalid parameter datatype, not as operationalProblem) -/
def decodeFailure : Refusal := .reject rejInvalidParameterDatatype

/-- `klass(tag)` for an atomic class: `decode` insists on the application tag
    of the class (contents are assumed well-formed: they come from an encoder) -/
def atomOfTag (tag : Nat) (t : Tag) : Except Refusal Item :=
  if t.cls = .app ∧ t.num = tag then .ok (.enc [t]) else .error (.reject rejInvalidTag)

/-- `AnyAtomic(tag)`: `Tag.app_to_object` wants the application class -/
def anyAtomOfTag (t : Tag) : Except Refusal Item :=
  if t.cls = .app ∧ t.num ≤ 12 then .ok (.enc [t]) else .error decodeFailure

/-- `cast_out` of an atomic class: exactly one tag -/
def castAtom (mk : Tag → Except Refusal Item) : List Tag → Except Refusal Item
  | [] => .error decodeFailure                -- DecodingError("missing cast component")
  | [t] => mk t
  | _ :: _ :: _ => .error decodeFailure       -- DecodingError("too many cast components")

/-- the decode loop of `ArrayOf.decode` / `ListOf.decode` for atomic elements:
    stops at a closing tag (left-over → "incomplete cast") -/
def castAtomSeq (mk : Tag → Except Refusal Item) : List Tag → Except Refusal (List Item)
  | [] => .ok []
  | t :: rest =>
    if t.cls = .closing then .error decodeFailure
    else
      match mk t with
      | .error r => .error r
      | .ok it =>
        match castAtomSeq mk rest with
        | .error r => .error r
        | .ok its => .ok (it :: its)

def decRefusal : Dec → Option Refusal
  | .ok => none
  | .reject n => some (.reject n)
  | .other => some decodeFailure

/-- `cast_out(klass)` for an element class -/
def castElem (e : ElemTy) (w : Wire) : Except Refusal WVal :=
  match e with
  | .atomic tag _ _ => (castAtom (atomOfTag tag) w.tags).map (.one e)
  | .anyAtomic => (castAtom anyAtomOfTag w.tags).map (.one e)
  | .cons _ =>
    match decRefusal w.dec with
    | some r => .error r
    | none => .ok (.one e (.enc w.tags))

/-- `cast_out` of an `ArrayOf` / `ListOf` class → Python list -/
def castSeq (e : ElemTy) (fixed : Option Nat) (w : Wire) : Except Refusal WVal :=
  let items : Except Refusal (List Item) :=
    match e with
    | .atomic tag _ _ => castAtomSeq (atomOfTag tag) w.tags
    | .anyAtomic => castAtomSeq anyAtomOfTag w.tags
    | .cons _ =>
      match decRefusal w.dec with
      | some r => .error r
      | none => .ok (w.chunks.map .enc)
  match items with
  | .error r => .error r
  | .ok its =>
    match fixed with
    | some n => if its.length = n then .ok (.many e its) else .error decodeFailure   -- ValueError("invalid array length")
    | none => .ok (.many e its)

def unsignedTy : ElemTy := .atomic 2 0 none

/-- the datatype selection and `cast_out` of `do_WritePropertyRequest` -/
def castOut (dt : DT) (idx : Option Nat) (w : Wire) : Except Refusal WVal :=
  if isAppNull w.tags then .ok .null           -- datatype = Null; cast_out(Null) = ()
  else
    match dt, idx with
    | .arrayOf _ _ _, some 0 => castElem unsignedTy w
    | .arrayOf e _ _, some _ => castElem e w
    | .arrayOf e fixed _, none => castSeq e fixed w
    | .listOf e, _ => castSeq e none w
    | .scalar e, _ => castElem e w

/-- numeric value of an `Unsigned` item -/
def itemNat : Item → Option Nat
  | .enc [t] => some (beVal t.data)
  | _ => none

/-- `klass.is_valid(value)` for an atomic class, on a value decoded as `e'` -/
def atomValid (tag lo : Nat) (hi : Option Nat) (e' : ElemTy) (it : Item) : Bool :=
  match e' with
  | .atomic tag' _ _ =>
      tag' = tag &&
      (if tag = 2 then
        match itemNat it with
        | some n => lo ≤ n && (match hi with | some h => n ≤ h | none => true)
        | none => false
       else true)
  | .anyAtomic => false      -- an Atomic *instance* is not a valid value of a concrete class
  | .cons _ => false

/-- the per-element check of the ladder: `subtype.is_valid(item)` for atomic
    subtypes, `isinstance(item, subtype)` otherwise -/
def elemValid (e : ElemTy) (e' : ElemTy) (it : Item) : Bool :=
  match e with
  | .atomic tag lo hi => atomValid tag lo hi e' it
  | .anyAtomic => e' = .anyAtomic                 -- isinstance(value, Atomic): what AnyAtomic(tag) yields
  | .cons ty => e' = .cons ty

def invalidDatatype : Refusal := .reject rejInvalidParameterDatatype

/-- `ArrayOf.fix_length(n)` -/
def fixLength (its : List Item) (n : Nat) (dflt : Item) : List Item :=
  if its.length > n then its.take n
  else its ++ List.replicate (n - its.length) dflt

/-- `arry[arrayIndex] = value` (`ArrayOf.__setitem__`) with the exception
    mapping of `Property.WriteProperty` -/
def arraySet (its : List Item) (fixed : Option Nat) (dflt : Item) (i : Nat) (v : WVal) :
    Except Refusal (List Item) :=
  if i > its.length then .error .invalidArrayIndex          -- IndexError
  else if i = 0 then
    match v with
    | .one _ it =>
      match itemNat it with
      | none => .error .opProblem
      | some n =>
        match fixed with
        | some _ => if n = its.length then .ok its else .error .valueOutOfRange   -- TypeError("fixed length array")
        | none => .ok (fixLength its n dflt)
    | _ => .error .opProblem
  else
    match v with
    | .one _ it => .ok (its.set (i - 1) it)
    | _ => .error .opProblem

/-- the validation ladder of `Property.WriteProperty` (the `if arrayIndex == 0 …
    elif AnyAtomic … elif Atomic … elif Array … elif List … elif not isinstance`
    chain).  (with fixes/C15-wp-array-null.patch: a non-list, non-array value
    for an array property is refused) -/
def ladder (dt : DT) (v : WVal) (idx : Option Nat) : Except Refusal Unit :=
  if idx = some 0 then
    -- `Unsigned.is_valid(value)`
    match v with
    | .one e' it => if atomValid 2 0 none e' it then .ok () else .error invalidDatatype
    | _ => .error invalidDatatype
  else
    match dt with
    | .scalar e =>
      match v with
      | .one e' it => if elemValid e e' it then .ok () else .error invalidDatatype
      | _ => .error invalidDatatype
    | .arrayOf e _ _ =>
      match idx with
      | some _ =>
        match v with
        | .one e' it => if elemValid e e' it then .ok () else .error invalidDatatype
        | _ => .error invalidDatatype
      | none =>
        match v with
        | .many e' its => if its.all (elemValid e e') then .ok () else .error invalidDatatype
        | _ => .error invalidDatatype
    | .listOf e =>
      match idx with
      | some _ => .error .notAnArray
      | none =>
        match v with
        | .many e' its => if its.all (elemValid e e') then .ok () else .error invalidDatatype
        | _ => .error invalidDatatype

/-- the assignment at the end of `Property.WriteProperty`: the new stored value -/
def assign (dt : DT) (old : PVal) (v : WVal) (idx : Option Nat) : Except Refusal PVal :=
  match idx with
  | some i =>
    match dt with
    | .arrayOf _ fixed dflt =>
      match old with
      | .absent => .error .opProblem                   -- RuntimeError("uninitialized array")
      | .arr its => (arraySet its fixed dflt i v).map .arr
      | _ => .error .opProblem
    | _ => .error .notAnArray
  | none =>
    match dt, v with
    | .scalar _, .one _ it => .ok (.one it)
    | .arrayOf _ fixed _, .many _ its =>
        -- `value = self.datatype(value)`: the ArrayOf constructor re-checks the fixed length
        (match fixed with
         | some n => if its.length = n then .ok (.arr its) else .error .opProblem
         | none => .ok (.arr its))
    | .listOf _, .many _ its => .ok (.lst its)
    | _, _ => .error .opProblem

/-- `Property.WriteProperty(obj, value, arrayIndex, priority, direct=False)`:
    read-only check, validation ladder, then the single assignment.  Returns
    the new stored value.  (`if not self.optional and value is None` cannot
    fire: a wire value is never None) -/
def stdWrite (s : Slot) (v : WVal) (idx : Option Nat) : Except Refusal PVal :=
  if !s.d.mutable then .error .writeAccessDenied
  else
    match ladder s.d.dt v idx with
    | .error r => .error r
    | .ok () => assign s.d.dt s.v v idx

/-- the object names the application knows (`Application.objectName` keys):
    the objectName values of all objects -/
def deviceNames (d : Device) : List PVal :=
  d.objs.filterMap fun (_, o) => (findSlot pidObjectName o.props).map (·.v)

/-- `prop.WriteProperty(obj, value, arrayIndex, priority)` dispatched on the
    serving class.  Returns the new stored value; `none` = acknowledged without
    a change. -/
def propWrite (d : Device) (o : Object) (s : Slot) (v : WVal) (idx : Option Nat) :
    Except Refusal (Option PVal) :=
  match s.d.custom with
  | .propList => .error .writeAccessDenied
  | .computed _ => .error .writeAccessDenied
  | .objId =>
      -- ObjectIdentifierProperty.WriteProperty.  fixes/C15-objid-readonly.patch:
      -- the read-only check precedes the "same object type" ValueError
      if !s.d.mutable then .error .writeAccessDenied
      else
        match v with
        | .one _ it =>
          (match itemNat it with
           | some n => if n / 4194304 = o.ty then (stdWrite s v idx).map some
                       else .error .opProblem                   -- ValueError("<type> required")
           | none => .error .opProblem)
        | _ => .error .opProblem                                -- TypeError("object identifier")
  | .wrName =>
      -- WriteableObjectName: bound to an application
      match v with
      | .one _ it =>
        if s.v = .one it then .ok none                               -- new_name == old_name
        else if (deviceNames d).contains (.one it) then .error .duplicateName
        else (stdWrite s v idx).map some
      | _ => (stdWrite s v idx).map some
  | .std => (stdWrite s v idx).map some

/-- `Object.WriteProperty` for a plain object: state in, state out -/
def objWritePlain (d : Device) (o : Object) (pid : Nat) (v : WVal) (idx : Option Nat) :
    Object × Except Refusal Unit :=
  match findSlot pid o.props with
  | none => (o, .error .unknownProperty)
  | some s =>
    match propWrite d o s v idx with
    | .error r => (o, .error r)
    | .ok none => (o, .ok ())
    | .ok (some nv) => ({ o with props := setSlot pid nv o.props }, .ok ())

/-- `_highest_priority_value`: first slot that is not Null, else relinquishDefault -/
def highest (slots : List Item) (rd : PVal) : PVal :=
  match slots.find? (fun it => it != .enc [nullTag]) with
  | some it => .one it
  | none => rd

/-- the tail of `Commandable(...).WriteProperty` after the priority array was
    touched: look for the highest priority value, compare with presentValue,
    and if different write presentValue through the base class (which may
    still refuse: `o1` is the object *as mutated so far*) -/
def cmdSettle (d : Device) (o1 : Object) (c : Cmd) : Object × Except Refusal Unit :=
  match findSlot c.pa o1.props, findSlot c.pv o1.props, findSlot c.rd o1.props with
  | some pa, some pv, some rd =>
    match pa.v with
    | .arr slots =>
      let hv := highest slots rd.v
      if hv = pv.v then (o1, .ok ())                 -- "no present value change"
      else
        match hv, pv.d.dt with
        | .one hit, .scalar e => objWritePlain d o1 c.pv (.one e hit) none
        | _, _ => (o1, .error .opProblem)
    | _ => (o1, .error .opProblem)
  | _, _, _ => (o1, .error .opProblem)

/-- the "writing to priorityArray, array index i" branch of
    `Commandable(...).WriteProperty`, in the order of the Python: bounds, the
    value check of fixes/C17-slot-write-validate.patch, then the slot is changed
    (mutation 1) and presentValue follows through the base class (mutation 2).
    The first component of the result is the object as mutated so far,
    whatever the outcome. -/
def cmdSlotWrite (d : Device) (o : Object) (c : Cmd) (v : WVal) (i : Int) :
    Object × Except Refusal Unit :=
  if i = 0 then (o, .error .writeAccessDenied)
  else if i < 1 ∨ i > 16 then (o, .error .invalidArrayIndex)
  else
    match findSlot c.pa o.props, findSlot c.pv o.props with
    | some pa, some pv =>
      match pa.v with
      | .arr slots =>
        -- the new content of the slot
        let newSlot : Except Refusal Item :=
          match v with
          | .null => .ok (.enc [nullTag])
          | .one e' it =>
            (match pv.d.dt with
             | .scalar e => if elemValid e e' it then .ok it else .error invalidDatatype
             | _ => .error invalidDatatype)
          | .many .. => .error invalidDatatype
        match newSlot with
        | .error r => (o, .error r)
        | .ok it =>
          cmdSettle d { o with props := setSlot c.pa (.arr (slots.set (i.toNat - 1) it)) o.props } c
      | _ => (o, .error .opProblem)
    | _, _ => (o, .error .opProblem)

/-- the "writing entire priorityArray" branch: passed along to the base class
    first, then presentValue follows -/
def cmdWholeWrite (d : Device) (o : Object) (c : Cmd) (v : WVal) : Object × Except Refusal Unit :=
  match objWritePlain d o c.pa v none with
  | (o1, .error r) => (o1, .error r)
  | (o1, .ok ()) => cmdSettle d o1 c

/-- `if priority is None: priority = 16` -/
def effPrio : Option Int → Int
  | some p => p
  | none => 16

/-- `Commandable(...).WriteProperty`: presentValue (with a priority, default 16)
    is translated into a priority-array element write (the request's array
    index is overwritten by the priority); priorityArray is handled here;
    everything else goes to the base class -/
def objWriteCmd (d : Device) (o : Object) (c : Cmd) (pid : Nat) (v : WVal) (idx : Option Nat)
    (prio : Option Int) : Object × Except Refusal Unit :=
  if pid = c.pv then cmdSlotWrite d o c v (effPrio prio)
  else if pid = c.pa then
    match idx with
    | none => cmdWholeWrite d o c v
    | some i => cmdSlotWrite d o c v (Int.ofNat i)
  else objWritePlain d o pid v idx

def objWrite (d : Device) (o : Object) (pid : Nat) (v : WVal) (idx : Option Nat) (prio : Option Int) :
    Object × Except Refusal Unit :=
  match o.cmd with
  | some c => objWriteCmd d o c pid v idx prio
  | none => objWritePlain d o pid v idx

structure WriteReq where
  oid : Oid
  pid : Nat
  idx : Option Nat
  value : Wire
  prio : Option Int
deriving DecidableEq, Repr, Inhabited

/-- `do_WritePropertyRequest`: the device afterwards and `ok` (SimpleAck) or the refusal -/
def writeService (d : Device) (r : WriteReq) : Device × Except Refusal Unit :=
  match findObj r.oid d.objs with          -- no wildcard handling on writes
  | none => (d, .error .unknownObject)
  | some o =>
    -- `if obj.ReadProperty(pid, idx) is None: raise PropertyError`
    match objRead o r.pid r.idx with
    | .error e => (d, .error e)
    | .ok .none => (d, .error .unknownProperty)
    | .ok _ =>
      match findSlot r.pid o.props with
      | none => (d, .error .unknownProperty)
      | some s =>
        match castOut s.d.dt r.idx r.value with
        | .error e => (d, .error e)
        | .ok v =>
          let (o', res) := objWrite d o r.pid v r.idx r.prio
          ({ d with objs := setObj r.oid o' d.objs }, res)

end BacVerif.Obj
