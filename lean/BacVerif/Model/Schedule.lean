/-
  Model.Schedule — py34/bacpypes/local/schedule.py, branch for branch:
    match_date, match_date_range, match_weeknday, date_in_calendar_entry,
    datetime_to_time, LocalScheduleInterpreter.eval / process_task /
    schedule_changed, plus Date.now / Time.now of primitivedata.py.

  The model describes the tree AFTER the five repairs in /verif/fixes/C20-*.patch:
    * open-ended-date-range     an unspecified (255,255,255) start or end date
                                leaves that side of a DateRange open
    * inactive-period-rearm     outside the effective period `process_task`
                                leaves presentValue alone and re-arms at the
                                start of the next day (instead of crashing on
                                `None` and never running again)
    * same-priority-exceptions  of two special events with the same priority
                                the one with the lower array index wins and
                                the transition of the winner is not overwritten
    * hundredths-transition     `datetime_to_time` keeps the hundredths and
                                `Time.now` does not report a hundredth early
    * reevaluate-on-period-and-default-write
                                a write to effectivePeriod / scheduleDefault
                                re-evaluates at once, like a write to
                                weeklySchedule / exceptionSchedule

  Own Gregorian arithmetic (no library): `isLeap`, `monthLen`, `dayNum`, `succDay`, `civil` (iterated successor; this is the model of
  `time.localtime` under TZ=UTC) — `time.mktime` is `dayNum`.

  Conventions: a BACnet date is the tuple (year-1900, month, day, day-of-week
  1=Monday..7); a time is (hour, minute, second, hundredths); 255 is the
  wildcard.  Schedule values are opaque tokens (`Nat`), `Val.null` is the
  BACnet Null that relinquishes.  The clock is `Nat` microseconds since
  1900-01-01T00:00 UTC.  Core Lean only.
-/
namespace BacVerif.Sched

/-- the Python exceptions this code path can raise -/
inductive SErr
  | runtime   -- RuntimeError (explicit `raise` sites)
  | index     -- IndexError   (priority slot / weekly schedule index)
  | month     -- calendar.IllegalMonthError
  | attr      -- AttributeError (`weeklySchedule[0]` is the array length)
deriving DecidableEq, Repr, Inhabited

def SErr.name : SErr → String
  | .runtime => "runtime" | .index => "index" | .month => "month" | .attr => "attr"

structure Date where
  y : Nat
  m : Nat
  d : Nat
  w : Nat
deriving DecidableEq, Repr, Inhabited

structure Time where
  h  : Nat
  mi : Nat
  s  : Nat
  hs : Nat
deriving DecidableEq, Repr, Inhabited

/-! ## Python tuple comparison -/

/-- `a < b` on 4-tuples of ints (lexicographic) -/
def Time.lt (a b : Time) : Bool :=
  a.h < b.h || (a.h == b.h && (a.mi < b.mi || (a.mi == b.mi &&
    (a.s < b.s || (a.s == b.s && a.hs < b.hs)))))

/-- `a <= b` on 4-tuples of ints -/
def Time.le (a b : Time) : Bool :=
  a.h < b.h || (a.h == b.h && (a.mi < b.mi || (a.mi == b.mi &&
    (a.s < b.s || (a.s == b.s && a.hs ≤ b.hs)))))

/-- Python `min(a, b)`: `b` only if it is strictly smaller -/
def Time.min (a b : Time) : Time := if b.lt a then b else a

/-- `date[:3] < other[:3]` -/
def Date.lt3 (a b : Date) : Bool :=
  a.y < b.y || (a.y == b.y && (a.m < b.m || (a.m == b.m && a.d < b.d)))

/-! ## Gregorian arithmetic (year argument = year − 1900) -/

def isLeap (y : Nat) : Bool :=
  ((1900 + y) % 4 == 0 && (1900 + y) % 100 != 0) || (1900 + y) % 400 == 0

/-- length of a month; 0 for a month number outside 1..12 -/
def monthLen (y m : Nat) : Nat :=
  match m with
  | 1 => 31 | 2 => if isLeap y then 29 else 28 | 3 => 31 | 4 => 30 | 5 => 31 | 6 => 30
  | 7 => 31 | 8 => 31 | 9 => 30 | 10 => 31 | 11 => 30 | 12 => 31
  | _ => 0

/-- `calendar.monthrange(year + 1900, month)[1]` -/
def daysInMonth (y m : Nat) : Except SErr Nat :=
  if m = 0 ∨ m > 12 then .error .month else .ok (monthLen y m)

/-- days of the year before the first of month `m` -/
def daysBeforeMonth (y m : Nat) : Nat :=
  let f := if isLeap y then 1 else 0
  match m with
  | 1 => 0 | 2 => 31 | 3 => 59 + f | 4 => 90 + f | 5 => 120 + f | 6 => 151 + f
  | 7 => 181 + f | 8 => 212 + f | 9 => 243 + f | 10 => 273 + f | 11 => 304 + f | 12 => 334 + f
  | _ => 0

/-- days from 1900-01-01 to the first of January of year 1900+y -/
def daysBeforeYear : Nat → Nat
  | 0 => 0
  | y + 1 => daysBeforeYear y + (if isLeap y then 366 else 365)

/-- ordinal of a date, 1900-01-01 ↦ 0 (the day part of `time.mktime`, TZ=UTC) -/
def dayNum (y m d : Nat) : Nat := daysBeforeYear y + daysBeforeMonth y m + d - 1

/-- weekday of an ordinal, 1 = Monday (1900-01-01 was a Monday) -/
def dowOf (n : Nat) : Nat := n % 7 + 1

/-- the calendar day after `d` (weekday advanced as well) -/
def succDay (d : Date) : Date :=
  let w := d.w % 7 + 1
  if d.d < monthLen d.y d.m then { d with d := d.d + 1, w := w }
  else if d.m < 12 then { y := d.y, m := d.m + 1, d := 1, w := w }
  else { y := d.y + 1, m := 1, d := 1, w := w }

/-- the date of ordinal `n`: the n-th successor of Monday 1900-01-01 -/
def civil : Nat → Date
  | 0 => { y := 0, m := 1, d := 1, w := 1 }
  | n + 1 => succDay (civil n)

/-! ## the clock: microseconds since 1900-01-01T00:00 UTC -/

def usPerDay : Nat := 86400000000
def usPerHs : Nat := 10000

/-- `Date().now().value` (via `time.localtime`, TZ=UTC) -/
def dateOf (now : Nat) : Date := civil (now / usPerDay)

/-- `Time().now().value` -/
def timeOf (now : Nat) : Time :=
  let r := now % usPerDay
  let sec := r / 1000000
  { h := sec / 3600, mi := sec / 60 % 60, s := sec % 60, hs := r % 1000000 / usPerHs }

/-- offset of a time tuple from midnight, µs (hour 24 = start of next day) -/
def Time.us (t : Time) : Nat := ((t.h * 3600 + t.mi * 60 + t.s) * 100 + t.hs) * usPerHs

def Date.has255 (d : Date) : Bool := d.y == 255 || d.m == 255 || d.d == 255 || d.w == 255
def Time.has255 (t : Time) : Bool := t.h == 255 || t.mi == 255 || t.s == 255 || t.hs == 255

/-- `datetime_to_time` (with the hundredths kept) -/
def datetimeToTime (d : Date) (t : Time) : Except SErr Nat :=
  if d.has255 || t.has255 then .error .runtime
  else .ok (dayNum d.y d.m d.d * usPerDay + t.us)

/-! ## the matchers -/

/-- month test shared verbatim by `match_date` and `match_weeknday` -/
def monthOk (m mp : Nat) : Bool :=
  if mp = 255 then true
  else if mp = 13 then !(m % 2 == 0)
  else if mp = 14 then !(m % 2 == 1)
  else m == mp

/-- day test of `match_date` -/
def dayOk (y m d dp : Nat) : Except SErr Bool :=
  if dp = 255 then .ok true
  else if dp = 32 then
    match daysInMonth y m with
    | .error e => .error e
    | .ok last => .ok (d == last)
  else if dp = 33 then .ok (!(d % 2 == 0))
  else if dp = 34 then .ok (!(d % 2 == 1))
  else .ok (d == dp)

/-- `match_date(date, date_pattern)` -/
def matchDate (d p : Date) : Except SErr Bool :=
  if p.y ≠ 255 ∧ d.y ≠ p.y then .ok false
  else if !monthOk d.m p.m then .ok false
  else
    match dayOk d.y d.m d.d p.d with
    | .error e => .error e
    | .ok false => .ok false
    | .ok true => .ok (p.w == 255 || d.w == p.w)

def Date.open3 (p : Date) : Bool := p.y == 255 && p.m == 255 && p.d == 255

/-- `match_date_range(date, date_range)` (repaired: unspecified ends are open) -/
def matchRange (d s e : Date) : Bool :=
  if !s.open3 && d.lt3 s then false
  else if !e.open3 && e.lt3 d then false
  else true

/-- week-of-month test of `match_weeknday` -/
def weekOk (d last wp : Nat) : Bool :=
  if wp = 255 then true
  else if wp = 1 then !(d > 7)
  else if wp = 2 then !(d < 8 || d > 14)
  else if wp = 3 then !(d < 15 || d > 21)
  else if wp = 4 then !(d < 22 || d > 28)
  else if wp = 5 then !(d < 29 || d > 31)
  else if wp = 6 then !(d < last - 6)
  else if wp = 7 then !(d < last - 13 || d > last - 7)
  else if wp = 8 then !(d < last - 20 || d > last - 14)
  else if wp = 9 then !(d < last - 27 || d > last - 21)
  else true

/-- `match_weeknday(date, weeknday)`; the octet string is (month, week, dow) -/
def matchWeekNDay (d : Date) (mp wp dp : Nat) : Except SErr Bool :=
  match daysInMonth d.y d.m with
  | .error e => .error e
  | .ok last =>
    if !monthOk d.m mp then .ok false
    else if !weekOk d.d last wp then .ok false
    else .ok (dp == 255 || d.w == dp)

inductive CalEntry
  | date (p : Date)
  | range (s e : Date)
  | weekNDay (mp wp dp : Nat)
  | empty                      -- a CalendarEntry with no choice set
deriving Repr, Inhabited

/-- `date_in_calendar_entry` -/
def dateInEntry (d : Date) : CalEntry → Except SErr Bool
  | .date p => matchDate d p
  | .range s e => .ok (matchRange d s e)
  | .weekNDay mp wp dp => matchWeekNDay d mp wp dp
  | .empty => .error .runtime

/-- the `for calendar_entry in calendar_object.dateList` loop with its `break` -/
def anyEntry (d : Date) : List CalEntry → Except SErr Bool
  | [] => .ok false
  | e :: es =>
    match dateInEntry d e with
    | .error x => .error x
    | .ok true => .ok true
    | .ok false => anyEntry d es

inductive Period
  | entry (e : CalEntry)
  | ref (dateList : Option (List CalEntry))   -- calendarReference, resolved; none = no such object
  | missing                                   -- period is None
deriving Repr, Inhabited

def periodMatch (d : Date) : Period → Except SErr Bool
  | .entry e => dateInEntry d e
  | .ref none => .error .runtime
  | .ref (some es) => anyEntry d es
  | .missing => .error .runtime

/-! ## the schedule -/

inductive Val
  | null
  | v (x : Nat)
deriving DecidableEq, Repr, Inhabited

structure TV where
  time : Time
  value : Val
deriving Repr, Inhabited

structure SpecialEvent where
  period : Period
  tvs : List TV
  prio : Nat
deriving Repr, Inhabited

structure Cfg where
  effStart : Date
  effEnd : Date
  weekly : Option (List (List TV))      -- weeklySchedule (array elements 1..n)
  exc : Option (List SpecialEvent)      -- exceptionSchedule
  dflt : Nat                            -- scheduleDefault
  fault : Bool := false                 -- reliability != noFaultDetected
deriving Repr, Inhabited

def nextDay : Time := { h := 24, mi := 0, s := 0, hs := 0 }

/-- one of the 16 entries of `event_priority` / `next_transition_time` -/
structure Slot where
  val : Option Nat
  nxt : Option Time
deriving Repr, Inhabited

def Slot.none : Slot := { val := .none, nxt := .none }

/-- the `for time_value in special_event.listOfTimeValues` loop with its `break`;
    the accumulator is (event_value, event_transition) -/
def scanTVs (etime : Time) : List TV → Option Nat × Option Time → Option Nat × Option Time
  | [], acc => acc
  | tv :: rest, acc =>
    if tv.time.le etime then
      match tv.value with
      | .null => scanTVs etime rest (.none, .none)
      | .v x => scanTVs etime rest (some x, some nextDay)
    else (acc.1, some tv.time)

/-- `priority = special_event.eventPriority - 1` used as a list index of a
    16-element list: −1 wraps to the last slot, ≥ 16 raises IndexError -/
def slotIndex (prio : Nat) : Except SErr Nat :=
  if prio = 0 then .ok 15 else if prio ≤ 16 then .ok (prio - 1) else .error .index

/-- merge of one special event into its priority slot (repaired) -/
def mergeSlot (s : Slot) (v : Option Nat) (n : Option Time) : Slot :=
  match s.val with
  | some _ => s
  | .none =>
    { val := v
      nxt := match s.nxt with
        | .none => n
        | some a => match n with
          | .none => some a
          | some b => some (Time.min a b) }

abbrev Slots := Nat → Slot

def Slots.update (sl : Slots) (i : Nat) (f : Slot → Slot) : Slots :=
  fun j => if j = i then f (sl j) else sl j

/-- the `for special_event in sched_obj.exceptionSchedule` loop -/
def evalExceptions (d : Date) (t : Time) : List SpecialEvent → Slots → Except SErr Slots
  | [], sl => .ok sl
  | se :: rest, sl =>
    match periodMatch d se.period with
    | .error e => .error e
    | .ok false => evalExceptions d t rest sl
    | .ok true =>
      let r := scanTVs t se.tvs (.none, .none)
      match slotIndex se.prio with
      | .error e => .error e
      | .ok i => evalExceptions d t rest (sl.update i (fun s => mergeSlot s r.1 r.2))

/-- the `for priority_value, next_transition in zip(...)` loop -/
def scanSlots : List Slot → Time → Option Nat × Time
  | [], e => (.none, e)
  | s :: rest, e =>
    let e' := match s.nxt with
      | some n => Time.min e n
      | .none => e
    match s.val with
    | some v => (some v, e')
    | .none => scanSlots rest e'

/-- the `for time_value in daily_schedule.daySchedule` loop -/
def scanDaily (etime : Time) (dflt : Nat) : List TV → Nat → Time → Nat × Time
  | [], dv, e => (dv, e)
  | tv :: rest, dv, e =>
    if tv.time.le etime then
      match tv.value with
      | .null => scanDaily etime dflt rest dflt e
      | .v x => scanDaily etime dflt rest x e
    else (dv, Time.min e tv.time)

/-- `sched_obj.weeklySchedule[edate[3]].daySchedule` (an ArrayOf: index 0 is
    the length, indices above the length raise) -/
def weeklyLookup (wk : List (List TV)) (w : Nat) : Except SErr (List TV) :=
  if w > wk.length then .error .index
  else if w = 0 then .error .attr
  else match wk[w - 1]? with
    | some l => .ok l
    | .none => .error .index

def slotList (sl : Slots) : List Slot := (List.range 16).map sl

/-- `if sched_obj.exceptionSchedule:` — None and the empty array both mean no iterations -/
def excList (cfg : Cfg) : List SpecialEvent :=
  match cfg.exc with
  | some l => l
  | .none => []

/-- the weekly part of `eval`, entered with the earliest transition so far -/
def evalWeekly (cfg : Cfg) (d : Date) (t : Time) (e : Time) : Except SErr (Nat × Time) :=
  match cfg.weekly with
  | .none => .ok (cfg.dflt, e)
  | some wk =>
    if wk.isEmpty then .ok (cfg.dflt, e)          -- `if sched_obj.weeklySchedule:` (length 0 is falsy)
    else
      match weeklyLookup wk d.w with
      | .error x => .error x
      | .ok day => .ok (scanDaily t cfg.dflt day cfg.dflt e)

/-- `LocalScheduleInterpreter.eval`; `none` = not in the effective period -/
def evalSchedule (cfg : Cfg) (d : Date) (t : Time) : Except SErr (Option (Nat × Time)) :=
  if !matchRange d cfg.effStart cfg.effEnd then .ok .none
  else
    match evalExceptions d t (excList cfg) (fun _ => Slot.none) with
    | .error e => .error e
    | .ok sl =>
      let r := scanSlots (slotList sl) nextDay
      match r.1 with
      | some v => .ok (some (v, r.2))             -- an exception is in control
      | .none =>
        match evalWeekly cfg d t r.2 with
        | .error x => .error x
        | .ok p => .ok (some p)

/-- the next-transition time reported with the value -/
def nextTransition (cfg : Cfg) (d : Date) (t : Time) : Except SErr (Option Time) :=
  match evalSchedule cfg d t with
  | .error e => .error e
  | .ok r => .ok (r.map Prod.snd)

/-! ## the interpreter task -/

structure IState where
  pv : Nat                   -- presentValue
  deadline : Option Nat      -- when the one-shot task is installed for
deriving DecidableEq, Repr, Inhabited

/-- `LocalScheduleInterpreter.process_task` at clock `now`: the new state and
    the exception that escaped, if any (then nothing is installed: whatever
    was installed before stays) -/
def processTask (cfg : Cfg) (st : IState) (now : Nat) : IState × Option SErr :=
  if cfg.fault then (st, .none)
  else
    let d := dateOf now
    let t := timeOf now
    match evalSchedule cfg d t with
    | .error e => (st, some e)
    | .ok r =>
      let pv := match r with
        | some (v, _) => v
        | .none => st.pv                       -- not in the effective period: left alone
      let nt := match r with
        | some (_, n) => n
        | .none => nextDay
      match datetimeToTime d nt with
      | .error e => ({ st with pv := pv }, some e)
      | .ok when_ => ({ pv := pv, deadline := some when_ }, .none)

/-- the one-shot task fires: it is no longer installed, then `process_task` runs -/
def fire (cfg : Cfg) (st : IState) (now : Nat) : IState × Option SErr :=
  processTask cfg { st with deadline := .none } now

/-- `schedule_changed`: a write to weeklySchedule / exceptionSchedule /
    effectivePeriod / scheduleDefault calls `process_task` at once with the
    new configuration (`install_task` replaces an installed deadline) -/
def scheduleChanged (cfg' : Cfg) (st : IState) (now : Nat) : IState × Option SErr :=
  processTask cfg' st now

/-- a timer-driven run: evaluate at `now`, then at every installed deadline,
    `fuel` firings at most, stopping after `until_`; reports (time, state, error) -/
def runTimer (cfg : Cfg) : Nat → IState → Nat → Nat → List (Nat × IState × Option SErr)
  | 0, _, _, _ => []
  | fuel + 1, st, now, until_ =>
    let r := fire cfg st now
    (now, r.1, r.2) ::
      match r.1.deadline with
      | some w => if w ≤ until_ then runTimer cfg fuel r.1 w until_ else []
      | .none => []

end BacVerif.Sched
