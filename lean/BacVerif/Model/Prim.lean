/-
  Model.Prim — the thirteen primitive codecs of py34/bacpypes/primitivedata.py
  (Null, Boolean, Unsigned(+8/16), Integer, Real, Double, OctetString,
  CharacterString, BitString, Enumerated(+subclasses), Date, Time,
  ObjectIdentifier: `encode(tag)` / `decode(tag)` and the constructor domain
  checks), `Tag.app_to_context` / `Tag.context_to_app`, and the enumeration
  translate table built by `expand_enumerations` — branch for branch.

  The model describes the tree AFTER fixes/C01-integer-out-of-range.patch
  (`Integer.encode` packs with `'>i'`, which raises `struct.error` outside
  −2^31 .. 2^31−1, instead of masking with `& 0xFFFFFFFF`).

  Python values → model values
    int                      → `Nat` / `Int` (unbounded, as in Python)
    float (Real)             → its IEEE‑754 single bit pattern, `UInt32`
    float (Double)           → its IEEE‑754 double bit pattern, `UInt64`
    bytes                    → `Bytes`
    str of CharacterString   → (strEncoding, strValue) — the octet level; the
                               str ↔ UTF‑8 step is Python's codec (trusted)
    list of 0/1 (BitString)  → `List Bool`
    str (enumeration name)   → `Name` = the list of its code points
    struct.error, OverflowError, ValueError of bytearray()/set_tuple
                             → `Err.valueRange`;  InvalidTag → `Err.invalidTag`;
    ValueError of app_to_context/context_to_app ("… tag required") → `Err.other`

  Core Lean only (no Mathlib): the driver links this file.
-/
import BacVerif.Model.Tag
namespace BacVerif

/-! ## octet helpers -/

/-- `struct.pack('>Q', n)` for `n < 2^64` (`'>d'` of a double with bit pattern `n`) -/
def be64 (n : Nat) : Bytes := be32 (n / 4294967296) ++ be32 (n % 4294967296)

/-- `Tag.set_app_data(tnum, tdata)` -/
def appData (num : Nat) (data : Bytes) : Tag :=
  { cls := .app, num := num, lvt := data.length, data := data }

/-- `while (len(data) > 1) and (data[0] == 0): del data[0]`
    (Unsigned.encode, Enumerated.encode) -/
def trimZeros : Bytes → Bytes
  | a :: b :: rest => if a.toNat = 0 then trimZeros (b :: rest) else a :: b :: rest
  | bs => bs

/-- the `else` loop of Integer.encode (value ≥ 0): drop a leading 0x00 while
    the next octet has its top bit clear -/
def trimPos : Bytes → Bytes
  | a :: b :: rest =>
      if a.toNat ≠ 0 then a :: b :: rest
      else if b.toNat ≥ 128 then a :: b :: rest
      else trimPos (b :: rest)
  | bs => bs

/-- the `if self.value < 0` loop of Integer.encode: drop a leading 0xFF while
    the next octet has its top bit set -/
def trimNeg : Bytes → Bytes
  | a :: b :: rest =>
      if a.toNat ≠ 255 then a :: b :: rest
      else if b.toNat < 128 then a :: b :: rest
      else trimNeg (b :: rest)
  | bs => bs

/-! ## the value universe -/

inductive PrimTy
  | null | bool | unsigned | integer | real | double | octets | charstr
  | bits | enum | date | time | oid
deriving DecidableEq, Repr, Inhabited

/-- `cls._app_tag` (checked against the live classes: `Gen.Enums.genAppTags`) -/
def PrimTy.appTag : PrimTy → Nat
  | .null => 0 | .bool => 1 | .unsigned => 2 | .integer => 3 | .real => 4
  | .double => 5 | .octets => 6 | .charstr => 7 | .bits => 8 | .enum => 9
  | .date => 10 | .time => 11 | .oid => 12

def PrimTy.all : List PrimTy :=
  [.null, .bool, .unsigned, .integer, .real, .double, .octets, .charstr,
   .bits, .enum, .date, .time, .oid]

inductive PrimVal
  | null
  | bool (b : Bool)
  | unsigned (n : Nat)
  | integer (i : Int)
  | real (bits : UInt32)
  | double (bits : UInt64)
  | octets (bs : Bytes)
  | charstr (enc : Nat) (bs : Bytes)
  | bits (bs : List Bool)
  | enum (n : Nat)
  | date (y m d w : Int)
  | time (h m s c : Int)
  | oid (ty inst : Int)
deriving DecidableEq, Repr, Inhabited

def tyOf : PrimVal → PrimTy
  | .null => .null | .bool _ => .bool | .unsigned _ => .unsigned
  | .integer _ => .integer | .real _ => .real | .double _ => .double
  | .octets _ => .octets | .charstr .. => .charstr | .bits _ => .bits
  | .enum _ => .enum | .date .. => .date | .time .. => .time | .oid .. => .oid

/-! ## encoders (`X.encode(tag)`) -/

/-- Unsigned.encode / Enumerated.encode: `struct.pack('>L', v)` raises
    `struct.error` for `v ≥ 2^32` -/
def encodeUnsignedData (n : Nat) : Except Err Bytes :=
  if n ≥ 4294967296 then .error .valueRange else .ok (trimZeros (be32 n))

/-- Integer.encode (fixed tree): `struct.pack('>i', v)` raises `struct.error`
    outside the 32-bit two's-complement range; then the sign-aware trimming -/
def encodeIntegerData (i : Int) : Except Err Bytes :=
  if i < -2147483648 ∨ i ≥ 2147483648 then .error .valueRange
  else
    let raw := be32 (i % 4294967296).toNat
    .ok (if i < 0 then trimNeg raw else trimPos raw)

/-- one packed octet of BitString.encode: `x |= bits[i+j] << (7-j)` -/
def bitNat (b : Bool) : Nat := if b then 1 else 0

def packOctet (b0 b1 b2 b3 b4 b5 b6 b7 : Bool) : UInt8 :=
  UInt8.ofNat (bitNat b0 * 128 + bitNat b1 * 64 + bitNat b2 * 32 + bitNat b3 * 16 +
               bitNat b4 * 8 + bitNat b5 * 4 + bitNat b6 * 2 + bitNat b7)

/-- the packing loop of BitString.encode over the padded list.  The padded
    list always has a multiple of 8 elements; on any other list Python would
    raise `IndexError` at `bits[i + j]` — modelled as `none`. -/
def packBits : List Bool → Option Bytes
  | [] => some []
  | b0 :: b1 :: b2 :: b3 :: b4 :: b5 :: b6 :: b7 :: rest =>
      (packBits rest).map (packOctet b0 b1 b2 b3 b4 b5 b6 b7 :: ·)
  | _ => none

/-- `unused = used and (8 - used) or 0` with `used = len % 8` -/
def unusedBits (len : Nat) : Nat := if len % 8 = 0 then 0 else 8 - len % 8

/-- BitString.encode -/
def encodeBitsData (bs : List Bool) : Except Err Bytes :=
  let unused := unusedBits bs.length
  match packBits (bs ++ List.replicate unused false) with
  | none => .error .other          -- IndexError: unreachable, see `Props.C01.packBits_padded`
  | some body => .ok (UInt8.ofNat unused :: body)

/-- `bytearray(self.value)` of Date.encode / Time.encode: `ValueError` unless
    every component is in `range(256)` -/
def encodeQuad (a b c d : Int) : Except Err Bytes :=
  if a < 0 ∨ a > 255 ∨ b < 0 ∨ b > 255 ∨ c < 0 ∨ c > 255 ∨ d < 0 ∨ d > 255 then
    .error .valueRange
  else .ok [UInt8.ofNat a.toNat, UInt8.ofNat b.toNat, UInt8.ofNat c.toNat, UInt8.ofNat d.toNat]

/-- ObjectIdentifier: `set_tuple` refuses an instance outside 0..0x3FFFFF
    (`ValueError`); `get_long` = `(objType << 22) + objInstance`;
    `struct.pack('>L', …)` refuses a word outside 0..2^32−1. -/
def oidWord (ty inst : Int) : Except Err Nat :=
  if inst < 0 ∨ inst > 4194303 then .error .valueRange
  else
    let w := ty * 4194304 + inst
    if w < 0 ∨ w ≥ 4294967296 then .error .valueRange else .ok w.toNat

/-- `ObjectIdentifier.set_long`: `(value >> 22) & 0x3FF`, `value & 0x3FFFFF` -/
def oidOfWord (w : Nat) : Int × Int := (Int.ofNat (w / 4194304 % 1024), Int.ofNat (w % 4194304))

/-- `X(value).encode(tag)` for every primitive class -/
def encodePrim : PrimVal → Except Err Tag
  | .null => .ok (appData 0 [])
  | .bool b => .ok { cls := .app, num := 1, lvt := bitNat b, data := [] }
  | .unsigned n => (encodeUnsignedData n).map (appData 2)
  | .integer i => (encodeIntegerData i).map (appData 3)
  | .real bits => .ok (appData 4 (be32 bits.toNat))
  | .double bits => .ok (appData 5 (be64 bits.toNat))
  | .octets bs => .ok (appData 6 bs)
  | .charstr enc bs =>
      -- `bytes([self.strEncoding]) + self.strValue`
      if enc > 255 then .error .valueRange else .ok (appData 7 (UInt8.ofNat enc :: bs))
  | .bits bs => (encodeBitsData bs).map (appData 8)
  | .enum n => (encodeUnsignedData n).map (appData 9)
  | .date y m d w => (encodeQuad y m d w).map (appData 10)
  | .time h m s c => (encodeQuad h m s c).map (appData 11)
  | .oid ty inst => (oidWord ty inst).map fun w => appData 12 (be32 w)

/-! ## decoders (`X.decode(tag)`) -/

/-- the check every `decode` starts with -/
def checkApp (num : Nat) (t : Tag) : Except Err Unit :=
  if t.cls ≠ .app ∨ t.num ≠ num then .error .invalidTag else .ok ()

/-- Integer.decode: sign-extend the first octet, then `(rslt << 8) | c` -/
def decodeIntegerData : Bytes → Except Err Int
  | [] => .error .invalidTag
  | b0 :: rest =>
      let r0 : Int := if b0.toNat ≥ 128 then (b0.toNat : Int) - 256 else (b0.toNat : Int)
      .ok (rest.foldl (fun acc c => acc * 256 + (c.toNat : Int)) r0)

/-- the bit test of BitString.decode: `(x & (1 << (7 - i))) != 0` -/
def unpackOctet (x : UInt8) : List Bool :=
  [x.toNat / 128 % 2 = 1, x.toNat / 64 % 2 = 1, x.toNat / 32 % 2 = 1, x.toNat / 16 % 2 = 1,
   x.toNat / 8 % 2 = 1, x.toNat / 4 % 2 = 1, x.toNat / 2 % 2 = 1, x.toNat % 2 = 1]

def unpackBits : Bytes → List Bool
  | [] => []
  | x :: rest => unpackOctet x ++ unpackBits rest

/-- BitString.decode: `data[:-unused]` if `unused` else `data`
    (Python's negative slice saturates at the empty list) -/
def decodeBitsData : Bytes → Except Err (List Bool)
  | [] => .error .invalidTag
  | u :: body =>
      let data := unpackBits body
      if u.toNat ≠ 0 then .ok (data.take (data.length - u.toNat)) else .ok data

def decodeQuad : Bytes → Except Err (Int × Int × Int × Int)
  | [a, b, c, d] => .ok ((a.toNat : Int), (b.toNat : Int), (c.toNat : Int), (d.toNat : Int))
  | _ => .error .invalidTag

/-- `X(tag)` / `X.decode(tag)` for every primitive class -/
def decodePrim (ty : PrimTy) (t : Tag) : Except Err PrimVal :=
  match checkApp ty.appTag t with
  | .error e => .error e
  | .ok () =>
    match ty with
    | .null => if t.data.length ≠ 0 then .error .invalidTag else .ok .null
    | .bool => if t.lvt > 1 then .error .invalidTag else .ok (.bool (t.lvt ≠ 0))
    | .unsigned => if t.data.length = 0 then .error .invalidTag else .ok (.unsigned (beVal t.data))
    | .integer => (decodeIntegerData t.data).map .integer
    | .real =>
        if t.data.length ≠ 4 then .error .invalidTag else .ok (.real (UInt32.ofNat (beVal t.data)))
    | .double =>
        if t.data.length ≠ 8 then .error .invalidTag else .ok (.double (UInt64.ofNat (beVal t.data)))
    | .octets => .ok (.octets t.data)
    | .charstr =>
        match t.data with
        | [] => .error .invalidTag
        | e :: bs => .ok (.charstr e.toNat bs)
    | .bits => (decodeBitsData t.data).map .bits
    | .enum => if t.data.length = 0 then .error .invalidTag else .ok (.enum (beVal t.data))
    | .date => (decodeQuad t.data).map fun (a, b, c, d) => .date a b c d
    | .time => (decodeQuad t.data).map fun (a, b, c, d) => .time a b c d
    | .oid =>
        if t.data.length ≠ 4 then .error .invalidTag
        else let (ty, inst) := oidOfWord (beVal t.data); .ok (.oid ty inst)

/-! ## application ↔ context conversion -/

/-- `Tag.app_to_context(context)`; the application boolean carries its value in
    the LVT and gets one data octet (`bytearray([self.tagLVT])`, `ValueError`
    above 255) -/
def appToContext (c : Nat) (t : Tag) : Except Err Tag :=
  if t.cls ≠ .app then .error .other
  else if t.num = 1 then
    if t.lvt > 255 then .error .other
    else .ok { cls := .ctx, num := c, lvt := 1, data := [UInt8.ofNat t.lvt] }
  else .ok { cls := .ctx, num := c, lvt := t.data.length, data := t.data }

/-- `Tag.context_to_app(dataType)`; for booleans `struct.unpack('B', tagData)`
    raises `struct.error` unless there is exactly one octet -/
def contextToApp (dataType : Nat) (t : Tag) : Except Err Tag :=
  if t.cls ≠ .ctx then .error .other
  else if dataType = 1 then
    match t.data with
    | [b] => .ok { cls := .app, num := 1, lvt := b.toNat, data := [] }
    | _ => .error .valueRange
  else .ok { cls := .app, num := dataType, lvt := t.data.length, data := t.data }

/-- `Tag._app_tag_class[tagNumber]` (13..15 are `None`) -/
def PrimTy.ofAppTag : Nat → Option PrimTy
  | 0 => some .null | 1 => some .bool | 2 => some .unsigned | 3 => some .integer
  | 4 => some .real | 5 => some .double | 6 => some .octets | 7 => some .charstr
  | 8 => some .bits | 9 => some .enum | 10 => some .date | 11 => some .time
  | 12 => some .oid | _ => none

/-- `Tag.app_to_object()`: `ValueError` unless application class; the class is
    looked up in the 16-entry list `_app_tag_class` (`IndexError` beyond it),
    `None` for the reserved numbers, else `klass(tag)` -/
def appToObject (t : Tag) : Except Err (Option PrimVal) :=
  if t.cls ≠ .app then .error .other
  else if t.num ≥ 16 then .error .other
  else match PrimTy.ofAppTag t.num with
    | none => .ok none
    | some ty => (decodePrim ty t).map some

/-! ## on the wire, in either tagging mode -/

inductive Mode
  | app
  | ctx (c : Nat)
deriving DecidableEq, Repr

/-- `X(v).encode(tag)`, optionally `tag.app_to_context(c)`, then `tag.encode(pdu)` -/
def wireEncode (m : Mode) (v : PrimVal) : Except Err Bytes :=
  match encodePrim v with
  | .error e => .error e
  | .ok t =>
    match m with
    | .app => .ok (serializeTag t)
    | .ctx c =>
      match appToContext c t with
      | .error e => .error e
      | .ok t' => .ok (serializeTag t')

/-- `Tag(pdu)`, for a context element the check `tagClass == context and
    tagNumber == c` (as `Sequence.decode` does) and `context_to_app(X._app_tag)`,
    then `X(tag)`; returns the value and the octets left in the PDU -/
def wireDecode (ty : PrimTy) (m : Mode) (bs : Bytes) : Except Err (PrimVal × Bytes) :=
  match parseTag bs with
  | .error e => .error e
  | .ok (t, rest) =>
    match m with
    | .app => (decodePrim ty t).map (·, rest)
    | .ctx c =>
      if t.cls ≠ .ctx ∨ t.num ≠ c then .error .invalidTag
      else
        match contextToApp ty.appTag t with
        | .error e => .error e
        | .ok t' => (decodePrim ty t').map (·, rest)

/-! ## constructor domain checks -/

/-- `Unsigned.__init__(int)` with the class limits `(_low_limit, _high_limit)` -/
def unsignedCtor (lo : Int) (hi : Option Int) (arg : Int) : Except Err Nat :=
  if arg < lo then .error .valueRange
  else match hi with
    | some h => if arg > h then .error .valueRange else .ok arg.toNat
    | none => .ok arg.toNat

/-! ## enumerations (`Enumerated`, `expand_enumerations`) -/

/-- a Python `str`, as the list of its code points -/
abbrev Name := List Nat

/-- the `(name, value)` pairs in the order `expand_enumerations` visits them
    (MRO order, dict order inside a class) -/
abbrev EnumTable := List (Name × Nat)

/-- `_xlate_table.get(name)`: `xlateTable[name] = value` — later pairs overwrite -/
def xlateName : EnumTable → Name → Option Nat
  | [], _ => none
  | (k, v) :: rest, name =>
      match xlateName rest name with
      | some v' => some v'
      | none => if k = name then some v else none

/-- `_xlate_table.get(number)`: `xlateTable[value] = name` — later pairs overwrite -/
def xlateNum : EnumTable → Nat → Option Name
  | [], _ => none
  | (k, v) :: rest, n =>
      match xlateNum rest n with
      | some k' => some k'
      | none => if v = n then some k else none

/-- `Enumerated.value`: a name when the table knows one, else the number -/
inductive EnumVal
  | name (s : Name)
  | num (n : Nat)
deriving DecidableEq, Repr

inductive EnumArg
  | name (s : Name)
  | int (i : Int)
deriving DecidableEq, Repr

/-- `Enumerated.__init__` for `int` and `str` arguments -/
def enumCtor (T : EnumTable) : EnumArg → Except Err EnumVal
  | .int i =>
      if i < 0 then .error .valueRange
      else match xlateNum T i.toNat with
        | some s => .ok (.name s)
        | none => .ok (.num i.toNat)
  | .name s =>
      match xlateName T s with
      | some _ => .ok (.name s)
      | none => .error .valueRange

/-- the number `Enumerated.encode` / `get_long` works with
    (`KeyError` for a name the table lacks → `Err.other`; unreachable through
    the constructor) -/
def enumNumber (T : EnumTable) : EnumVal → Except Err Nat
  | .num n => .ok n
  | .name s => match xlateName T s with
      | some n => .ok n
      | none => .error .other

/-- `Enumerated.encode` -/
def enumEncode (T : EnumTable) (v : EnumVal) : Except Err Tag :=
  match enumNumber T v with
  | .error e => .error e
  | .ok n => encodePrim (.enum n)

/-- `Enumerated.decode`: the number, then `_xlate_table.get(rslt, rslt)` -/
def enumDecode (T : EnumTable) (t : Tag) : Except Err EnumVal :=
  match decodePrim .enum t with
  | .ok (.enum n) =>
      (match xlateNum T n with
       | some s => .ok (.name s)
       | none => .ok (.num n))
  | .ok _ => .error .other
  | .error e => .error e

/-! ## named bit strings (`BitString` subclasses: `bitNames`, `bitLen`) -/

/-- `(name, bit index)` pairs of `bitNames` -/
abbrev BitTable := List (Name × Nat)

/-- `bitNames[name]` (a dict: keys are unique, first = only match) -/
def bitIndex : BitTable → Name → Option Nat
  | [], _ => none
  | (k, v) :: rest, name => if k = name then some v else bitIndex rest name

/-- `BitString.__init__(list of names)`: start from `[0] * bitLen`, set
    `value[bitNames[name]] = 1`; `IndexError` when the index is not below the
    length (the explicit test lets `bit == len` through to the list assignment,
    which raises the same `IndexError`) -/
def bitsFromNames (T : BitTable) (bitLen : Nat) (names : List Name) : Except Err (List Bool) :=
  names.foldlM (fun (acc : List Bool) name =>
    match bitIndex T name with
    | none => .error .invalidDatatype      -- not all strings are bit names: TypeError
    | some i => if i < acc.length then .ok (acc.set i true) else .error .other)
    (List.replicate bitLen false)

end BacVerif
