/-
  Model.Device — the receive pipeline of a (non-router, single-adapter) BACnet
  device as a TOTAL function on link octets (property C10)

      recv : DevCfg σ → DevState σ → (link source) → (frame octets) → DevState σ × List Frame

  Code modelled (py34/bacpypes, tree after the repairs in /verif/fixes):

    vlan.Node / bvllservice → netservice.NetworkAdapter.confirmation     `Npci.decodeNpci`   (error → datagram dropped)
    netservice.NetworkServiceAccessPoint.process_npdu                     `learnSadr`, `localDecision`, `learnMsg`
    … `apdu.decode(_deepcopy(npdu))`                                      `decodeApdu`        (error → dropped)
    appservice.StateMachineAccessPoint.confirmation + the SSMs            `Tsm.step (.frame …)`
    appservice.ApplicationServiceAccessPoint.indication                   `reqDecode` plugged into `Tsm.Cfg`
        confirmed_request_types.get → UnrecognizedService                  registry lookup
        APCISequence.decode = TagList.decode + Sequence.decode + trailing `parseTags`, `Codec.decodePdu`
        RejectException → its reason; anything else → RejectOther          `rejectOf`
    app.Application.indication / the service helpers                      ABSTRACT: `serve`, `unconf`
    ApplicationServiceAccessPoint.response → SSM → NSAP.indication        `Tsm.step (.response …)`, `emit`
    core.run firing the SSM one-shot tasks until none is left             `quiesce`

  Every datagram runs in its own scheduler task (vlan delivers each frame as a
  zero-delay `OneShotFunction`, core.run catches what a task raises), so an
  exception at any layer ends THAT datagram only: in the model, a decode error
  is "return the state unchanged, no output".

  Scope.  One adapter bound without network number and address
  (`nsap.bind(server)`: `adapterNet = None`); link frames addressed to the
  station itself or broadcast on its LAN (`bcast`).  The adapter may LEARN its
  network number from broadcast Network-Number-Is messages (`net`, `netCfg`);
  from then on an SNET or a remote DNET equal to it is a path error (dropped)
  and a peer on that network is answered as a local station.  The application is abstract: a
  transition system `serve` over an arbitrary state type `σ` that answers each
  indication of a confirmed request with exactly one of simple ack / complex ack
  / error / reject / abort (that is what `Application.indication` guarantees for
  helpers that answer; a DeviceCommunicationControl helper may switch the DCC
  gate first).  It never starts client transactions.  Network priority is not
  modelled (replies echo the request's priority bits; the harness masks them).

  Core Lean only (linked into `drv_c10`).
-/
import BacVerif.Model.Npci
import BacVerif.Model.Apci
import BacVerif.Model.Tsm
import BacVerif.Model.Codec
namespace BacVerif.Device
open BacVerif BacVerif.Tsm

/-! ## peers: `Address` values as the `Nat` keys of `Model.Tsm` -/

/-- an octet string as a number, injectively (little-endian digits under a leading 1) -/
def listCode : Bytes → Nat
  | [] => 1
  | b :: r => listCode r * 256 + b.toNat

def listDecode (n : Nat) : Bytes :=
  if h : n ≤ 1 then [] else UInt8.ofNat (n % 256) :: listDecode (n / 256)
termination_by n
decreasing_by omega

/-- the key `pduSource` / `pdu_address` is compared by (`Address.__eq__`:
    type, network, octets) -/
def peerOf : Npci.Addr → Peer
  | .null => 0
  | .localBroadcast => 1
  | .globalBroadcast => 2
  | .remoteBroadcast net => 8 * net + 3
  | .localStation mac => 8 * listCode mac + 4
  | .remoteStation net mac => 8 * (listCode mac * 65536 + net % 65536) + 5

def addrOf (p : Peer) : Npci.Addr :=
  match p % 8 with
  | 1 => .localBroadcast
  | 2 => .globalBroadcast
  | 3 => .remoteBroadcast (p / 8)
  | 4 => .localStation (listDecode (p / 8))
  | 5 => .remoteStation (p / 8 % 65536) (listDecode (p / 8 / 65536))
  | _ => .null

/-! ## APCI ⇄ the decoded header record of `Model.Tsm` -/

/-- an attribute the PDU type does not carry is `None` in Python and is never
    read for that type by the state machines (`Tsm.Apdu` keeps `false`/`0`) -/
def optB : Option Bool → Bool
  | some b => b
  | none => false
def optN : Option Nat → Nat
  | some n => n
  | none => 0

/-- `APDU.decode` result as the state machines see it -/
def ofApci (h : Apci) (data : Bytes) : Apdu :=
  { ty := h.apduType, seg := optB h.seg, mor := optB h.mor, sa := optB h.sa, srv := optB h.srv,
    nak := optB h.nak, seq := optN h.seq, win := optN h.win, maxSegs := optN h.maxSegs,
    maxResp := optN h.maxResp, service := optN h.service, invokeId := optN h.invokeID,
    reason := optN h.reason, data := data }

/-- the header `APCI.encode` is given for an outbound PDU of the state machines -/
def toApci (a : Apdu) : Apci :=
  let sw : Option (Nat × Nat) := if a.seg then some (a.seq, a.win) else none
  match a.ty with
  | 0 => Apci.mkConfirmed sw a.mor a.sa a.maxSegs a.maxResp a.invokeId a.service
  | 1 => Apci.mkUnconfirmed a.service
  | 2 => Apci.mkSimpleAck a.invokeId a.service
  | 3 => Apci.mkComplexAck sw a.mor a.invokeId a.service
  | 4 => Apci.mkSegmentAck a.nak a.srv a.invokeId a.seq a.win
  | 5 => Apci.mkError a.invokeId a.service
  | 6 => Apci.mkReject a.invokeId a.reason
  | 7 => Apci.mkAbort a.srv a.invokeId a.reason
  | t => { apduType := t }

/-! ## the service decoder of the ASAP -/

/-- reject reasons (apdu.RejectReason; checked against the regenerated table in Props/C10) -/
def rejectOther : Nat := 0
def rejectInvalidParameterDatatype : Nat := 3
def rejectInvalidTag : Nat := 4
def rejectMissingRequiredParameter : Nat := 5
def rejectTooManyArguments : Nat := 7

/-- `except RejectException as err: … err.rejectReason`, `except Exception: RejectOther`:
    the reject reason of each decoder error class.  `DecodingError` is a
    `ValueError`, not a reject — it takes the catch-all like everything else. -/
def rejectOf : Err → Nat
  | .invalidTag => rejectInvalidTag
  | .missingRequired => rejectMissingRequiredParameter
  | .invalidDatatype => rejectInvalidParameterDatatype
  | .tooMany => rejectTooManyArguments
  | .decoding | .valueRange | .encoding | .other => rejectOther

/-- `atype = confirmed_request_types.get(service)`; `xpdu = atype(); xpdu.decode(apdu)` -/
def reqDecode (env : Schema.Env) (reg : List (Nat × Nat)) (service : Nat) (data : Bytes) : ReqDecode :=
  match Codec.lookup reg service with
  | none => .reject rejectUnrecognizedService
  | some τ =>
    match parseTags data with
    | .error e => .reject (rejectOf e)
    | .ok tags =>
      match Codec.decodePdu env τ tags with
      | .error e => .reject (rejectOf e)
      | .ok _ => .ok

/-- unconfirmed requests: no decoder, or a decoder that raises: dropped
    (reject/abort are caught and logged, anything else ends the task) -/
def unconfDecode (env : Schema.Env) (reg : List (Nat × Nat)) (service : Nat) (data : Bytes) : Bool :=
  match Codec.lookup reg service with
  | none => false
  | some τ =>
    match parseTags data with
    | .error _ => false
    | .ok tags =>
      match Codec.decodePdu env τ tags with
      | .error _ => false
      | .ok _ => true

/-! ## the abstract application -/

/-- what the service helper hands to `self.response(...)` (or raises) for a confirmed request -/
inductive AppAnswer
  | simpleAck                           -- SimpleAckPDU(context=apdu)
  | complexAck (payload : Bytes)        -- the encoded <Service>ACK(context=apdu)
  | error (payload : Bytes)             -- Error(errorClass, errorCode, context=apdu)
  | reject (r : UInt8)                  -- raise RejectException → RejectPDU(reason); set_context
  | abort (srv : Bool) (r : UInt8)      -- raise AbortException → AbortPDU(reason) (server flag unset)
deriving DecidableEq, Repr, Inhabited

structure AppReply where
  /-- DeviceCommunicationControl ACCEPTED: `smap.dccEnableDisable = …` before answering
      (`enable_communications` / `disable_communications`; a refused request changes nothing) -/
  dcc : Option Dcc := none
  /-- … and, for a disable with a time duration, the microseconds until `enable_communications`
      runs again (`_dcc_enable_task`); an accepted request without one cancels a pending task -/
  dccFor : Option Nat := none
  /-- what the helper hands to `self.response(...)` before it returns; `none`: it returns
      without answering (a gateway-style application answers later from a task — `respond` —
      or never) -/
  answer : Option AppAnswer
deriving Repr, Inhabited

/-- the PDU the ASAP passes down (`set_context`: invoke ID and service choice of the request) -/
def respApdu (req : Apdu) : AppAnswer → Apdu
  | .simpleAck => { ty := 2, invokeId := req.invokeId, service := req.service }
  | .complexAck p => { ty := 3, invokeId := req.invokeId, service := req.service, data := p }
  | .error p => { ty := 5, invokeId := req.invokeId, service := req.service, data := p }
  | .reject r => { ty := 6, invokeId := req.invokeId, reason := r.toNat }
  | .abort srv r => { ty := 7, srv := srv, invokeId := req.invokeId, reason := r.toNat }

structure DevCfg (σ : Type) where
  /-- numbers every new SSM copies from the local device object -/
  base : Tsm.Cfg := {}
  env : Schema.Env
  confirmed : List (Nat × Nat)
  unconfirmed : List (Nat × Nat)
  /-- `Application.indication` of a decoded confirmed request -/
  serve : σ → Peer → Apdu → σ × AppReply
  /-- `Application.indication` of a decoded unconfirmed request: unconfirmed
      requests (I-Am …) the helper sends, as (destination, service, data) -/
  unconf : σ → Peer → Apdu → σ × List (Peer × Nat × Bytes)

/-- the state machine configuration with the real service decoders plugged in -/
def DevCfg.tsm {σ} (cfg : DevCfg σ) : Tsm.Cfg :=
  { cfg.base with reqDecode := reqDecode cfg.env cfg.confirmed,
                  unconfDecode := unconfDecode cfg.env cfg.unconfirmed }

structure DevState (σ : Type) where
  sap : Sap := {}
  /-- `router_info_cache.path_info[(None, dnet)].address`: the station through
      which network `dnet` was last heard (C19 shows the cache coherent) -/
  routes : List (Nat × Bytes) := []
  /-- `adapter.adapterNet`: the network number of the LAN, once learned -/
  net : Option Nat := none
  /-- `adapter.adapterNetConfigured`: `none` unknown, `some 0` learned, `some 1` configured
      (the flag octet of the Network-Number-Is that was believed last) -/
  netCfg : Option Nat := none
  /-- `NetworkServiceElement.network_number_is_task` is set (it stays set after it ran) -/
  nniTask : Bool := false
  /-- … and is scheduled (10 000 s after a broadcast What-Is-Network-Number) -/
  nniPending : Bool := false
  /-- `DeviceCommunicationControlServices._dcc_enable_task`: instant (µs) at which communication
      is enabled again -/
  dccTimer : Option Nat := none
  app : σ

/-! ## network layer -/

def setRoute (l : List (Nat × Bytes)) (net : Nat) (via : Bytes) : List (Nat × Bytes) :=
  match l with
  | [] => [(net, via)]
  | (n, v) :: rest => if n = net then (n, via) :: rest else (n, v) :: setRoute rest net via

def getRoute (l : List (Nat × Bytes)) (net : Nat) : Option Bytes :=
  match l with
  | [] => none
  | (n, v) :: rest => if n = net then some v else getRoute rest net

/-- "see if this is attempting to spoof a directly connected network":
    `snet in self.adapters` — the only key is the adapter's own network number -/
def spoofed (net : Option Nat) (h : Npci.Npci) : Bool :=
  match h.sadr, net with
  | some (.remoteStation snet _), some n => snet = n
  | _, _ => false

/-- "check for source routing": `update_router_info(adapterNet, pduSource, [snet])` -/
def learnSadr (routes : List (Nat × Bytes)) (src : Bytes) (h : Npci.Npci) : List (Nat × Bytes) :=
  match h.sadr with
  | some (.remoteStation snet _) => setRoute routes snet src
  | _ => routes

/-- "check for destination routing" on a single adapter: a remote station /
    remote broadcast DADR naming the adapter's own network is a path error
    ((2), (3): `return`), any other network is not ours and there is nowhere to
    forward it to; either way nothing is processed -/
def processLocally (h : Npci.Npci) : Bool :=
  match h.dadr with
  | none => true
  | some .globalBroadcast => true
  | some _ => false

/-- a frame toward the link: destination station (`none` = local broadcast) and octets -/
structure Frame where
  dst : Option Bytes
  octets : Bytes
deriving DecidableEq, Repr, Inhabited

/-- the network layer part of the state a network message can change -/
structure NetState where
  routes : List (Nat × Bytes)
  net : Option Nat
  netCfg : Option Nat
  nniTask : Bool
  nniPending : Bool
deriving DecidableEq, Repr

/-- `network_number_is(adapter)`: broadcast what we know (nothing without a number) -/
def nniFrame (net : Option Nat) (netCfg : Option Nat) : List Frame :=
  match net with
  | none => []
  | some n =>
    match Npci.encodeMessage {} (.networkNumberIs n (match netCfg with | some c => c | none => 0)) with
    | .ok f => [⟨none, f⟩]
    | .error _ => []

/-- `NetworkServiceElement.indication` on a non-router: I-Am-Router-To-Network
    (`update_router_references`), What-Is-Network-Number (answered at once when
    asked directly or when the answer task exists already, otherwise — asked by
    broadcast — after 10 000 s, "wait for somebody else to answer"),
    Network-Number-Is (believed only when broadcast: cancels the answer task;
    first number learned, a learned number replaced unless flagged configured).
    The other nine message types change nothing here. -/
def nse (ns : NetState) (src : Bytes) (bcast : Bool) : Npci.NetMsg → NetState × List Frame
  | .iAmRouterToNetwork nets => ({ ns with routes := nets.foldl (fun r n => setRoute r n src) ns.routes }, [])
  | .whatIsNetworkNumber =>
    match ns.net with
    | none => (ns, [])
    | some _ =>
      if bcast && !ns.nniTask then ({ ns with nniTask := true, nniPending := true }, [])
      else (ns, nniFrame ns.net ns.netCfg)
  | .networkNumberIs n flag =>
    if !bcast then (ns, [])
    else
      let ns := { ns with nniTask := false, nniPending := false }
      match ns.net with
      | none => ({ ns with net := some n, netCfg := some 0 }, [])
      | some m =>
        if m = n then (ns, [])
        else if ns.netCfg = some 1 then (ns, [])
        else ({ ns with net := some n, netCfg := some flag }, [])
  | _ => (ns, [])

/-- `NetworkServiceAccessPoint.indication` + `NetworkAdapter.process_npdu` for
    one APDU the state machines send.  An encoder exception (a field that does
    not fit its octet) ends the task: nothing is sent.  A remote destination
    without a known path would be parked behind a Who-Is-Router-To-Network
    (not modelled: a path is learned from every routed frame before it is answered). -/
def emitApdu (net : Option Nat) (routes : List (Nat × Bytes)) (p : Peer) (a : Apdu) : List Frame :=
  match encodeApdu (toApci a) a.data with
  | .error _ => []
  | .ok apdu =>
    let wire (dst : Option Bytes) (h : Npci.Npci) : List Frame :=
      match Npci.encodeNpdu h apdu with
      | .error _ => []
      | .ok f => [⟨dst, f⟩]
    match addrOf p with
    | .localStation mac => wire (some mac) {}
    | .localBroadcast => wire none {}
    | .globalBroadcast => wire none { dadr := some .globalBroadcast, hopCount := some 255 }
    | .remoteStation dnet mac =>
      if net = some dnet then wire (some mac) {}          -- "mapping remote station to local station"
      else
        match getRoute routes dnet with
        | some via => wire (some via) { dadr := some (.remoteStation dnet mac), hopCount := some 255 }
        | none => []
    | .remoteBroadcast dnet =>
      if net = some dnet then wire none {}                -- "mapping remote broadcast to local broadcast"
      else
        match getRoute routes dnet with
        | some via => wire (some via) { dadr := some (.remoteBroadcast dnet), hopCount := some 255 }
        | none => []
    | .null => []

def emit (net : Option Nat) (routes : List (Nat × Bytes)) : Out → List Frame
  | .send p a => emitApdu net routes p a
  | _ => []

def emitAll (net : Option Nat) (routes : List (Nat × Bytes)) (outs : List Out) : List Frame :=
  outs.flatMap (emit net routes)

/-! ## application layer above the state machines -/

def applyDcc (s : Sap) : Option Dcc → Sap
  | none => s
  | some d => { s with dcc := d }

/-- the answer (if the helper gives one before returning) re-enters the state machines -/
def answerStep (cfg : Tsm.Cfg) (sap : Sap) (peer : Peer) (a : Apdu) : Option AppAnswer → Sap × List Out
  | some ans => step cfg sap (.response peer (respApdu a ans))
  | none => (sap, [])

/-- the re-enable task after an indication: an accepted DeviceCommunicationControl replaces it -/
def newDccTimer (now : Nat) (old : Option Nat) (r : AppReply) : Option Nat :=
  match r.dcc with
  | some _ => r.dccFor.map (now + ·)
  | none => old

/-- `enable_communications` run by its task -/
def dccFire {σ} (s : DevState σ) : DevState σ :=
  match s.dccTimer with
  | some _ => { s with sap := { s.sap with dcc := .enable }, dccTimer := none }
  | none => s

/-- … if it is due by instant `t` -/
def dccExpire {σ} (t : Nat) (s : DevState σ) : DevState σ :=
  match s.dccTimer with
  | some d => if d ≤ t then dccFire s else s
  | none => s

/-- the unconfirmed requests an application helper sends (`.unconfirmed` events) -/
def sendUnconf (cfg : Tsm.Cfg) : Sap → List (Peer × Nat × Bytes) → Sap × List Out
  | s, [] => (s, [])
  | s, (p, svc, d) :: rest =>
    let (s1, o1) := step cfg s (.unconfirmed p svc d)
    let (s2, o2) := sendUnconf cfg s1 rest
    (s2, o1 ++ o2)

/-- Hand the upward outputs of one step to the application, in order; the
    answer of a confirmed request re-enters the state machines at once
    (`self.response(...)` inside the helper).  Outputs that stay are frames
    (`send`) and `raised` markers.  (`ServerSSM.confirmation` and an unconfirmed
    send never produce an indication, so what comes back needs no second pass.) -/
def appPass {σ} (cfg : DevCfg σ) : DevState σ → List Out → DevState σ × List Out
  | s, [] => (s, [])
  | s, o :: os =>
    match o with
    | .indicate peer a =>
      if a.ty = 0 then
        let (app1, r) := cfg.serve s.app peer a
        let (sap1, o1) := answerStep cfg.tsm (applyDcc s.sap r.dcc) peer a r.answer
        let (s2, o2) := appPass cfg { s with sap := sap1, app := app1,
                                             dccTimer := newDccTimer s.sap.now s.dccTimer r } os
        (s2, o1 ++ o2)
      else if a.ty = 1 then
        let (app1, reqs) := cfg.unconf s.app peer a
        let (sap1, o1) := sendUnconf cfg.tsm s.sap reqs
        let (s2, o2) := appPass cfg { s with sap := sap1, app := app1 } os
        (s2, o1 ++ o2)
      else appPass cfg s os
    | .confirm _ _ | .confirmAnon _ _ => appPass cfg s os      -- no client side in this model
    | o =>
      let (s2, o2) := appPass cfg s os
      (s2, o :: o2)

/-- the application answers LATER (from a task of its own) the request `req` it was handed
    earlier: `self.response(...)` → `ServerSSM.confirmation` if the transaction still waits -/
def respond {σ} (cfg : DevCfg σ) (s : DevState σ) (peer : Peer) (req : Apdu) (ans : AppAnswer) :
    DevState σ × List Frame :=
  let (sap1, outs) := step cfg.tsm s.sap (.response peer (respApdu req ans))
  ({ s with sap := sap1 }, emitAll s.net s.routes outs)

/-- one decoded APDU from `peer` through SMAP, ASAP and the application -/
def deliver {σ} (cfg : DevCfg σ) (s : DevState σ) (peer : Peer) (a : Apdu) : DevState σ × List Out :=
  let (sap1, outs) := step cfg.tsm s.sap (.frame peer a)
  appPass cfg { s with sap := sap1 } outs

/-! ## the receive pipeline -/

/-- where a datagram ended (coverage signature of the driver, and the
    `dropped` predicate of C10 `isolation`) -/
inductive Fate
  | badNpci         -- NPCI.decode raised
  | spoofed         -- SNET = the adapter's own network: "path error (1)"
  | notForUs        -- DADR of another network, or a path error (2)/(3)
  | unknownMsg      -- network message type not in npdu_types
  | badMsg          -- network message body does not decode
  | netMsg          -- network message handled by the service element
  | badApci         -- APCI.decode raised
  | delivered       -- handed to the state machine access point
deriving DecidableEq, Repr, Inhabited

def fate (net : Option Nat) (f : Bytes) : Fate :=
  match Npci.decodeNpci f with
  | .error _ => .badNpci
  | .ok (h, rest) =>
    if spoofed net h then .spoofed
    else if !processLocally h then .notForUs
    else
      match h.netMessage with
      | some c =>
        match Npci.kindOfCode c with
        | none => .unknownMsg
        | some k =>
          match Npci.decodeBody k rest with
          | .error _ => .badMsg
          | .ok _ => .netMsg
      | none =>
        match decodeApdu rest with
        | .error _ => .badApci
        | .ok _ => .delivered

def DevState.netState {σ} (s : DevState σ) : NetState :=
  ⟨s.routes, s.net, s.netCfg, s.nniTask, s.nniPending⟩

def DevState.withNet {σ} (s : DevState σ) (ns : NetState) : DevState σ :=
  { s with routes := ns.routes, net := ns.net, netCfg := ns.netCfg, nniTask := ns.nniTask,
           nniPending := ns.nniPending }

/-- One link frame from station `src`, addressed to this station or (`bcast`) to all. -/
def recv {σ} (cfg : DevCfg σ) (s : DevState σ) (src : Bytes) (bcast : Bool) (f : Bytes) :
    DevState σ × List Frame :=
  match Npci.decodeNpci f with
  | .error _ => (s, [])
  | .ok (h, rest) =>
    if spoofed s.net h then (s, [])
    else
    let s := { s with routes := learnSadr s.routes src h }
    if !processLocally h then (s, [])
    else
      match h.netMessage with
      | some c =>
        match Npci.kindOfCode c with
        | none => (s, [])
        | some k =>
          match Npci.decodeBody k rest with
          | .error _ => (s, [])
          | .ok m =>
            let (ns, out) := nse s.netState src bcast m
            (s.withNet ns, out)
      | none =>
        match decodeApdu rest with
        | .error _ => (s, [])
        | .ok (hd, data) =>
          let source : Npci.Addr :=
            match h.sadr with
            | some a => a
            | none => .localStation src
          let (s', outs) := deliver cfg s (peerOf source) (ofApci hd data)
          (s', emitAll s'.net s'.routes outs)

/-- a queued datagram: sending station, link-level broadcast?, octets -/
structure Dgram where
  src : Bytes
  bcast : Bool := false
  octets : Bytes
deriving DecidableEq, Repr, Inhabited

/-- the datagrams queued at one instant, in order: a fold -/
def recvAll {σ} (cfg : DevCfg σ) : DevState σ → List Dgram → DevState σ × List Frame
  | s, [] => (s, [])
  | s, d :: rest =>
    let (s1, o1) := recv cfg s d.src d.bcast d.octets
    let (s2, o2) := recvAll cfg s1 rest
    (s2, o1 ++ o2)

/-! ## quiescence: the scheduler fires every armed transaction timer -/

/-- earliest armed server timer (first in list order among equal deadlines) -/
def nextDue : List Txn → Option (Key × Nat)
  | [] => none
  | t :: ts =>
    match t.body.timer, nextDue ts with
    | none, r => r
    | some d, none => some (t.key, d)
    | some d, some (k', d') => if d ≤ d' then some (t.key, d) else some (k', d')

/-- the clock jumps to the next deadline and that task runs -/
def fire {σ} (cfg : DevCfg σ) (s : DevState σ) : Option (DevState σ × List Out) :=
  match nextDue s.sap.servers with
  | none => none
  | some (k, d) =>
    let sap0 := if s.sap.now < d then { s.sap with now := d } else s.sap
    let (sap1, outs) := step cfg.tsm sap0 (.timeout true k.peer k.id)
    some (appPass cfg { s with sap := sap1 } outs)

/-- what a listed server transaction can still cost: SEGMENTED_REQUEST and
    AWAIT_RESPONSE end at their first timeout, SEGMENTED_RESPONSE after the
    remaining retransmissions -/
def txnBudget (retries : Nat) (t : Txn) : Nat :=
  match t.body.st with
  | .segResp => (retries - t.body.segRetry) + 1
  | _ => 1

def budget (retries : Nat) (l : List Txn) : Nat := (l.map (txnBudget retries)).sum

def quiesceLoop {σ} (cfg : DevCfg σ) : Nat → DevState σ → DevState σ × List Out
  | 0, s => (s, [])
  | n + 1, s =>
    match fire cfg s with
    | none => (s, [])
    | some (s1, o1) =>
      let (s2, o2) := quiesceLoop cfg n s1
      (s2, o1 ++ o2)

/-- virtual time passes: every transaction timer due up to instant `t` fires in order, then the
    clock stands at `t` (nothing else of the device depends on the clock) -/
def advanceLoop {σ} (cfg : DevCfg σ) (t : Nat) : Nat → DevState σ → DevState σ × List Out
  | 0, s => (s, [])
  | n + 1, s =>
    match nextDue s.sap.servers with
    | some (_, d) =>
      if d ≤ t then
        match fire cfg s with
        | none => (s, [])
        | some (s1, o1) =>
          let (s2, o2) := advanceLoop cfg t n s1
          (s2, o1 ++ o2)
      else (s, [])
    | none => (s, [])

/-- `dt` microseconds without any datagram (`core.run` between two arrivals).  The
    Network-Number-Is answer task (10 000 s) is not looked at: see `quiesce`. -/
def advance {σ} (cfg : DevCfg σ) (s : DevState σ) (dt : Nat) : DevState σ × List Frame :=
  let t := s.sap.now + dt
  let (s', outs) := advanceLoop cfg t (budget cfg.base.retries s.sap.servers) s
  (dccExpire t { s' with sap := { s'.sap with now := max s'.sap.now t } }, emitAll s'.net s'.routes outs)

/-- `core.run` until no transaction task is scheduled.  The loop is cut after
    `budget` firings; `C10.quiesce_complete` shows that no timer is armed then. -/
def quiesce {σ} (cfg : DevCfg σ) (s : DevState σ) : DevState σ × List Frame :=
  let (s', outs) := quiesceLoop cfg (budget cfg.base.retries s.sap.servers) s
  -- the Network-Number-Is answer task (10 000 s) runs after every transaction timer
  -- … and so does the DeviceCommunicationControl re-enable task, if one is scheduled
  if s'.nniPending then
    (dccFire { s' with nniPending := false }, emitAll s'.net s'.routes outs ++ nniFrame s'.net s'.netCfg)
  else (dccFire s', emitAll s'.net s'.routes outs)

/-! ## the property's reading of octets (independent of the codecs above;
    mirrors harness/c10_impl.classify and harness/e2e.decode_apdu_header) -/

/-- `some invokeId` iff the octets carry the intact fixed header of an
    UNSEGMENTED confirmed request addressed to this device's application:
    version 1, no DNET/SNET/network-message bit, at least four APDU octets,
    PDU type 0, segmented bit clear. -/
def wellFramed : Bytes → Option Nat
  | v :: ctl :: a0 :: _a1 :: inv :: _svc :: _ =>
    if v.toNat = 1 ∧ ctl.toNat / 0x80 % 2 = 0 ∧ ctl.toNat / 0x20 % 2 = 0 ∧ ctl.toNat / 0x08 % 2 = 0
        ∧ a0.toNat / 16 = 0 ∧ a0.toNat / 8 % 2 = 0 then some inv.toNat
    else none
  | _ => none

/-- the service choice of a well-framed request -/
def serviceOf : Bytes → Nat
  | _ :: _ :: _ :: _ :: _ :: svc :: _ => svc.toNat
  | _ => 0

structure ReplyHdr where
  ty : Nat
  invoke : Nat
  seg : Bool
  code : Nat      -- service choice (ack, error) or reason (reject, abort)
deriving DecidableEq, Repr, Inhabited

/-- header of a reply frame on the local network (plain NPCI `01 0x`), read
    straight off the octets: simple ack, complex ack, error, reject, abort -/
def replyHdr : Bytes → Option ReplyHdr
  | v :: ctl :: a0 :: inv :: c :: rest =>
    if v.toNat = 1 ∧ ctl.toNat / 4 = 0 then
      let t := a0.toNat / 16
      if t = 2 ∨ t = 5 ∨ t = 6 ∨ t = 7 then some ⟨t, inv.toNat, false, c.toNat⟩
      else if t = 3 then
        if a0.toNat / 8 % 2 = 1 then
          match rest with
          | _ :: svc :: _ => some ⟨3, inv.toNat, true, svc.toNat⟩
          | _ => none
        else some ⟨3, inv.toNat, false, c.toNat⟩
      else none
    else none
  | _ => none

end BacVerif.Device
