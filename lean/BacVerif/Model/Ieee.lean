/-
  Model.Ieee — what `struct.pack('>f', x)` and `struct.unpack('>f', data)` do to
  a Python float, on IEEE‑754 bit patterns with integer arithmetic only.

  A Python float is a double.  `Real.encode` narrows it to single precision
  (`PyFloat_Pack4`: C cast double → float = round to nearest, ties to even;
  `OverflowError` when a finite double becomes infinite); `Real.decode` widens
  the four octets back to a double (exact).  Bit patterns are `Nat`:
  single  = s·2^31 + e·2^23 + m   (e < 256,  m < 2^23),
  double  = s·2^63 + e·2^52 + m   (e < 2048, m < 2^52).

  NaNs: the hardware conversion sets the quiet bit and keeps the upper payload
  bits; transcribed as observed (x86‑64 / AArch64), tied by the correspondence
  stream `real64`/`widen`, not used by any theorem (Python NaN ≠ NaN anyway).

  Core Lean only.
-/
import BacVerif.Model.Prim
namespace BacVerif

/-- `x / 2^shift` rounded to nearest, ties to even -/
def rne (x shift : Nat) : Nat :=
  let q := x / 2 ^ shift
  let r := x % 2 ^ shift
  let h := 2 ^ (shift - 1)
  if r > h ∨ (r = h ∧ q % 2 = 1) then q + 1 else q

/-- assemble a double / single pattern from sign, biased exponent, fraction -/
def mkF64 (s e m : Nat) : Nat := s * 9223372036854775808 + e * 4503599627370496 + m
def mkF32 (s e m : Nat) : Nat := s * 2147483648 + e * 8388608 + m

/-- the C cast double → float on the three fields; `valueRange` = the
    `OverflowError` of `PyFloat_Pack4` when a finite double becomes infinite -/
def narrowFields (s e m : Nat) : Except Err Nat :=
  if e = 2047 then
    if m = 0 then .ok (mkF32 s 255 0)                                     -- ±inf
    else .ok (mkF32 s 255 (4194304 + m / 536870912 % 4194304))            -- NaN, quieted
  else if e = 0 then .ok (mkF32 s 0 0)                                    -- ±0 and double subnormals
  else if e ≥ 897 then                                                    -- ≥ 2^-126: normal single
    let bits := (e - 897) * 8388608 + rne (4503599627370496 + m) 29
    if bits ≥ 2139095040 then .error .valueRange else .ok (s * 2147483648 + bits)
  else .ok (s * 2147483648 + rne (4503599627370496 + m) (926 - e))        -- subnormal single or 0

/-- `struct.pack('>f', x)` on the bit pattern of `x` -/
def narrowF64 (b : Nat) : Except Err Nat :=
  narrowFields (b / 9223372036854775808 % 2) (b / 4503599627370496 % 2048) (b % 4503599627370496)

/-- the C cast float → double on the three fields (exact) -/
def widenFields (s e m : Nat) : Nat :=
  if e = 255 then
    if m = 0 then mkF64 s 2047 0                                          -- ±inf
    else mkF64 s 2047 ((m % 4194304 + 4194304) * 536870912)               -- NaN, quieted
  else if e = 0 then
    if m = 0 then mkF64 s 0 0                                             -- ±0
    else                                                                  -- subnormal single m·2^-149
      let k := Nat.log2 m
      mkF64 s (k + 874) ((m - 2 ^ k) * 2 ^ (52 - k))
  else mkF64 s (e + 896) (m * 536870912)

/-- `struct.unpack('>f', data)[0]` as the bit pattern of the resulting Python float -/
def widenF32 (b : Nat) : Nat :=
  widenFields (b / 2147483648 % 2) (b / 8388608 % 256) (b % 8388608)

/-- a single-precision NaN pattern -/
def isNaN32 (b : Nat) : Bool := b / 8388608 % 256 = 255 ∧ b % 8388608 ≠ 0

/-- `Real(x).encode(tag)` with `x` the Python float (bit pattern of the double) -/
def encodeRealFloat (x : Nat) : Except Err Tag :=
  match narrowF64 x with
  | .error e => .error e
  | .ok b => encodePrim (.real (UInt32.ofNat b))

/-- `Real(tag).value` as the bit pattern of the Python float -/
def decodeRealFloat (t : Tag) : Except Err Nat :=
  match decodePrim .real t with
  | .ok (.real b) => .ok (widenF32 b.toNat)
  | .ok _ => .error .other
  | .error e => .error e

end BacVerif
