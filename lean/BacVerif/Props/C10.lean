/-
  C10 — A device answers every well-framed request and stays healthy under garbage.

  Property text.  "Any confirmed request whose fixed header is intact and which
  is addressed to a device receives exactly one reply carrying its invoke ID -
  the service's acknowledgement, an error, or a reject/abort when the
  parameters are malformed, unknown or unsupported - never silence.  After any
  sequence of arbitrary, truncated or corrupted datagrams at any layer, the
  device keeps no leftover transaction or timer, other well-formed traffic
  queued at the same moment is still processed, and a subsequent valid request
  is answered correctly."

  Model: `BacVerif.Model.Device` — `recv : DevCfg σ → DevState σ → src → octets →
  DevState σ × List Frame`, a TOTAL function composed of the verified codecs
  (`Npci.decodeNpci` C08, `decodeApdu` C07, `parseTags` C02, `Codec.decodePdu`
  over the REGENERATED schema environment C03) and the transaction state
  machines (`Tsm.step`, C11/C12), with the application abstract: ANY transition
  system `serve : σ → Peer → Apdu → σ × AppReply` over ANY state type `σ`.

  Formalisation, phrase by phrase:

  * "confirmed request whose fixed header is intact and which is addressed to
     a device": `wellFramed f = some inv` — a decidable predicate on the OCTETS
     (version 1; no DNET / SNET / network-message bit; ≥ 4 APDU octets; PDU type
     0; segmented bit clear).  It is `harness/c10_impl.classify(f) ==
     ("confirmed", inv)`; the correspondence run compares the two on every frame.
  * "receives exactly one reply carrying its invoke ID - ack, error, or
     reject/abort - never silence":
       reply_exists — for EVERY such octet string (every body, every service
       choice incl. unknown ones), EVERY application, EVERY state in which the
       DCC gate lets the request in (`listening`) and no transaction of that
       (sender, invoke ID) is in progress (`hfree`): the output of `recv` is
       EXACTLY ONE frame; it goes to the sender; read back independently
       (`replyHdr`) it is a simple ack / complex ack / error / reject / abort
       with that invoke ID; if it is not a first segment the server transaction
       list is what it was, otherwise exactly one transaction in
       SEGMENTED_RESPONSE was appended.  No invariant is needed for this.
  * "After any sequence of arbitrary, truncated or corrupted datagrams at any
     layer, the device keeps no leftover transaction or timer":
       garbage_leaves_nothing — from any state satisfying the transaction-list
       invariant without client transactions (`Good`; the initial state is,
       `good_init`), after ANY list of (source, octets) pairs and `quiesce`
       (the scheduler fires every armed transaction timer): both transaction
       lists are empty, hence no timer is armed (`armed = []`), and the
       invariant still holds.  `quiesce` is a loop bounded by the BUDGET
       Σ (1 | retries − segRetry + 1); `Lemmas.DeviceQuiesce.fire_spec` shows
       every expiry lowers it, so the bound never cuts the loop short.
  * "other well-formed traffic queued at the same moment is still processed":
       recvAll_append — the queue is a fold;
       dropped_is_noop — a datagram that does not reach the state machines
       (`fate f ≠ delivered`: NPCI / message body / APCI decode error, DADR of
       another network, unknown message type) produces nothing and leaves the
       transaction state and the application untouched; dropped_leaves_state /
       dropped_absent — … and, unless it carried an SNET (a route is learned
       from it before the APCI is looked at — that is what the code does), the
       WHOLE state: the rest of the queue is processed exactly as if it had
       not been there;
       queued_request_answered — a well-framed request behind ANY prefix of
       arbitrary datagrams is answered (exactly one reply among the outputs
       of its own processing step), whenever the state reached lets it in.
  * "a subsequent valid request is answered correctly":
       answered_after_garbage — `garbage_leaves_nothing` ∘ `reply_exists`.

  Partial (stated honestly).  Exceptions are a Python runtime notion: these are
  theorems about the total model.  That the code does what the model does — in
  particular that no decoder raises outside what `rejectOf` predicts — rests on
  the correspondence run (harness/c10_model.py: every template mutation, random
  frames, interleavings, constructed histories; frames compared octet for octet)
  and the implementation-side oracle (harness/c10.py).  The model's application
  always answers; DCC `disable` legitimately silences a device (hypothesis
  `listening`).  A duplicate request while a segmented response is in progress
  raises `invalid APDU (7)` (Tsm.md) — excluded by `hfree`.
-/
import BacVerif.Lemmas.DeviceQuiesce
import BacVerif.Gen.DeviceTables
import BacVerif.Gen.Schemas
import BacVerif.Gen.TsmDefaults
namespace BacVerif.C10
open BacVerif BacVerif.Tsm BacVerif.Device
set_option linter.unusedSimpArgs false

/-! ## reply_exists -/

/-- the DeviceCommunicationControl gate lets this request in: communication is
    not disabled, or the request is DeviceCommunicationControl (17) / ReinitializeDevice (20) -/
def listening (d : Dcc) (f : Bytes) : Prop :=
  d ≠ .disable ∨ serviceOf f = 17 ∨ serviceOf f = 20

instance (d : Dcc) (f : Bytes) : Decidable (listening d f) := by unfold listening; infer_instance

/-- what `reply_exists` says about the outputs of one `recv` -/
structure ExactlyOneReply {σ} (s s' : DevState σ) (src : Bytes) (inv : Nat) (outs : List Frame) : Prop where
  one : ∃ fr hdr, outs = [fr] ∧ fr.dst = some src ∧ replyHdr fr.octets = some hdr ∧ hdr.invoke = inv ∧
        (hdr.ty = 2 ∨ hdr.ty = 3 ∨ hdr.ty = 5 ∨ hdr.ty = 6 ∨ hdr.ty = 7) ∧
        (hdr.seg = false → s'.sap.servers = s.sap.servers) ∧
        (hdr.seg = true → hdr.ty = 3 ∧ ∃ b, b.st = .segResp ∧
           s'.sap.servers = s.sap.servers ++ [Txn.mk ⟨peerOf (.localStation src), inv⟩ b])
  clients : s'.sap.clients = s.sap.clients

theorem spoofed_noSadr (n : Option Nat) (h : Npci.Npci) (hs : h.sadr = none) : spoofed n h = false := by
  simp [spoofed, hs]

/-- the application answers every indication of a confirmed request before it returns (what
    `Application.indication` does with every stock service helper) -/
def Synchronous {σ} (cfg : DevCfg σ) : Prop := ∀ st p a, ((cfg.serve st p a).2.answer).isSome = true

theorem reply_exists {σ} (cfg : DevCfg σ) (hw : cfg.base.window < 256) (hsync : Synchronous cfg)
    (s : DevState σ) (src : Bytes) (bcast : Bool) (f : Bytes) (inv : Nat)
    (hwf : wellFramed f = some inv)
    (hdcc : listening s.sap.dcc f)
    (hfree : findTxn ⟨peerOf (.localStation src), inv⟩ s.sap.servers = none) :
    ExactlyOneReply s (recv cfg s src bcast f).1 src inv (recv cfg s src bcast f).2 := by
  match f, hwf with
  | v :: ctl :: a0 :: a1 :: i :: svc :: body, hwf =>
    simp only [wellFramed] at hwf
    split at hwf
    · rename_i hc
      obtain ⟨hv, h80, h20, h08, ht, hs⟩ := hc
      simp only [Option.some.injEq] at hwf
      subst hwf
      have hnp := decodeNpci_plain v ctl (a0 :: a1 :: i :: svc :: body) hv h80 h20 h08
      obtain ⟨hd, hap, ha0, haseg, haid, hasvc⟩ : ∃ hd, decodeApdu (a0 :: a1 :: i :: svc :: body) = .ok (hd, body) ∧
          (ofApci hd body).ty = 0 ∧ (ofApci hd body).seg = false ∧ (ofApci hd body).invokeId = i.toNat ∧
          (ofApci hd body).service = svc.toNat :=
        ⟨_, decodeApdu_confirmed a0 a1 i svc body ht hs, rfl, rfl, rfl, rfl⟩
      unfold recv
      rw [hnp]
      simp only [spoofed, learnSadr, processLocally, Bool.not_true, Bool.false_eq_true, if_false, hap]
      generalize ofApci hd body = a at *
      have hs0 : ({ s with routes := s.routes } : DevState σ) = s := by cases s; rfl
      rw [hs0]
      have hgate : dccInbound s.sap.dcc a = true := by
        unfold dccInbound
        rcases hdcc with h | h | h
        · cases hd : s.sap.dcc <;> simp_all
        · simp only [serviceOf] at h
          cases hd : s.sap.dcc <;> simp [ha0, hasvc, h]
        · simp only [serviceOf] at h
          cases hd : s.sap.dcc <;> simp [ha0, hasvc, h]
      have hdel := deliver_fresh cfg hw s ⟨peerOf (.localStation src), i.toNat⟩ a ha0 haseg haid
        (UInt8.toNat_lt i) (by rw [hasvc]; exact UInt8.toNat_lt svc) hgate hfree (fun st => hsync st _ _)
      obtain ⟨⟨x, hx, houts, hcase⟩, hroutes, hclients⟩ := hdel
      dsimp only at houts hroutes hclients hcase
      rw [houts]
      obtain ⟨fr, hdr, hemit, hdst, hhdr, hinv, hty, hsegeq⟩ := emit_reply (deliver cfg s (peerOf (.localStation src)) a).1.net
        (deliver cfg s (peerOf (.localStation src)) a).1.routes src hx
      refine ⟨⟨fr, hdr, ?_, hdst, hhdr, hinv, ?_, ?_, ?_⟩, hclients⟩
      · simp [emitAll, emit, hemit]
      · rw [hty]; rcases hx.shape with h | h | h | h | h <;> simp [h.1]
      · intro hsf
        rcases hcase with ⟨_, hsv⟩ | ⟨hty3, hsg, _⟩
        · exact hsv
        · rw [hsegeq, hty3, hsg] at hsf; simp at hsf
      · intro hst
        rcases hcase with ⟨hns, _⟩ | ⟨hty3, hsg, b', hb', hsv⟩
        · rw [hsegeq, hns] at hst; cases hst
        · exact ⟨by rw [hty, hty3], b', hb', hsv⟩
    · cases hwf

/-! ## garbage_leaves_nothing -/

/-- deadlines of every scheduled transaction task -/
def armed (s : Sap) : List Nat := (s.clients ++ s.servers).filterMap (·.body.timer)

theorem tsm_pos {σ} {cfg : DevCfg σ} (h : cfg.base.TimeoutsPos) : cfg.tsm.TimeoutsPos :=
  ⟨h.apdu, h.seg, h.app⟩

/-- a freshly built device satisfies the invariant -/
theorem good_init {σ} (app : σ) : Good ({ app := app } : DevState σ) := ⟨Inv.init, rfl⟩

/-- **garbage_leaves_nothing.**  ANY datagrams (unicast or broadcast) from ANY stations,
    then quiescence: no transaction, no timer (the Network-Number-Is answer task included). -/
theorem garbage_leaves_nothing {σ} (cfg : DevCfg σ) (hpos : cfg.base.TimeoutsPos)
    (s0 : DevState σ) (hg : Good s0) (garbage : List Dgram) :
    let s := (quiesce cfg (recvAll cfg s0 garbage).1).1
    s.sap.servers = [] ∧ s.sap.clients = [] ∧ armed s.sap = [] ∧ s.nniPending = false ∧
      s.dccTimer = none ∧ Good s := by
  intro s
  have h1 := recvAll_good (tsm_pos hpos) garbage hg
  obtain ⟨h2, h3, _, _, h5, h6⟩ := quiesce_done (tsm_pos hpos) h1
  refine ⟨h3, h2.2, ?_, h5, h6, h2⟩
  show ((quiesce cfg (recvAll cfg s0 garbage).1).1.sap.clients ++
        (quiesce cfg (recvAll cfg s0 garbage).1).1.sap.servers).filterMap _ = []
  rw [h3, h2.2]
  rfl

/-- the loop bound of `quiesce` is never what stops it: when it returns, no timer is armed -/
theorem quiesce_complete {σ} (cfg : DevCfg σ) (hpos : cfg.base.TimeoutsPos) (s : DevState σ)
    (hg : Good s) : nextDue (quiesce cfg s).1.sap.servers = none := by
  rw [(quiesce_done (tsm_pos hpos) hg).2.1]
  rfl

/-! ## isolation -/

/-- `recvAll` is a fold: a queue processed in two parts is the queue processed at once -/
theorem recvAll_append {σ} (cfg : DevCfg σ) : ∀ (xs ys : List Dgram) (s : DevState σ),
    recvAll cfg s (xs ++ ys) =
      ((recvAll cfg (recvAll cfg s xs).1 ys).1,
       (recvAll cfg s xs).2 ++ (recvAll cfg (recvAll cfg s xs).1 ys).2) := by
  intro xs
  induction xs with
  | nil => intro ys s; simp [recvAll]
  | cons x xs ih =>
    intro ys s
    simp only [List.cons_append, recvAll]
    rw [ih]
    simp [List.append_assoc]

/-- the SADR a datagram carries (if its NPCI decodes) -/
def sadrOf (f : Bytes) : Option Npci.Addr :=
  match Npci.decodeNpci f with
  | .ok (h, _) => h.sadr
  | .error _ => none

/-- **dropped_is_noop.**  A datagram that does not reach the state machines and is not a
    network message the service element handles: no output, and only the route table can differ
    (a route is learned from an SNET before the rest of the datagram is looked at). -/
theorem dropped_is_noop {σ} (cfg : DevCfg σ) (s : DevState σ) (src : Bytes) (bcast : Bool) (f : Bytes)
    (h : fate s.net f ≠ .delivered) (h2 : fate s.net f ≠ .netMsg) :
    ∃ routes, recv cfg s src bcast f = ({ s with routes := routes }, []) := by
  unfold fate at h h2
  unfold recv
  have hs0 : ({ s with routes := s.routes } : DevState σ) = s := by cases s; rfl
  cases hn : Npci.decodeNpci f with
  | error e => exact ⟨s.routes, by rw [hs0]⟩
  | ok r =>
    obtain ⟨hd, rest⟩ := r
    simp only [hn] at h h2
    dsimp only
    by_cases hsp : spoofed s.net hd = true
    · simp only [hsp, if_true]; exact ⟨s.routes, by rw [hs0]⟩
    · simp only [hsp, if_false] at h h2 ⊢
      by_cases hp : (!processLocally hd) = true
      · simp only [hp, if_true]; exact ⟨_, rfl⟩
      · simp only [hp, if_false] at h h2 ⊢
        cases hm : hd.netMessage with
        | some c =>
          simp only [hm] at h h2 ⊢
          cases hk : Npci.kindOfCode c with
          | none => exact ⟨_, rfl⟩
          | some kd =>
            simp only [hk] at h2
            dsimp only
            cases hb : Npci.decodeBody kd rest with
            | error e => exact ⟨_, rfl⟩
            | ok m => simp only [hb] at h2; exact absurd rfl h2
        | none =>
          simp only [hm] at h ⊢
          cases ha : decodeApdu rest with
          | error e => exact ⟨_, rfl⟩
          | ok r2 =>
            simp only [ha] at h
            exact absurd rfl h

/-- a network message the service element handles: no application involvement either -/
theorem netmsg_leaves_transactions {σ} (cfg : DevCfg σ) (s : DevState σ) (src : Bytes) (bcast : Bool)
    (f : Bytes) (h : fate s.net f = .netMsg) :
    (recv cfg s src bcast f).1.sap = s.sap ∧ (recv cfg s src bcast f).1.app = s.app := by
  unfold fate at h
  unfold recv
  cases hn : Npci.decodeNpci f with
  | error e => exact ⟨rfl, rfl⟩
  | ok r =>
    obtain ⟨hd, rest⟩ := r
    simp only [hn] at h
    dsimp only
    by_cases hsp : spoofed s.net hd = true
    · simp [hsp]
    · simp only [hsp, if_false] at h ⊢
      by_cases hp : (!processLocally hd) = true
      · simp [hp]
      · simp only [hp, if_false] at h ⊢
        cases hm : hd.netMessage with
        | some c =>
          simp only [hm] at h ⊢
          cases hk : Npci.kindOfCode c with
          | none => exact ⟨rfl, rfl⟩
          | some kd =>
            dsimp only
            cases hb : Npci.decodeBody kd rest with
            | error e => exact ⟨rfl, rfl⟩
            | ok m => exact ⟨rfl, rfl⟩
        | none =>
          simp only [hm] at h
          cases ha : decodeApdu rest with
          | error e => simp only [ha] at h; cases h
          | ok r2 => simp only [ha] at h; cases h

/-- **dropped_leaves_state.**  … and without an SNET the WHOLE state is as it was. -/
theorem dropped_leaves_state {σ} (cfg : DevCfg σ) (s : DevState σ) (src : Bytes) (bcast : Bool) (f : Bytes)
    (h : fate s.net f ≠ .delivered) (h2 : fate s.net f ≠ .netMsg) (hs : sadrOf f = none) :
    recv cfg s src bcast f = (s, []) := by
  unfold fate at h h2
  unfold sadrOf at hs
  unfold recv
  cases hn : Npci.decodeNpci f with
  | error e => rfl
  | ok r =>
    obtain ⟨hd, rest⟩ := r
    simp only [hn] at h h2 hs
    have hroutes : learnSadr s.routes src hd = s.routes := by simp [learnSadr, hs]
    have hs0 : ({ s with routes := s.routes } : DevState σ) = s := by cases s; rfl
    have hsp : spoofed s.net hd = false := spoofed_noSadr _ _ hs
    dsimp only
    simp only [hsp, Bool.false_eq_true, if_false] at h h2 ⊢
    rw [hroutes, hs0]
    by_cases hp : (!processLocally hd) = true
    · simp [hp]
    · simp only [hp, if_false] at h h2 ⊢
      cases hm : hd.netMessage with
      | some c =>
        simp only [hm] at h h2 ⊢
        cases hk : Npci.kindOfCode c with
        | none => rfl
        | some kd =>
          simp only [hk] at h2
          dsimp only
          cases hb : Npci.decodeBody kd rest with
          | error e => rfl
          | ok m => simp only [hb] at h2; exact absurd rfl h2
      | none =>
        simp only [hm] at h ⊢
        cases ha : decodeApdu rest with
        | error e => rfl
        | ok r2 =>
          simp only [ha] at h
          exact absurd rfl h

/-- **dropped_absent.**  A dropped datagram without SNET anywhere in the queue:
    every other datagram is processed exactly as if it were absent. -/
theorem dropped_absent {σ} (cfg : DevCfg σ) (s : DevState σ) (xs ys : List Dgram) (d : Dgram)
    (h : fate (recvAll cfg s xs).1.net d.octets ≠ .delivered)
    (h2 : fate (recvAll cfg s xs).1.net d.octets ≠ .netMsg) (hs : sadrOf d.octets = none) :
    recvAll cfg s (xs ++ d :: ys) = recvAll cfg s (xs ++ ys) := by
  rw [recvAll_append, recvAll_append]
  simp only [recvAll]
  rw [dropped_leaves_state cfg _ d.src d.bcast d.octets h h2 hs]
  simp

/-- **queued_request_answered.**  A well-framed request queued behind ANY
    datagrams: its own processing step yields exactly one reply (the outputs of
    the whole queue are those of the prefix, then that reply, then those of the rest). -/
theorem queued_request_answered {σ} (cfg : DevCfg σ) (hw : cfg.base.window < 256) (hsync : Synchronous cfg)
    (s : DevState σ) (xs ys : List Dgram) (src : Bytes) (bcast : Bool) (f : Bytes) (inv : Nat)
    (hwf : wellFramed f = some inv)
    (hdcc : listening (recvAll cfg s xs).1.sap.dcc f)
    (hfree : findTxn ⟨peerOf (.localStation src), inv⟩ (recvAll cfg s xs).1.sap.servers = none) :
    ∃ s1 reply, ExactlyOneReply (recvAll cfg s xs).1 s1 src inv reply ∧
      (recvAll cfg s (xs ++ ⟨src, bcast, f⟩ :: ys)).2 =
        (recvAll cfg s xs).2 ++ reply ++ (recvAll cfg s1 ys).2 := by
  refine ⟨(recv cfg (recvAll cfg s xs).1 src bcast f).1, (recv cfg (recvAll cfg s xs).1 src bcast f).2,
    reply_exists cfg hw hsync _ src bcast f inv hwf hdcc hfree, ?_⟩
  rw [recvAll_append]
  simp [recvAll, List.append_assoc]

/-- **answered_after_garbage.**  After ANY datagrams and quiescence, every
    well-framed request the DCC gate lets in gets exactly one reply. -/
theorem answered_after_garbage {σ} (cfg : DevCfg σ) (hpos : cfg.base.TimeoutsPos)
    (hw : cfg.base.window < 256) (hsync : Synchronous cfg) (s0 : DevState σ) (hg : Good s0) (garbage : List Dgram)
    (src : Bytes) (bcast : Bool) (f : Bytes) (inv : Nat) (hwf : wellFramed f = some inv)
    (hdcc : listening (quiesce cfg (recvAll cfg s0 garbage).1).1.sap.dcc f) :
    ExactlyOneReply (quiesce cfg (recvAll cfg s0 garbage).1).1
      (recv cfg (quiesce cfg (recvAll cfg s0 garbage).1).1 src bcast f).1 src inv
      (recv cfg (quiesce cfg (recvAll cfg s0 garbage).1).1 src bcast f).2 := by
  have h := (garbage_leaves_nothing cfg hpos s0 hg garbage).1
  exact reply_exists cfg hw hsync _ src bcast f inv hwf hdcc (by rw [h]; rfl)

/-! ## an application that answers later (gateway style) -/

/-- the application answers later a request whose transaction still exists: exactly one reply -/
theorem late_answer {σ} (cfg : DevCfg σ) (hw : cfg.base.window < 256) (s : DevState σ) (src : Bytes)
    (req : Apdu) (ans : AppAnswer) (hid : req.invokeId < 256) (hsvc : req.service < 256) {t : Txn}
    (hfound : findTxn ⟨peerOf (.localStation src), req.invokeId⟩ s.sap.servers = some t) :
    ∃ fr hdr, (respond cfg s (peerOf (.localStation src)) req ans).2 = [fr] ∧ fr.dst = some src ∧
      replyHdr fr.octets = some hdr ∧ hdr.invoke = req.invokeId ∧
      (hdr.ty = 2 ∨ hdr.ty = 3 ∨ hdr.ty = 5 ∨ hdr.ty = 6 ∨ hdr.ty = 7) := by
  obtain ⟨hrep, hrs⟩ := respApdu_isReply hid hsvc ans
  generalize hk : (⟨peerOf (.localStation src), req.invokeId⟩ : Key) = k at hfound
  have hkid : k.id = req.invokeId := by rw [← hk]
  have hkp : k.peer = peerOf (.localStation src) := by rw [← hk]
  have htk : t.key = k := (findTxn_some hfound).2
  have hkk : (⟨peerOf (.localStation src), (respApdu req ans).invokeId⟩ : Key) = k := by
    rw [hrep.id]; exact hk
  rw [← hkid] at hrep
  unfold respond
  rw [step_response _ _ _ hrep.tyOk]
  unfold smapResponse
  simp only [hrep.tyOk, if_true, hkk, hfound, Sap.setServer, htk]
  have aux : ∀ npdu, ∃ fr hdr,
      (emitAll s.net s.routes (asapPass cfg.tsm
        ({ s.sap with servers := updFirst k (Prod.fst (serverConfirmation cfg.tsm s.sap.now npdu k t.body (respApdu req ans))) s.sap.servers } : Sap)
        (Prod.snd (serverConfirmation cfg.tsm s.sap.now npdu k t.body (respApdu req ans)))).2) = [fr] ∧
      fr.dst = some src ∧ replyHdr fr.octets = some hdr ∧ hdr.invoke = req.invokeId ∧
      (hdr.ty = 2 ∨ hdr.ty = 3 ∨ hdr.ty = 5 ∨ hdr.ty = 6 ∨ hdr.ty = 7) := by
    intro npdu
    obtain ⟨x, hx, hcase⟩ := serverConfirmation_answer (cfg := cfg.tsm) (by simpa using hw) (now := s.sap.now)
      (npdu := npdu) (b0 := t.body) hrep hrs
    obtain ⟨fr, hdr, hemit, hdst, hhdr, hinv, hty, _⟩ := emit_reply s.net s.routes src hx
    refine ⟨fr, hdr, ?_, hdst, hhdr, by rw [hinv, hkid], ?_⟩
    · rcases hcase with ⟨he, _⟩ | ⟨b', he, _⟩
      · rw [he]; dsimp only; rw [asapPass_send]; simp [emitAll, emit, hkp, hemit]
      · rw [he]; dsimp only; rw [asapPass_send]; simp [emitAll, emit, hkp, hemit]
    · rw [hty]; rcases hx.shape with h | h | h | h | h <;> simp [h.1]
  exact aux _

/-- … and one whose transaction is gone (the application timeout ran): nothing is sent -/
theorem late_answer_dropped {σ} (cfg : DevCfg σ) (s : DevState σ) (peer : Peer) (req : Apdu) (ans : AppAnswer)
    (hgone : findTxn ⟨peer, req.invokeId⟩ s.sap.servers = none) :
    respond cfg s peer req ans = (s, []) := by
  have hty : ((respApdu req ans).ty = 2 || (respApdu req ans).ty = 3 || (respApdu req ans).ty = 5 ||
      (respApdu req ans).ty = 6 || (respApdu req ans).ty = 7) = true := by cases ans <;> rfl
  have hidr : (respApdu req ans).invokeId = req.invokeId := by cases ans <;> rfl
  unfold respond
  rw [step_response _ _ _ hty]
  unfold smapResponse
  simp only [hty, if_true, hidr, hgone, asapPass, emitAll, List.flatMap_nil]

/-! ## obligations against the regenerated tables -/

/-- the reject reason of every decoder error class is the one the live classes carry;
    `DecodingError` is outside the reject family and takes the ASAP's catch-all -/
theorem reject_table_agrees :
    Gen.DeviceTables.rejectTable.all (fun (e, _, r) => rejectOf e == r) = true ∧
    Gen.DeviceTables.rejectTable.all (fun (e, inFamily, _) => inFamily == (e != .decoding)) = true ∧
    rejectOther = Gen.DeviceTables.rejectOther ∧
    rejectUnrecognizedService = Gen.DeviceTables.rejectUnrecognizedService ∧
    Gen.DeviceTables.replyTypes = [2, 3, 5, 6, 7] ∧
    Gen.DeviceTables.apduTypes = [0, 1, 2, 3, 4, 5, 6, 7] := by decide

/-- the defaults of a live `StateMachineAccessPoint` meet the hypotheses of the theorems -/
theorem defaults_meet_hypotheses :
    Gen.TsmDefaults.cfg.TimeoutsPos ∧ Gen.TsmDefaults.cfg.window < 256 :=
  ⟨⟨by decide, by decide, by decide⟩, by decide⟩

/-! ## non-vacuity: concrete instances (TESTS by kernel evaluation, not the theorems) -/

/-- the device of the harness: live defaults, segmentation both ways, an
    application that answers every request with the same complex ack -/
def exCfg : DevCfg Unit :=
  { base := { Gen.TsmDefaults.cfg with seg := .both, maxSegs := some 16, segTimeout := 5000 },
    env := Gen.Schemas.env, confirmed := Gen.Schemas.confirmed, unconfirmed := Gen.Schemas.unconfirmed,
    serve := fun _ _ _ => ((), { answer := some (.complexAck [0x0c, 0x00, 0x80, 0x00, 0x01, 0x19, 0x55, 0x3e, 0x44, 0x41, 0x48, 0x00, 0x00, 0x3f]) }),
    unconf := fun _ _ _ => ((), []) }

def ex0 : DevState Unit := { app := () }

/-- ReadProperty(analogValue 1, presentValue), invoke ID 1, from station 0x0a
    (`harness/c10_impl.templates()["rp"]`) -/
def rp : Bytes := [0x01, 0x04, 0x02, 0x05, 0x01, 0x0c, 0x0c, 0x00, 0x80, 0x00, 0x01, 0x19, 0x55]

example : wellFramed rp = some 1 := by decide
example : listening ex0.sap.dcc rp := by decide
example : findTxn ⟨peerOf (.localStation [0x0a]), 1⟩ ex0.sap.servers = none := rfl
example : exCfg.base.TimeoutsPos ∧ exCfg.base.window < 256 := ⟨⟨by decide, by decide, by decide⟩, by decide⟩
example : Good ex0 := good_init ()
example : Synchronous exCfg := fun _ _ _ => rfl

/-- the valid request: complex ack with invoke ID 1 -/
example : (recv exCfg ex0 [0x0a] false rp).2 =
    [⟨some [0x0a], [0x01, 0x00, 0x30, 0x01, 0x0c, 0x0c, 0x00, 0x80, 0x00, 0x01, 0x19, 0x55, 0x3e, 0x44, 0x41, 0x48, 0x00, 0x00, 0x3f]⟩] := by
  decide +kernel

/-- its last octet cut off: the ASAP rejects with invalidTag (4), same invoke ID -/
example : (recv exCfg ex0 [0x0a] false rp.dropLast).2 = [⟨some [0x0a], [0x01, 0x00, 0x60, 0x01, 0x04]⟩] := by
  decide +kernel

/-- service choice 99 (no such service): reject unrecognizedService (9) -/
example : (recv exCfg ex0 [0x0a] false [0x01, 0x04, 0x02, 0x05, 0x07, 0x63, 0xff, 0xff]).2 =
    [⟨some [0x0a], [0x01, 0x00, 0x60, 0x07, 0x09]⟩] := by decide +kernel

/-- reserved max-APDU code 15: abort (other) from the server, nothing left behind -/
example : (recv exCfg ex0 [0x0a] false [0x01, 0x04, 0x02, 0x0f, 0x09, 0x0c]).2 =
      [⟨some [0x0a], [0x01, 0x00, 0x71, 0x09, 0x00]⟩] ∧
    (recv exCfg ex0 [0x0a] false [0x01, 0x04, 0x02, 0x0f, 0x09, 0x0c]).1.sap.servers = [] := by decide +kernel

example : (replyHdr [0x01, 0x00, 0x3c, 0x09, 0x00, 0x02, 0x0e, 0x0c]) = some ⟨3, 9, true, 14⟩ := by decide

/-- garbage that DOES leave something until the timers run: the first segment of a
    segmented request opens a transaction (and is acknowledged) … -/
def seg0 : Bytes := [0x01, 0x04, 0x0e, 0x05, 0x2b, 0x00, 0x02, 0x0f, 0x0c, 0x00, 0x80, 0x00, 0x01]

def exGarbage : List Dgram :=
  [⟨[0x0a], false, seg0⟩, ⟨[0x0a], false, [0xff]⟩, ⟨[0x0b], false, [0x01, 0x80]⟩,
   ⟨[0x0b], true, [0x01, 0x80, 0x13, 0x00, 0x05, 0x00]⟩, ⟨[0x0c], true, [0x01, 0x80, 0x12]⟩]

example : (recvAll exCfg ex0 exGarbage).1.sap.servers.length = 1 ∧
    (recvAll exCfg ex0 exGarbage).1.net = some 5 ∧ (recvAll exCfg ex0 exGarbage).1.nniPending = true := by
  decide +kernel
/-- … and quiescence removes it (and the pending Network-Number-Is answer is given) -/
example : (quiesce exCfg (recvAll exCfg ex0 exGarbage).1).1.sap.servers = [] ∧
    (quiesce exCfg (recvAll exCfg ex0 exGarbage).1).2 = [⟨none, [0x01, 0x80, 0x13, 0x00, 0x05, 0x00]⟩] := by
  decide +kernel

/-- once the LAN's number is known, a request claiming to come from that very network is a path
    error, one from another network is answered through the station that delivered it -/
example :
    let s := (recvAll exCfg ex0 [⟨[0x0b], true, [0x01, 0x80, 0x13, 0x00, 0x05, 0x00]⟩]).1
    fate s.net ([0x01, 0x0c, 0x00, 0x05, 0x01, 0x07] ++ rp.drop 2) = .spoofed ∧
    (recv exCfg s [0x0c] false ([0x01, 0x0c, 0x00, 0x06, 0x01, 0x07] ++ rp.drop 2)).2.map (·.dst) = [some [0x0c]] := by
  decide +kernel

/-- fates of malformed datagrams -/
example : fate none [0xff] = .badNpci ∧ fate none [0x01, 0x00, 0x00, 0x05] = .badApci ∧
    fate none [0x01, 0x20, 0x00, 0x07, 0x00, 0xff, 0x00] = .notForUs ∧ fate none [0x01, 0x80, 0x7f] = .unknownMsg ∧
    fate none [0x01, 0x80, 0x02, 0x00] = .badMsg ∧ fate none rp = .delivered := by decide

end BacVerif.C10
