/-
  C10 — a device answers every well-framed request and stays healthy under garbage
  (work in progress: first obligations; the property theorems follow)
-/
import BacVerif.Model.Device
import BacVerif.Gen.DeviceTables
import BacVerif.Gen.Schemas
import BacVerif.Gen.TsmDefaults
namespace BacVerif.C10
open BacVerif BacVerif.Tsm BacVerif.Device

/-- `recvAll` is a fold: a queue processed in two parts is the queue processed at once -/
theorem recvAll_append {σ} (cfg : DevCfg σ) : ∀ (xs ys : List (Bytes × Bytes)) (s : DevState σ),
    recvAll cfg s (xs ++ ys) =
      ((recvAll cfg (recvAll cfg s xs).1 ys).1,
       (recvAll cfg s xs).2 ++ (recvAll cfg (recvAll cfg s xs).1 ys).2) := by
  intro xs
  induction xs with
  | nil => intro ys s; simp [recvAll]
  | cons x xs ih =>
    intro ys s
    obtain ⟨src, f⟩ := x
    simp only [List.cons_append, recvAll]
    rw [ih]
    simp [List.append_assoc]

/-- the reject reason of every decoder error class is the one the live classes carry -/
theorem reject_table_agrees :
    Gen.DeviceTables.rejectTable.all (fun (e, _, r) => rejectOf e == r) = true ∧
    rejectOther = Gen.DeviceTables.rejectOther ∧
    rejectUnrecognizedService = Gen.DeviceTables.rejectUnrecognizedService := by decide

end BacVerif.C10
