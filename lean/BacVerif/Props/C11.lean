/-
  C11 — Concurrent transactions never cross: replies reach only the request
  they answer.

  Property text.  "While several confirmed requests are outstanding - to one
  peer or many - each uses an invoke ID not used by another live request to the
  same peer, and a reply, segment-ack or abort is applied only to the live
  transaction with the same peer address and invoke ID; replies from other
  peers, with other IDs, or arriving after completion are ignored.  On the
  serving side a retransmitted request that arrives while the original is
  still being processed is not handed to the application again, and requests
  with equal invoke IDs from different peers are served independently."

  Formalisation (model: BacVerif.Model.Tsm, `step : Cfg → Sap → Event → Sap × List Out`,
  the environment may deliver ANY event sequence: any frame header from any peer,
  any application call, any timer expiry):

  * "each uses an invoke ID not used by another live request to the same peer"
      key_unique      — in every reachable state the keys (peer, invoke ID) of
                        the client list are pairwise different, likewise the
                        server list (clause of the inductive invariant `Inv`,
                        `inv_init`, `inv_step`, `inv_run`);
      fresh_id        — `get_next_invoke_id` returns an ID < 256 that no live
                        client transaction toward that peer uses, and fails
                        only if all 255 candidates from the cursor on are live
                        (every occupancy, every cursor value incl. wrap-around;
                        the 256-iteration loop is structural recursion and is
                        never cut short);
      chosen_in_use_refused — an application-chosen ID that is live toward the
                        peer is refused (`raised idInUse`), nothing changes.
  * "a reply, segment-ack or abort is applied only to the live transaction
     with the same peer address and invoke ID"
      demux_frame     — an inbound PDU from `peer` with invoke ID `i` leaves
                        every transaction with another key identical (body,
                        timer, position) in BOTH lists, leaves the whole list
                        of the side its type / server flag does not select
                        identical, does not move the ID cursor, and every
                        frame / indication / confirmation it causes carries
                        that peer and that ID.
      request_touch / response_touch / timeout_touch — the same for the other
                        event kinds (used by C04).
  * "replies from other peers, with other IDs, or arriving after completion
     are ignored"
      late_ignored    — no live transaction with that key on the selected side
                        ⇒ state unchanged, no output at all.
  * "a retransmitted request … is not handed to the application again"
      dup_request_not_redelivered — a confirmed request whose key has a server
                        transaction in AWAIT_RESPONSE: state unchanged, no output.
  * "equal invoke IDs from different peers are served independently"
      peers_independent — a PDU from peer q never changes a transaction of a
                        peer p ≠ q; and (`equal_ids_two_peers`) the same request
                        header from two peers yields two transactions and two
                        indications, one per peer.

  Hypotheses: `cfg.TimeoutsPos` (the three timeouts are non-zero — with a zero
  timeout `set_state` arms no timer, which concerns the timer clause of `Inv`
  only).  Nothing else: no bound on list lengths, IDs, payloads or time.
-/
import BacVerif.Lemmas.TsmSide
import BacVerif.Gen.TsmDefaults
namespace BacVerif.C11
open BacVerif.Tsm
set_option linter.unusedSimpArgs false
set_option linter.unusedVariables false

variable {cfg : Cfg}

theorem step_frame (s : Sap) (peer : Peer) (a : Apdu) :
    step cfg s (.frame peer a) =
      asapPass cfg (smapConfirmation cfg s peer a).1 (smapConfirmation cfg s peer a).2 := rfl
theorem step_request (s : Sap) (peer : Peer) (service : Nat) (data : Bytes) (chosen : Option Nat) :
    step cfg s (.request peer service data chosen) =
      asapPass cfg (smapRequest cfg s peer service data chosen).1
        (smapRequest cfg s peer service data chosen).2 := rfl
theorem step_timeout (s : Sap) (srv : Bool) (peer : Peer) (id : Nat) :
    step cfg s (.timeout srv peer id) =
      asapPass cfg (smapTimeout cfg s srv ⟨peer, id⟩).1 (smapTimeout cfg s srv ⟨peer, id⟩).2 := rfl

/-! ## the invariant holds in every reachable state -/

theorem inv_init : Inv Sap.init := Inv.init

/-- one event of any kind preserves the invariant -/
theorem inv_step (hpos : cfg.TimeoutsPos) {s : Sap} (hinv : Inv s) (e : Event) :
    Inv (step cfg s e).1 := by
  have pass : ∀ {k : Key} {s1 : Sap} {outs : List Out}, Spec k s s1 outs →
      Inv (asapPass cfg s1 outs).1 :=
    fun h => (asapPass_spec hpos _ h.inv h.touch.attr).1.inv
  unfold step
  cases e with
  | request peer service data chosen =>
    exact pass (smapRequest_spec hpos hinv peer service data chosen).1
  | unconfirmed peer service data =>
    simp only [smapStep]
    split
    · exact hinv
    · exact hinv
  | response peer a =>
    simp only [smapStep]
    split
    · exact pass (smapResponse_spec hpos hinv peer a).1
    · exact hinv
  | frame peer a => exact pass (smapConfirmation_spec hpos hinv peer a).1
  | timeout srv peer id => exact pass (smapTimeout_spec hpos hinv srv ⟨peer, id⟩).1
  | tick dt => exact hinv.congr rfl rfl rfl
  | learn peer info => exact hinv.congr rfl rfl rfl
  | setDcc d => exact hinv.congr rfl rfl rfl

/-- … hence any event sequence from any state satisfying it -/
theorem inv_run (hpos : cfg.TimeoutsPos) : ∀ (es : List Event) {s : Sap}, Inv s →
    Inv (run cfg s es).1 := by
  intro es
  induction es with
  | nil => intro s h; exact h
  | cons e es ih =>
    intro s h
    simp only [run]
    exact ih (inv_step hpos h e)

/-- **key_unique.**  After ANY event sequence from the initial state no two
    live client transactions share (peer, invoke ID), and no two server
    transactions do. -/
theorem key_unique (hpos : cfg.TimeoutsPos) (es : List Event) :
    ((run cfg Sap.init es).1.clients.map Txn.key).Nodup ∧
    ((run cfg Sap.init es).1.servers.map Txn.key).Nodup :=
  let h := inv_run hpos es inv_init
  ⟨h.cKeys, h.sKeys⟩

/-- the other clauses of the invariant, for the colleagues proving C04/C05:
    every listed transaction is in a non-terminal state of its side, has its
    timer armed and a context consistent with its key -/
theorem listed_ok (hpos : cfg.TimeoutsPos) (es : List Event) :
    (∀ t ∈ (run cfg Sap.init es).1.clients, ClientOk t.key t.body) ∧
    (∀ t ∈ (run cfg Sap.init es).1.servers, ServerOk t.key t.body) :=
  let h := inv_run hpos es inv_init
  ⟨h.cOk, h.sOk⟩

/-! ## invoke-ID allocation -/

/-- **fresh_id.**  For every table occupancy and every cursor value below 256
    (the invariant keeps it there): the allocator returns an ID below 256 that
    is not live toward the peer and lies among the 255 candidates
    `cursor, cursor+1, …` (mod 256), and moves the cursor just past it — or it
    fails, and then every one of those 255 candidates is live toward the peer
    and the cursor is back where it was. -/
theorem fresh_id (s : Sap) (peer : Peer) (h : s.nextId < 256) :
    match getNextInvokeId s peer with
    | (some id, next) =>
        id < 256 ∧ (∀ t ∈ s.clients, t.key ≠ ⟨peer, id⟩) ∧ next = (id + 1) % 256 ∧
        ∃ j, j < 255 ∧ id = (s.nextId + j) % 256
    | (none, next) =>
        next = s.nextId ∧ ∀ j, j < 255 → ∃ t ∈ s.clients, t.key = ⟨peer, (s.nextId + j) % 256⟩ := by
  have := getNextInvokeId_spec s peer h
  cases hg : getNextInvokeId s peer with
  | mk r next =>
    rw [hg] at this
    cases r with
    | some id =>
      dsimp only at this ⊢
      exact ⟨this.1, idLive_false.1 this.2.1, this.2.2.1, this.2.2.2⟩
    | none =>
      dsimp only at this ⊢
      exact ⟨this.1, fun j hj => idLive_true.1 (this.2 j hj)⟩

/-- the request event uses exactly that allocation: the transaction it
    creates has a key no live client transaction had -/
theorem request_key_fresh (hpos : cfg.TimeoutsPos) {s : Sap} (hinv : Inv s) (peer : Peer)
    (service : Nat) (data : Bytes) (chosen : Option Nat) :
    ∀ t ∈ (step cfg s (.request peer service data chosen)).1.clients,
      t ∈ s.clients ∨ (t.key = requestKey s peer chosen ∧ ∀ u ∈ s.clients, u.key ≠ t.key) := by
  intro t ht
  have hs := smapRequest_spec hpos hinv peer service data chosen
  have hp := asapPass_spec hpos _ hs.1.inv hs.1.touch.attr
  rw [step_request, hp.2.1] at ht
  by_cases hk : t.key = requestKey s peer chosen
  · by_cases hmem : t ∈ s.clients
    · exact Or.inl hmem
    · right
      refine ⟨hk, ?_⟩
      intro u hu huk
      -- u (old, same key) is still listed next to t: contradicts uniqueness
      have hnd := hs.1.inv.cKeys
      -- u survives unless it has the request key; it has, so argue by position
      -- instead: the new list is the old one, or the old one plus one element
      unfold smapRequest at ht hnd
      revert ht hnd
      split
      · intro ht; exact absurd ht hmem
      · cases chosen with
        | some id =>
          dsimp only
          split
          · intro ht; exact absurd ht hmem
          · rename_i hlive
            have hfresh := idLive_false.1 (by simpa using hlive)
            intro _ _
            have : u.key = ⟨peer, id⟩ := by rw [huk, hk]; rfl
            exact hfresh u hu this
        | none =>
          dsimp only
          have hspec := getNextInvokeId_spec s peer hinv.nextLt
          cases hg : getNextInvokeId s peer with
          | mk r next =>
            rw [hg] at hspec
            cases r with
            | none => intro ht; exact absurd ht hmem
            | some id =>
              intro _ _
              have hfresh := idLive_false.1 hspec.2.1
              have : u.key = ⟨peer, id⟩ := by
                rw [huk, hk]; simp [requestKey, hg]
              exact hfresh u hu this
  · exact Or.inl (hs.1.touch.clients.mem' ht hk)

/-- **chosen ID in use is refused.**  The application names an invoke ID that
    a live request toward the same peer uses: `RuntimeError("invoke ID in use")`,
    state unchanged, nothing sent. -/
theorem chosen_in_use_refused {s : Sap} (peer : Peer) (service : Nat) (data : Bytes) (id : Nat)
    (hdcc : dccOutbound s.dcc 0 service = true)
    (hlive : ∃ t ∈ s.clients, t.key = ⟨peer, id⟩) :
    step cfg s (.request peer service data (some id)) = (s, [.raised .idInUse]) := by
  have hl := idLive_true.2 hlive
  simp [step, smapStep, smapRequest, hdcc, hl, asapPass, asapUp]

/-! ## demultiplexing -/

/-- the PDU types the access point hands to the CLIENT table -/
def clientSide (a : Apdu) : Bool :=
  a.ty = 2 || a.ty = 3 || a.ty = 5 || a.ty = 6 || ((a.ty = 4 || a.ty = 7) && a.srv)

/-- the PDU types the access point hands to the SERVER table -/
def serverSide (a : Apdu) : Bool :=
  a.ty = 0 || ((a.ty = 4 || a.ty = 7) && !a.srv)

theorem smapConfirmation_clientSide {s : Sap} {peer : Peer} {a : Apdu} (h : clientSide a = true) :
    smapConfirmation cfg s peer a =
      if !dccInbound s.dcc a then (s, []) else toClient cfg s ⟨peer, a.invokeId⟩ a := by
  unfold smapConfirmation
  split
  · rfl
  · dsimp only
    simp only [clientSide, Bool.or_eq_true, Bool.and_eq_true, decide_eq_true_eq] at h
    rcases h with (((h | h) | h) | h) | ⟨h | h, hs⟩
    · simp [h]
    · simp [h]
    · simp [h]
    · simp [h]
    · simp [h, hs]
    · simp [h, hs]

theorem smapConfirmation_serverSide_clients (hpos : cfg.TimeoutsPos) {s : Sap} (hinv : Inv s)
    {peer : Peer} {a : Apdu} (h : serverSide a = true) :
    (smapConfirmation cfg s peer a).1.clients = s.clients := by
  have hS := toServer_spec hpos hinv (k := ⟨peer, a.invokeId⟩) (a := a) rfl
  unfold smapConfirmation
  split
  · rfl
  · dsimp only
    simp only [serverSide, Bool.or_eq_true, Bool.and_eq_true, decide_eq_true_eq,
      Bool.not_eq_true'] at h
    rcases h with h | ⟨h | h, hs⟩
    · simp only [h]
      cases hf : findTxn ⟨peer, a.invokeId⟩ s.servers with
      | some t => rfl
      | none =>
        exact (serverCreate_spec hpos hinv (k := ⟨peer, a.invokeId⟩) (a := a) rfl
          (findTxn_none.1 hf)).2.1
    · simp only [h, hs]
      exact hS.2.1
    · simp only [h, hs]
      exact hS.2.1

theorem smapConfirmation_noSide {s : Sap} {peer : Peer} {a : Apdu} (hc : clientSide a = false)
    (hs : serverSide a = false) :
    (smapConfirmation cfg s peer a).1 = s ∧
    ((smapConfirmation cfg s peer a).2 = [] ∨
     (a.ty = 1 ∧ (smapConfirmation cfg s peer a).2 = [.indicate peer a])) := by
  unfold smapConfirmation
  split
  · exact ⟨rfl, Or.inl rfl⟩
  · dsimp only
    simp only [clientSide, serverSide, Bool.or_eq_false_iff, Bool.and_eq_false_iff,
      decide_eq_false_iff_not, Bool.not_eq_false'] at hc hs
    split
    · exact absurd ‹a.ty = 0› hs.1
    · exact ⟨rfl, Or.inr ⟨‹a.ty = 1›, rfl⟩⟩
    · exact absurd ‹a.ty = 2› hc.1.1.1.1
    · exact absurd ‹a.ty = 3› hc.1.1.1.2
    · exact absurd ‹a.ty = 5› hc.1.1.2
    · exact absurd ‹a.ty = 6› hc.1.2
    · rename_i h4
      rcases hc.2 with h | h
      · exact absurd (Or.inl h4) (by simpa using h)
      · rcases hs.2 with h' | h'
        · exact absurd (Or.inl h4) (by simpa using h')
        · simp [h] at h'
    · rename_i h7
      rcases hc.2 with h | h
      · exact absurd (Or.inr h7) (by simpa using h)
      · rcases hs.2 with h' | h'
        · exact absurd (Or.inr h7) (by simpa using h')
        · simp [h] at h'
    · exact ⟨rfl, Or.inl rfl⟩

/-- **demux_frame.**  An inbound PDU with ARBITRARY header `a` from ARBITRARY
    `peer`, in any state satisfying the invariant.  With `k = (peer, a.invokeId)`:
    1. both lists agree, before and after, on every transaction whose key is
       not `k` (same bodies — timers included — in the same order, none added);
    2. every output (frame, indication, confirmation) carries `peer` and that
       invoke ID;
    3. a PDU for the client table leaves the server list untouched, a PDU for
       the server table leaves the client list untouched, any other PDU leaves
       both untouched;
    4. the invoke-ID cursor does not move; the invariant still holds. -/
theorem demux_frame (hpos : cfg.TimeoutsPos) {s : Sap} (hinv : Inv s) (peer : Peer) (a : Apdu) :
    let r := step cfg s (.frame peer a)
    SameExcept ⟨peer, a.invokeId⟩ s.clients r.1.clients ∧
    SameExcept ⟨peer, a.invokeId⟩ s.servers r.1.servers ∧
    AllAttr ⟨peer, a.invokeId⟩ r.2 ∧
    (clientSide a = true → r.1.servers = s.servers) ∧
    (serverSide a = true → r.1.clients = s.clients) ∧
    (clientSide a = false → serverSide a = false → r.1.clients = s.clients ∧ r.1.servers = s.servers) ∧
    r.1.nextId = s.nextId ∧ Inv r.1 := by
  have hs := smapConfirmation_spec hpos hinv peer a
  have hp := asapPass_spec hpos _ hs.1.inv hs.1.touch.attr
  have ht := hs.1.touch.trans hp.1.touch
  dsimp only
  rw [step_frame]
  refine ⟨ht.clients, ht.servers, ?_, ?_, ?_, ?_, hp.2.2.trans hs.2, hp.1.inv⟩
  · exact hp.1.touch.attr
  · intro hc
    rw [asapPass_noInd]
    · rw [smapConfirmation_clientSide hc]
      split
      · rfl
      · exact (toClient_spec hpos hinv (k := ⟨peer, a.invokeId⟩) (a := a) rfl).2.1
    · rw [smapConfirmation_clientSide hc]
      split
      · simp
      · exact toClient_noInd _ _ _
  · intro hsv
    rw [hp.2.1]
    exact smapConfirmation_serverSide_clients hpos hinv hsv
  · intro hc hsv
    have := smapConfirmation_noSide (cfg := cfg) (s := s) (peer := peer) hc hsv
    rcases this with ⟨h1, h2 | ⟨hty, h2⟩⟩
    · rw [h1, h2]; exact ⟨rfl, rfl⟩
    · rw [h1, h2]
      simp only [asapPass, asapUp, hty]
      simp
      split <;> exact ⟨rfl, rfl⟩

/-- a transaction with another key that was live is still live and identical,
    whatever arrives (corollary of `demux_frame`, in the form the property states it) -/
theorem others_unchanged (hpos : cfg.TimeoutsPos) {s : Sap} (hinv : Inv s) (peer : Peer) (a : Apdu)
    {t : Txn} (hk : t.key ≠ ⟨peer, a.invokeId⟩) :
    (t ∈ s.clients ↔ t ∈ (step cfg s (.frame peer a)).1.clients) ∧
    (t ∈ s.servers ↔ t ∈ (step cfg s (.frame peer a)).1.servers) := by
  have h := demux_frame hpos hinv peer a
  exact ⟨⟨fun ht => h.1.mem ht hk, fun ht => h.1.mem' ht hk⟩,
         ⟨fun ht => h.2.1.mem ht hk, fun ht => h.2.1.mem' ht hk⟩⟩

/-- **peers_independent** (general form).  A PDU from peer `q` — whatever its
    invoke ID — never changes, removes or adds a transaction of another peer. -/
theorem peers_independent (hpos : cfg.TimeoutsPos) {s : Sap} (hinv : Inv s) (q : Peer) (a : Apdu)
    {t : Txn} (hp : t.key.peer ≠ q) :
    (t ∈ s.clients ↔ t ∈ (step cfg s (.frame q a)).1.clients) ∧
    (t ∈ s.servers ↔ t ∈ (step cfg s (.frame q a)).1.servers) :=
  others_unchanged hpos hinv q a (by intro h; exact hp (by rw [h]))

/-- the same structure for the other event kinds (C04 builds on these) -/
theorem request_touch (hpos : cfg.TimeoutsPos) {s : Sap} (hinv : Inv s) (peer : Peer)
    (service : Nat) (data : Bytes) (chosen : Option Nat) :
    let r := step cfg s (.request peer service data chosen)
    Touch (requestKey s peer chosen) s r.1 r.2 ∧ r.1.servers = s.servers := by
  have hs := smapRequest_spec hpos hinv peer service data chosen
  have hp := asapPass_spec hpos _ hs.1.inv hs.1.touch.attr
  dsimp only
  refine ⟨?_, ?_⟩
  · have ht := hs.1.touch.trans hp.1.touch
    rw [step_request]
    exact ⟨ht.clients, ht.servers, hp.1.touch.attr, ht.now, ht.dcc⟩
  · rw [step_request, asapPass_noInd]
    · exact hs.2
    · unfold smapRequest
      split
      · simp
      · cases chosen with
        | some id =>
          dsimp only
          split
          · simp [Out.isInd]
          · unfold clientCreate
            dsimp only
            have := clientIndication_noInd (cfg := cfg) s.now
              (heldDI s ⟨peer, id⟩ (newBody cfg s peer)) ⟨peer, id⟩ (newBody cfg s peer)
              { ty := 0, service := service, invokeId := id, data := data }
            split <;> (rename_i h; rw [h] at this; exact this)
        | none =>
          dsimp only
          split
          · simp [Out.isInd]
          · rename_i id next _
            unfold clientCreate
            dsimp only
            have := clientIndication_noInd (cfg := cfg) s.now
              (heldDI { s with nextId := next } ⟨peer, id⟩ (newBody cfg { s with nextId := next } peer))
              ⟨peer, id⟩ (newBody cfg { s with nextId := next } peer)
              { ty := 0, service := service, invokeId := id, data := data }
            split <;> (rename_i h; rw [h] at this; exact this)

theorem response_touch (hpos : cfg.TimeoutsPos) {s : Sap} (hinv : Inv s) (peer : Peer) (a : Apdu) :
    let r := step cfg s (.response peer a)
    Touch ⟨peer, a.invokeId⟩ s r.1 r.2 ∧ r.1.clients = s.clients ∧ r.1.nextId = s.nextId := by
  dsimp only
  unfold step
  simp only [smapStep]
  split
  · have hs := smapResponse_spec hpos hinv peer a
    have hp := asapPass_spec hpos _ hs.1.inv hs.1.touch.attr
    have ht := hs.1.touch.trans hp.1.touch
    exact ⟨⟨ht.clients, ht.servers, hp.1.touch.attr, ht.now, ht.dcc⟩,
      hp.2.1.trans hs.2.1, hp.2.2.trans hs.2.2.1⟩
  · exact ⟨Touch.refl _ s, rfl, rfl⟩

theorem timeout_touch (hpos : cfg.TimeoutsPos) {s : Sap} (hinv : Inv s) (srv : Bool) (peer : Peer)
    (id : Nat) :
    let r := step cfg s (.timeout srv peer id)
    Touch ⟨peer, id⟩ s r.1 r.2 ∧ r.1.nextId = s.nextId := by
  have hs := smapTimeout_spec hpos hinv srv ⟨peer, id⟩
  have hp := asapPass_spec hpos _ hs.1.inv hs.1.touch.attr
  have ht := hs.1.touch.trans hp.1.touch
  dsimp only
  rw [step_timeout]
  exact ⟨⟨ht.clients, ht.servers, hp.1.touch.attr, ht.now, ht.dcc⟩, hp.2.2.trans hs.2⟩

/-! ## late, duplicate -/

/-- **late_ignored.**  A reply, segment-ack or abort (any PDU that is not a
    request) whose (peer, invoke ID) has no live transaction on the side its
    type / server flag selects — foreign peer, other ID, or arriving after
    completion — changes nothing and produces nothing. -/
theorem late_ignored {s : Sap} (peer : Peer) (a : Apdu)
    (h : (clientSide a = true ∧ ∀ t ∈ s.clients, t.key ≠ ⟨peer, a.invokeId⟩) ∨
         (serverSide a = true ∧ a.ty ≠ 0 ∧ ∀ t ∈ s.servers, t.key ≠ ⟨peer, a.invokeId⟩)) :
    step cfg s (.frame peer a) = (s, []) := by
  unfold step
  simp only [smapStep]
  rcases h with ⟨hc, hno⟩ | ⟨hsv, h0, hno⟩
  · rw [smapConfirmation_clientSide hc]
    split
    · rfl
    · simp [toClient, findTxn_none.2 hno, asapPass]
  · have hf := findTxn_none.2 hno
    unfold smapConfirmation
    split
    · rfl
    · dsimp only
      simp only [serverSide, Bool.or_eq_true, Bool.and_eq_true, decide_eq_true_eq,
        Bool.not_eq_true'] at hsv
      rcases hsv with h | ⟨h | h, hs⟩
      · exact absurd h h0
      · simp [h, hs, toServer, hf, asapPass]
      · simp [h, hs, toServer, hf, asapPass]

/-- PDU types the access point does not know are dropped the same way -/
theorem unknown_type_ignored {s : Sap} (peer : Peer) (a : Apdu) (h : 8 ≤ a.ty) :
    step cfg s (.frame peer a) = (s, []) := by
  unfold step
  simp only [smapStep]
  unfold smapConfirmation
  split
  · rfl
  · dsimp only
    split <;> first | omega | rfl

/-- **dup_request_not_redelivered.**  A confirmed request (any header) whose
    (peer, invoke ID) has a server transaction waiting for the application
    (AWAIT_RESPONSE): nothing is indicated, nothing is sent, nothing changes. -/
theorem dup_request_not_redelivered {s : Sap} (peer : Peer) (a : Apdu) (h0 : a.ty = 0)
    {t : Txn} (hf : findTxn ⟨peer, a.invokeId⟩ s.servers = some t) (hst : t.body.st = .awaitResp) :
    step cfg s (.frame peer a) = (s, []) := by
  unfold step
  simp only [smapStep]
  unfold smapConfirmation
  split
  · rfl
  · dsimp only
    simp only [h0, hf, Sap.setServer, serverIndication, hst, serverAwaitResponse, if_true]
    rw [updFirst_same hf]
    rfl

/-! ## equal IDs from two peers: the concrete scenario -/

theorem serverIdle_unsegmented {now : Nat} {di : Option DeviceInfo} {k : Key} {b : Body} {a : Apdu}
    {m : Nat} (hseg : a.seg = false) (hm : decodeMaxApdu a.maxResp = some m) :
    serverIdle cfg now di k b a =
      (some { b with sra := a.sa, maxApdu := announcedMax di m, maxSegs := decodeMaxSegs a.maxSegs,
                     announced := m, st := .awaitResp, timer := stateTimer now cfg.appTimeout },
       [.indicate k.peer a]) := by
  simp [serverIdle, hm, hseg]

/-- what one fresh unsegmented request does to the access point -/
theorem fresh_request_step {s : Sap} (p : Peer) (a : Apdu) {m : Nat}
    (h0 : a.ty = 0) (hseg : a.seg = false) (hm : decodeMaxApdu a.maxResp = some m)
    (hdec : cfg.reqDecode a.service a.data = .ok) (hdcc : dccInbound s.dcc a = true)
    (hno : ∀ t ∈ s.servers, t.key ≠ ⟨p, a.invokeId⟩) :
    ∃ b', b'.st = .awaitResp ∧
      (step cfg s (.frame p a)).2 = [.indicate p a] ∧
      (step cfg s (.frame p a)).1.servers = s.servers ++ [Txn.mk ⟨p, a.invokeId⟩ b'] ∧
      (step cfg s (.frame p a)).1.dcc = s.dcc := by
  have hf := findTxn_none.2 hno
  have hstep : step cfg s (.frame p a) =
      ({ s.withDI p (promote a.sa (heldDI s ⟨p, a.invokeId⟩ (newBody cfg s p))) with
           servers := s.servers ++ [Txn.mk ⟨p, a.invokeId⟩
             { newBody cfg s p with
                 sra := a.sa,
                 maxApdu := announcedMax (promote a.sa (heldDI s ⟨p, a.invokeId⟩ (newBody cfg s p))) m,
                 maxSegs := decodeMaxSegs a.maxSegs, announced := m, st := .awaitResp,
                 timer := stateTimer s.now cfg.appTimeout }] },
       [.indicate p a]) := by
    rw [step_frame]
    unfold smapConfirmation
    simp only [hdcc, Bool.not_true, Bool.false_eq_true, if_false, h0, hf, serverCreate,
      serverIdle_unsegmented hseg hm, withDI_servers]
    simp [asapPass, asapUp, h0, hdec]
  rw [hstep]
  exact ⟨_, rfl, rfl, rfl, by simp⟩

/-- **equal IDs from different peers are served independently.**  The same
    unsegmented request header (same invoke ID) arrives from two different
    peers, neither having a transaction yet: two indications — one attributed
    to each peer — and two server transactions, both waiting for the application. -/
theorem equal_ids_two_peers {s : Sap} (p q : Peer) (hpq : p ≠ q) (a : Apdu) {m : Nat}
    (h0 : a.ty = 0) (hseg : a.seg = false) (hm : decodeMaxApdu a.maxResp = some m)
    (hdec : cfg.reqDecode a.service a.data = .ok) (hdcc : dccInbound s.dcc a = true)
    (hnp : ∀ t ∈ s.servers, t.key ≠ ⟨p, a.invokeId⟩)
    (hnq : ∀ t ∈ s.servers, t.key ≠ ⟨q, a.invokeId⟩) :
    let r1 := step cfg s (.frame p a)
    let r2 := step cfg r1.1 (.frame q a)
    r1.2 = [.indicate p a] ∧ r2.2 = [.indicate q a] ∧
    ∃ bp bq, bp.st = .awaitResp ∧ bq.st = .awaitResp ∧
      r2.1.servers = s.servers ++ [Txn.mk ⟨p, a.invokeId⟩ bp, Txn.mk ⟨q, a.invokeId⟩ bq] := by
  obtain ⟨bp, hbp, ho1, hs1, hd1⟩ := fresh_request_step (cfg := cfg) p a h0 hseg hm hdec hdcc hnp
  have hnq1 : ∀ t ∈ (step cfg s (.frame p a)).1.servers, t.key ≠ ⟨q, a.invokeId⟩ := by
    intro t ht
    rw [hs1] at ht
    simp only [List.mem_append, List.mem_singleton] at ht
    rcases ht with ht | ht
    · exact hnq t ht
    · subst ht
      intro h
      exact hpq (by injection h)
  obtain ⟨bq, hbq, ho2, hs2, _⟩ := fresh_request_step (cfg := cfg) (s := (step cfg s (.frame p a)).1)
    q a h0 hseg hm hdec (by rw [hd1]; exact hdcc) hnq1
  dsimp only
  refine ⟨ho1, ho2, bp, bq, hbp, hbq, ?_⟩
  rw [hs2, hs1]
  simp

/-! ## non-vacuity: concrete instances meeting the hypotheses -/

/-- the generated defaults have positive timeouts -/
theorem defaults_pos : BacVerif.Gen.TsmDefaults.cfg.TimeoutsPos :=
  ⟨by decide, by decide, by decide⟩

def exCfg : Cfg := BacVerif.Gen.TsmDefaults.cfg

/-- three requests to two peers, then a reply for (peer 0, ID 2) -/
def exEvents : List Event :=
  [.request 0 200 [1, 2] none, .request 0 200 [3] none, .request 1 200 [] (some 1)]

/-- a reachable state with three live transactions: (0,1) (0,2) (1,1) -/
example : ((run exCfg Sap.init exEvents).1.clients.map Txn.key) = [⟨0, 1⟩, ⟨0, 2⟩, ⟨1, 1⟩] := by
  decide

/-- demux on it: a SimpleAck from peer 0 for ID 2 removes exactly (0,2) and
    confirms to the application with that key — (0,1) and (1,1), which share
    the peer resp. the ID, are untouched -/
example :
    let s := (run exCfg Sap.init exEvents).1
    let r := step exCfg s (.frame 0 { ty := 2, invokeId := 2, service := 200 })
    r.1.clients.map Txn.key = [⟨0, 1⟩, ⟨1, 1⟩] ∧
    r.2 = [.confirm 0 { ty := 2, invokeId := 2, service := 200 }] := by
  decide

/-- late_ignored, non-vacuous: the same ack from peer 1 (no (1,2) live) is ignored -/
example :
    let s := (run exCfg Sap.init exEvents).1
    step exCfg s (.frame 1 { ty := 2, invokeId := 2, service := 200 }) = (s, []) :=
  late_ignored 1 _ (Or.inl ⟨by decide, by decide⟩)

/-- chosen_in_use_refused, non-vacuous -/
example :
    let s := (run exCfg Sap.init exEvents).1
    step exCfg s (.request 0 200 [] (some 2)) = (s, [.raised .idInUse]) :=
  chosen_in_use_refused 0 200 [] 2 (by decide) (idLive_true.1 (by decide))

/-- fresh_id, non-vacuous incl. wrap-around: cursor 255, IDs 255 and 0 live
    toward peer 0 → the allocator returns 1 and the cursor becomes 2 -/
example :
    let s : Sap := { nextId := 255,
                     clients := [⟨⟨0, 255⟩, {}⟩, ⟨⟨0, 0⟩, {}⟩, ⟨⟨1, 1⟩, {}⟩] }
    getNextInvokeId s 0 = (some 1, 2) := by decide

/-- dup_request_not_redelivered / equal_ids_two_peers, non-vacuous: the same
    request header from peers 3 and 4, then peer 3 retransmits -/
example :
    let a : Apdu := { ty := 0, invokeId := 9, service := 200, maxResp := 5, data := [7] }
    let r1 := step exCfg Sap.init (.frame 3 a)
    let r2 := step exCfg r1.1 (.frame 4 a)
    let r3 := step exCfg r2.1 (.frame 3 a)
    r1.2 = [.indicate 3 a] ∧ r2.2 = [.indicate 4 a] ∧ r3 = (r2.1, []) ∧
    r2.1.servers.map Txn.key = [⟨3, 9⟩, ⟨4, 9⟩] := by
  decide

/-! ## the regenerated tables agree with the model's transcription -/

/-- abort / reject reason codes used by the model = the live enumerations -/
theorem reasons_agree :
    abortOther = Gen.TsmDefaults.abort_other ∧
    abortInvalidApduInThisState = Gen.TsmDefaults.abort_invalidApduInThisState ∧
    abortSegmentationNotSupported = Gen.TsmDefaults.abort_segmentationNotSupported ∧
    abortApduTooLong = Gen.TsmDefaults.abort_apduTooLong ∧
    abortServerTimeout = Gen.TsmDefaults.abort_serverTimeout ∧
    abortNoResponse = Gen.TsmDefaults.abort_noResponse ∧
    rejectUnrecognizedService = Gen.TsmDefaults.reject_unrecognizedService := by decide

/-- state constants and PDU type codes = the live ones; first invoke ID = 1 -/
theorem codes_agree :
    ([St.idle, .segReq, .awaitConf, .awaitResp, .segResp, .segConf].map St.code ++ [6, 7]
      = Gen.TsmDefaults.stateCodes) ∧
    Gen.TsmDefaults.typeCodes = [0, 1, 2, 3, 4, 5, 6, 7] ∧
    Sap.init.nextId = Gen.TsmDefaults.nextInvokeId := by decide

end BacVerif.C11
