/-
  C15 — Property reads and writes over the wire are consistent, typed, all-or-nothing.

  Model: `BacVerif.Obj` (Model/Object.lean) — a transcription of
  service/object.py (do_ReadPropertyRequest, do_WritePropertyRequest,
  read_property_to_any / _to_result_element, do_ReadPropertyMultipleRequest),
  Property.ReadProperty / WriteProperty, ArrayOf.__getitem__/__setitem__,
  CurrentPropertyList, WriteableObjectName, Commandable.WriteProperty, with the
  exception → Error / Reject mapping of app.py / appservice.py; object types and
  property descriptors from the table GENERATED out of the live registry
  (Gen/Objects.lean).  The model describes the tree with fixes/C15-*.patch.

  Property text → formal statement
  * "After a WriteProperty request is acknowledged, ReadProperty of the same
    property (and array element) returns the written value"
        → `write_then_read` (objects without the Commandable mix-in: whole value,
          element 1..n, and index 0 = the written count),
          `write_then_read_cmd` (commandable objects, priorities 1..16: the command
          reads back from priorityArray[priority])
  * "a write that is refused … leaves every property unchanged" (all-or-nothing)
        → `refused_write_pure` (plain objects, no hypothesis at all),
          `refused_write_pure_all` (every object kind, under the decidable
          consistency predicate `deviceOK` of commandable objects),
          `deviceOK_preserved` + `refused_write_pure_history` (the predicate is an
          invariant, so the statement holds along every history)
  * "… (unknown object or property, wrong datatype, read-only, bad array index)
    is answered with the matching error"
        → `unknown_object_read/_write`, `unknown_property_read/_write`,
          `absent_property_read/_write`, `not_an_array_read/_write`,
          `invalid_array_index_read/_write`, `write_access_denied`,
          `write_access_denied_custom`, `castOut_error_is_reject`, `ladder_error`
          (forward direction: the condition implies exactly that refusal);
          BOTH directions, as a total ordered case split over conditions on the state:
          `readLadder` + `readLadder_sound` / `readLadder_complete` / `read_error_iff`
          (+ `read_unknown_object_iff`, `read_unknown_property_iff`,
          `read_not_an_array_iff`, `read_invalid_array_index_iff`), hypothesis
          `deviceItemsOK` (invariant: `deviceItemsOK_preserved`);
          `writeLadder` + `writeLadder_spec` / `write_error_iff` / `write_ack_ladder`
          (+ `unknown_object_write_iff`, `write_unknown_property_iff`,
          `write_not_an_array_iff`, `write_reject_iff`, `objLadder_codes`) for the six
          answers incl. the datatype Reject and Commandable's priority checks,
          hypothesis `deviceOK` (invariant: `deviceOK_preserved`)
  * "Array properties answer index 0 with their length, indexes 1..n with the
    elements and anything else with an invalid-array-index error"
        → `array_index_classes`, `array_index_classes_propertyList`
  * "ReadPropertyMultiple returns, for each referenced property — including the
    'all', 'required' and 'optional' selectors — exactly what ReadProperty
    would return or an embedded error"
        → `rpm_equals_rp` (every element), `selector_ids`, `selects_partition`,
          `selector_nodup` (the selectors expand to the property sets of the
          table), `rpm_error_not_embeddable` (when the whole request fails),
          `rpmEncode_eq_rpEncode` (the two copies of the encoder in the library agree)
  * the quantifier "every registered object type's properties"
        → theorems are generic over the table; `generated_table_ok` shows the
          generated registry well-formed by kernel evaluation (`decide +kernel`);
          `fresh_object_reads_its_type`, `selector_nodup` use it

  Partial (see notes/C15.md): Python-level type checks are modelled by datatype
  tags; decoding of constructed values is C03's codec (its outcome is an input:
  `Wire.dec`); custom property classes are modelled one by one (list of what is
  outside the claim in notes/C15.md);
  vendor extensions are out of scope.
-/
import BacVerif.Model.Object
import BacVerif.Gen.Objects
namespace BacVerif.C15
open BacVerif BacVerif.Obj

/-! ## lookups -/

theorem findSlot_setSlot (pid : Nat) (v : PVal) (props : List Slot) (s : Slot)
    (h : findSlot pid props = some s) :
    findSlot pid (setSlot pid v props) = some { s with v := v } := by
  induction props with
  | nil => simp [findSlot] at h
  | cons x rest ih =>
    unfold findSlot at h
    unfold setSlot
    split at h
    · rename_i hx
      simp only [Option.some.injEq] at h
      subst h
      simp [hx, findSlot]
    · rename_i hx
      simp [hx, findSlot, ih h]

theorem findSlot_id (pid : Nat) (props : List Slot) (s : Slot)
    (h : findSlot pid props = some s) : s.d.id = pid := by
  induction props with
  | nil => simp [findSlot] at h
  | cons x rest ih =>
    unfold findSlot at h
    split at h
    · rename_i hx; simp only [Option.some.injEq] at h; subst h; exact hx
    · exact ih h

theorem findObj_setObj (oid : Oid) (o o' : Object) (objs : List (Oid × Object))
    (h : findObj oid objs = some o) : findObj oid (setObj oid o' objs) = some o' := by
  induction objs with
  | nil => simp [findObj] at h
  | cons x rest ih =>
    obtain ⟨k, x⟩ := x
    unfold findObj at h
    unfold setObj
    split at h
    · rename_i hx; simp [hx, findObj]
    · rename_i hx; simp [hx, findObj, ih h]

theorem setObj_self (oid : Oid) (o : Object) (objs : List (Oid × Object))
    (h : findObj oid objs = some o) : setObj oid o objs = objs := by
  induction objs with
  | nil => rfl
  | cons x rest ih =>
    obtain ⟨k, x⟩ := x
    unfold findObj at h
    unfold setObj
    split at h
    · rename_i hx; simp only [Option.some.injEq] at h; subst h; simp [hx]
    · rename_i hx; simp [hx, ih h]

/-! ## encoders -/

theorem encItems_map_enc (chunks : List (List Tag)) :
    encItems (chunks.map .enc) = .ok chunks.flatten := by
  induction chunks with
  | nil => rfl
  | cons c rest ih => simp [encItems, ih]

theorem castAtomSeq_enc (mk : Tag → Except Refusal Item)
    (hmk : ∀ t it, mk t = .ok it → it = .enc [t]) :
    ∀ (ts : List Tag) (its : List Item), castAtomSeq mk ts = .ok its → encItems its = .ok ts := by
  intro ts
  induction ts with
  | nil => intro its h; simp [castAtomSeq] at h; subst h; rfl
  | cons t rest ih =>
    intro its h
    unfold castAtomSeq at h
    split at h
    · simp at h
    · split at h
      · simp at h
      · rename_i it hit
        split at h
        · simp at h
        · rename_i its' hrest
          simp only [Except.ok.injEq] at h
          subst h
          have := hmk t it hit
          subst this
          simp [encItems, ih its' hrest]

theorem atomOfTag_enc (tag : Nat) (t : Tag) (it : Item) (h : atomOfTag tag t = .ok it) :
    it = .enc [t] := by
  unfold atomOfTag at h; split at h <;> simp_all

theorem anyAtomOfTag_enc (t : Tag) (it : Item) (h : anyAtomOfTag t = .ok it) : it = .enc [t] := by
  unfold anyAtomOfTag at h; split at h <;> simp_all

theorem castAtom_enc (mk : Tag → Except Refusal Item)
    (hmk : ∀ t it, mk t = .ok it → it = .enc [t]) (ts : List Tag) (it : Item)
    (h : castAtom mk ts = .ok it) : it = .enc ts := by
  match ts, h with
  | [t], h => simp only [castAtom] at h; exact hmk t it h


/-! ## what `cast_out` hands to `WriteProperty` -/

theorem castElem_one (e : ElemTy) (w : Wire) (v : WVal) (h : castElem e w = .ok v) :
    v = .one e (.enc w.tags) := by
  unfold castElem at h
  split at h
  · rename_i tag lo hi
    cases hc : castAtom (atomOfTag tag) w.tags with
    | error r => simp [hc, Except.map] at h
    | ok it =>
      have := castAtom_enc _ (atomOfTag_enc tag) _ _ hc
      simp [hc, Except.map] at h; subst h; subst this; rfl
  · cases hc : castAtom anyAtomOfTag w.tags with
    | error r => simp [hc, Except.map] at h
    | ok it =>
      have := castAtom_enc _ anyAtomOfTag_enc _ _ hc
      simp [hc, Except.map] at h; subst h; subst this; rfl
  · split at h
    · simp at h
    · simp at h; exact h.symm

theorem castSeq_many (e : ElemTy) (fixed : Option Nat) (w : Wire) (v : WVal)
    (h : castSeq e fixed w = .ok v) :
    ∃ its, v = .many e its ∧ encItems its = .ok w.tags ∧ (∀ n, fixed = some n → its.length = n) := by
  unfold castSeq at h
  simp only at h
  split at h
  · simp at h
  · rename_i its hits
    have henc : encItems its = .ok w.tags := by
      cases e with
      | atomic tag lo hi => exact castAtomSeq_enc _ (atomOfTag_enc tag) _ _ hits
      | anyAtomic => exact castAtomSeq_enc _ anyAtomOfTag_enc _ _ hits
      | cons ty =>
        simp only at hits
        split at hits
        · simp at hits
        · simp only [Except.ok.injEq] at hits
          subst hits
          exact encItems_map_enc _
    cases fixed with
    | none => simp at h; exact ⟨its, h.symm, henc, by simp⟩
    | some n =>
      simp only at h
      split at h
      · rename_i hl
        simp at h
        exact ⟨its, h.symm, henc, by intro m hm; simp at hm; omega⟩
      · simp at h


/-! ## write then read, at the level of one property slot -/

/-- what a read after an acknowledged write must show: the written tags; for
    index 0 the (canonically re-encoded) written count -/
def writtenView (idx : Option Nat) (w : Wire) : List Tag :=
  match idx with
  | some 0 =>
    match w.tags with
    | [t] => [appTag 2 (natOctets (beVal t.data))]
    | _ => []
  | _ => w.tags

theorem fixLength_length (its : List Item) (n : Nat) (dflt : Item) :
    (fixLength its n dflt).length = n := by
  unfold fixLength
  split
  · simp; omega
  · simp; omega

/-- `ArrayOf.fix_length` keeps the elements below the new length -/
theorem fixLength_getElem (its : List Item) (n : Nat) (dflt : Item) (k : Nat)
    (hk : k < n) (hk' : k < its.length) : (fixLength its n dflt)[k]? = its[k]? := by
  unfold fixLength
  split
  · simp [hk]
  · simp [List.getElem?_append_left hk']

theorem ladder_null (dt : DT) (idx : Option Nat) : ladder dt .null idx ≠ .ok () := by
  unfold ladder
  split
  · simp
  · cases dt <;> cases idx <;> simp

theorem castOut_null (dt : DT) (idx : Option Nat) (w : Wire) (h : isAppNull w.tags = true) :
    castOut dt idx w = .ok .null := by
  simp [castOut, h]

/-- the slot-level core of `write_then_read`: after `Property.WriteProperty`
    stored `nv`, `Property.ReadProperty` + the encoder of `do_ReadPropertyRequest`
    give back the written tags -/
theorem stdWrite_then_read (s : Slot) (w : Wire) (idx : Option Nat) (v : WVal) (nv : PVal)
    (hc : castOut s.d.dt idx w = .ok v) (hw : stdWrite s v idx = .ok nv) :
    ∃ rv, stdRead { s with v := nv } idx = .ok rv ∧
          rpEncode s.d.dt idx rv = .ok (writtenView idx w) := by
  unfold stdWrite at hw
  split at hw
  · simp at hw
  split at hw
  · simp at hw
  rename_i hlad
  -- the value is not Null: the ladder refuses `()` everywhere
  have hnull : isAppNull w.tags = false := by
    cases hn : isAppNull w.tags with
    | false => rfl
    | true =>
      rw [castOut_null _ _ _ hn] at hc
      simp only [Except.ok.injEq] at hc
      subst hc
      exact absurd hlad (ladder_null _ _)
  simp only [castOut, hnull, Bool.false_eq_true, ↓reduceIte] at hc
  unfold assign at hw
  cases hdt : s.d.dt with
  | scalar e =>
    simp only [hdt] at hc hw
    have hv := castElem_one _ _ _ hc
    subst hv
    cases idx with
    | some i => simp at hw
    | none =>
      simp at hw; subst hw
      refine ⟨.whole (.one (.enc w.tags)), ?_, ?_⟩
      · simp [stdRead]
      · simp [rpEncode, encItem, writtenView]
  | listOf e =>
    simp only [hdt] at hc hw
    obtain ⟨its, hv, henc, _⟩ := castSeq_many _ _ _ _ hc
    subst hv
    cases idx with
    | some i => simp at hw
    | none =>
      simp at hw; subst hw
      refine ⟨.whole (.lst its), ?_, ?_⟩
      · simp [stdRead]
      · simp [rpEncode, henc, writtenView]
  | arrayOf e fixed dflt =>
    simp only [hdt] at hc hw
    cases idx with
    | none =>
      simp only at hc
      obtain ⟨its, hv, henc, hfix⟩ := castSeq_many _ _ _ _ hc
      subst hv
      have hnv : nv = .arr its := by
        cases fixed with
        | none => simp at hw; exact hw.symm
        | some n => simp [hfix n rfl] at hw; exact hw.symm
      subst hnv
      refine ⟨.whole (.arr its), ?_, ?_⟩
      · simp [stdRead]
      · simp [rpEncode, henc, writtenView]
    | some i =>
      cases i with
      | zero =>
        simp only at hc
        have hv := castElem_one _ _ _ hc
        subst hv
        simp only at hw
        cases hold : s.v with
        | absent => simp [hold] at hw
        | one it => simp [hold] at hw
        | lst its => simp [hold] at hw
        | arr its =>
          simp only [hold] at hw
          unfold arraySet at hw
          simp only [Nat.not_lt_zero, ↓reduceIte] at hw
          cases hn : itemNat (.enc w.tags) with
          | none => simp [hn, Except.map] at hw
          | some n =>
            simp only [hn] at hw
            -- itemNat some: the tag list is a singleton
            have hsing : ∃ t, w.tags = [t] ∧ n = beVal t.data := by
              unfold itemNat at hn
              split at hn
              · rename_i t heq
                simp at heq hn
                exact ⟨t, heq, hn.symm⟩
              · simp at hn
            obtain ⟨t, ht, hnt⟩ := hsing
            have hlen : ∃ its', nv = .arr its' ∧ its'.length = n := by
              cases fixed with
              | none =>
                simp [Except.map] at hw
                exact ⟨_, hw.symm, fixLength_length _ _ _⟩
              | some m =>
                simp only at hw
                split at hw
                · rename_i heq
                  simp [Except.map] at hw
                  exact ⟨_, hw.symm, heq.symm⟩
                · simp [Except.map] at hw
            obtain ⟨its', hnv, hl⟩ := hlen
            subst hnv
            refine ⟨.len its'.length, ?_, ?_⟩
            · simp [stdRead, hdt, DT.isArray, arrayGet]
            · simp [rpEncode, encItem, unsignedItem, writtenView, ht, hl, hnt]
      | succ k =>
        simp only at hc
        have hv := castElem_one _ _ _ hc
        subst hv
        simp only at hw
        cases hold : s.v with
        | absent => simp [hold] at hw
        | one it => simp [hold] at hw
        | lst its => simp [hold] at hw
        | arr its =>
          simp only [hold] at hw
          unfold arraySet at hw
          split at hw
          · simp [Except.map] at hw
          · rename_i hle
            simp [Except.map] at hw
            subst hw
            refine ⟨.elem (.enc w.tags), ?_, ?_⟩
            · have hk : k < its.length := by omega
              simp [stdRead, hdt, DT.isArray, arrayGet, hle, hk]
            · simp [rpEncode, encItem, writtenView]


/-- `WriteableObjectName`: writing the name the object already has is
    acknowledged without a write; the read still shows the written value -/
theorem same_value_read (s : Slot) (w : Wire) (idx : Option Nat) (e' : ElemTy) (it : Item) (rv : RVal)
    (hc : castOut s.d.dt idx w = .ok (.one e' it)) (hsame : s.v = .one it)
    (hr : stdRead s idx = .ok rv) :
    rpEncode s.d.dt idx rv = .ok (writtenView idx w) := by
  have hnull : isAppNull w.tags = false := by
    cases hn : isAppNull w.tags with
    | false => rfl
    | true => rw [castOut_null _ _ _ hn] at hc; simp at hc
  simp only [castOut, hnull, Bool.false_eq_true, ↓reduceIte] at hc
  cases hdt : s.d.dt with
  | scalar e =>
    simp only [hdt] at hc
    have hv := castElem_one _ _ _ hc
    simp only [WVal.one.injEq] at hv
    obtain ⟨_, hit⟩ := hv
    cases idx with
    | some i => simp [stdRead, hdt, DT.isArray] at hr
    | none =>
      simp [stdRead, hsame] at hr
      subst hr; subst hit
      simp [rpEncode, encItem, writtenView]
  | listOf e =>
    simp only [hdt] at hc
    obtain ⟨its, hv, _, _⟩ := castSeq_many _ _ _ _ hc
    simp at hv
  | arrayOf e fixed dflt =>
    simp only [hdt] at hc
    cases idx with
    | none =>
      simp only at hc
      obtain ⟨its, hv, _, _⟩ := castSeq_many _ _ _ _ hc
      simp at hv
    | some i => simp [stdRead, hdt, DT.isArray, hsame] at hr

/-- the serving classes whose reads go through `Property.ReadProperty` -/
theorem propRead_eq_stdRead (o : Object) (s : Slot) (idx : Option Nat)
    (h : s.d.custom = .std ∨ s.d.custom = .objId ∨ s.d.custom = .wrName) :
    propRead o s idx = stdRead s idx := by
  unfold propRead
  rcases h with h | h | h <;> simp [h]

theorem map_some_ok {x : Except Refusal PVal} {res : Option PVal} (h : x.map some = .ok res) :
    ∃ nv, res = some nv ∧ x = .ok nv := by
  cases x with
  | error r => simp [Except.map] at h
  | ok nv => simp [Except.map] at h; exact ⟨nv, h.symm, rfl⟩

/-- what an acknowledged `prop.WriteProperty` did -/
theorem propWrite_ok (d : Device) (o : Object) (s : Slot) (v : WVal) (idx : Option Nat)
    (res : Option PVal) (h : propWrite d o s v idx = .ok res) :
    (s.d.custom = .std ∨ s.d.custom = .objId ∨ s.d.custom = .wrName) ∧
    ((∃ nv, res = some nv ∧ stdWrite s v idx = .ok nv) ∨
     (res = none ∧ ∃ e' it, v = .one e' it ∧ s.v = .one it)) := by
  unfold propWrite at h
  split at h
  · simp at h
  · simp at h
  · rename_i hcu
    refine ⟨Or.inr (Or.inl hcu), ?_⟩
    split at h
    · simp at h
    · split at h
      · split at h
        · split at h
          · exact Or.inl (map_some_ok h)
          · simp at h
        · simp at h
      · simp at h
  · rename_i hcu
    refine ⟨Or.inr (Or.inr hcu), ?_⟩
    split at h
    · rename_i e' it
      split at h
      · rename_i hsame
        simp at h
        exact Or.inr ⟨h.symm, e', it, rfl, hsame⟩
      · split at h
        · simp at h
        · exact Or.inl (map_some_ok h)
    · exact Or.inl (map_some_ok h)
  · rename_i hcu
    exact ⟨Or.inl hcu, Or.inl (map_some_ok h)⟩


/-! ## the service level -/

theorem resolveOid_of_ne (d : Device) (oid : Oid) (h : oid ≠ (otDevice, wildcardInstance)) :
    resolveOid d oid = oid := by
  simp [resolveOid, h]

/-- `objWritePlain` either refuses and returns the object untouched, or
    acknowledges after at most one assignment -/
theorem objWritePlain_cases (d : Device) (o : Object) (pid : Nat) (v : WVal) (idx : Option Nat) :
    (∃ r, objWritePlain d o pid v idx = (o, .error r)) ∨
    (∃ s, findSlot pid o.props = some s ∧
      ((propWrite d o s v idx = .ok none ∧ objWritePlain d o pid v idx = (o, .ok ())) ∨
       (∃ nv, propWrite d o s v idx = .ok (some nv) ∧
          objWritePlain d o pid v idx = ({ o with props := setSlot pid nv o.props }, .ok ())))) := by
  unfold objWritePlain
  cases hs : findSlot pid o.props with
  | none => exact Or.inl ⟨_, rfl⟩
  | some s =>
    cases hp : propWrite d o s v idx with
    | error r => exact Or.inl ⟨r, by simp [hp]⟩
    | ok res =>
      cases res with
      | none => exact Or.inr ⟨s, rfl, Or.inl ⟨hp, by simp [hp]⟩⟩
      | some nv => exact Or.inr ⟨s, rfl, Or.inr ⟨nv, hp, by simp [hp]⟩⟩

/-- **write_then_read** (objects without the Commandable mix-in).
    After `do_WritePropertyRequest` answered SimpleAck, `do_ReadPropertyRequest`
    of the same object, property and array index answers with the written
    value: the written tags for a whole property or an element, the written
    count (canonically encoded) for index 0. -/
theorem write_then_read (d d' : Device) (r : WriteReq) (o : Object)
    (hobj : findObj r.oid d.objs = some o) (hplain : o.cmd = none)
    (hwild : r.oid ≠ (otDevice, wildcardInstance))
    (hack : writeService d r = (d', .ok ())) :
    readService d' r.oid r.pid r.idx = .ok (writtenView r.idx r.value) := by
  unfold writeService at hack
  simp only [hobj] at hack
  cases hpre : objRead o r.pid r.idx with
  | error e => simp [hpre] at hack
  | ok rv0 =>
    simp only [hpre] at hack
    cases hs : findSlot r.pid o.props with
    | none => cases rv0 <;> simp [hs] at hack
    | some s =>
      cases hc : castOut s.d.dt r.idx r.value with
      | error e => cases rv0 <;> simp [hs, hc] at hack
      | ok v =>
        have hrv0 : rv0 ≠ .none := by
          intro h; subst h; simp at hack
        have hack' : ({ d with objs := setObj r.oid (objWrite d o r.pid v r.idx r.prio).1 d.objs },
                      (objWrite d o r.pid v r.idx r.prio).2) = (d', Except.ok ()) := by
          cases rv0 <;> simp_all
        simp only [Prod.mk.injEq] at hack'
        obtain ⟨hd', hres⟩ := hack'
        have how : objWrite d o r.pid v r.idx r.prio = objWritePlain d o r.pid v r.idx := by
          simp [objWrite, hplain]
        rw [how] at hd' hres
        -- the pre-read went through the same slot
        have hpre' : propRead o s r.idx = .ok rv0 := by
          simpa [objRead, hs] using hpre
        subst hd'
        unfold readService
        rw [resolveOid_of_ne _ _ hwild]
        simp only [findObj_setObj _ _ _ _ hobj]
        rcases objWritePlain_cases d o r.pid v r.idx with ⟨e, he⟩ | ⟨s', hs', hcase⟩
        · rw [he] at hres; simp at hres
        · rw [hs] at hs'
          simp only [Option.some.injEq] at hs'
          subst hs'
          rcases hcase with ⟨hpw, hobjw⟩ | ⟨nv, hpw, hobjw⟩
          · -- acknowledged without a write (same object name)
            rw [hobjw]
            simp only [hs]
            obtain ⟨hcu, hwhat⟩ := propWrite_ok _ _ _ _ _ _ hpw
            rcases hwhat with ⟨nv, hnv, _⟩ | ⟨_, e', it, hv, hsame⟩
            · simp at hnv
            · subst hv
              rw [propRead_eq_stdRead _ _ _ hcu] at hpre' ⊢
              simp only [hpre']
              exact same_value_read s r.value r.idx e' it rv0 hc hsame hpre'
          · rw [hobjw]
            simp only [findSlot_setSlot _ _ _ _ hs]
            obtain ⟨hcu, hwhat⟩ := propWrite_ok _ _ _ _ _ _ hpw
            rcases hwhat with ⟨nv', hnv, hw⟩ | ⟨hnone, _⟩
            · simp only [Option.some.injEq] at hnv
              subst hnv
              obtain ⟨rv, hrd, henc⟩ := stdWrite_then_read s r.value r.idx v nv hc hw
              have hcu' : ({ s with v := nv } : Slot).d.custom = .std ∨
                  ({ s with v := nv } : Slot).d.custom = .objId ∨
                  ({ s with v := nv } : Slot).d.custom = .wrName := hcu
              rw [propRead_eq_stdRead _ _ _ hcu']
              simp only [hrd]
              exact henc
            · simp at hnone

/-- **refused_write_pure** (objects without the Commandable mix-in): whatever
    the refusal, the device is exactly as before.  No hypothesis on the
    request or on the state. -/
theorem refused_write_pure (d : Device) (r : WriteReq) (e : Refusal)
    (hplain : ∀ o, findObj r.oid d.objs = some o → o.cmd = none)
    (href : (writeService d r).2 = .error e) :
    (writeService d r).1 = d := by
  unfold writeService at href ⊢
  cases hobj : findObj r.oid d.objs with
  | none => simp
  | some o =>
    simp only [hobj] at href ⊢
    cases hpre : objRead o r.pid r.idx with
    | error e' => simp
    | ok rv0 =>
      cases rv0 with
      | none => simp
      | whole _ | len _ | elem _ =>
        simp only [hpre] at href ⊢
        cases hs : findSlot r.pid o.props with
        | none => simp
        | some s =>
          simp only [hs] at href ⊢
          cases hc : castOut s.d.dt r.idx r.value with
          | error e' => simp
          | ok v =>
            simp only [hc] at href ⊢
            have how : objWrite d o r.pid v r.idx r.prio = objWritePlain d o r.pid v r.idx := by
              simp [objWrite, hplain o hobj]
            rw [how] at href ⊢
            rcases objWritePlain_cases d o r.pid v r.idx with ⟨e', he⟩ | ⟨s', _, hcase⟩
            · rw [he]
              simp [setObj_self _ _ _ hobj]
            · rcases hcase with ⟨_, hobjw⟩ | ⟨nv, _, hobjw⟩ <;> (rw [hobjw] at href; simp at href)


/-! ## error_matches: each refusal is returned under its stated condition -/

/-- the property classes whose reads and writes go through `Property.ReadProperty` -/
def isStd (c : Custom) : Prop := c = .std ∨ c = .objId ∨ c = .wrName

theorem unknown_object_read (d : Device) (oid : Oid) (pid : Nat) (idx : Option Nat)
    (h : findObj (resolveOid d oid) d.objs = none) :
    readService d oid pid idx = .error .unknownObject := by
  simp [readService, h]

theorem unknown_object_write (d : Device) (r : WriteReq) (h : findObj r.oid d.objs = none) :
    writeService d r = (d, .error .unknownObject) := by
  simp [writeService, h]

theorem unknown_property_read (d : Device) (oid : Oid) (pid : Nat) (idx : Option Nat) (o : Object)
    (ho : findObj (resolveOid d oid) d.objs = some o) (hs : findSlot pid o.props = none) :
    readService d oid pid idx = .error .unknownProperty := by
  simp [readService, ho, hs]

theorem unknown_property_write (d : Device) (r : WriteReq) (o : Object)
    (ho : findObj r.oid d.objs = some o) (hs : findSlot r.pid o.props = none) :
    writeService d r = (d, .error .unknownProperty) := by
  simp [writeService, ho, objRead, hs]

/-- a property of the table that has no value is "unknown" too (read) -/
theorem absent_property_read (d : Device) (oid : Oid) (pid : Nat) (idx : Option Nat) (o : Object) (s : Slot)
    (ho : findObj (resolveOid d oid) d.objs = some o) (hs : findSlot pid o.props = some s)
    (hc : isStd s.d.custom) (habs : s.v = .absent) (hidx : idx = none ∨ s.d.dt.isArray = true) :
    readService d oid pid idx = .error .unknownProperty := by
  simp only [readService, ho, hs, propRead_eq_stdRead _ _ _ hc]
  rcases hidx with h | h
  · subst h; simp [stdRead, habs, rpEncode]
  · cases idx <;> simp [stdRead, habs, rpEncode, h]

theorem absent_property_write (d : Device) (r : WriteReq) (o : Object) (s : Slot)
    (ho : findObj r.oid d.objs = some o) (hs : findSlot r.pid o.props = some s)
    (hc : isStd s.d.custom) (habs : s.v = .absent) (hidx : r.idx = none ∨ s.d.dt.isArray = true) :
    writeService d r = (d, .error .unknownProperty) := by
  simp only [writeService, ho, objRead, hs, propRead_eq_stdRead _ _ _ hc]
  rcases hidx with h | h
  · simp [h, stdRead, habs]
  · cases hi : r.idx <;> simp [stdRead, habs, h]

theorem propRead_not_array (o : Object) (s : Slot) (i : Nat)
    (hc : s.d.custom ≠ .propList) (hna : s.d.dt.isArray = false) :
    propRead o s (some i) = .error .notAnArray := by
  unfold propRead
  cases hcu : s.d.custom with
  | propList => exact absurd hcu hc
  | computed v => simp
  | std => simp [stdRead, hna]
  | objId => simp [stdRead, hna]
  | wrName => simp [stdRead, hna]

/-- an array index on a property that is not an array (read) -/
theorem not_an_array_read (d : Device) (oid : Oid) (pid i : Nat) (o : Object) (s : Slot)
    (ho : findObj (resolveOid d oid) d.objs = some o) (hs : findSlot pid o.props = some s)
    (hc : s.d.custom ≠ .propList) (hna : s.d.dt.isArray = false) :
    readService d oid pid (some i) = .error .notAnArray := by
  simp [readService, ho, hs, propRead_not_array o s i hc hna]

theorem not_an_array_write (d : Device) (r : WriteReq) (i : Nat) (o : Object) (s : Slot)
    (ho : findObj r.oid d.objs = some o) (hs : findSlot r.pid o.props = some s)
    (hi : r.idx = some i) (hc : s.d.custom ≠ .propList) (hna : s.d.dt.isArray = false) :
    writeService d r = (d, .error .notAnArray) := by
  simp [writeService, ho, objRead, hs, hi, propRead_not_array o s i hc hna]

/-- an index beyond the current length (read) -/
theorem invalid_array_index_read (d : Device) (oid : Oid) (pid i : Nat) (o : Object) (s : Slot)
    (its : List Item)
    (ho : findObj (resolveOid d oid) d.objs = some o) (hs : findSlot pid o.props = some s)
    (hc : isStd s.d.custom) (harr : s.d.dt.isArray = true) (hv : s.v = .arr its)
    (hi : i > its.length) :
    readService d oid pid (some i) = .error .invalidArrayIndex := by
  simp [readService, ho, hs, propRead_eq_stdRead _ _ _ hc, stdRead, harr, hv, arrayGet, hi]

theorem invalid_array_index_write (d : Device) (r : WriteReq) (i : Nat) (o : Object) (s : Slot)
    (its : List Item)
    (ho : findObj r.oid d.objs = some o) (hs : findSlot r.pid o.props = some s)
    (hidx : r.idx = some i)
    (hc : isStd s.d.custom) (harr : s.d.dt.isArray = true) (hv : s.v = .arr its)
    (hi : i > its.length) :
    writeService d r = (d, .error .invalidArrayIndex) := by
  simp [writeService, ho, objRead, hs, hidx, propRead_eq_stdRead _ _ _ hc, stdRead, harr, hv,
    arrayGet, hi]

/-- a value that does not decode as the datatype of the property is refused
    with a Reject — never acknowledged, never "operational problem" -/
theorem castOut_error_is_reject (dt : DT) (idx : Option Nat) (w : Wire) (e : Refusal)
    (h : castOut dt idx w = .error e) : ∃ n, e = .reject n := by
  have hAtom : ∀ (mk : Tag → Except Refusal Item),
      (∀ t e, mk t = .error e → ∃ n, e = .reject n) →
      ∀ ts e, castAtom mk ts = .error e → ∃ n, e = .reject n := by
    intro mk hmk ts e h
    unfold castAtom at h
    split at h
    · simp [decodeFailure] at h; exact ⟨_, h.symm⟩
    · exact hmk _ _ h
    · simp [decodeFailure] at h; exact ⟨_, h.symm⟩
  have hSeq : ∀ (mk : Tag → Except Refusal Item),
      (∀ t e, mk t = .error e → ∃ n, e = .reject n) →
      ∀ ts e, castAtomSeq mk ts = .error e → ∃ n, e = .reject n := by
    intro mk hmk ts
    induction ts with
    | nil => intro e h; simp [castAtomSeq] at h
    | cons t rest ih =>
      intro e h
      unfold castAtomSeq at h
      split at h
      · simp [decodeFailure] at h; exact ⟨_, h.symm⟩
      · split at h
        · rename_i r hr; simp at h; subst h; exact hmk _ _ hr
        · split at h
          · rename_i r hr; simp at h; subst h; exact ih _ hr
          · simp at h
  have hA : ∀ tag t e, atomOfTag tag t = .error e → ∃ n, e = .reject n := by
    intro tag t e h; unfold atomOfTag at h; split at h <;> simp at h; exact ⟨_, h.symm⟩
  have hB : ∀ t e, anyAtomOfTag t = .error e → ∃ n, e = .reject n := by
    intro t e h; unfold anyAtomOfTag at h; split at h <;> simp [decodeFailure] at h; exact ⟨_, h.symm⟩
  have hDec : ∀ dc r, decRefusal dc = some r → ∃ n, r = .reject n := by
    intro dc r h
    cases dc <;> simp [decRefusal, decodeFailure] at h
    · exact ⟨_, h.symm⟩
    · exact ⟨_, h.symm⟩
  have hElem : ∀ el e, castElem el w = .error e → ∃ n, e = .reject n := by
    intro el e h
    unfold castElem at h
    split at h
    · rename_i tag _ _
      cases hc : castAtom (atomOfTag tag) w.tags with
      | error r => simp [hc, Except.map] at h; subst h; exact hAtom _ (hA tag) _ _ hc
      | ok it => simp [hc, Except.map] at h
    · cases hc : castAtom anyAtomOfTag w.tags with
      | error r => simp [hc, Except.map] at h; subst h; exact hAtom _ hB _ _ hc
      | ok it => simp [hc, Except.map] at h
    · split at h
      · rename_i r hr; simp at h; subst h; exact hDec _ _ hr
      · simp at h
  have hS : ∀ el fixed e, castSeq el fixed w = .error e → ∃ n, e = .reject n := by
    intro el fixed e h
    unfold castSeq at h
    simp only at h
    split at h
    · rename_i r hr
      simp at h; subst h
      cases el with
      | atomic tag lo hi => exact hSeq _ (hA tag) _ _ hr
      | anyAtomic => exact hSeq _ hB _ _ hr
      | cons ty =>
        simp only at hr
        split at hr
        · rename_i r' hr'; simp at hr; subst hr; exact hDec _ _ hr'
        · simp at hr
    · cases fixed with
      | none => simp at h
      | some n =>
        simp only at h
        split at h
        · simp at h
        · simp [decodeFailure] at h; exact ⟨_, h.symm⟩
  unfold castOut at h
  split at h
  · simp at h
  · split at h
    · exact hElem _ _ h
    · exact hElem _ _ h
    · exact hS _ _ _ h
    · exact hS _ _ _ h
    · exact hElem _ _ h

/-- the validation ladder refuses with Reject(invalid-parameter-datatype) or,
    for an index on a list, property-is-not-an-array -/
theorem ladder_error (dt : DT) (v : WVal) (idx : Option Nat) (e : Refusal)
    (h : ladder dt v idx = .error e) : e = invalidDatatype ∨ e = .notAnArray := by
  unfold ladder at h
  repeat' split at h
  all_goals first
    | (simp at h; exact Or.inl h.symm)
    | (simp at h; exact Or.inr h.symm)
    | simp at h

/-- a write to a property that is not mutable is refused with
    write-access-denied, whatever the (decodable) value -/
theorem write_access_denied (d : Device) (r : WriteReq) (o : Object) (s : Slot) (v : WVal) (rv : RVal)
    (ho : findObj r.oid d.objs = some o) (hplain : o.cmd = none)
    (hs : findSlot r.pid o.props = some s)
    (hc : s.d.custom = .std ∨ s.d.custom = .objId)
    (hpre : propRead o s r.idx = .ok rv) (hrv : rv ≠ .none)          -- present, index in range
    (hdec : castOut s.d.dt r.idx r.value = .ok v)                      -- the value decodes
    (hro : s.d.mutable = false) :
    writeService d r = (d, .error .writeAccessDenied) := by
  have h1 : objRead o r.pid r.idx = .ok rv := by simp [objRead, hs, hpre]
  have h2 : objWrite d o r.pid v r.idx r.prio = (o, .error .writeAccessDenied) := by
    simp only [objWrite, hplain, objWritePlain, hs]
    have : propWrite d o s v r.idx = .error .writeAccessDenied := by
      rcases hc with hc | hc
      · simp [propWrite, hc, stdWrite, hro, Except.map]
      · simp [propWrite, hc, hro]
    simp [this]
  cases rv with
  | none => exact absurd rfl hrv
  | whole _ | len _ | elem _ =>
    simp [writeService, ho, h1, hs, hdec, h2, setObj_self _ _ _ ho]

/-- the serving classes that never accept a write -/
theorem write_access_denied_custom (d : Device) (r : WriteReq) (o : Object) (s : Slot) (v : WVal) (rv : RVal)
    (ho : findObj r.oid d.objs = some o) (hplain : o.cmd = none)
    (hs : findSlot r.pid o.props = some s)
    (hc : s.d.custom = .propList ∨ ∃ val, s.d.custom = .computed val)
    (hpre : propRead o s r.idx = .ok rv) (hrv : rv ≠ .none)
    (hdec : castOut s.d.dt r.idx r.value = .ok v) :
    writeService d r = (d, .error .writeAccessDenied) := by
  have h1 : objRead o r.pid r.idx = .ok rv := by simp [objRead, hs, hpre]
  have h2 : objWrite d o r.pid v r.idx r.prio = (o, .error .writeAccessDenied) := by
    simp only [objWrite, hplain, objWritePlain, hs]
    have : propWrite d o s v r.idx = .error .writeAccessDenied := by
      rcases hc with hc | ⟨val, hc⟩ <;> simp [propWrite, hc]
    simp [this]
  cases rv with
  | none => exact absurd rfl hrv
  | whole _ | len _ | elem _ =>
    simp [writeService, ho, h1, hs, hdec, h2, setObj_self _ _ _ ho]


/-! ## array_index_classes -/

/-- **array_index_classes** for an array property served by `Property.ReadProperty`:
    index 0 answers the length, indexes 1..n the elements, anything else
    invalid-array-index. -/
theorem array_index_classes (d : Device) (oid : Oid) (pid : Nat) (o : Object) (s : Slot)
    (its : List Item)
    (ho : findObj (resolveOid d oid) d.objs = some o) (hs : findSlot pid o.props = some s)
    (hc : isStd s.d.custom) (harr : s.d.dt.isArray = true) (hv : s.v = .arr its) :
    readService d oid pid (some 0) = .ok [appTag 2 (natOctets its.length)] ∧
    (∀ i (h1 : 1 ≤ i) (h2 : i ≤ its.length),
        readService d oid pid (some i) = encItem (its[i - 1]'(by omega))) ∧
    (∀ i, i > its.length → readService d oid pid (some i) = .error .invalidArrayIndex) := by
  refine ⟨?_, ?_, ?_⟩
  · simp [readService, ho, hs, propRead_eq_stdRead _ _ _ hc, stdRead, harr, hv, arrayGet, rpEncode,
      encItem, unsignedItem]
  · intro i h1 h2
    have hk : i - 1 < its.length := by omega
    have hne : i ≠ 0 := by omega
    have hnl : ¬ i > its.length := by omega
    simp [readService, ho, hs, propRead_eq_stdRead _ _ _ hc, stdRead, harr, hv, arrayGet, rpEncode,
      hne, hnl, List.getElem?_eq_getElem hk]
  · intro i hi
    exact invalid_array_index_read d oid pid i o s its ho hs hc harr hv hi

/-- the same three classes for `CurrentPropertyList` (the computed propertyList) -/
theorem array_index_classes_propertyList (d : Device) (oid : Oid) (pid : Nat) (o : Object) (s : Slot)
    (ho : findObj (resolveOid d oid) d.objs = some o) (hs : findSlot pid o.props = some s)
    (hc : s.d.custom = .propList) :
    let ids := (listedProps o.props).map fun p => enumItem p.id
    readService d oid pid (some 0) = .ok [appTag 2 (natOctets ids.length)] ∧
    (∀ i (h1 : 1 ≤ i) (h2 : i ≤ ids.length),
        readService d oid pid (some i) = encItem (ids[i - 1]'(by omega))) ∧
    (∀ i, i > ids.length → readService d oid pid (some i) = .error .invalidArrayIndex) := by
  intro ids
  refine ⟨?_, ?_, ?_⟩
  · simp [readService, ho, hs, propRead, hc, propListRead, rpEncode, encItem, unsignedItem, ids]
  · intro i h1 h2
    have hk : i - 1 < ids.length := by omega
    have hne : i ≠ 0 := by omega
    have hnl : ¬ i > ids.length := by omega
    have hnl' : ¬ (listedProps o.props).length < i := by simpa [ids] using hnl
    have hk' : i - 1 < (listedProps o.props).length := by simpa [ids] using hk
    simp [readService, ho, hs, propRead, hc, propListRead, rpEncode, hne, hnl', ids,
      List.getElem?_eq_getElem hk']
  · intro i hi
    have hne : i ≠ 0 := by omega
    have hi' : (listedProps o.props).length < i := by simpa [ids] using hi
    simp [readService, ho, hs, propRead, hc, propListRead, hne, hi']


/-! ## rpm_equals_rp -/

/-- which kind of value `prop.ReadProperty` returns for which index -/
def shapeOK (idx : Option Nat) : RVal → Prop
  | .none => True
  | .whole _ => idx = none
  | .len _ => idx = some 0
  | .elem _ => ∃ i, idx = some i

theorem arrayGet_shape (its : List Item) (i : Nat) (rv : RVal) (h : arrayGet its i = .ok rv) :
    shapeOK (some i) rv := by
  unfold arrayGet at h
  split at h
  · simp at h
  · split at h
    · rename_i h0; simp at h; subst h; simp [shapeOK, h0]
    · split at h <;> simp at h
      subst h; exact ⟨i, rfl⟩

theorem stdRead_shape (s : Slot) (idx : Option Nat) (rv : RVal) (h : stdRead s idx = .ok rv) :
    shapeOK idx rv := by
  unfold stdRead at h
  cases idx with
  | none =>
    simp only at h
    split at h <;> (simp at h; subst h; simp [shapeOK])
  | some i =>
    simp only at h
    split at h
    · simp at h
    · split at h
      · simp at h; subst h; trivial
      · exact arrayGet_shape _ _ _ h
      · simp at h

theorem propRead_shape (o : Object) (s : Slot) (idx : Option Nat) (rv : RVal)
    (h : propRead o s idx = .ok rv) : shapeOK idx rv := by
  unfold propRead at h
  split at h
  · -- CurrentPropertyList
    unfold propListRead at h
    cases idx with
    | none => simp at h; subst h; rfl
    | some i =>
      simp only at h
      split at h
      · rename_i h0; simp at h; subst h; simp [shapeOK, h0]
      · split at h
        · simp at h
        · split at h <;> simp at h
          subst h; exact ⟨i, rfl⟩
  · cases idx with
    | none => simp at h; subst h; rfl
    | some i => simp at h
  · exact stdRead_shape s idx rv h

/-- the two copies of the "make it encodeable" code agree on everything
    `ReadProperty` can return -/
theorem rpmEncode_eq_rpEncode (o : Object) (s : Slot) (idx : Option Nat) (rv : RVal)
    (h : propRead o s idx = .ok rv) : rpmEncode s.d.dt idx rv = rpEncode s.d.dt idx rv := by
  have hsh := propRead_shape o s idx rv h
  cases rv with
  | none => rfl
  | len n => simp only [shapeOK] at hsh; subst hsh; simp [rpmEncode, rpEncode]
  | elem it => simp only [shapeOK] at hsh; obtain ⟨i, hi⟩ := hsh; subst hi; simp [rpmEncode, rpEncode]
  | whole v =>
    simp only [shapeOK] at hsh; subst hsh
    unfold rpmEncode rpEncode
    cases s.d.dt <;> cases v <;> simp

/-- the part of `do_ReadPropertyRequest` after the object was found -/
def readObject (o : Object) (pid : Nat) (idx : Option Nat) : Except Refusal (List Tag) :=
  match findSlot pid o.props with
  | none => .error .unknownProperty
  | some s =>
    match propRead o s idx with
    | .error r => .error r
    | .ok rv => rpEncode s.d.dt idx rv

theorem readService_eq (d : Device) (oid : Oid) (pid : Nat) (idx : Option Nat) :
    readService d oid pid idx =
      match findObj (resolveOid d oid) d.objs with
      | none => .error .unknownObject
      | some o => readObject o pid idx := by
  unfold readService readObject
  rfl

/-- `read_property_to_any` computes what `do_ReadPropertyRequest` computes -/
theorem readToAny_eq (o : Object) (pid : Nat) (idx : Option Nat) :
    readToAny o pid idx = readObject o pid idx := by
  unfold readToAny readObject
  cases hs : findSlot pid o.props with
  | none => rfl
  | some s =>
    cases hp : propRead o s idx with
    | error r => simp [hp]
    | ok rv => simp [hp, rpmEncode_eq_rpEncode o s idx rv hp]

theorem resolveOid_idem (d : Device) (oid : Oid) : resolveOid d (resolveOid d oid) = resolveOid d oid := by
  unfold resolveOid
  by_cases h : oid = (otDevice, wildcardInstance)
  · subst h
    cases hl : d.localDev with
    | none => simp
    | some l =>
      simp only [↓reduceIte]
      split <;> rfl
  · simp [h]

/-- an element of a ReadPropertyMultiple answer says what ReadProperty answers
    for the same object, property and index: the same value tags, or the same
    error -/
def ElemAgrees (d : Device) (oid : Oid) (e : RElem) : Prop :=
  match e.res with
  | .val t => readService d oid e.pid e.idx = .ok t
  | .err r => readService d oid e.pid e.idx = .error r

theorem readToElem_agrees (d : Device) (oid : Oid) (pid : Nat) (idx : Option Nat) (e : RElem)
    (h : readToElem (findObj (resolveOid d oid) d.objs) pid idx = .ok e) :
    e.pid = pid ∧ e.idx = idx ∧ ElemAgrees d oid e := by
  unfold readToElem at h
  cases ho : findObj (resolveOid d oid) d.objs with
  | none =>
    simp [ho] at h; subst h
    simp [ElemAgrees, readService_eq, ho]
  | some o =>
    simp only [ho, readToAny_eq] at h
    cases hr : readObject o pid idx with
    | ok tags =>
      simp [hr] at h; subst h
      simp [ElemAgrees, readService_eq, ho, hr]
    | error r =>
      simp only [hr] at h
      split at h
      · simp at h; subst h
        simp [ElemAgrees, readService_eq, ho, hr]
      · simp at h

/-- a read that cannot be embedded fails the whole request with the very
    refusal ReadProperty gives -/
theorem readToElem_error (d : Device) (oid : Oid) (pid : Nat) (idx : Option Nat) (r : Refusal)
    (h : readToElem (findObj (resolveOid d oid) d.objs) pid idx = .error r) :
    r.isExec = false ∧ readService d oid pid idx = .error r := by
  unfold readToElem at h
  cases ho : findObj (resolveOid d oid) d.objs with
  | none => simp [ho] at h
  | some o =>
    simp only [ho, readToAny_eq] at h
    cases hr : readObject o pid idx with
    | ok tags => simp [hr] at h
    | error r' =>
      simp only [hr] at h
      split at h
      · simp at h
      · rename_i hne
        simp at h; subst h
        exact ⟨by simpa using hne, by simp [readService_eq, ho, hr]⟩

theorem expandSel_agrees (d : Device) (oid : Oid) (o : Object) (sel : Nat) (idx : Option Nat)
    (ho : findObj (resolveOid d oid) d.objs = some o) :
    ∀ (props : List Slot) (es : List RElem), expandSel o sel idx props = .ok es →
      ∀ e ∈ es, e.idx = idx ∧ ElemAgrees d oid e := by
  intro props
  induction props with
  | nil => intro es h; simp [expandSel] at h; subst h; simp
  | cons s rest ih =>
    intro es h
    unfold expandSel at h
    split at h
    · cases he : readToElem (some o) s.d.id idx with
      | error r => simp [he] at h
      | ok e0 =>
        simp only [he] at h
        cases hrest : expandSel o sel idx rest with
        | error r => simp [hrest] at h
        | ok es' =>
          simp only [hrest] at h
          have h0 := readToElem_agrees d oid s.d.id idx e0 (by rw [ho]; exact he)
          split at h
          · simp at h; subst h; exact ih es' hrest
          · simp at h; subst h
            intro e hmem
            simp only [List.mem_cons] at hmem
            rcases hmem with rfl | hmem
            · exact ⟨h0.2.1, h0.2.2⟩
            · exact ih es' hrest e hmem
    · exact ih es h

theorem rpmRef_agrees (d : Device) (oid : Oid) (r : PropRef) (es : List RElem)
    (h : rpmRef (findObj (resolveOid d oid) d.objs) r = .ok es) :
    ∀ e ∈ es, e.idx = r.idx ∧ ElemAgrees d oid e := by
  unfold rpmRef at h
  split at h
  · cases ho : findObj (resolveOid d oid) d.objs with
    | none =>
      simp [ho] at h; subst h
      intro e hmem
      simp at hmem; subst hmem
      simp [ElemAgrees, readService_eq, ho]
    | some o =>
      simp only [ho] at h
      exact expandSel_agrees d oid o r.pid r.idx ho _ _ h
  · cases he : readToElem (findObj (resolveOid d oid) d.objs) r.pid r.idx with
    | error e => simp [he] at h
    | ok e0 =>
      simp [he] at h; subst h
      have := readToElem_agrees d oid r.pid r.idx e0 he
      intro e hmem
      simp at hmem; subst hmem
      exact ⟨this.2.1, this.2.2⟩

theorem rpmRefs_agrees (d : Device) (oid : Oid) :
    ∀ (refs : List PropRef) (es : List RElem),
      rpmRefs (findObj (resolveOid d oid) d.objs) refs = .ok es → ∀ e ∈ es, ElemAgrees d oid e := by
  intro refs
  induction refs with
  | nil => intro es h; simp [rpmRefs] at h; subst h; simp
  | cons r rest ih =>
    intro es h
    unfold rpmRefs at h
    cases h1 : rpmRef (findObj (resolveOid d oid) d.objs) r with
    | error e => simp [h1] at h
    | ok es1 =>
      cases h2 : rpmRefs (findObj (resolveOid d oid) d.objs) rest with
      | error e => simp [h1, h2] at h
      | ok es2 =>
        simp [h1, h2] at h; subst h
        intro e hmem
        simp only [List.mem_append] at hmem
        rcases hmem with hmem | hmem
        · exact (rpmRef_agrees d oid r es1 h1 e hmem).2
        · exact ih es2 h2 e hmem

theorem ElemAgrees_resolve (d : Device) (oid : Oid) (e : RElem) (h : ElemAgrees d oid e) :
    ElemAgrees d (resolveOid d oid) e := by
  unfold ElemAgrees at h ⊢
  simp only [readService_eq, resolveOid_idem] at h ⊢
  exact h

/-- **rpm_equals_rp**: when `do_ReadPropertyMultipleRequest` answers with an
    ack, every element of every result — explicit references and the expansions
    of `all` / `required` / `optional` alike — is exactly what
    `do_ReadPropertyRequest` answers for the object identifier of that result
    and the element's property and index: the same value tags or, embedded, the
    same error. -/
theorem rpm_equals_rp (d : Device) :
    ∀ (specs : List (Oid × List PropRef)) (res : List (Oid × List RElem)),
      rpmService d specs = .ok res → ∀ p ∈ res, ∀ e ∈ p.2, ElemAgrees d p.1 e := by
  intro specs
  induction specs with
  | nil => intro res h; simp [rpmService] at h; subst h; simp
  | cons sp rest ih =>
    obtain ⟨oid, refs⟩ := sp
    intro res h
    unfold rpmService at h
    simp only at h
    cases h1 : rpmRefs (findObj (resolveOid d oid) d.objs) refs with
    | error e => simp [h1] at h
    | ok es =>
      cases h2 : rpmService d rest with
      | error e => simp [h1, h2] at h
      | ok more =>
        simp [h1, h2] at h; subst h
        intro p hmem
        simp only [List.mem_cons] at hmem
        rcases hmem with rfl | hmem
        · intro e he
          exact ElemAgrees_resolve d oid e (rpmRefs_agrees d oid refs es h1 e he)
        · exact ih more h2 p hmem


/-! ### selectors and whole-request failures -/

def isUnknownProperty : Except Refusal (List Tag) → Bool
  | .error .unknownProperty => true
  | _ => false

theorem readToElem_res (o : Object) (pid : Nat) (idx : Option Nat) (e : RElem)
    (h : readToElem (some o) pid idx = .ok e) :
    e.pid = pid ∧ (e.res = .err .unknownProperty ↔ isUnknownProperty (readObject o pid idx) = true) := by
  unfold readToElem at h
  simp only [readToAny_eq] at h
  cases hr : readObject o pid idx with
  | ok tags => simp [hr] at h; subst h; simp [isUnknownProperty]
  | error r =>
    simp only [hr] at h
    split at h
    · simp at h; subst h
      cases r <;> simp [isUnknownProperty]
    · simp at h

/-- the selectors expand to the property sets of the table: `all` / `required`
    / `optional` report, in table order, exactly the properties the selector
    filter keeps (everything but propertyList; not optional; optional) and that
    ReadProperty does not answer with unknown-property -/
theorem selector_ids (o : Object) (sel : Nat) (idx : Option Nat) :
    ∀ (props : List Slot) (es : List RElem), expandSel o sel idx props = .ok es →
      es.map (·.pid) =
        (props.filter fun s => selects sel s.d && !isUnknownProperty (readObject o s.d.id idx)).map (·.d.id) := by
  intro props
  induction props with
  | nil => intro es h; simp [expandSel] at h; subst h; rfl
  | cons s rest ih =>
    intro es h
    unfold expandSel at h
    split at h
    · rename_i hsel
      cases he : readToElem (some o) s.d.id idx with
      | error r => simp [he] at h
      | ok e0 =>
        simp only [he] at h
        cases hrest : expandSel o sel idx rest with
        | error r => simp [hrest] at h
        | ok es' =>
          simp only [hrest] at h
          obtain ⟨hpid, hiff⟩ := readToElem_res o s.d.id idx e0 he
          split at h
          · rename_i hunk
            simp at h; subst h
            have := hiff.mp hunk
            simp [hsel, this, ih es' hrest]
          · rename_i hunk
            simp at h; subst h
            have : isUnknownProperty (readObject o s.d.id idx) = false := by
              cases hb : isUnknownProperty (readObject o s.d.id idx) with
              | false => rfl
              | true => exact absurd (hiff.mpr hb) hunk
            simp [hsel, this, ih es' hrest, hpid]
    · rename_i hsel
      simp [hsel, ih es h]

/-- `required` and `optional` partition `all` -/
theorem selects_partition (d : PropDesc) :
    selects pidAll d = (selects pidRequired d || selects pidOptional d) ∧
    (selects pidRequired d && selects pidOptional d) = false := by
  unfold selects
  have h1 : (pidRequired = pidAll) = False := by decide
  have h2 : (pidOptional = pidAll) = False := by decide
  have h3 : (pidAll = pidRequired) = False := by decide
  have h4 : (pidAll = pidOptional) = False := by decide
  have h5 : (pidRequired = pidOptional) = False := by decide
  have h6 : (pidOptional = pidRequired) = False := by decide
  cases d.optional <;> cases (d.id != pidPropertyList) <;> simp [h1, h2, h3, h4, h5, h6]

theorem expandSel_error (o : Object) (sel : Nat) (idx : Option Nat) :
    ∀ (props : List Slot) (r : Refusal), expandSel o sel idx props = .error r → r.isExec = false := by
  intro props
  induction props with
  | nil => intro r h; simp [expandSel] at h
  | cons s rest ih =>
    intro r h
    unfold expandSel at h
    split at h
    · cases he : readToElem (some o) s.d.id idx with
      | error r' =>
        simp [he] at h; subst h
        unfold readToElem at he
        simp only at he
        split at he
        · simp at he
        · split at he
          · simp at he
          · rename_i hne; simp at he; subst he; simpa using hne
      | ok e0 =>
        simp only [he] at h
        cases hrest : expandSel o sel idx rest with
        | error r' => simp [hrest] at h; subst h; exact ih _ hrest
        | ok es' => simp only [hrest] at h; split at h <;> simp at h
    · exact ih r h

/-- when the whole ReadPropertyMultiple request is refused, the refusal is one
    that cannot be embedded (a Reject or operational-problem raised while
    encoding a value) — never an unknown-object / unknown-property /
    array-index error, which are always embedded -/
theorem rpm_error_not_embeddable (d : Device) :
    ∀ (specs : List (Oid × List PropRef)) (r : Refusal),
      rpmService d specs = .error r → r.isExec = false := by
  have hElem : ∀ (o : Option Object) pid idx r, readToElem o pid idx = .error r → r.isExec = false := by
    intro o pid idx r h
    unfold readToElem at h
    split at h
    · simp at h
    · split at h
      · simp at h
      · split at h
        · simp at h
        · rename_i hne; simp at h; subst h; simpa using hne
  have hRef : ∀ (o : Option Object) ref r, rpmRef o ref = .error r → r.isExec = false := by
    intro o ref r h
    unfold rpmRef at h
    split at h
    · split at h
      · simp at h
      · exact expandSel_error _ _ _ _ _ h
    · cases he : readToElem o ref.pid ref.idx with
      | error r' => simp [he] at h; subst h; exact hElem _ _ _ _ he
      | ok e => simp [he] at h
  have hRefs : ∀ (o : Option Object) refs r, rpmRefs o refs = .error r → r.isExec = false := by
    intro o refs
    induction refs with
    | nil => intro r h; simp [rpmRefs] at h
    | cons ref rest ih =>
      intro r h
      unfold rpmRefs at h
      cases h1 : rpmRef o ref with
      | error r' => simp [h1] at h; subst h; exact hRef _ _ _ h1
      | ok es =>
        cases h2 : rpmRefs o rest with
        | error r' => simp [h1, h2] at h; subst h; exact ih _ h2
        | ok more => simp [h1, h2] at h
  intro specs
  induction specs with
  | nil => intro r h; simp [rpmService] at h
  | cons sp rest ih =>
    obtain ⟨oid, refs⟩ := sp
    intro r h
    unfold rpmService at h
    simp only at h
    cases h1 : rpmRefs (findObj (resolveOid d oid) d.objs) refs with
    | error r' => simp [h1] at h; subst h; exact hRefs _ _ _ h1
    | ok es =>
      cases h2 : rpmService d rest with
      | error r' => simp [h1, h2] at h; subst h; exact ih _ h2
      | ok more => simp [h1, h2] at h


/-! ## commandable objects (priorities 1..16) -/

theorem findSlot_setSlot_ne (pid pid' : Nat) (v : PVal) (props : List Slot) (h : pid ≠ pid') :
    findSlot pid (setSlot pid' v props) = findSlot pid props := by
  induction props with
  | nil => rfl
  | cons x rest ih =>
    unfold setSlot
    by_cases hx : x.d.id = pid'
    · simp only [hx, ↓reduceIte]
      unfold findSlot
      have : ¬ pid' = pid := fun h' => h h'.symm
      simp [hx, this]
    · simp only [hx, ↓reduceIte]
      unfold findSlot
      simp only [ih]

theorem elemValid_self (e e' : ElemTy) (it : Item) (h : elemValid e e' it = true) :
    elemValid e e it = true := by
  cases e with
  | atomic tag lo hi =>
    cases e' with
    | atomic tag' lo' hi' =>
      simp only [elemValid, atomValid, Bool.and_eq_true, decide_eq_true_eq] at h ⊢
      exact ⟨trivial, h.2⟩
    | anyAtomic => simp [elemValid, atomValid] at h
    | cons ty => simp [elemValid, atomValid] at h
  | anyAtomic => simp [elemValid]
  | cons ty => simp [elemValid]

/-- the Commandable mix-in as `Commandable(datatype)` sets it up (a decidable
    predicate on the object): three distinct properties; presentValue writable
    and scalar; priorityArray read-only, an array of 16 slots each Null or a
    valid value of the datatype; relinquishDefault a valid value -/
def cmdOK (o : Object) (c : Cmd) : Bool :=
  c.pa != c.pv && c.rd != c.pv && c.pa != c.rd &&
  match findSlot c.pv o.props, findSlot c.pa o.props, findSlot c.rd o.props with
  | some pv, some pa, some rd =>
    pv.d.custom == .std && pv.d.mutable && pa.d.custom == .std && !pa.d.mutable && pa.d.dt.isArray &&
    rd.d.custom == .std && rd.d.dt == pv.d.dt &&
    match pv.d.dt, pa.v, rd.v with
    | .scalar e, .arr slots, .one rit =>
        slots.length == 16 && elemValid e e rit &&
        slots.all (fun it => it == .enc [nullTag] || elemValid e e it)
    | _, _, _ => false
  | _, _, _ => false

/-- unpacked form of `cmdOK` -/
theorem cmdOK_elim (o : Object) (c : Cmd) (h : cmdOK o c = true) :
    c.pa ≠ c.pv ∧ c.rd ≠ c.pv ∧ c.pa ≠ c.rd ∧
    ∃ pv pa rd e slots rit,
      findSlot c.pv o.props = some pv ∧ findSlot c.pa o.props = some pa ∧
      findSlot c.rd o.props = some rd ∧
      pv.d.custom = .std ∧ pv.d.mutable = true ∧ pa.d.custom = .std ∧ pa.d.mutable = false ∧
      pa.d.dt.isArray = true ∧ rd.d.custom = .std ∧ rd.d.dt = pv.d.dt ∧
      pv.d.dt = .scalar e ∧ pa.v = .arr slots ∧ rd.v = .one rit ∧ slots.length = 16 ∧
      elemValid e e rit = true ∧
      (∀ it ∈ slots, it = .enc [nullTag] ∨ elemValid e e it = true) := by
  unfold cmdOK at h
  simp only [Bool.and_eq_true, bne_iff_ne, ne_eq] at h
  obtain ⟨⟨⟨h1, h2⟩, h3⟩, h4⟩ := h
  refine ⟨h1, h2, h3, ?_⟩
  split at h4
  · rename_i pv pa rd hpv hpa hrd
    simp only [Bool.and_eq_true, beq_iff_eq, Bool.not_eq_true'] at h4
    obtain ⟨⟨⟨⟨⟨⟨⟨a1, a2⟩, a3⟩, a4⟩, a5⟩, a7⟩, a8⟩, a6⟩ := h4
    split at a6
    · rename_i e slots rit hdt hpav hrdv
      simp only [Bool.and_eq_true, beq_iff_eq, List.all_eq_true, Bool.or_eq_true] at a6
      obtain ⟨⟨b1, b2⟩, b3⟩ := a6
      exact ⟨pv, pa, rd, e, slots, rit, hpv, hpa, hrd, a1, a2, a3, a4, a5, a7, a8, hdt, hpav, hrdv, b1, b2, b3⟩
    · simp at a6
  · simp at h4

theorem highest_valid (e : ElemTy) (slots : List Item) (rit : Item)
    (hr : elemValid e e rit = true)
    (hs : ∀ it ∈ slots, it = .enc [nullTag] ∨ elemValid e e it = true) :
    ∃ hit, highest slots (.one rit) = .one hit ∧ elemValid e e hit = true := by
  unfold highest
  cases hf : slots.find? (fun it => it != .enc [nullTag]) with
  | none => exact ⟨rit, rfl, hr⟩
  | some it =>
    refine ⟨it, rfl, ?_⟩
    have hmem := List.mem_of_find?_eq_some hf
    have hne := List.find?_some hf
    rcases hs it hmem with h | h
    · simp [h] at hne
    · exact h

/-- once the priority array is consistent, the tail of
    `Commandable.WriteProperty` cannot refuse -/
theorem cmdSettle_ok (d : Device) (o1 : Object) (c : Cmd) (h : cmdOK o1 c = true) :
    (cmdSettle d o1 c).2 = .ok () := by
  obtain ⟨_, _, _, pv, pa, rd, e, slots, rit, hpv, hpa, hrd, hcu, hmut, _, _, _, _, _, hdt, hpav, hrdv, _, hr, hs⟩ :=
    cmdOK_elim o1 c h
  obtain ⟨hit, hhi, hval⟩ := highest_valid e slots rit hr hs
  unfold cmdSettle
  simp only [hpa, hpv, hrd, hpav, hrdv, hhi]
  split
  · rfl
  · simp only [hdt]
    have hw : propWrite d o1 pv (.one e hit) none = .ok (some (.one hit)) := by
      simp [propWrite, hcu, stdWrite, hmut, ladder, hdt, hval, assign, Except.map]
    simp [objWritePlain, hpv, hw]

/-- changing one slot of the priority array to Null or to a valid value keeps
    the object consistent -/
theorem cmdOK_setSlot (o : Object) (c : Cmd) (h : cmdOK o c = true)
    (pa : Slot) (slots : List Item) (pv : Slot) (e : ElemTy)
    (hpa : findSlot c.pa o.props = some pa) (hpav : pa.v = .arr slots)
    (hpv : findSlot c.pv o.props = some pv) (hdt : pv.d.dt = .scalar e)
    (k : Nat) (it : Item) (hit : it = .enc [nullTag] ∨ elemValid e e it = true) :
    cmdOK { o with props := setSlot c.pa (.arr (slots.set k it)) o.props } c = true := by
  obtain ⟨n1, n2, n3, pv', pa', rd, e', slots', rit, hpv', hpa', hrd, hcu, hmut, hcu2, hmut2, harr, hcu3, hdt3,
    hdt', hpav', hrdv, hlen, hr, hs⟩ := cmdOK_elim o c h
  rw [hpv] at hpv'; simp only [Option.some.injEq] at hpv'; subst hpv'
  rw [hpa] at hpa'; simp only [Option.some.injEq] at hpa'; subst hpa'
  rw [hdt] at hdt'; simp only [DT.scalar.injEq] at hdt'; subst hdt'
  rw [hpav] at hpav'; simp only [PVal.arr.injEq] at hpav'; subst hpav'
  unfold cmdOK
  have f1 : findSlot c.pv (setSlot c.pa (.arr (slots.set k it)) o.props) = some pv := by
    rw [findSlot_setSlot_ne _ _ _ _ (fun h' => n1 h'.symm)]; exact hpv
  have f2 : findSlot c.pa (setSlot c.pa (.arr (slots.set k it)) o.props) =
      some { pa with v := .arr (slots.set k it) } := findSlot_setSlot _ _ _ _ hpa
  have f3 : findSlot c.rd (setSlot c.pa (.arr (slots.set k it)) o.props) = some rd := by
    rw [findSlot_setSlot_ne _ _ _ _ n3.symm]; exact hrd
  simp only [f1, f2, f3, hdt, hrdv]
  simp only [Bool.and_eq_true, bne_iff_ne, ne_eq, beq_iff_eq, Bool.not_eq_true', List.all_eq_true,
    Bool.or_eq_true, List.length_set]
  refine ⟨⟨⟨n1, n2⟩, n3⟩, ⟨⟨⟨⟨⟨⟨hcu, hmut⟩, hcu2⟩, hmut2⟩, harr⟩, hcu3⟩, by rw [hdt3, hdt]⟩, ⟨hlen, hr⟩, ?_⟩
  intro x hx
  rcases List.mem_or_eq_of_mem_set hx with hx | hx
  · exact hs x hx
  · subst hx; exact hit


theorem objWritePlain_pure (d : Device) (o : Object) (pid : Nat) (v : WVal) (idx : Option Nat)
    (e : Refusal) (h : (objWritePlain d o pid v idx).2 = .error e) :
    (objWritePlain d o pid v idx).1 = o := by
  rcases objWritePlain_cases d o pid v idx with ⟨e', he⟩ | ⟨s', _, hcase⟩
  · rw [he]
  · rcases hcase with ⟨_, hobjw⟩ | ⟨nv, _, hobjw⟩ <;> (rw [hobjw] at h; simp at h)

theorem cmdSlotWrite_pure (d : Device) (o : Object) (c : Cmd) (v : WVal) (i : Int) (e : Refusal)
    (hok : cmdOK o c = true) (h : (cmdSlotWrite d o c v i).2 = .error e) :
    (cmdSlotWrite d o c v i).1 = o := by
  obtain ⟨n1, n2, n3, pv, pa, rd, el, slots, rit, hpv, hpa, hrd, hcu, hmut, hcu2, hmut2, harr, hcu3, hdt3, hdt,
    hpav, hrdv, hlen, hr, hs⟩ := cmdOK_elim o c hok
  unfold cmdSlotWrite at h ⊢
  by_cases hi0 : i = 0
  · simp [hi0]
  · by_cases hir : i < 1 ∨ i > 16
    · simp [hi0, hir]
    · simp only [hi0, hir, ↓reduceIte, hpa, hpv, hpav] at h ⊢
      cases v with
      | null =>
        simp only at h ⊢
        have hok1 := cmdOK_setSlot o c hok pa slots pv el hpa hpav hpv hdt (i.toNat - 1)
          (.enc [nullTag]) (Or.inl rfl)
        have := cmdSettle_ok d _ c hok1
        rw [this] at h; simp at h
      | many e' its => simp
      | one e' it =>
        simp only [hdt] at h ⊢
        by_cases hv : elemValid el e' it = true
        · simp only [hv, ↓reduceIte] at h ⊢
          have hok1 := cmdOK_setSlot o c hok pa slots pv el hpa hpav hpv hdt (i.toNat - 1)
            it (Or.inr (elemValid_self _ _ _ hv))
          have := cmdSettle_ok d _ c hok1
          rw [this] at h; simp at h
        · simp [hv]

theorem cmdWholeWrite_pure (d : Device) (o : Object) (c : Cmd) (v : WVal)
    (hok : cmdOK o c = true) : cmdWholeWrite d o c v = (o, .error .writeAccessDenied) := by
  obtain ⟨n1, n2, n3, pv, pa, rd, el, slots, rit, hpv, hpa, hrd, hcu, hmut, hcu2, hmut2, harr, hcu3, hdt3, hdt,
    hpav, hrdv, hlen, hr, hs⟩ := cmdOK_elim o c hok
  have hden : objWritePlain d o c.pa v none = (o, .error .writeAccessDenied) := by
    have : propWrite d o pa v none = .error .writeAccessDenied := by
      simp [propWrite, hcu2, stdWrite, hmut2, Except.map]
    simp [objWritePlain, hpa, this]
  simp [cmdWholeWrite, hden]

/-- `Commandable.WriteProperty` is all-or-nothing on a consistent object: the
    only refusals come before the slot is touched -/
theorem objWriteCmd_pure (d : Device) (o : Object) (c : Cmd) (pid : Nat) (v : WVal)
    (idx : Option Nat) (prio : Option Int) (e : Refusal) (hok : cmdOK o c = true)
    (h : (objWriteCmd d o c pid v idx prio).2 = .error e) :
    (objWriteCmd d o c pid v idx prio).1 = o := by
  unfold objWriteCmd at h ⊢
  by_cases hpv : pid = c.pv
  · simp only [hpv, ↓reduceIte] at h ⊢
    exact cmdSlotWrite_pure d o c v _ e hok h
  · by_cases hpa : pid = c.pa
    · subst hpa
      simp only [hpv, ↓reduceIte] at h ⊢
      cases idx with
      | none => simp [cmdWholeWrite_pure d o c v hok]
      | some i => exact cmdSlotWrite_pure d o c v _ e hok h
    · simp only [hpv, hpa, ↓reduceIte] at h ⊢
      exact objWritePlain_pure d o _ v idx e h

/-- the state hypothesis of the all-or-nothing theorem: every object that
    carries the Commandable mix-in is consistent (`cmdOK`); nothing is asked of
    plain objects -/
def deviceOK (d : Device) : Bool :=
  d.objs.all fun p => match p.2.cmd with
    | none => true
    | some c => cmdOK p.2 c

theorem findObj_mem (oid : Oid) (objs : List (Oid × Object)) (o : Object)
    (h : findObj oid objs = some o) : (oid, o) ∈ objs := by
  induction objs with
  | nil => simp [findObj] at h
  | cons x rest ih =>
    obtain ⟨k, x⟩ := x
    unfold findObj at h
    split at h
    · rename_i hk; simp at h; subst h; subst hk; simp
    · exact List.mem_cons_of_mem _ (ih h)

/-- **refused_write_pure** — all-or-nothing, every branch, every object kind:
    whenever `do_WritePropertyRequest` answers anything but SimpleAck, the
    device is exactly as before.  The only hypothesis is that commandable
    objects are consistent (`deviceOK`, decidable, preserved by every write:
    `deviceOK_preserved`). -/
theorem refused_write_pure_all (d : Device) (r : WriteReq) (e : Refusal)
    (hdev : deviceOK d = true) (href : (writeService d r).2 = .error e) :
    (writeService d r).1 = d := by
  unfold writeService at href ⊢
  cases hobj : findObj r.oid d.objs with
  | none => simp
  | some o =>
    simp only [hobj] at href ⊢
    cases hpre : objRead o r.pid r.idx with
    | error e' => simp
    | ok rv0 =>
      cases rv0 with
      | none => simp
      | whole _ | len _ | elem _ =>
        simp only [hpre] at href ⊢
        cases hs : findSlot r.pid o.props with
        | none => simp
        | some s =>
          simp only [hs] at href ⊢
          cases hc : castOut s.d.dt r.idx r.value with
          | error e' => simp
          | ok v =>
            simp only [hc] at href ⊢
            have hpure : (objWrite d o r.pid v r.idx r.prio).1 = o := by
              unfold objWrite at href ⊢
              cases hcmd : o.cmd with
              | none =>
                simp only [hcmd] at href ⊢
                exact objWritePlain_pure d o _ v _ e href
              | some c =>
                simp only [hcmd] at href ⊢
                have hmem := findObj_mem _ _ _ hobj
                have : cmdOK o c = true := by
                  have := (List.all_eq_true.mp hdev) _ hmem
                  simpa [hcmd] using this
                exact objWriteCmd_pure d o c _ v _ _ e this href
            simp [hpure, setObj_self _ _ _ hobj]


/-! ### the consistency of commandable objects is an invariant of the device -/

/-- `cmdOK` only looks at the three properties of the mix-in -/
theorem cmdOK_congr (o : Object) (c : Cmd) (props' : List Slot)
    (h1 : findSlot c.pv props' = findSlot c.pv o.props)
    (h2 : findSlot c.pa props' = findSlot c.pa o.props)
    (h3 : findSlot c.rd props' = findSlot c.rd o.props) :
    cmdOK { o with props := props' } c = cmdOK o c := by
  unfold cmdOK
  simp only [h1, h2, h3]

/-- storing a new presentValue keeps the object consistent -/
theorem cmdOK_setPv (o : Object) (c : Cmd) (h : cmdOK o c = true) (nv : PVal) :
    cmdOK { o with props := setSlot c.pv nv o.props } c = true := by
  obtain ⟨n1, n2, n3, pv, pa, rd, e, slots, rit, hpv, hpa, hrd, _⟩ := cmdOK_elim o c h
  have f1 : findSlot c.pv (setSlot c.pv nv o.props) = some { pv with v := nv } :=
    findSlot_setSlot _ _ _ _ hpv
  have f2 : findSlot c.pa (setSlot c.pv nv o.props) = some pa := by
    rw [findSlot_setSlot_ne _ _ _ _ n1]; exact hpa
  have f3 : findSlot c.rd (setSlot c.pv nv o.props) = some rd := by
    rw [findSlot_setSlot_ne _ _ _ _ n2]; exact hrd
  unfold cmdOK at h ⊢
  simp only [f1, f2, f3]
  simp only [hpv, hpa, hrd] at h
  exact h

theorem cmdSettle_preserves (d : Device) (o1 : Object) (c : Cmd) (h : cmdOK o1 c = true) :
    cmdOK (cmdSettle d o1 c).1 c = true := by
  obtain ⟨_, _, _, pv, pa, rd, e, slots, rit, hpv, hpa, hrd, hcu, hmut, _, _, _, _, _, hdt, hpav, hrdv, _, hr, hs⟩ :=
    cmdOK_elim o1 c h
  obtain ⟨hit, hhi, hval⟩ := highest_valid e slots rit hr hs
  unfold cmdSettle
  simp only [hpa, hpv, hrd, hpav, hrdv, hhi]
  split
  · exact h
  · simp only [hdt]
    have hw : propWrite d o1 pv (.one e hit) none = .ok (some (.one hit)) := by
      simp [propWrite, hcu, stdWrite, hmut, ladder, hdt, hval, assign, Except.map]
    simp only [objWritePlain, hpv, hw]
    exact cmdOK_setPv o1 c h _

theorem cmdSlotWrite_preserves (d : Device) (o : Object) (c : Cmd) (v : WVal) (i : Int)
    (hok : cmdOK o c = true) : cmdOK (cmdSlotWrite d o c v i).1 c = true := by
  obtain ⟨n1, n2, n3, pv, pa, rd, el, slots, rit, hpv, hpa, hrd, hcu, hmut, hcu2, hmut2, harr, hcu3, hdt3, hdt,
    hpav, hrdv, hlen, hr, hs⟩ := cmdOK_elim o c hok
  unfold cmdSlotWrite
  by_cases hi0 : i = 0
  · simp [hi0, hok]
  · by_cases hir : i < 1 ∨ i > 16
    · simp [hi0, hir, hok]
    · simp only [hi0, hir, ↓reduceIte, hpa, hpv, hpav]
      cases v with
      | null =>
        simp only
        exact cmdSettle_preserves d _ c
          (cmdOK_setSlot o c hok pa slots pv el hpa hpav hpv hdt (i.toNat - 1) (.enc [nullTag]) (Or.inl rfl))
      | many e' its => simp [hok]
      | one e' it =>
        simp only [hdt]
        by_cases hv : elemValid el e' it = true
        · simp only [hv, ↓reduceIte]
          exact cmdSettle_preserves d _ c
            (cmdOK_setSlot o c hok pa slots pv el hpa hpav hpv hdt (i.toNat - 1) it
              (Or.inr (elemValid_self _ _ _ hv)))
        · simp [hv, hok]

/-- a successful `Property.WriteProperty` on a scalar property stores a valid value -/
theorem stdWrite_scalar_valid (s : Slot) (e : ElemTy) (v : WVal) (idx : Option Nat) (nv : PVal)
    (hdt : s.d.dt = .scalar e) (h : stdWrite s v idx = .ok nv) :
    ∃ it, nv = .one it ∧ elemValid e e it = true := by
  unfold stdWrite at h
  split at h
  · simp at h
  split at h
  · simp at h
  rename_i hlad
  unfold assign at h
  cases idx with
  | some i => simp [hdt] at h
  | none =>
    simp only [hdt] at h hlad
    unfold ladder at hlad
    simp only [reduceCtorEq, ↓reduceIte] at hlad
    cases v with
    | null => simp at hlad
    | many e' its => simp at hlad
    | one e' it =>
      simp only at hlad h
      split at hlad
      · rename_i hv
        simp at h
        exact ⟨it, h.symm, elemValid_self _ _ _ hv⟩
      · simp at hlad

theorem objWritePlain_preserves (d : Device) (o : Object) (c : Cmd) (pid : Nat) (v : WVal)
    (idx : Option Nat) (hok : cmdOK o c = true) (hpv : pid ≠ c.pv) (hpa : pid ≠ c.pa) :
    cmdOK (objWritePlain d o pid v idx).1 c = true := by
  obtain ⟨n1, n2, n3, pv, pa, rd, el, slots, rit, hfpv, hfpa, hfrd, hcu, hmut, hcu2, hmut2, harr, hcu3, hdt3, hdt,
    hpav, hrdv, hlen, hr, hs⟩ := cmdOK_elim o c hok
  rcases objWritePlain_cases d o pid v idx with ⟨e', he⟩ | ⟨s, hs', hcase⟩
  · rw [he]; exact hok
  · rcases hcase with ⟨_, hobjw⟩ | ⟨nv, hpw, hobjw⟩
    · rw [hobjw]; exact hok
    · rw [hobjw]
      simp only
      by_cases hrd : pid = c.rd
      · -- relinquishDefault: the stored value is valid for the datatype
        subst hrd
        rw [hfrd] at hs'; simp only [Option.some.injEq] at hs'; subst hs'
        have hw' : stdWrite rd v idx = .ok nv := by
          cases hx : stdWrite rd v idx with
          | error r => simp [propWrite, hcu3, hx, Except.map] at hpw
          | ok nv' => simp [propWrite, hcu3, hx, Except.map] at hpw; rw [hpw]
        obtain ⟨it, hnv, hval⟩ := stdWrite_scalar_valid rd el v idx nv (by rw [hdt3, hdt]) hw'
        subst hnv
        have f1 : findSlot c.pv (setSlot c.rd (.one it) o.props) = some pv := by
          rw [findSlot_setSlot_ne _ _ _ _ (fun h' => n2 h'.symm)]; exact hfpv
        have f2 : findSlot c.pa (setSlot c.rd (.one it) o.props) = some pa := by
          rw [findSlot_setSlot_ne _ _ _ _ n3]; exact hfpa
        have f3 : findSlot c.rd (setSlot c.rd (.one it) o.props) = some { rd with v := .one it } :=
          findSlot_setSlot _ _ _ _ hfrd
        unfold cmdOK
        simp only [f1, f2, f3, hdt, hpav]
        simp only [Bool.and_eq_true, bne_iff_ne, ne_eq, beq_iff_eq, Bool.not_eq_true', List.all_eq_true,
          Bool.or_eq_true]
        exact ⟨⟨⟨n1, n2⟩, n3⟩, ⟨⟨⟨⟨⟨⟨hcu, hmut⟩, hcu2⟩, hmut2⟩, harr⟩, hcu3⟩, by rw [hdt3, hdt]⟩,
          ⟨hlen, hval⟩, hs⟩
      · rw [cmdOK_congr o c _ (findSlot_setSlot_ne _ _ _ _ (fun h' => hpv h'.symm))
          (findSlot_setSlot_ne _ _ _ _ (fun h' => hpa h'.symm))
          (findSlot_setSlot_ne _ _ _ _ (fun h' => hrd h'.symm))]
        exact hok

theorem objWriteCmd_preserves (d : Device) (o : Object) (c : Cmd) (pid : Nat) (v : WVal)
    (idx : Option Nat) (prio : Option Int) (hok : cmdOK o c = true) :
    cmdOK (objWriteCmd d o c pid v idx prio).1 c = true := by
  unfold objWriteCmd
  by_cases hpv : pid = c.pv
  · simp only [hpv, ↓reduceIte]
    exact cmdSlotWrite_preserves d o c v _ hok
  · by_cases hpa : pid = c.pa
    · subst hpa
      simp only [hpv, ↓reduceIte]
      cases idx with
      | none => simp [cmdWholeWrite_pure d o c v hok, hok]
      | some i => exact cmdSlotWrite_preserves d o c v _ hok
    · simp only [hpv, hpa, ↓reduceIte]
      exact objWritePlain_preserves d o c pid v idx hok hpv hpa

theorem objWritePlain_cmd (d : Device) (o : Object) (pid : Nat) (v : WVal) (idx : Option Nat) :
    (objWritePlain d o pid v idx).1.cmd = o.cmd := by
  rcases objWritePlain_cases d o pid v idx with ⟨e', he⟩ | ⟨s, _, hcase⟩
  · rw [he]
  · rcases hcase with ⟨_, hobjw⟩ | ⟨nv, _, hobjw⟩ <;> rw [hobjw]

theorem cmdSettle_cmd (d : Device) (o1 : Object) (c : Cmd) : (cmdSettle d o1 c).1.cmd = o1.cmd := by
  unfold cmdSettle
  split
  · split
    · simp only
      split
      · rfl
      · split
        · exact objWritePlain_cmd d o1 _ _ _
        · rfl
    · rfl
  · rfl

theorem cmdSlotWrite_cmd (d : Device) (o : Object) (c : Cmd) (v : WVal) (i : Int) :
    (cmdSlotWrite d o c v i).1.cmd = o.cmd := by
  unfold cmdSlotWrite
  split
  · rfl
  · split
    · rfl
    · split
      · split
        · simp only
          split
          · rfl
          · rw [cmdSettle_cmd]
        · rfl
      · rfl

theorem cmdWholeWrite_cmd (d : Device) (o : Object) (c : Cmd) (v : WVal) :
    (cmdWholeWrite d o c v).1.cmd = o.cmd := by
  unfold cmdWholeWrite
  have h := objWritePlain_cmd d o c.pa v none
  split
  · rename_i o1 r heq; rw [heq] at h; exact h
  · rename_i o1 heq; rw [heq] at h; rw [cmdSettle_cmd]; exact h

theorem objWrite_cmd (d : Device) (o : Object) (pid : Nat) (v : WVal) (idx : Option Nat)
    (prio : Option Int) : (objWrite d o pid v idx prio).1.cmd = o.cmd := by
  unfold objWrite
  split
  · rename_i c _
    unfold objWriteCmd
    split
    · exact cmdSlotWrite_cmd d o c v _
    · split
      · split
        · exact cmdWholeWrite_cmd d o c v
        · exact cmdSlotWrite_cmd d o c v _
      · exact objWritePlain_cmd d o pid v idx
  · exact objWritePlain_cmd d o pid v idx

theorem all_setObj (P : Oid × Object → Bool) (oid : Oid) (o' : Object) :
    ∀ objs : List (Oid × Object), objs.all P = true → P (oid, o') = true →
      (setObj oid o' objs).all P = true := by
  intro objs
  induction objs with
  | nil => intro _ _; rfl
  | cons x rest ih =>
    obtain ⟨k, x⟩ := x
    intro h hp
    simp only [List.all_cons, Bool.and_eq_true] at h
    unfold setObj
    split
    · rename_i hk; subst hk
      simp only [List.all_cons, Bool.and_eq_true]
      exact ⟨hp, h.2⟩
    · simp only [List.all_cons, Bool.and_eq_true]
      exact ⟨h.1, ih h.2 hp⟩

/-- `deviceOK` is an invariant: whatever the request and whatever the answer,
    the commandable objects of the device stay consistent.  Together with
    `refused_write_pure_all` this gives all-or-nothing along every history that
    starts in a consistent device. -/
theorem deviceOK_preserved (d : Device) (r : WriteReq) (hdev : deviceOK d = true) :
    deviceOK (writeService d r).1 = true := by
  unfold writeService
  cases hobj : findObj r.oid d.objs with
  | none => simpa using hdev
  | some o =>
    simp only
    cases hpre : objRead o r.pid r.idx with
    | error e' => simpa using hdev
    | ok rv0 =>
      cases rv0 with
      | none => simpa using hdev
      | whole _ | len _ | elem _ =>
        simp only
        cases hs : findSlot r.pid o.props with
        | none => simpa using hdev
        | some s =>
          simp only
          cases hc : castOut s.d.dt r.idx r.value with
          | error e' => simpa using hdev
          | ok v =>
            simp only
            unfold deviceOK at hdev ⊢
            apply all_setObj _ _ _ _ hdev
            simp only [objWrite_cmd]
            cases hcmd : o.cmd with
            | none => rfl
            | some c =>
              simp only
              have hmem := findObj_mem _ _ _ hobj
              have hok : cmdOK o c = true := by
                have := (List.all_eq_true.mp hdev) _ hmem
                simpa [hcmd] using this
              simp only [objWrite, hcmd]
              exact objWriteCmd_preserves d o c _ v _ _ hok

/-- all-or-nothing along histories: after any sequence of write requests
    starting in a consistent device, a refused request leaves the device
    exactly as it was -/
def runWrites (d : Device) : List WriteReq → Device
  | [] => d
  | r :: rest => runWrites (writeService d r).1 rest

theorem deviceOK_runWrites (d : Device) (rs : List WriteReq) (h : deviceOK d = true) :
    deviceOK (runWrites d rs) = true := by
  induction rs generalizing d with
  | nil => exact h
  | cons r rest ih => exact ih _ (deviceOK_preserved d r h)

theorem refused_write_pure_history (d : Device) (rs : List WriteReq) (r : WriteReq) (e : Refusal)
    (h : deviceOK d = true) (href : (writeService (runWrites d rs) r).2 = .error e) :
    (writeService (runWrites d rs) r).1 = runWrites d rs :=
  refused_write_pure_all _ r e (deviceOK_runWrites d rs h) href

/-! ### write then read on a commandable object: the command sits in its slot -/

/-- the object after mutation 1 of `cmdSlotWrite` -/
abbrev slotObj (o : Object) (c : Cmd) (slots : List Item) (k : Nat) (it : Item) : Object :=
  { o with props := setSlot c.pa (.arr (slots.set k it)) o.props }

theorem cmdSettle_pa (d : Device) (o1 : Object) (c : Cmd) (hne : c.pa ≠ c.pv) :
    findSlot c.pa (cmdSettle d o1 c).1.props = findSlot c.pa o1.props := by
  unfold cmdSettle
  split
  · split
    · simp only
      split
      · rfl
      · split
        · rcases objWritePlain_cases d o1 c.pv _ none with ⟨e', he⟩ | ⟨s, _, hcase⟩
          · rw [he]
          · rcases hcase with ⟨_, hobjw⟩ | ⟨nv, _, hobjw⟩
            · rw [hobjw]
            · rw [hobjw]; exact findSlot_setSlot_ne _ _ _ _ hne
        · rfl
    · rfl
  · rfl

/-- **write_then_read, commandable objects, priorities 1..16**: after an
    acknowledged write of presentValue with priority `p` (16 when the request
    has none), `priorityArray[p]` reads back the written value — or Null after
    a relinquish.  (What presentValue itself then shows is C17's theorem.) -/
theorem write_then_read_cmd (d d' : Device) (r : WriteReq) (o : Object) (c : Cmd)
    (hobj : findObj r.oid d.objs = some o) (hcmd : o.cmd = some c) (hok : cmdOK o c = true)
    (hpid : r.pid = c.pv) (hwild : r.oid ≠ (otDevice, wildcardInstance))
    (hack : writeService d r = (d', .ok ())) :
    (1 ≤ effPrio r.prio ∧ effPrio r.prio ≤ 16) ∧
    readService d' r.oid c.pa (some (effPrio r.prio).toNat) =
      .ok (if isAppNull r.value.tags then [nullTag] else r.value.tags) := by
  obtain ⟨n1, n2, n3, pv, pa, rd, el, slots, rit, hpv, hpa, hrd, hcu, hmut, hcu2, hmut2, harr, hcu3, hdt3, hdt,
    hpav, hrdv, hlen, hr, hs⟩ := cmdOK_elim o c hok
  generalize hp : effPrio r.prio = p at *
  unfold writeService at hack
  simp only [hobj] at hack
  cases hpre : objRead o r.pid r.idx with
  | error e => simp [hpre] at hack
  | ok rv0 =>
    simp only [hpre] at hack
    have hs' : findSlot r.pid o.props = some pv := by rw [hpid]; exact hpv
    cases hc : castOut pv.d.dt r.idx r.value with
    | error e => cases rv0 <;> simp [hs', hc] at hack
    | ok v =>
      have hrv0 : rv0 ≠ .none := by intro h; subst h; simp at hack
      have hack' : ({ d with objs := setObj r.oid (objWrite d o r.pid v r.idx r.prio).1 d.objs },
                    (objWrite d o r.pid v r.idx r.prio).2) = (d', Except.ok ()) := by
        cases rv0 <;> simp_all
      simp only [Prod.mk.injEq] at hack'
      obtain ⟨hd', hres⟩ := hack'
      have how : objWrite d o r.pid v r.idx r.prio = cmdSlotWrite d o c v p := by
        simp only [objWrite, hcmd, objWriteCmd, hpid, ↓reduceIte, hp]
      rw [how] at hd' hres
      -- the index on presentValue: the pre-read only passes without one
      have hidx : r.idx = none := by
        cases hi : r.idx with
        | none => rfl
        | some i =>
          rw [hi] at hpre
          simp [objRead, hs', propRead, hcu, stdRead, hdt, DT.isArray] at hpre
      -- bounds and the slot content
      unfold cmdSlotWrite at hres hd'
      by_cases hi0 : p = 0
      · simp [hi0] at hres
      · by_cases hir : p < 1 ∨ p > 16
        · simp [hi0, hir] at hres
        · simp only [hi0, hir, ↓reduceIte, hpa, hpv, hpav] at hres hd'
          have hb : 1 ≤ p ∧ p ≤ 16 := by omega
          refine ⟨hb, ?_⟩
          have key : ∀ it : Item,
              encItem it = .ok (if isAppNull r.value.tags then [nullTag] else r.value.tags) →
              d' = { d with objs := setObj r.oid (cmdSettle d (slotObj o c slots (p.toNat - 1) it) c).1 d.objs } →
              readService d' r.oid c.pa (some p.toNat) =
                .ok (if isAppNull r.value.tags then [nullTag] else r.value.tags) := by
            intro it henc hd'
            subst hd'
            unfold readService
            rw [resolveOid_of_ne _ _ hwild]
            simp only [findObj_setObj _ _ _ _ hobj]
            rw [cmdSettle_pa _ _ _ n1]
            simp only [findSlot_setSlot _ _ _ _ hpa]
            have hpn : p.toNat ≤ 16 := by omega
            have hp0 : p.toNat ≠ 0 := by omega
            have hk : p.toNat - 1 < slots.length := by omega
            have h16 : ¬ (16 < p) := by omega
            have hget : (slots.set (p.toNat - 1) it)[p.toNat - 1]? = some it :=
              List.getElem?_set_self hk
            simp [propRead, hcu2, stdRead, harr, arrayGet, hlen, hp0, h16, hget, rpEncode, henc]
          cases v with
          | null =>
            simp only at hres hd'
            have hnull : isAppNull r.value.tags = true := by
              cases hn : isAppNull r.value.tags with
              | true => rfl
              | false =>
                simp only [castOut, hn, Bool.false_eq_true, ↓reduceIte, hdt] at hc
                have := castElem_one _ _ _ hc
                simp at this
            exact key (.enc [nullTag]) (by simp [encItem, hnull]) hd'.symm
          | many e' its => simp at hres
          | one e' it =>
            simp only [hdt] at hres hd'
            by_cases hv : elemValid el e' it = true
            · simp only [hv, ↓reduceIte] at hres hd'
              have hnull : isAppNull r.value.tags = false := by
                cases hn : isAppNull r.value.tags with
                | false => rfl
                | true => rw [castOut_null _ _ _ hn] at hc; simp at hc
              simp only [castOut, hnull, Bool.false_eq_true, ↓reduceIte, hdt] at hc
              have hone := castElem_one _ _ _ hc
              simp only [WVal.one.injEq] at hone
              obtain ⟨_, hit⟩ := hone
              exact key it (by simp [encItem, hnull, hit]) hd'.symm
            · simp [hv] at hres

/-! ## the generated registry: well-formedness, discharged by kernel evaluation -/

def idsNodup : List Nat → Bool
  | [] => true
  | x :: rest => !rest.contains x && idsNodup rest

def elemOK : ElemTy → Bool
  | .atomic tag lo (some hi) => tag ≤ 12 && lo ≤ hi
  | .atomic tag _ none => tag ≤ 12
  | _ => true

/-- an element `fix_length` appends either encodes or fails in a way that is
    not an ExecutionError (so it can never be mistaken for an embedded
    unknown-property / array-index error) -/
def itemOK : Item → Bool
  | .unenc r => !r.isExec
  | .enc _ => true

def propOK (d : PropDesc) : Bool :=
  (d.custom == .std || d.custom == .objId) &&
  (match d.dflt with | some it => itemOK it | none => true) &&
  match d.dt with
  | .scalar e => elemOK e
  | .listOf e => elemOK e
  | .arrayOf e _ dflt => elemOK e && itemOK dflt

def findDesc (pid : Nat) : List PropDesc → Option PropDesc
  | [] => none
  | d :: rest => if d.id = pid then some d else findDesc pid rest

/-- what every registered object type must provide (`Object.properties` +
    `register_object_type`): unique identifiers; objectIdentifier served by
    ObjectIdentifierProperty, required, read-only; objectName required;
    objectType required, read-only, defaulting to the type's own number;
    propertyList an array of property identifiers -/
def typeOK (t : ObjType) : Bool :=
  idsNodup (t.props.map (·.id)) && t.props.all propOK &&
  (match findDesc pidObjectIdentifier t.props with
   | some p => p.custom == .objId && !p.optional && !p.mutable && p.dt == .scalar (.atomic 12 0 none)
   | none => false) &&
  (match findDesc pidObjectName t.props with
   | some p => !p.optional && p.dt == .scalar (.atomic 7 0 none)
   | none => false) &&
  (match findDesc pidObjectType t.props with
   | some p => p.custom == .std && !p.optional && !p.mutable && p.dt == .scalar (.atomic 9 0 none) &&
               p.dflt == some (enumItem t.num)
   | none => false) &&
  (match findDesc pidPropertyList t.props with
   | some p => p.dt.isArray
   | none => false)

def tableOK (ts : List ObjType) : Bool :=
  idsNodup (ts.map (·.num)) && ts.all typeOK

/-- the table generated from the live registry is well-formed (kernel
    evaluation over all 63 types / 2274 descriptors; re-run whenever the
    registry changes) -/
theorem generated_table_ok : tableOK Gen.Objects.objectTypes = true := by decide +kernel

/-- the registry has the 63 standard object types -/
theorem generated_table_size : Gen.Objects.objectTypes.length = 63 := by decide +kernel


/-! ### consequences of well-formedness, for any table -/

theorem idsNodup_nodup : ∀ (l : List Nat), idsNodup l = true → l.Nodup := by
  intro l
  induction l with
  | nil => intro _; exact List.nodup_nil
  | cons x rest ih =>
    intro h
    simp only [idsNodup, Bool.and_eq_true, Bool.not_eq_true', List.contains_eq_mem,
      decide_eq_false_iff_not] at h
    exact List.nodup_cons.mpr ⟨h.1, ih h.2⟩

theorem findSlot_map_initSlot (init : List (Nat × PVal)) (pid : Nat) :
    ∀ props : List PropDesc,
      findSlot pid (props.map (initSlot init)) = (findDesc pid props).map (initSlot init) := by
  intro props
  induction props with
  | nil => rfl
  | cons p rest ih =>
    have hid : (initSlot init p).d.id = p.id := by
      unfold initSlot; split <;> (try split) <;> rfl
    simp only [List.map_cons, findSlot, findDesc, hid]
    split
    · rfl
    · exact ih

theorem findDesc_id (pid : Nat) : ∀ (props : List PropDesc) (p : PropDesc),
    findDesc pid props = some p → p.id = pid := by
  intro props
  induction props with
  | nil => intro p h; simp [findDesc] at h
  | cons q rest ih =>
    intro p h
    unfold findDesc at h
    split at h
    · rename_i hq; simp at h; subst h; exact hq
    · exact ih p h

/-- every object created from a well-formed registered type answers
    ReadProperty(objectType) with the number of its own type (the default that
    `register_object_type` installs and `Object.__init__` applies) -/
theorem fresh_object_reads_its_type (t : ObjType) (ht : typeOK t = true)
    (init : List (Nat × PVal)) (hinit : init.find? (fun kv => kv.1 = pidObjectType) = none) :
    readObject (mkObject t.num t.props none init) pidObjectType none =
      .ok [appTag 9 (natOctets t.num)] := by
  unfold typeOK at ht
  simp only [Bool.and_eq_true] at ht
  obtain ⟨⟨⟨⟨_, _⟩, _⟩, hty⟩, _⟩ := ht
  split at hty
  · rename_i p hp
    simp only [Bool.and_eq_true, beq_iff_eq, Bool.not_eq_true'] at hty
    obtain ⟨⟨⟨⟨hcu, _⟩, _⟩, hdt⟩, hdf⟩ := hty
    have hid : p.id = pidObjectType := findDesc_id _ _ _ hp
    have hslot : initSlot init p = { d := p, v := .one (enumItem t.num) } := by
      unfold initSlot
      rw [hid, hinit]
      simp [hdf]
    unfold readObject mkObject
    simp only [findSlot_map_initSlot, hp, Option.map_some, hslot]
    simp [propRead, hcu, stdRead, rpEncode, hdt, encItem, enumItem]
  · simp at hty

theorem sublist_filter_map_ids (props : List Slot) (f : Slot → Bool) :
    ((props.filter f).map (·.d.id)).Sublist (props.map (·.d.id)) :=
  List.Sublist.map _ List.filter_sublist

/-- on an object whose property identifiers are unique (true of every object
    built from a well-formed table, `mkObject_ids`), a selector reports no
    property twice -/
theorem selector_nodup (o : Object) (sel : Nat) (idx : Option Nat) (es : List RElem)
    (hids : idsNodup (o.props.map (·.d.id)) = true)
    (h : expandSel o sel idx o.props = .ok es) : (es.map (·.pid)).Nodup := by
  rw [selector_ids o sel idx o.props es h]
  exact List.Nodup.sublist (sublist_filter_map_ids _ _) (idsNodup_nodup _ hids)

theorem mkObject_ids (ty : Nat) (props : List PropDesc) (cmd : Option Cmd) (init : List (Nat × PVal)) :
    (mkObject ty props cmd init).props.map (·.d.id) = props.map (·.id) := by
  unfold mkObject
  simp only [List.map_map]
  apply List.map_congr_left
  intro p _
  simp only [Function.comp]
  unfold initSlot; split <;> (try split) <;> rfl


/-! ## error_matches, converse direction for unknown-object -/

/-- refusals that say "the object exists" -/
def objectKnown (e : Refusal) : Prop := e ≠ .unknownObject

theorem arrayGet_known (its : List Item) (i : Nat) (e : Refusal) (h : arrayGet its i = .error e) :
    objectKnown e := by
  unfold arrayGet at h
  by_cases h1 : i > its.length
  · simp [h1] at h; subst h; simp [objectKnown]
  · by_cases h2 : i = 0
    · simp [h2] at h
    · simp only [h1, h2, ↓reduceIte] at h
      split at h
      · simp at h
      · simp at h; subst h; simp [objectKnown]

theorem propListRead_known (o : Object) (idx : Option Nat) (e : Refusal)
    (h : propListRead o idx = .error e) : objectKnown e := by
  unfold propListRead at h
  cases idx with
  | none => simp at h
  | some i =>
    simp only at h
    by_cases h2 : i = 0
    · simp [h2] at h
    · simp only [h2, ↓reduceIte] at h
      split at h
      · simp at h; subst h; simp [objectKnown]
      · split at h
        · simp at h
        · simp at h; subst h; simp [objectKnown]

theorem stdRead_known (s : Slot) (idx : Option Nat) (e : Refusal) (h : stdRead s idx = .error e) :
    objectKnown e := by
  unfold stdRead at h
  cases idx with
  | none => simp only at h; split at h <;> simp at h
  | some i =>
    simp only at h
    split at h
    · simp at h; subst h; simp [objectKnown]
    · split at h
      · simp at h
      · exact arrayGet_known _ _ _ h
      · simp at h; subst h; simp [objectKnown]

theorem propRead_known (o : Object) (s : Slot) (idx : Option Nat) (e : Refusal)
    (h : propRead o s idx = .error e) : objectKnown e := by
  unfold propRead at h
  split at h
  · exact propListRead_known o idx e h
  · cases idx with
    | none => simp at h
    | some i => simp at h; subst h; simp [objectKnown]
  · exact stdRead_known s idx e h

theorem map_err {α β : Type} {f : α → β} {x : Except Refusal α} {e : Refusal}
    (h : x.map f = .error e) : x = .error e := by
  cases x with
  | error r => simpa [Except.map] using h
  | ok nv => simp [Except.map] at h

theorem arraySet_known (its : List Item) (fixed : Option Nat) (dflt : Item) (i : Nat) (v : WVal) (e : Refusal)
    (h : arraySet its fixed dflt i v = .error e) : objectKnown e := by
  unfold arraySet at h
  by_cases h1 : i > its.length
  · simp [h1] at h; subst h; simp [objectKnown]
  · by_cases h2 : i = 0
    · subst h2
      simp only [Nat.not_lt_zero, ↓reduceIte] at h
      split at h
      · split at h
        · simp at h; subst h; simp [objectKnown]
        · split at h
          · split at h
            · simp at h
            · simp at h; subst h; simp [objectKnown]
          · simp at h
      · simp at h; subst h; simp [objectKnown]
    · simp only [h1, h2, ↓reduceIte] at h
      split at h
      · simp at h
      · simp at h; subst h; simp [objectKnown]

theorem assign_known (dt : DT) (old : PVal) (v : WVal) (idx : Option Nat) (e : Refusal)
    (h : assign dt old v idx = .error e) : objectKnown e := by
  unfold assign at h
  split at h
  · split at h
    · split at h
      · simp at h; subst h; simp [objectKnown]
      · exact arraySet_known _ _ _ _ _ _ (map_err h)
      · simp at h; subst h; simp [objectKnown]
    · simp at h; subst h; simp [objectKnown]
  · split at h
    · simp at h
    · split at h
      · split at h
        · simp at h
        · simp at h; subst h; simp [objectKnown]
      · simp at h
    · simp at h
    · simp at h; subst h; simp [objectKnown]

theorem stdWrite_known (s : Slot) (v : WVal) (idx : Option Nat) (e : Refusal)
    (h : stdWrite s v idx = .error e) : objectKnown e := by
  unfold stdWrite at h
  split at h
  · simp at h; subst h; simp [objectKnown]
  · split at h
    · rename_i r hl
      simp at h; subst h
      rcases ladder_error _ _ _ _ hl with h' | h' <;> (subst h'; simp [objectKnown, invalidDatatype])
    · exact assign_known _ _ _ _ _ h

theorem propWrite_known (d : Device) (o : Object) (s : Slot) (v : WVal) (idx : Option Nat) (e : Refusal)
    (h : propWrite d o s v idx = .error e) : objectKnown e := by
  unfold propWrite at h
  split at h
  · simp at h; subst h; simp [objectKnown]
  · simp at h; subst h; simp [objectKnown]
  · split at h
    · simp at h; subst h; simp [objectKnown]
    · split at h
      · split at h
        · split at h
          · exact stdWrite_known _ _ _ _ (map_err h)
          · simp at h; subst h; simp [objectKnown]
        · simp at h; subst h; simp [objectKnown]
      · simp at h; subst h; simp [objectKnown]
  · split at h
    · split at h
      · simp at h
      · split at h
        · simp at h; subst h; simp [objectKnown]
        · exact stdWrite_known _ _ _ _ (map_err h)
    · exact stdWrite_known _ _ _ _ (map_err h)
  · exact stdWrite_known _ _ _ _ (map_err h)

theorem objWritePlain_known (d : Device) (o : Object) (pid : Nat) (v : WVal) (idx : Option Nat) (e : Refusal)
    (h : (objWritePlain d o pid v idx).2 = .error e) : objectKnown e := by
  unfold objWritePlain at h
  split at h
  · simp at h; subst h; simp [objectKnown]
  · split at h
    · rename_i r hr; simp at h; subst h; exact propWrite_known _ _ _ _ _ _ hr
    · simp at h
    · simp at h

theorem cmdSettle_known (d : Device) (o1 : Object) (c : Cmd) (e : Refusal)
    (h : (cmdSettle d o1 c).2 = .error e) : objectKnown e := by
  unfold cmdSettle at h
  split at h
  · split at h
    · simp only at h
      split at h
      · simp at h
      · split at h
        · exact objWritePlain_known _ _ _ _ _ _ h
        · simp at h; subst h; simp [objectKnown]
    · simp at h; subst h; simp [objectKnown]
  · simp at h; subst h; simp [objectKnown]

theorem cmdSlotWrite_known (d : Device) (o : Object) (c : Cmd) (v : WVal) (i : Int) (e : Refusal)
    (h : (cmdSlotWrite d o c v i).2 = .error e) : objectKnown e := by
  unfold cmdSlotWrite at h
  split at h
  · simp at h; subst h; simp [objectKnown]
  · split at h
    · simp at h; subst h; simp [objectKnown]
    · split at h
      · split at h
        · simp only at h
          split at h
          · rename_i r hr
            simp at h; subst h
            repeat' split at hr
            all_goals first
              | (simp at hr; subst hr; simp [objectKnown, invalidDatatype])
              | simp at hr
          · exact cmdSettle_known _ _ _ _ h
        · simp at h; subst h; simp [objectKnown]
      · simp at h; subst h; simp [objectKnown]

theorem objWrite_known (d : Device) (o : Object) (pid : Nat) (v : WVal) (idx : Option Nat)
    (prio : Option Int) (e : Refusal) (h : (objWrite d o pid v idx prio).2 = .error e) :
    objectKnown e := by
  unfold objWrite at h
  split at h
  · rename_i c _
    unfold objWriteCmd at h
    split at h
    · exact cmdSlotWrite_known _ _ _ _ _ _ h
    · split at h
      · split at h
        · unfold cmdWholeWrite at h
          split at h
          · rename_i o1 r heq
            simp at h; subst h
            have : (objWritePlain d o c.pa v none).2 = .error r := by rw [heq]
            exact objWritePlain_known _ _ _ _ _ _ this
          · exact cmdSettle_known _ _ _ _ h
        · exact cmdSlotWrite_known _ _ _ _ _ _ h
      · exact objWritePlain_known _ _ _ _ _ _ h
  · exact objWritePlain_known _ _ _ _ _ _ h

/-- **error_matches, converse for unknown-object (writes)**: WriteProperty answers
    Error(object, unknown-object) exactly when the device has no object with
    that identifier — no other path of the handler produces this error. -/
theorem unknown_object_write_iff (d : Device) (r : WriteReq) :
    (writeService d r).2 = .error .unknownObject ↔ findObj r.oid d.objs = none := by
  constructor
  · intro h
    cases hobj : findObj r.oid d.objs with
    | none => rfl
    | some o =>
      exfalso
      unfold writeService at h
      simp only [hobj] at h
      cases hpre : objRead o r.pid r.idx with
      | error e' =>
        simp [hpre] at h
        unfold objRead at hpre
        split at hpre
        · simp at hpre; subst hpre; simp at h
        · exact propRead_known _ _ _ _ hpre h
      | ok rv0 =>
        cases rv0 with
        | none => simp [hpre] at h
        | whole _ | len _ | elem _ =>
          simp only [hpre] at h
          cases hs : findSlot r.pid o.props with
          | none => simp [hs] at h
          | some s =>
            simp only [hs] at h
            cases hc : castOut s.d.dt r.idx r.value with
            | error e' =>
              simp [hc] at h
              obtain ⟨n, hn⟩ := castOut_error_is_reject _ _ _ _ hc
              subst hn; simp at h
            | ok v =>
              simp only [hc] at h
              exact objWrite_known d o r.pid v r.idx r.prio _ h rfl
  · intro h; rw [unknown_object_write d r h]

/-! ## selectors with an array index -/

/-- **rpm_selector_with_index**: a ReadPropertyMultiple reference that combines a
    selector (`all` / `required` / `optional`) with an array index `i` is answered,
    for the object found, with one element per selected property that ReadProperty
    does not call unknown; every element carries the index `i` and is exactly
    what `ReadProperty(object, that property, i)` answers: the element or
    length of an array property, property-is-not-an-array (embedded) for
    every other property, invalid-array-index (embedded) beyond the end. -/
theorem rpm_selector_with_index (d : Device) (oid : Oid) (o : Object) (sel i : Nat) (es : List RElem)
    (ho : findObj (resolveOid d oid) d.objs = some o) (hsel : isSelector sel = true)
    (h : rpmRef (some o) ⟨sel, some i⟩ = .ok es) :
    (∀ e ∈ es, e.idx = some i ∧
        match e.res with
        | .val t => readService d oid e.pid (some i) = .ok t
        | .err r => readService d oid e.pid (some i) = .error r) ∧
    es.map (·.pid) =
      (o.props.filter fun s =>
        selects sel s.d && !isUnknownProperty (readObject o s.d.id (some i))).map (·.d.id) := by
  have h' : expandSel o sel (some i) o.props = .ok es := by
    simpa [rpmRef, hsel] using h
  refine ⟨?_, selector_ids o sel (some i) o.props es h'⟩
  intro e he
  obtain ⟨hidx, hag⟩ := expandSel_agrees d oid o sel (some i) ho o.props es h' e he
  refine ⟨hidx, ?_⟩
  unfold ElemAgrees at hag
  rw [hidx] at hag
  exact hag

/-- what such an element is for a property that is not an array: the embedded
    property-is-not-an-array error (never dropped, never a value) -/
theorem rpm_selector_with_index_not_array (o : Object) (i : Nat) (s : Slot)
    (hs : findSlot s.d.id o.props = some s)
    (hc : s.d.custom ≠ .propList) (hna : s.d.dt.isArray = false) :
    readToElem (some o) s.d.id (some i) = .ok ⟨s.d.id, some i, .err .notAnArray⟩ := by
  simp [readToElem, readToAny_eq, readObject, hs, propRead_not_array o s i hc hna, Refusal.isExec]

/-! ## error_matches as a total, ordered case split — reads -/

/-- stored values whose un-encodable elements (un-initialised `fix_length`
    defaults) fail with a Reject / operational-problem, never with an
    ExecutionError code: true of every state reached from values that encode,
    because `fix_length` only appends the table's default (`generated_table_ok`:
    `itemOK dflt`) — `slotOK_stdWrite` -/
def pvalOK : PVal → Bool
  | .absent => true
  | .one it => itemOK it
  | .arr its => its.all itemOK
  | .lst its => its.all itemOK

def slotOK (s : Slot) : Bool :=
  pvalOK s.v &&
  (match s.d.custom with | .computed val => pvalOK val | _ => true) &&
  (match s.d.dt with | .arrayOf _ _ dflt => itemOK dflt | _ => true)

def rvOK : RVal → Bool
  | .none => true
  | .whole v => pvalOK v
  | .len _ => true
  | .elem it => itemOK it

/-- the serving classes that go through `Property.ReadProperty` -/
def stdLike (c : Custom) : Bool :=
  match c with
  | .std => true | .objId => true | .wrName => true
  | _ => false

theorem stdLike_iff (c : Custom) : stdLike c = true ↔ isStd c := by
  cases c <;> simp [stdLike, isStd]

/-- condition of property-is-not-an-array (given an index): the property is
    computed by the device, or served by Property.ReadProperty and not an array -/
def condNotArray (s : Slot) : Bool :=
  match s.d.custom with
  | .computed _ => true
  | .propList => false
  | _ => !s.d.dt.isArray

/-- condition of invalid-array-index for index `i`: beyond the stored array /
    beyond the computed property list -/
def condBadIndex (o : Object) (s : Slot) (i : Nat) : Bool :=
  match s.d.custom with
  | .propList => decide (i > (listedProps o.props).length)
  | .computed _ => false
  | _ => s.d.dt.isArray && (match s.v with | .arr its => decide (i > its.length) | _ => false)

/-- condition under which ReadProperty finds "no value" (Python None) -/
def condAbsent (s : Slot) (idx : Option Nat) : Bool :=
  stdLike s.d.custom && s.v == .absent && (idx.isNone || s.d.dt.isArray)

/-- an array property that does not hold an ArrayOf (outside the modelled states) -/
def condIllShaped (s : Slot) : Bool :=
  stdLike s.d.custom && s.d.dt.isArray &&
    (match s.v with | .one _ => true | .lst _ => true | _ => false)

theorem arrayGet_error_iff (its : List Item) (i : Nat) (e : Refusal) :
    arrayGet its i = .error e ↔ e = .invalidArrayIndex ∧ i > its.length := by
  unfold arrayGet
  by_cases h1 : i > its.length
  · simp [h1]; exact eq_comm
  · by_cases h2 : i = 0
    · simp [h2]
    · have hk : i - 1 < its.length := by omega
      simp [h1, h2, List.getElem?_eq_getElem hk]

theorem stdRead_error_iff (s : Slot) (idx : Option Nat) (e : Refusal) :
    stdRead s idx = .error e ↔
      ∃ i, idx = some i ∧
        ((e = .notAnArray ∧ s.d.dt.isArray = false) ∨
         (e = .invalidArrayIndex ∧ s.d.dt.isArray = true ∧ ∃ its, s.v = .arr its ∧ i > its.length) ∨
         (e = .opProblem ∧ s.d.dt.isArray = true ∧ ((∃ it, s.v = .one it) ∨ ∃ its, s.v = .lst its))) := by
  unfold stdRead
  cases idx with
  | none => simp only; split <;> simp
  | some i =>
    simp only
    cases harr : s.d.dt.isArray with
    | false => simp; exact eq_comm
    | true =>
      simp only [Bool.not_true, Bool.false_eq_true, ↓reduceIte]
      cases hv : s.v with
      | absent => simp
      | arr its => simp [arrayGet_error_iff]
      | one it => simp; exact eq_comm
      | lst its => simp; exact eq_comm

theorem stdRead_none_iff (s : Slot) (idx : Option Nat) :
    stdRead s idx = .ok .none ↔ s.v = .absent ∧ (idx = none ∨ s.d.dt.isArray = true) := by
  unfold stdRead
  cases idx with
  | none => simp only; split <;> simp_all
  | some i =>
    simp only
    cases harr : s.d.dt.isArray with
    | false => simp
    | true =>
      simp only [Bool.not_true, Bool.false_eq_true, ↓reduceIte]
      cases hv : s.v with
      | absent => simp
      | arr its =>
        simp only [reduceCtorEq, false_and, iff_false]
        intro h
        unfold arrayGet at h
        split at h
        · simp at h
        · split at h
          · simp at h
          · split at h <;> simp at h
      | one it => simp
      | lst its => simp


theorem propListRead_error_iff (o : Object) (idx : Option Nat) (e : Refusal) :
    propListRead o idx = .error e ↔
      ∃ i, idx = some i ∧ e = .invalidArrayIndex ∧ i > (listedProps o.props).length := by
  unfold propListRead
  cases idx with
  | none => simp
  | some i =>
    simp only
    by_cases h0 : i = 0
    · subst h0; simp
    · by_cases h1 : i > (listedProps o.props).length
      · have h1' : (listedProps o.props).length < i := h1
        simp [h0, h1']; exact eq_comm
      · have hk : i - 1 < (listedProps o.props).length := by omega
        have h1' : ¬ (listedProps o.props).length < i := by omega
        simp [h0, h1', List.getElem?_eq_getElem hk]

theorem propListRead_ne_none (o : Object) (idx : Option Nat) : propListRead o idx ≠ .ok .none := by
  unfold propListRead
  cases idx with
  | none => simp
  | some i =>
    simp only
    split
    · simp
    · split
      · simp
      · split <;> simp

/-- when `prop.ReadProperty` raises, and what -/
theorem propRead_error_iff (o : Object) (s : Slot) (idx : Option Nat) (e : Refusal) :
    propRead o s idx = .error e ↔
      ∃ i, idx = some i ∧
        ((e = .notAnArray ∧ condNotArray s = true) ∨
         (e = .invalidArrayIndex ∧ condNotArray s = false ∧ condBadIndex o s i = true) ∨
         (e = .opProblem ∧ condIllShaped s = true)) := by
  unfold propRead condNotArray condBadIndex condIllShaped
  cases hc : s.d.custom with
  | propList => simp [propListRead_error_iff, stdLike]
  | computed v =>
    cases idx with
    | none => simp
    | some i => simp [stdLike]; exact eq_comm
  | std | objId | wrName =>
    simp only [stdRead_error_iff, stdLike, Bool.true_and]
    constructor
    · rintro ⟨i, hi, h⟩
      refine ⟨i, hi, ?_⟩
      rcases h with ⟨he, ha⟩ | ⟨he, ha, its, hv, hl⟩ | ⟨he, ha, hv⟩
      · exact Or.inl ⟨he, by simp [ha]⟩
      · exact Or.inr (Or.inl ⟨he, by simp [ha], by simp [ha, hv, hl]⟩)
      · refine Or.inr (Or.inr ⟨he, ?_⟩)
        rcases hv with ⟨it, hv⟩ | ⟨its, hv⟩ <;> simp [ha, hv]
    · rintro ⟨i, hi, h⟩
      refine ⟨i, hi, ?_⟩
      rcases h with ⟨he, ha⟩ | ⟨he, ha, hb⟩ | ⟨he, hb⟩
      · exact Or.inl ⟨he, by simpa using ha⟩
      · have ha' : s.d.dt.isArray = true := by simpa using ha
        refine Or.inr (Or.inl ⟨he, ha', ?_⟩)
        simp only [ha', Bool.true_and] at hb
        split at hb
        · rename_i its hv; exact ⟨its, hv, by simpa using hb⟩
        · simp at hb
      · simp only [Bool.and_eq_true] at hb
        refine Or.inr (Or.inr ⟨he, hb.1, ?_⟩)
        have := hb.2
        split at this
        · rename_i it hv; exact Or.inl ⟨it, hv⟩
        · rename_i its hv; exact Or.inr ⟨its, hv⟩
        · simp at this

/-- when `prop.ReadProperty` returns Python `None` -/
theorem propRead_none_iff (o : Object) (s : Slot) (idx : Option Nat) :
    propRead o s idx = .ok .none ↔ condAbsent s idx = true := by
  unfold propRead condAbsent
  cases hc : s.d.custom with
  | propList => simp [stdLike, propListRead_ne_none]
  | computed v => cases idx <;> simp [stdLike]
  | std | objId | wrName =>
    simp only [stdRead_none_iff, stdLike, Bool.true_and, Bool.and_eq_true, beq_iff_eq, Bool.or_eq_true,
      Option.isNone_iff_eq_none]


theorem encItem_error (it : Item) (e : Refusal) (h : encItem it = .error e) (hok : itemOK it = true) :
    e.isExec = false := by
  cases it with
  | enc t => simp [encItem] at h
  | unenc r => simp [encItem] at h; subst h; simpa [itemOK] using hok

theorem encItems_error : ∀ (its : List Item) (e : Refusal), encItems its = .error e →
    its.all itemOK = true → e.isExec = false := by
  intro its
  induction its with
  | nil => intro e h; simp [encItems] at h
  | cons it rest ih =>
    intro e h hok
    simp only [List.all_cons, Bool.and_eq_true] at hok
    cases it with
    | unenc r => simp [encItems] at h; subst h; simpa [itemOK] using hok.1
    | enc t =>
      simp only [encItems] at h
      split at h
      · rename_i r hr; simp at h; subst h; exact ih _ hr hok.2
      · simp at h

/-- the encoding step fails either because there is no value (unknown-property)
    or with a refusal that is not an ExecutionError -/
theorem rpEncode_error (dt : DT) (idx : Option Nat) (rv : RVal) (e : Refusal)
    (h : rpEncode dt idx rv = .error e) (hok : rvOK rv = true) :
    (rv = .none ∧ e = .unknownProperty) ∨ e.isExec = false := by
  unfold rpEncode at h
  cases rv with
  | none => simp at h; exact Or.inl ⟨rfl, h.symm⟩
  | len n => simp [encItem, unsignedItem] at h
  | elem it => exact Or.inr (encItem_error it e h hok)
  | whole v =>
    right
    simp only at h
    split at h
    · exact encItem_error _ e h hok
    · exact encItems_error _ e h hok
    · exact encItems_error _ e h hok
    · simp at h; subst h; rfl

theorem propRead_rvOK (o : Object) (s : Slot) (idx : Option Nat) (rv : RVal)
    (h : propRead o s idx = .ok rv) (hok : slotOK s = true) : rvOK rv = true := by
  simp only [slotOK, Bool.and_eq_true] at hok
  obtain ⟨⟨hv, hc⟩, _⟩ := hok
  unfold propRead at h
  split at h
  · unfold propListRead at h
    cases idx with
    | none => simp at h; subst h; simp [rvOK, pvalOK, itemOK, enumItem]
    | some i =>
      simp only at h
      split at h
      · simp at h; subst h; rfl
      · split at h
        · simp at h
        · split at h
          · rename_i it hit
            simp at h; subst h
            have := List.mem_of_getElem? hit
            simp only [List.mem_map] at this
            obtain ⟨p, _, hp⟩ := this
            subst hp; simp [rvOK, itemOK, enumItem]
          · simp at h
  · rename_i val hcu
    cases idx with
    | none => simp at h; subst h; simpa [rvOK, pvalOK, hcu] using hc
    | some i => simp at h
  · unfold stdRead at h
    cases idx with
    | none =>
      simp only at h
      split at h
      · simp at h; subst h; rfl
      · simp at h; subst h; simpa [rvOK] using hv
    | some i =>
      simp only at h
      split at h
      · simp at h
      · split at h
        · simp at h; subst h; rfl
        · rename_i its hvv
          unfold arrayGet at h
          split at h
          · simp at h
          · split at h
            · simp at h; subst h; rfl
            · split at h
              · rename_i it hit
                simp at h; subst h
                have hm := List.mem_of_getElem? hit
                rw [hvv] at hv
                simp only [pvalOK, List.all_eq_true] at hv
                simpa [rvOK] using hv it hm
              · simp at h
        · simp at h

/-- the decision ladder of `do_ReadPropertyRequest` as a total, ordered case
    split over conditions on the state: `some e` = the request is refused with
    the ExecutionError `e`; `none` = the value is read and handed to the encoder -/
def readLadder (d : Device) (oid : Oid) (pid : Nat) (idx : Option Nat) : Option Refusal :=
  match findObj (resolveOid d oid) d.objs with
  | none => some .unknownObject
  | some o =>
    match findSlot pid o.props with
    | none => some .unknownProperty
    | some s =>
      match idx with
      | some i =>
        if condNotArray s then some .notAnArray
        else if condBadIndex o s i then some .invalidArrayIndex
        else if condAbsent s idx then some .unknownProperty
        else none
      | none => if condAbsent s idx then some .unknownProperty else none

def deviceItemsOK (d : Device) : Bool :=
  d.objs.all fun p => p.2.props.all slotOK

theorem findSlot_mem (pid : Nat) (props : List Slot) (s : Slot) (h : findSlot pid props = some s) :
    s ∈ props := by
  induction props with
  | nil => simp [findSlot] at h
  | cons x rest ih =>
    unfold findSlot at h
    split at h
    · simp at h; subst h; simp
    · exact List.mem_cons_of_mem _ (ih h)

theorem slotOK_of_device (d : Device) (oid : Oid) (o : Object) (pid : Nat) (s : Slot)
    (hok : deviceItemsOK d = true) (ho : findObj oid d.objs = some o)
    (hs : findSlot pid o.props = some s) : slotOK s = true := by
  have h1 := (List.all_eq_true.mp hok) _ (findObj_mem _ _ _ ho)
  exact (List.all_eq_true.mp h1) _ (findSlot_mem _ _ _ hs)

/-- the ladder decides: what it says is the answer -/
theorem readLadder_sound (d : Device) (oid : Oid) (pid : Nat) (idx : Option Nat) (e : Refusal)
    (h : readLadder d oid pid idx = some e) : readService d oid pid idx = .error e := by
  unfold readLadder at h
  unfold readService
  cases ho : findObj (resolveOid d oid) d.objs with
  | none => simp [ho] at h; subst h; rfl
  | some o =>
    simp only [ho] at h ⊢
    cases hs : findSlot pid o.props with
    | none => simp [hs] at h; subst h; rfl
    | some s =>
      simp only [hs] at h ⊢
      cases idx with
      | none =>
        simp only at h
        split at h
        · rename_i habs
          simp at h; subst h
          simp [(propRead_none_iff o s none).mpr habs, rpEncode]
        · simp at h
      | some i =>
        simp only at h
        split at h
        · rename_i hna
          simp at h; subst h
          have : propRead o s (some i) = .error .notAnArray :=
            (propRead_error_iff o s (some i) _).mpr ⟨i, rfl, Or.inl ⟨rfl, hna⟩⟩
          simp [this]
        · rename_i hna
          split at h
          · rename_i hbi
            simp at h; subst h
            have : propRead o s (some i) = .error .invalidArrayIndex :=
              (propRead_error_iff o s (some i) _).mpr
                ⟨i, rfl, Or.inr (Or.inl ⟨rfl, by simpa using hna, hbi⟩)⟩
            simp [this]
          · split at h
            · rename_i habs
              simp at h; subst h
              simp [(propRead_none_iff o s (some i)).mpr habs, rpEncode]
            · simp at h

/-- … and where the ladder lets the request through, the answer is an ack or a
    refusal that is not an ExecutionError (an element that cannot be encoded,
    an ill-shaped stored value) -/
theorem readLadder_complete (d : Device) (oid : Oid) (pid : Nat) (idx : Option Nat)
    (hok : deviceItemsOK d = true) (h : readLadder d oid pid idx = none) :
    ∀ e, readService d oid pid idx = .error e → e.isExec = false := by
  intro e he
  unfold readLadder at h
  unfold readService at he
  cases ho : findObj (resolveOid d oid) d.objs with
  | none => simp [ho] at h
  | some o =>
    simp only [ho] at h he
    cases hs : findSlot pid o.props with
    | none => simp [hs] at h
    | some s =>
      simp only [hs] at h he
      have hsok := slotOK_of_device d _ o pid s hok ho hs
      cases hp : propRead o s idx with
      | error r =>
        simp [hp] at he; subst he
        obtain ⟨i, hi, hcase⟩ := (propRead_error_iff o s idx r).mp hp
        subst hi
        simp only at h
        rcases hcase with ⟨_, hna⟩ | ⟨_, hna, hbi⟩ | ⟨hr, _⟩
        · simp [hna] at h
        · simp [hna, hbi] at h
        · subst hr; rfl
      | ok rv =>
        simp only [hp] at he
        have hrv := propRead_rvOK o s idx rv hp hsok
        rcases rpEncode_error _ _ _ _ he hrv with ⟨hnone, _⟩ | hne
        · subst hnone
          have habs := (propRead_none_iff o s idx).mp hp
          cases idx with
          | none => simp [habs] at h
          | some i =>
            simp only at h
            split at h
            · simp at h
            · split at h
              · simp at h
              · simp at h
        · exact hne

/-- **error_matches, reads, both directions**: for every ExecutionError code
    (unknown-object, unknown-property, property-is-not-an-array,
    invalid-array-index, …) ReadProperty answers Error `e` **iff** the ladder
    decides `e` — no other situation produces these answers, and none of these
    situations produces a different answer. -/
theorem read_error_iff (d : Device) (oid : Oid) (pid : Nat) (idx : Option Nat) (e : Refusal)
    (hok : deviceItemsOK d = true) (hex : e.isExec = true) :
    readService d oid pid idx = .error e ↔ readLadder d oid pid idx = some e := by
  constructor
  · intro h
    cases hl : readLadder d oid pid idx with
    | none =>
      have := readLadder_complete d oid pid idx hok hl e h
      rw [this] at hex; simp at hex
    | some e' =>
      have := readLadder_sound d oid pid idx e' hl
      rw [this] at h; simp at h; subst h; rfl
  · exact readLadder_sound d oid pid idx e


theorem condBadIndex_notArray (o : Object) (s : Slot) (i : Nat) (h : condBadIndex o s i = true) :
    condNotArray s = false := by
  unfold condBadIndex at h
  unfold condNotArray
  cases hc : s.d.custom <;> simp_all

theorem condAbsent_some (o : Object) (s : Slot) (i : Nat) (h : condAbsent s (some i) = true) :
    condNotArray s = false ∧ condBadIndex o s i = false := by
  unfold condAbsent at h
  unfold condNotArray condBadIndex
  cases hc : s.d.custom <;> simp_all [stdLike]

/-- the four read refusals, each with its exact condition -/
theorem read_unknown_object_iff (d : Device) (oid : Oid) (pid : Nat) (idx : Option Nat)
    (hok : deviceItemsOK d = true) :
    readService d oid pid idx = .error .unknownObject ↔ findObj (resolveOid d oid) d.objs = none := by
  rw [read_error_iff d oid pid idx _ hok rfl]
  unfold readLadder
  cases ho : findObj (resolveOid d oid) d.objs with
  | none => simp
  | some o =>
    simp only [reduceCtorEq, iff_false]
    cases hs : findSlot pid o.props with
    | none => simp
    | some s =>
      cases idx with
      | none => simp only; split <;> simp
      | some i => simp only; split <;> (try split) <;> (try split) <;> simp

theorem read_unknown_property_iff (d : Device) (oid : Oid) (pid : Nat) (idx : Option Nat)
    (hok : deviceItemsOK d = true) :
    readService d oid pid idx = .error .unknownProperty ↔
      ∃ o, findObj (resolveOid d oid) d.objs = some o ∧
        (findSlot pid o.props = none ∨ ∃ s, findSlot pid o.props = some s ∧ condAbsent s idx = true) := by
  rw [read_error_iff d oid pid idx _ hok rfl]
  unfold readLadder
  cases ho : findObj (resolveOid d oid) d.objs with
  | none => simp
  | some o =>
    simp only [Option.some.injEq, exists_eq_left']
    cases hs : findSlot pid o.props with
    | none => simp
    | some s =>
      simp only [Option.some.injEq, exists_eq_left', reduceCtorEq, false_or]
      cases idx with
      | none => simp only; split <;> simp_all
      | some i =>
        simp only
        by_cases habs : condAbsent s (some i) = true
        · obtain ⟨h1, h2⟩ := condAbsent_some o s i habs
          simp [h1, h2, habs]
        · simp only [habs, Bool.false_eq_true, iff_false]
          split
          · simp
          · split <;> simp

theorem read_not_an_array_iff (d : Device) (oid : Oid) (pid : Nat) (idx : Option Nat)
    (hok : deviceItemsOK d = true) :
    readService d oid pid idx = .error .notAnArray ↔
      ∃ o s i, findObj (resolveOid d oid) d.objs = some o ∧ findSlot pid o.props = some s ∧
        idx = some i ∧ condNotArray s = true := by
  rw [read_error_iff d oid pid idx _ hok rfl]
  unfold readLadder
  cases ho : findObj (resolveOid d oid) d.objs with
  | none => simp
  | some o =>
    simp only [Option.some.injEq]
    cases hs : findSlot pid o.props with
    | none => simp [hs]
    | some s =>
      cases idx with
      | none => simp only; split <;> simp
      | some i =>
        simp only [Option.some.injEq]
        by_cases hna : condNotArray s = true
        · simp [hs, hna]
        · simp only [hna, Bool.false_eq_true, ↓reduceIte]
          split
          · simp [hs, hna]
          · split <;> simp [hs, hna]

theorem read_invalid_array_index_iff (d : Device) (oid : Oid) (pid : Nat) (idx : Option Nat)
    (hok : deviceItemsOK d = true) :
    readService d oid pid idx = .error .invalidArrayIndex ↔
      ∃ o s i, findObj (resolveOid d oid) d.objs = some o ∧ findSlot pid o.props = some s ∧
        idx = some i ∧ condBadIndex o s i = true := by
  rw [read_error_iff d oid pid idx _ hok rfl]
  unfold readLadder
  cases ho : findObj (resolveOid d oid) d.objs with
  | none => simp
  | some o =>
    simp only [Option.some.injEq]
    cases hs : findSlot pid o.props with
    | none => simp [hs]
    | some s =>
      cases idx with
      | none => simp only; split <;> simp
      | some i =>
        simp only [Option.some.injEq]
        by_cases hbi : condBadIndex o s i = true
        · simp [hs, condBadIndex_notArray o s i hbi, hbi]
        · simp only [hbi, Bool.false_eq_true, ↓reduceIte]
          split
          · simp [hs, hbi]
          · split <;> simp [hs, hbi]


/-! ## error_matches as a total, ordered case split — writes -/

/-- the refusals that are none of the six the property names: value-out-of-range
    (a fixed-length array asked to change its length), duplicate-name
    (WriteableObjectName), operational-problem (ill-shaped state, mutable
    ObjectIdentifierProperty of another type) -/
def otherCode (e : Refusal) : Bool :=
  match e with
  | .valueOutOfRange => true | .duplicateName => true | .opProblem => true
  | _ => false

/-- the probe `obj.ReadProperty(pid, idx) is None` at the head of
    `do_WritePropertyRequest`, as conditions on the state -/
def preLadder (o : Object) (s : Slot) (idx : Option Nat) : Option Refusal :=
  match idx with
  | some i =>
    if condNotArray s then some .notAnArray
    else if condBadIndex o s i then some .invalidArrayIndex
    else if condAbsent s idx then some .unknownProperty
    else none
  | none => if condAbsent s idx then some .unknownProperty else none

/-- the probe lets the request through -/
def prePassed (o : Object) (s : Slot) (idx : Option Nat) : Prop :=
  ∃ rv, propRead o s idx = .ok rv ∧ rv ≠ .none

theorem preLadder_some (o : Object) (s : Slot) (idx : Option Nat) (e : Refusal)
    (h : preLadder o s idx = some e) :
    propRead o s idx = .error e ∨ (propRead o s idx = .ok .none ∧ e = .unknownProperty) := by
  unfold preLadder at h
  cases idx with
  | none =>
    simp only at h
    split at h
    · rename_i habs; simp at h; subst h
      exact Or.inr ⟨(propRead_none_iff o s none).mpr habs, rfl⟩
    · simp at h
  | some i =>
    simp only at h
    split at h
    · rename_i hna; simp at h; subst h
      exact Or.inl ((propRead_error_iff o s (some i) _).mpr ⟨i, rfl, Or.inl ⟨rfl, hna⟩⟩)
    · rename_i hna
      split at h
      · rename_i hbi; simp at h; subst h
        exact Or.inl ((propRead_error_iff o s (some i) _).mpr
          ⟨i, rfl, Or.inr (Or.inl ⟨rfl, by simpa using hna, hbi⟩)⟩)
      · split at h
        · rename_i habs; simp at h; subst h
          exact Or.inr ⟨(propRead_none_iff o s (some i)).mpr habs, rfl⟩
        · simp at h

theorem preLadder_none (o : Object) (s : Slot) (idx : Option Nat) (h : preLadder o s idx = none) :
    propRead o s idx = .error .opProblem ∨ prePassed o s idx := by
  cases hp : propRead o s idx with
  | error r =>
    obtain ⟨i, hi, hcase⟩ := (propRead_error_iff o s idx r).mp hp
    subst hi
    unfold preLadder at h
    simp only at h
    rcases hcase with ⟨_, hna⟩ | ⟨_, hna, hbi⟩ | ⟨hr, _⟩
    · simp [hna] at h
    · simp [hna, hbi] at h
    · subst hr; exact Or.inl rfl
  | ok rv =>
    right
    refine ⟨rv, hp, ?_⟩
    intro hn; subst hn
    have habs := (propRead_none_iff o s idx).mp hp
    unfold preLadder at h
    cases idx with
    | none => simp [habs] at h
    | some i =>
      obtain ⟨h1, h2⟩ := condAbsent_some o s i habs
      simp [h1, h2, habs] at h

/-- what a passed probe says about a property served by Property.ReadProperty -/
theorem prePassed_std (o : Object) (s : Slot) (idx : Option Nat) (hc : stdLike s.d.custom = true)
    (h : prePassed o s idx) :
    s.v ≠ .absent ∧
    ∀ i, idx = some i → s.d.dt.isArray = true ∧ ∃ its, s.v = .arr its ∧ i ≤ its.length := by
  obtain ⟨rv, hr, hne⟩ := h
  rw [propRead_eq_stdRead _ _ _ ((stdLike_iff _).mp hc)] at hr
  constructor
  · intro habs
    unfold stdRead at hr
    cases idx with
    | none => simp [habs] at hr; exact hne hr.symm
    | some i =>
      simp only [habs] at hr
      split at hr
      · simp at hr
      · simp at hr; exact hne hr.symm
  · intro i hi
    subst hi
    unfold stdRead at hr
    simp only at hr
    split at hr
    · simp at hr
    · rename_i harr
      have harr' : s.d.dt.isArray = true := by simpa using harr
      refine ⟨harr', ?_⟩
      split at hr
      · simp at hr; exact absurd hr.symm hne
      · rename_i its hv
        refine ⟨its, hv, ?_⟩
        unfold arrayGet at hr
        split at hr
        · simp at hr
        · omega
      · simp at hr


/-- `Property.WriteProperty` as conditions: read-only → write-access-denied;
    the value is not valid for the datatype → Reject(invalid-parameter-datatype);
    otherwise the assignment (which can only fail with one of the `otherCode`s) -/
def stdLadder (s : Slot) (v : WVal) (idx : Option Nat) : Option Refusal :=
  if !s.d.mutable then some .writeAccessDenied
  else
    match ladder s.d.dt v idx with
    | .error _ => some invalidDatatype
    | .ok () => none

theorem ladder_notAnArray (dt : DT) (v : WVal) (idx : Option Nat)
    (h : ladder dt v idx = .error .notAnArray) : dt.isArray = false ∧ idx.isSome = true := by
  unfold ladder at h
  split at h
  · split at h
    · split at h <;> simp [invalidDatatype] at h
    · simp [invalidDatatype] at h
  · split at h
    · split at h
      · split at h <;> simp [invalidDatatype] at h
      · simp [invalidDatatype] at h
    · split at h
      · split at h
        · split at h <;> simp [invalidDatatype] at h
        · simp [invalidDatatype] at h
      · split at h
        · split at h <;> simp [invalidDatatype] at h
        · simp [invalidDatatype] at h
    · split at h
      · simp [DT.isArray]
      · split at h
        · split at h <;> simp [invalidDatatype] at h
        · simp [invalidDatatype] at h

theorem arraySet_other (its : List Item) (fixed : Option Nat) (dflt : Item) (i : Nat) (v : WVal)
    (e : Refusal) (h : arraySet its fixed dflt i v = .error e) (hi : i ≤ its.length) :
    otherCode e = true := by
  unfold arraySet at h
  have h1 : ¬ i > its.length := by omega
  by_cases h2 : i = 0
  · subst h2
    simp only [Nat.not_lt_zero, ↓reduceIte] at h
    split at h
    · split at h
      · simp at h; subst h; rfl
      · split at h
        · split at h
          · simp at h
          · simp at h; subst h; rfl
        · simp at h
    · simp at h; subst h; rfl
  · simp only [h1, h2, ↓reduceIte] at h
    split at h
    · simp at h
    · simp at h; subst h; rfl

theorem assign_other (dt : DT) (old : PVal) (v : WVal) (idx : Option Nat) (e : Refusal)
    (h : assign dt old v idx = .error e)
    (hpre : ∀ i, idx = some i → dt.isArray = true ∧ ∃ its, old = .arr its ∧ i ≤ its.length) :
    otherCode e = true := by
  unfold assign at h
  cases idx with
  | some i =>
    obtain ⟨harr, its, hold, hi⟩ := hpre i rfl
    simp only at h
    split at h
    · subst hold
      simp only at h
      exact arraySet_other _ _ _ _ _ _ (map_err h) hi
    · rename_i hdt
      cases dt <;> simp_all [DT.isArray]
  | none =>
    simp only at h
    split at h
    · simp at h
    · split at h
      · split at h
        · simp at h
        · simp at h; subst h; rfl
      · simp at h
    · simp at h
    · simp at h; subst h; rfl

theorem stdWrite_stdLadder (s : Slot) (v : WVal) (idx : Option Nat)
    (hpre : ∀ i, idx = some i → s.d.dt.isArray = true ∧ ∃ its, s.v = .arr its ∧ i ≤ its.length) :
    (∀ e, stdLadder s v idx = some e → stdWrite s v idx = .error e) ∧
    (stdLadder s v idx = none → ∀ e, stdWrite s v idx = .error e → otherCode e = true) := by
  unfold stdLadder stdWrite
  cases hm : s.d.mutable with
  | false => simp
  | true =>
    simp only [Bool.not_true, Bool.false_eq_true, ↓reduceIte]
    cases hl : ladder s.d.dt v idx with
    | error r =>
      simp only [reduceCtorEq, false_implies, and_true, Option.some.injEq]
      intro e he; subst he
      rcases ladder_error _ _ _ _ hl with h | h
      · rw [h]
      · subst h
        obtain ⟨h1, h2⟩ := ladder_notAnArray _ _ _ hl
        cases idx with
        | none => simp at h2
        | some i => have := (hpre i rfl).1; rw [h1] at this; simp at this
    | ok u =>
      simp only [reduceCtorEq, false_implies, implies_true, true_and, forall_const]
      intro e he
      exact assign_other _ _ _ _ _ he hpre


/-- `prop.WriteProperty` of an object without (or outside) the Commandable
    mix-in, by serving class -/
def plainLadder (d : Device) (o : Object) (s : Slot) (v : WVal) (idx : Option Nat) : Option Refusal :=
  match s.d.custom with
  | .propList => some .writeAccessDenied
  | .computed _ => some .writeAccessDenied
  | .objId =>
      if !s.d.mutable then some .writeAccessDenied
      else
        match v with
        | .one _ it =>
          (match itemNat it with
           | some n => if n / 4194304 = o.ty then stdLadder s v idx else none
           | none => none)
        | _ => none
  | .wrName =>
      match v with
      | .one _ it =>
        if s.v = .one it then none
        else if (deviceNames d).contains (.one it) then none
        else stdLadder s v idx
      | _ => stdLadder s v idx
  | .std => stdLadder s v idx

theorem map_some_error_iff {x : Except Refusal PVal} {e : Refusal} :
    x.map some = .error e ↔ x = .error e := by
  cases x <;> simp [Except.map]

theorem propWrite_plainLadder (d : Device) (o : Object) (s : Slot) (v : WVal) (idx : Option Nat)
    (hpre : stdLike s.d.custom = true →
      ∀ i, idx = some i → s.d.dt.isArray = true ∧ ∃ its, s.v = .arr its ∧ i ≤ its.length) :
    (∀ e, plainLadder d o s v idx = some e → propWrite d o s v idx = .error e) ∧
    (plainLadder d o s v idx = none → ∀ e, propWrite d o s v idx = .error e → otherCode e = true) := by
  unfold plainLadder propWrite
  cases hc : s.d.custom with
  | propList => simp
  | computed val => simp
  | std =>
    have := stdWrite_stdLadder s v idx (hpre (by simp [hc, stdLike]))
    simp only [map_some_error_iff]
    exact this
  | objId =>
    have hstd := stdWrite_stdLadder s v idx (hpre (by simp [hc, stdLike]))
    simp only
    cases hm : s.d.mutable with
    | false => simp
    | true =>
      simp only [Bool.not_true, Bool.false_eq_true, ↓reduceIte]
      cases v with
      | null => simp [otherCode]
      | many e' its => simp [otherCode]
      | one e' it =>
        simp only
        cases hn : itemNat it with
        | none => simp [otherCode]
        | some n =>
          simp only
          by_cases hty : n / 4194304 = o.ty
          · simp only [hty, ↓reduceIte, map_some_error_iff]; exact hstd
          · simp [hty, otherCode]
  | wrName =>
    have hstd := stdWrite_stdLadder s v idx (hpre (by simp [hc, stdLike]))
    simp only
    cases v with
    | null => simp only [map_some_error_iff]; exact hstd
    | many e' its => simp only [map_some_error_iff]; exact hstd
    | one e' it =>
      simp only
      by_cases hsame : s.v = .one it
      · simp [hsame]
      · simp only [hsame, ↓reduceIte]
        by_cases hdup : (deviceNames d).contains (.one it) = true
        · simp only [hdup, ↓reduceIte]
          constructor
          · intro e he; simp at he
          · intro _ e he; simp at he; subst he; rfl
        · simp only [hdup, Bool.false_eq_true, ↓reduceIte, map_some_error_iff]; exact hstd

theorem objWritePlain_snd (d : Device) (o : Object) (pid : Nat) (s : Slot) (v : WVal) (idx : Option Nat)
    (hs : findSlot pid o.props = some s) :
    (objWritePlain d o pid v idx).2 =
      match propWrite d o s v idx with
      | .error e => .error e
      | .ok _ => .ok () := by
  unfold objWritePlain
  simp only [hs]
  cases propWrite d o s v idx with
  | error e => rfl
  | ok res => cases res <;> rfl

/-- a command into slot `p` of the priority array (presentValue with priority
    `p`, or priorityArray[p] directly) -/
def slotLadder (pvdt : DT) (v : WVal) (p : Int) : Option Refusal :=
  if p = 0 then some .writeAccessDenied
  else if p < 1 ∨ p > 16 then some .invalidArrayIndex
  else
    match v with
    | .null => none
    | .one e' it =>
      (match pvdt with
       | .scalar e => if elemValid e e' it then none else some invalidDatatype
       | _ => some invalidDatatype)
    | .many .. => some invalidDatatype

theorem cmdSlotWrite_slotLadder (d : Device) (o : Object) (c : Cmd) (v : WVal) (p : Int) (pv : Slot)
    (hok : cmdOK o c = true) (hpv : findSlot c.pv o.props = some pv) :
    (cmdSlotWrite d o c v p).2 =
      match slotLadder pv.d.dt v p with
      | some e => .error e
      | none => .ok () := by
  obtain ⟨n1, n2, n3, pv', pa, rd, el, slots, rit, hpv', hpa, hrd, hcu, hmut, hcu2, hmut2, harr, hcu3, hdt3, hdt,
    hpav, hrdv, hlen, hr, hs⟩ := cmdOK_elim o c hok
  rw [hpv] at hpv'; simp only [Option.some.injEq] at hpv'; subst hpv'
  unfold cmdSlotWrite slotLadder
  by_cases hi0 : p = 0
  · simp [hi0]
  · by_cases hir : p < 1 ∨ p > 16
    · simp [hi0, hir]
    · simp only [hi0, hir, ↓reduceIte, hpa, hpv, hpav, hdt]
      cases v with
      | null =>
        simp only
        exact cmdSettle_ok d _ c
          (cmdOK_setSlot o c hok pa slots pv el hpa hpav hpv hdt (p.toNat - 1) (.enc [nullTag]) (Or.inl rfl))
      | many e' its => simp
      | one e' it =>
        simp only
        by_cases hv : elemValid el e' it = true
        · simp only [hv, ↓reduceIte]
          exact cmdSettle_ok d _ c
            (cmdOK_setSlot o c hok pa slots pv el hpa hpav hpv hdt (p.toNat - 1) it
              (Or.inr (elemValid_self _ _ _ hv)))
        · simp [hv]

/-- the datatype of presentValue of a commandable object -/
def pvDT (o : Object) (c : Cmd) : DT :=
  match findSlot c.pv o.props with
  | some pv => pv.d.dt
  | none => .scalar .anyAtomic

/-- `obj.WriteProperty`: Commandable intercepts presentValue and priorityArray -/
def objLadder (d : Device) (o : Object) (pid : Nat) (s : Slot) (v : WVal) (idx : Option Nat)
    (prio : Option Int) : Option Refusal :=
  match o.cmd with
  | none => plainLadder d o s v idx
  | some c =>
    if pid = c.pv then slotLadder (pvDT o c) v (effPrio prio)
    else if pid = c.pa then
      match idx with
      | none => some .writeAccessDenied
      | some i => slotLadder (pvDT o c) v (Int.ofNat i)
    else plainLadder d o s v idx

theorem objWrite_objLadder (d : Device) (o : Object) (pid : Nat) (s : Slot) (v : WVal)
    (idx : Option Nat) (prio : Option Int)
    (hs : findSlot pid o.props = some s)
    (hcmd : ∀ c, o.cmd = some c → cmdOK o c = true)
    (hpre : stdLike s.d.custom = true →
      ∀ i, idx = some i → s.d.dt.isArray = true ∧ ∃ its, s.v = .arr its ∧ i ≤ its.length) :
    (∀ e, objLadder d o pid s v idx prio = some e → (objWrite d o pid v idx prio).2 = .error e) ∧
    (objLadder d o pid s v idx prio = none →
      ∀ e, (objWrite d o pid v idx prio).2 = .error e → otherCode e = true) := by
  have hplain : (∀ e, plainLadder d o s v idx = some e → (objWritePlain d o pid v idx).2 = .error e) ∧
      (plainLadder d o s v idx = none →
        ∀ e, (objWritePlain d o pid v idx).2 = .error e → otherCode e = true) := by
    obtain ⟨h1, h2⟩ := propWrite_plainLadder d o s v idx hpre
    rw [objWritePlain_snd d o pid s v idx hs]
    constructor
    · intro e he; rw [h1 e he]
    · intro hn e he
      cases hp : propWrite d o s v idx with
      | error r => rw [hp] at he; simp at he; subst he; exact h2 hn _ hp
      | ok res => rw [hp] at he; simp at he
  unfold objLadder objWrite
  cases hc : o.cmd with
  | none => exact hplain
  | some c =>
    have hok := hcmd c hc
    obtain ⟨n1, _, _, pv, _, _, _, _, _, hpv, _⟩ := cmdOK_elim o c hok
    have hdt : pvDT o c = pv.d.dt := by simp [pvDT, hpv]
    simp only
    unfold objWriteCmd
    by_cases h1 : pid = c.pv
    · simp only [h1, ↓reduceIte, hdt]
      rw [cmdSlotWrite_slotLadder d o c v _ pv hok hpv]
      cases slotLadder pv.d.dt v (effPrio prio) <;> simp
    · by_cases h2 : pid = c.pa
      · simp only [h2, ↓reduceIte, hdt]
        have h1' : ¬ c.pa = c.pv := n1
        simp only [h1', ↓reduceIte]
        cases idx with
        | none => simp [cmdWholeWrite_pure d o c v hok]
        | some i =>
          simp only
          rw [cmdSlotWrite_slotLadder d o c v _ pv hok hpv]
          cases slotLadder pv.d.dt v (Int.ofNat i) <;> simp
      · simp only [h1, h2, ↓reduceIte]
        exact hplain


/-- the decision ladder of `do_WritePropertyRequest` as a total, ordered case
    split: object, property, the read probe (not-an-array, array index, no
    value), the decoding of the value for the datatype, then the serving
    class (read-only, validity of the value, Commandable's priority checks).
    `some e` = refused with `e`; `none` = acknowledged, or refused with one of
    the `otherCode`s by the assignment itself. -/
def writeLadder (d : Device) (r : WriteReq) : Option Refusal :=
  match findObj r.oid d.objs with
  | none => some .unknownObject
  | some o =>
    match findSlot r.pid o.props with
    | none => some .unknownProperty
    | some s =>
      match preLadder o s r.idx with
      | some e => some e
      | none =>
        if condIllShaped s && r.idx.isSome then none
        else
          match castOut s.d.dt r.idx r.value with
          | .error e => some e
          | .ok v => objLadder d o r.pid s v r.idx r.prio

theorem deviceOK_cmd (d : Device) (oid : Oid) (o : Object) (hdev : deviceOK d = true)
    (ho : findObj oid d.objs = some o) : ∀ c, o.cmd = some c → cmdOK o c = true := by
  intro c hc
  have := (List.all_eq_true.mp hdev) _ (findObj_mem _ _ _ ho)
  simpa [hc] using this

/-- what `writeService` answers, in terms of the stages -/
theorem writeService_snd (d : Device) (r : WriteReq) (o : Object) (s : Slot)
    (ho : findObj r.oid d.objs = some o) (hs : findSlot r.pid o.props = some s) :
    (writeService d r).2 =
      match propRead o s r.idx with
      | .error e => .error e
      | .ok .none => .error .unknownProperty
      | .ok _ =>
        match castOut s.d.dt r.idx r.value with
        | .error e => .error e
        | .ok v => (objWrite d o r.pid v r.idx r.prio).2 := by
  unfold writeService
  simp only [ho, objRead, hs]
  cases hp : propRead o s r.idx with
  | error e => rfl
  | ok rv =>
    cases rv with
    | none => rfl
    | whole _ | len _ | elem _ =>
      simp only
      cases castOut s.d.dt r.idx r.value <;> rfl

theorem writeLadder_spec (d : Device) (r : WriteReq) (hdev : deviceOK d = true) :
    (∀ e, writeLadder d r = some e → (writeService d r).2 = .error e) ∧
    (writeLadder d r = none → ∀ e, (writeService d r).2 = .error e → otherCode e = true) := by
  unfold writeLadder
  cases ho : findObj r.oid d.objs with
  | none => simp [writeService, ho]
  | some o =>
    cases hs : findSlot r.pid o.props with
    | none => simp [writeService, ho, objRead, hs]
    | some s =>
      simp only [hs]
      rw [writeService_snd d r o s ho hs]
      cases hpl : preLadder o s r.idx with
      | some e0 =>
        simp only [Option.some.injEq, reduceCtorEq, false_implies, and_true]
        intro e he; subst he
        rcases preLadder_some o s r.idx e0 hpl with h | ⟨h, he⟩
        · simp [h]
        · subst he; simp [h]
      | none =>
        simp only
        by_cases hill : (condIllShaped s && r.idx.isSome) = true
        · simp only [hill, ↓reduceIte, reduceCtorEq, false_implies, implies_true, true_and]
          simp only [Bool.and_eq_true, Option.isSome_iff_exists] at hill
          obtain ⟨hi1, i, hi⟩ := hill
          have : propRead o s r.idx = .error .opProblem :=
            (propRead_error_iff o s r.idx _).mpr ⟨i, hi, Or.inr (Or.inr ⟨rfl, hi1⟩)⟩
          intro _ e he
          simp [this] at he; subst he; rfl
        · simp only [hill, Bool.false_eq_true, ↓reduceIte]
          have hpass : prePassed o s r.idx := by
            rcases preLadder_none o s r.idx hpl with h | h
            · exfalso
              obtain ⟨i, hi, hcase⟩ := (propRead_error_iff o s r.idx _).mp h
              rcases hcase with ⟨he, _⟩ | ⟨he, _⟩ | ⟨_, hi1⟩
              · simp at he
              · simp at he
              · apply hill; simp [hi1, hi]
            · exact h
          obtain ⟨rv, hrv, hne⟩ := hpass
          have hread : ∀ (x : Except Refusal Unit),
              (match propRead o s r.idx with
                | .error e => .error e
                | .ok .none => .error .unknownProperty
                | .ok _ => x) = x := by
            intro x; rw [hrv]; cases rv <;> simp_all
          rw [hread]
          cases hc : castOut s.d.dt r.idx r.value with
          | error e0 => simp
          | ok v =>
            simp only
            exact objWrite_objLadder d o r.pid s v r.idx r.prio hs (deviceOK_cmd d _ o hdev ho)
              (fun hstd => (prePassed_std o s r.idx hstd ⟨rv, hrv, hne⟩).2)

/-- **error_matches, writes, both directions**: for each of the six answers the
    property names — unknown-object, unknown-property, property-is-not-an-array,
    invalid-array-index, write-access-denied and the datatype Reject —
    WriteProperty gives that answer **iff** the ladder decides it.  (`deviceOK`:
    commandable objects consistent; an invariant, `deviceOK_preserved`.) -/
theorem write_error_iff (d : Device) (r : WriteReq) (e : Refusal) (hdev : deviceOK d = true)
    (h6 : otherCode e = false) :
    (writeService d r).2 = .error e ↔ writeLadder d r = some e := by
  obtain ⟨h1, h2⟩ := writeLadder_spec d r hdev
  constructor
  · intro h
    cases hl : writeLadder d r with
    | none => have := h2 hl e h; rw [this] at h6; simp at h6
    | some e' => have := h1 e' hl; rw [this] at h; simp at h; subst h; rfl
  · exact h1 e

/-- … and an acknowledgement is only possible where the ladder decides nothing -/
theorem write_ack_ladder (d : Device) (r : WriteReq) (hdev : deviceOK d = true)
    (h : (writeService d r).2 = .ok ()) : writeLadder d r = none := by
  cases hl : writeLadder d r with
  | none => rfl
  | some e => have := (writeLadder_spec d r hdev).1 e hl; rw [this] at h; simp at h


/-! ### the write ladder, code by code -/

theorem stdLadder_cases (s : Slot) (v : WVal) (idx : Option Nat) :
    (stdLadder s v idx = some .writeAccessDenied ∧ s.d.mutable = false) ∨
    (stdLadder s v idx = some invalidDatatype ∧ s.d.mutable = true ∧
        ∃ e, ladder s.d.dt v idx = .error e) ∨
    (stdLadder s v idx = none ∧ s.d.mutable = true ∧ ladder s.d.dt v idx = .ok ()) := by
  unfold stdLadder
  cases hm : s.d.mutable with
  | false => simp
  | true =>
    cases hl : ladder s.d.dt v idx with
    | error e => simp
    | ok u => simp

theorem slotLadder_cases (pvdt : DT) (v : WVal) (p : Int) :
    (slotLadder pvdt v p = some .writeAccessDenied ∧ p = 0) ∨
    (slotLadder pvdt v p = some .invalidArrayIndex ∧ p ≠ 0 ∧ (p < 1 ∨ p > 16)) ∨
    (slotLadder pvdt v p = some invalidDatatype ∧ 1 ≤ p ∧ p ≤ 16) ∨
    (slotLadder pvdt v p = none ∧ 1 ≤ p ∧ p ≤ 16) := by
  unfold slotLadder
  by_cases h0 : p = 0
  · simp [h0]
  · by_cases hr : p < 1 ∨ p > 16
    · simp [h0, hr]
    · have hb : 1 ≤ p ∧ p ≤ 16 := by omega
      simp only [h0, hr, ↓reduceIte]
      cases v with
      | null => simp [hb]
      | many e its => simp [hb]
      | one e' it =>
        simp only
        split
        · split <;> simp [hb]
        · simp [hb]

/-- the answers `obj.WriteProperty` can decide -/
theorem objLadder_codes (d : Device) (o : Object) (pid : Nat) (s : Slot) (v : WVal) (idx : Option Nat)
    (prio : Option Int) (e : Refusal) (h : objLadder d o pid s v idx prio = some e) :
    e = .writeAccessDenied ∨ e = invalidDatatype ∨ e = .invalidArrayIndex := by
  have hstd : ∀ e, stdLadder s v idx = some e → e = .writeAccessDenied ∨ e = invalidDatatype := by
    intro e he
    rcases stdLadder_cases s v idx with ⟨h1, _⟩ | ⟨h1, _⟩ | ⟨h1, _⟩ <;> rw [h1] at he <;> simp at he
    · exact Or.inl he.symm
    · exact Or.inr he.symm
  have hplain : ∀ e, plainLadder d o s v idx = some e → e = .writeAccessDenied ∨ e = invalidDatatype := by
    intro e he
    unfold plainLadder at he
    split at he
    · simp at he; exact Or.inl he.symm
    · simp at he; exact Or.inl he.symm
    · split at he
      · simp at he; exact Or.inl he.symm
      · split at he
        · split at he
          · split at he
            · exact hstd e he
            · simp at he
          · simp at he
        · simp at he
    · split at he
      · split at he
        · simp at he
        · split at he
          · simp at he
          · exact hstd e he
      · exact hstd e he
    · exact hstd e he
  have hslot : ∀ dt p e, slotLadder dt v p = some e →
      e = .writeAccessDenied ∨ e = invalidDatatype ∨ e = .invalidArrayIndex := by
    intro dt p e he
    rcases slotLadder_cases dt v p with ⟨h1, _⟩ | ⟨h1, _⟩ | ⟨h1, _⟩ | ⟨h1, _⟩ <;> rw [h1] at he <;> simp at he
    · exact Or.inl he.symm
    · exact Or.inr (Or.inr he.symm)
    · exact Or.inr (Or.inl he.symm)
  unfold objLadder at h
  split at h
  · rcases hplain e h with h | h
    · exact Or.inl h
    · exact Or.inr (Or.inl h)
  · split at h
    · exact hslot _ _ e h
    · split at h
      · split at h
        · simp at h; exact Or.inl h.symm
        · exact hslot _ _ e h
      · rcases hplain e h with h | h
        · exact Or.inl h
        · exact Or.inr (Or.inl h)

theorem preLadder_codes (o : Object) (s : Slot) (idx : Option Nat) (e : Refusal)
    (h : preLadder o s idx = some e) :
    (e = .notAnArray ∧ ∃ i, idx = some i ∧ condNotArray s = true) ∨
    (e = .invalidArrayIndex ∧ ∃ i, idx = some i ∧ condBadIndex o s i = true) ∨
    (e = .unknownProperty ∧ condAbsent s idx = true) := by
  unfold preLadder at h
  cases idx with
  | none => simp only at h; split at h <;> simp at h; subst h; simp_all
  | some i =>
    simp only at h
    split at h
    · simp at h; subst h; simp_all
    · split at h
      · simp at h; subst h; simp_all
      · split at h
        · simp at h; subst h; simp_all
        · simp at h

/-- WriteProperty answers unknown-property **iff** the object exists and either
    has no such property or the property has no value -/
theorem write_unknown_property_iff (d : Device) (r : WriteReq) (hdev : deviceOK d = true) :
    (writeService d r).2 = .error .unknownProperty ↔
      ∃ o, findObj r.oid d.objs = some o ∧
        (findSlot r.pid o.props = none ∨
         ∃ s, findSlot r.pid o.props = some s ∧ condAbsent s r.idx = true) := by
  rw [write_error_iff d r _ hdev rfl]
  unfold writeLadder
  cases ho : findObj r.oid d.objs with
  | none => simp
  | some o =>
    simp only [Option.some.injEq, exists_eq_left']
    cases hs : findSlot r.pid o.props with
    | none => simp
    | some s =>
      simp only [Option.some.injEq, exists_eq_left', reduceCtorEq, false_or]
      cases hpl : preLadder o s r.idx with
      | some e0 =>
        simp only [Option.some.injEq]
        rcases preLadder_codes o s r.idx e0 hpl with ⟨he, i, hi, hna⟩ | ⟨he, i, hi, hbi⟩ | ⟨he, habs⟩
        · subst he
          simp only [reduceCtorEq, false_iff]
          intro habs; rw [hi] at habs
          have := (condAbsent_some o s i habs).1; rw [this] at hna; simp at hna
        · subst he
          simp only [reduceCtorEq, false_iff]
          intro habs; rw [hi] at habs
          have := (condAbsent_some o s i habs).2; rw [this] at hbi; simp at hbi
        · subst he; simp [habs]
      | none =>
        have hnabs : condAbsent s r.idx = false := by
          cases hb : condAbsent s r.idx with
          | false => rfl
          | true =>
            unfold preLadder at hpl
            cases hi : r.idx with
            | none => rw [hi] at hpl hb; simp [hb] at hpl
            | some i =>
              rw [hi] at hpl hb
              obtain ⟨h1, h2⟩ := condAbsent_some o s i hb
              simp [h1, h2, hb] at hpl
        simp only [hnabs, Bool.false_eq_true, iff_false]
        split
        · simp
        · split
          · rename_i e0 hc
            obtain ⟨n, hn⟩ := castOut_error_is_reject _ _ _ _ hc
            subst hn; simp
          · rename_i v hc
            intro hl
            rcases objLadder_codes _ _ _ _ _ _ _ _ hl with h | h | h <;> simp [invalidDatatype] at h

/-- WriteProperty answers property-is-not-an-array **iff** an index is given and
    the property is computed by the device or a non-array served by
    Property.ReadProperty -/
theorem write_not_an_array_iff (d : Device) (r : WriteReq) (hdev : deviceOK d = true) :
    (writeService d r).2 = .error .notAnArray ↔
      ∃ o s i, findObj r.oid d.objs = some o ∧ findSlot r.pid o.props = some s ∧
        r.idx = some i ∧ condNotArray s = true := by
  rw [write_error_iff d r _ hdev rfl]
  unfold writeLadder
  cases ho : findObj r.oid d.objs with
  | none => simp
  | some o =>
    cases hs : findSlot r.pid o.props with
    | none =>
      simp only [hs, Option.some.injEq, reduceCtorEq, false_iff]
      rintro ⟨o', s', i, ho', hs', _⟩
      cases ho'; rw [hs] at hs'; simp at hs'
    | some s =>
      have hR : (∃ o' s' i, some o = some o' ∧ findSlot r.pid o'.props = some s' ∧
          r.idx = some i ∧ condNotArray s' = true) ↔ ∃ i, r.idx = some i ∧ condNotArray s = true := by
        constructor
        · rintro ⟨o', s', i, ho', hs', hi, hna⟩
          cases ho'; rw [hs] at hs'; cases hs'; exact ⟨i, hi, hna⟩
        · rintro ⟨i, hi, hna⟩; exact ⟨o, s, i, rfl, hs, hi, hna⟩
      rw [hR]
      simp only [hs]
      cases hpl : preLadder o s r.idx with
      | some e0 =>
        simp only [Option.some.injEq]
        rcases preLadder_codes o s r.idx e0 hpl with ⟨he, i, hi, hna⟩ | ⟨he, i, hi, hbi⟩ | ⟨he, habs⟩
        · subst he; simp [hi, hna]
        · subst he
          simp only [reduceCtorEq, false_iff, not_exists, not_and]
          intro j hj; rw [hi] at hj; simp at hj; subst hj
          simp [condBadIndex_notArray o s i hbi]
        · subst he
          simp only [reduceCtorEq, false_iff, not_exists, not_and]
          intro j hj; rw [hj] at habs
          simp [(condAbsent_some o s j habs).1]
      | none =>
        have hrhs : ¬ ∃ i, r.idx = some i ∧ condNotArray s = true := by
          rintro ⟨i, hi, hna⟩
          unfold preLadder at hpl; rw [hi] at hpl; simp [hna] at hpl
        simp only [hrhs, iff_false]
        split
        · simp
        · split
          · rename_i e0 hc
            obtain ⟨n, hn⟩ := castOut_error_is_reject _ _ _ _ hc
            subst hn; simp
          · rename_i v hc
            intro hl
            rcases objLadder_codes _ _ _ _ _ _ _ _ hl with h | h | h <;> simp [invalidDatatype] at h

/-- the datatype refusal: WriteProperty answers with a Reject **iff** the value
    does not decode for the datatype the handler casts to, or it decodes and
    the serving class finds it invalid (`objLadder` = invalid-parameter-datatype) -/
theorem write_reject_iff (d : Device) (r : WriteReq) (n : Nat) (hdev : deviceOK d = true) :
    (writeService d r).2 = .error (.reject n) ↔ writeLadder d r = some (.reject n) :=
  write_error_iff d r _ hdev rfl


/-! ### `deviceItemsOK` is an invariant of the device -/

def wvalOK : WVal → Bool
  | .null => true
  | .one _ it => itemOK it
  | .many _ its => its.all itemOK

theorem encItems_ok_all : ∀ (its : List Item) (t : List Tag), encItems its = .ok t →
    its.all itemOK = true := by
  intro its
  induction its with
  | nil => intro t _; rfl
  | cons it rest ih =>
    intro t h
    cases it with
    | unenc r => simp [encItems] at h
    | enc x =>
      simp only [encItems] at h
      split at h
      · simp at h
      · rename_i ts hr
        simp [itemOK, ih ts hr]

/-- what `cast_out` produces always encodes -/
theorem castOut_wvalOK (dt : DT) (idx : Option Nat) (w : Wire) (v : WVal)
    (h : castOut dt idx w = .ok v) : wvalOK v = true := by
  unfold castOut at h
  split at h
  · simp at h; subst h; rfl
  · split at h
    · rw [castElem_one _ _ _ h]; rfl
    · rw [castElem_one _ _ _ h]; rfl
    · obtain ⟨its, hv, henc, _⟩ := castSeq_many _ _ _ _ h
      subst hv; exact encItems_ok_all _ _ henc
    · obtain ⟨its, hv, henc, _⟩ := castSeq_many _ _ _ _ h
      subst hv; exact encItems_ok_all _ _ henc
    · rw [castElem_one _ _ _ h]; rfl

theorem all_set (its : List Item) (k : Nat) (it : Item) (h : its.all itemOK = true)
    (hit : itemOK it = true) : (its.set k it).all itemOK = true := by
  simp only [List.all_eq_true] at h ⊢
  intro x hx
  rcases List.mem_or_eq_of_mem_set hx with hx | hx
  · exact h x hx
  · subst hx; exact hit

theorem all_fixLength (its : List Item) (n : Nat) (dflt : Item) (h : its.all itemOK = true)
    (hd : itemOK dflt = true) : (fixLength its n dflt).all itemOK = true := by
  unfold fixLength
  simp only [List.all_eq_true] at h ⊢
  split
  · intro x hx; exact h x (List.mem_of_mem_take hx)
  · intro x hx
    simp only [List.mem_append, List.mem_replicate] at hx
    rcases hx with hx | ⟨_, hx⟩
    · exact h x hx
    · subst hx; exact hd

theorem arraySet_ok (its : List Item) (fixed : Option Nat) (dflt : Item) (i : Nat) (v : WVal)
    (its' : List Item) (h : arraySet its fixed dflt i v = .ok its')
    (hits : its.all itemOK = true) (hd : itemOK dflt = true) (hv : wvalOK v = true) :
    its'.all itemOK = true := by
  unfold arraySet at h
  split at h
  · simp at h
  · split at h
    · split at h
      · split at h
        · simp at h
        · split at h
          · split at h
            · simp at h; subst h; exact hits
            · simp at h
          · simp at h; subst h; exact all_fixLength _ _ _ hits hd
      · simp at h
    · split at h
      · rename_i e it
        simp at h; subst h
        exact all_set _ _ _ hits (by simpa [wvalOK] using hv)
      · simp at h

theorem map_ok {α β : Type} {f : α → β} {x : Except Refusal α} {b : β}
    (h : x.map f = .ok b) : ∃ a, x = .ok a ∧ b = f a := by
  cases x with
  | error r => simp [Except.map] at h
  | ok a => simp [Except.map] at h; exact ⟨a, rfl, h.symm⟩

theorem stdWrite_slotOK (s : Slot) (v : WVal) (idx : Option Nat) (nv : PVal)
    (h : stdWrite s v idx = .ok nv) (hs : slotOK s = true) (hv : wvalOK v = true) :
    slotOK { s with v := nv } = true := by
  simp only [slotOK, Bool.and_eq_true] at hs ⊢
  obtain ⟨⟨hpv, hc⟩, hd⟩ := hs
  refine ⟨⟨?_, hc⟩, hd⟩
  unfold stdWrite at h
  split at h
  · simp at h
  split at h
  · simp at h
  unfold assign at h
  split at h
  · split at h
    · rename_i e fixed dflt hdt
      split at h
      · simp at h
      · rename_i its hold
        obtain ⟨its', ha, hnv⟩ := map_ok h
        subst hnv
        rw [hold] at hpv
        rw [hdt] at hd
        exact arraySet_ok _ _ _ _ _ _ ha hpv hd hv
      · simp at h
    · simp at h
  · split at h
    · simp at h; subst h; simpa [pvalOK, wvalOK] using hv
    · split at h
      · split at h
        · simp at h; subst h; simpa [pvalOK, wvalOK] using hv
        · simp at h
      · simp at h; subst h; simpa [pvalOK, wvalOK] using hv
    · simp at h; subst h; simpa [pvalOK, wvalOK] using hv
    · simp at h

theorem all_setSlot (pid : Nat) (nv : PVal) : ∀ (props : List Slot),
    props.all slotOK = true →
    (∀ s, findSlot pid props = some s → slotOK { s with v := nv } = true) →
    (setSlot pid nv props).all slotOK = true := by
  intro props
  induction props with
  | nil => intro _ _; rfl
  | cons x rest ih =>
    intro h hnew
    simp only [List.all_cons, Bool.and_eq_true] at h
    unfold setSlot
    by_cases hx : x.d.id = pid
    · simp only [hx, ↓reduceIte, List.all_cons, Bool.and_eq_true]
      exact ⟨hnew x (by simp [findSlot, hx]), h.2⟩
    · simp only [hx, ↓reduceIte, List.all_cons, Bool.and_eq_true]
      refine ⟨h.1, ih h.2 ?_⟩
      intro s hs
      exact hnew s (by simp [findSlot, hx, hs])

theorem objWritePlain_itemsOK (d : Device) (o : Object) (pid : Nat) (v : WVal) (idx : Option Nat)
    (ho : o.props.all slotOK = true) (hv : wvalOK v = true) :
    (objWritePlain d o pid v idx).1.props.all slotOK = true := by
  rcases objWritePlain_cases d o pid v idx with ⟨e, he⟩ | ⟨s, hs, hcase⟩
  · rw [he]; exact ho
  · rcases hcase with ⟨_, hw⟩ | ⟨nv, hpw, hw⟩
    · rw [hw]; exact ho
    · rw [hw]
      simp only
      apply all_setSlot _ _ _ ho
      intro s' hs'
      rw [hs] at hs'; simp only [Option.some.injEq] at hs'; subst hs'
      obtain ⟨_, hwhat⟩ := propWrite_ok _ _ _ _ _ _ hpw
      rcases hwhat with ⟨nv', hnv, hstd⟩ | ⟨hnone, _⟩
      · simp only [Option.some.injEq] at hnv; subst hnv
        exact stdWrite_slotOK s v idx nv hstd
          ((List.all_eq_true.mp ho) s (findSlot_mem _ _ _ hs)) hv
      · simp at hnone


theorem highest_item (slots : List Item) (rdv : PVal) (hit : Item) (h : highest slots rdv = .one hit) :
    hit ∈ slots ∨ rdv = .one hit := by
  unfold highest at h
  split at h
  · rename_i it hf
    simp at h; subst h
    exact Or.inl (List.mem_of_find?_eq_some hf)
  · exact Or.inr h

theorem cmdSettle_itemsOK (d : Device) (o1 : Object) (c : Cmd) (ho : o1.props.all slotOK = true) :
    (cmdSettle d o1 c).1.props.all slotOK = true := by
  unfold cmdSettle
  split
  · rename_i pa pv rd hpa hpv hrd
    split
    · rename_i slots hpav
      simp only
      split
      · exact ho
      · split
        · rename_i hit e hhi hdt
          apply objWritePlain_itemsOK d o1 c.pv _ none ho
          have hpaok := (List.all_eq_true.mp ho) pa (findSlot_mem _ _ _ hpa)
          have hrdok := (List.all_eq_true.mp ho) rd (findSlot_mem _ _ _ hrd)
          simp only [slotOK, Bool.and_eq_true] at hpaok hrdok
          rcases highest_item _ _ _ hhi with hm | hr
          · have := hpaok.1.1
            rw [hpav] at this
            simp only [pvalOK, List.all_eq_true] at this
            simpa [wvalOK] using this hit hm
          · have := hrdok.1.1
            rw [hr] at this
            simpa [wvalOK, pvalOK] using this
        · exact ho
    · exact ho
  · exact ho

theorem cmdSlotWrite_itemsOK (d : Device) (o : Object) (c : Cmd) (v : WVal) (i : Int)
    (ho : o.props.all slotOK = true) (hv : wvalOK v = true) :
    (cmdSlotWrite d o c v i).1.props.all slotOK = true := by
  unfold cmdSlotWrite
  split
  · exact ho
  · split
    · exact ho
    · split
      · rename_i pa pv hpa hpv
        split
        · rename_i slots hpav
          simp only
          split
          · exact ho
          · rename_i it hit
            apply cmdSettle_itemsOK
            simp only
            apply all_setSlot _ _ _ ho
            intro s' hs'
            rw [hpa] at hs'; simp only [Option.some.injEq] at hs'; subst hs'
            have hpaok := (List.all_eq_true.mp ho) pa (findSlot_mem _ _ _ hpa)
            simp only [slotOK, Bool.and_eq_true] at hpaok ⊢
            refine ⟨⟨?_, hpaok.1.2⟩, hpaok.2⟩
            have hsl := hpaok.1.1
            rw [hpav] at hsl
            simp only [pvalOK] at hsl ⊢
            apply all_set _ _ _ hsl
            -- the new slot content: Null or the written item
            cases v with
            | null => simp at hit; subst hit; rfl
            | many e its => simp at hit
            | one e' x =>
              simp only at hit
              split at hit
              · split at hit
                · simp at hit; subst hit; simpa [wvalOK] using hv
                · simp at hit
              · simp at hit
        · exact ho
      · exact ho

theorem objWrite_itemsOK (d : Device) (o : Object) (pid : Nat) (v : WVal) (idx : Option Nat)
    (prio : Option Int) (ho : o.props.all slotOK = true) (hv : wvalOK v = true) :
    (objWrite d o pid v idx prio).1.props.all slotOK = true := by
  unfold objWrite
  split
  · rename_i c _
    unfold objWriteCmd
    split
    · exact cmdSlotWrite_itemsOK d o c v _ ho hv
    · split
      · split
        · unfold cmdWholeWrite
          have h := objWritePlain_itemsOK d o c.pa v none ho hv
          split
          · rename_i o1 r heq; rw [heq] at h; exact h
          · rename_i o1 heq; rw [heq] at h; exact cmdSettle_itemsOK d o1 c h
        · exact cmdSlotWrite_itemsOK d o c v _ ho hv
      · exact objWritePlain_itemsOK d o pid v idx ho hv
  · exact objWritePlain_itemsOK d o pid v idx ho hv

/-- `deviceItemsOK` (the hypothesis of the read ladder) is an invariant: no
    write can store an element whose encoding fails with an ExecutionError —
    written values always encode, and `fix_length` only appends the table's
    default element (`itemOK dflt`, part of `generated_table_ok`) -/
theorem deviceItemsOK_preserved (d : Device) (r : WriteReq) (hok : deviceItemsOK d = true) :
    deviceItemsOK (writeService d r).1 = true := by
  unfold writeService
  cases hobj : findObj r.oid d.objs with
  | none => simpa using hok
  | some o =>
    simp only
    cases hpre : objRead o r.pid r.idx with
    | error e' => simpa using hok
    | ok rv0 =>
      cases rv0 with
      | none => simpa using hok
      | whole _ | len _ | elem _ =>
        simp only
        cases hs : findSlot r.pid o.props with
        | none => simpa using hok
        | some s =>
          simp only
          cases hc : castOut s.d.dt r.idx r.value with
          | error e' => simpa using hok
          | ok v =>
            simp only
            unfold deviceItemsOK at hok ⊢
            apply all_setObj _ _ _ _ hok
            simp only
            exact objWrite_itemsOK d o r.pid v r.idx r.prio
              ((List.all_eq_true.mp hok) _ (findObj_mem _ _ _ hobj)) (castOut_wvalOK _ _ _ _ hc)

theorem deviceItemsOK_runWrites (d : Device) (rs : List WriteReq) (h : deviceItemsOK d = true) :
    deviceItemsOK (runWrites d rs) = true := by
  induction rs generalizing d with
  | nil => exact h
  | cons r rest ih => exact ih _ (deviceItemsOK_preserved d r h)


/-! ## non-vacuity: concrete instances that meet the hypotheses

  A device built from the GENERATED table: an analogValue object of a vendor
  subclass that re-declares presentValue (Real) and tags (array of NameValue)
  writable, and a commandable analogValue (`Commandable(Real)`), both with
  initial values.  Every `example` below is closed by kernel evaluation. -/

namespace Ex
open Gen.Objects

instance instDecEqExcept {ε α : Type} [DecidableEq ε] [DecidableEq α] : DecidableEq (Except ε α)
  | .ok a, .ok b => if h : a = b then isTrue (by rw [h]) else isFalse (by intro h'; cases h'; exact h rfl)
  | .error a, .error b =>
      if h : a = b then isTrue (by rw [h]) else isFalse (by intro h'; cases h'; exact h rfl)
  | .ok _, .error _ => isFalse (by intro h; cases h)
  | .error _, .ok _ => isFalse (by intro h; cases h)

def real (b : Bytes) : Item := .enc [appTag 4 b]
def one : Item := real [0x3f, 0x80, 0, 0]
def two : Item := real [0x40, 0, 0, 0]
def nv (name : Bytes) : Item := .enc [⟨.ctx, 0, name.length, name⟩]

/-- `class AVW(AnalogValueObject): properties = [WritableProperty('presentValue', Real),
    WritableProperty('tags', ArrayOf(NameValue))]` -/
def avwProps : List PropDesc :=
  mergeProps [⟨85, 348, .scalar (.atomic 4 0 none), false, true, .std, none⟩,
              ⟨486, 427, .arrayOf (.cons 4) none (.enc [⟨.ctx, 0, 1, [0]⟩]), false, true, .std, none⟩]
    t_analogValue.props

def av : Object :=
  mkObject 2 avwProps none
    [(75, .one (.enc [appTag 12 [0, 0x80, 0, 1]])), (77, .one (.enc [appTag 7 [0, 0x61]])),
     (85, .one one), (486, .arr [nv [0, 0x61], nv [0, 0x62], nv [0, 0x63]])]

/-- `AnalogValueCmdObject`: `Commandable(Real)` over AnalogValueObject -/
def cmdProps : List PropDesc :=
  mergeProps [⟨85, 348, .scalar (.atomic 4 0 none), false, true, .std, none⟩,
              ⟨87, 350, .arrayOf (.cons 5) (some 16) (.enc [nullTag]), false, false, .std, none⟩,
              ⟨104, 378, .scalar (.atomic 4 0 none), false, false, .std, none⟩]
    t_analogValue.props

def avc : Object :=
  mkObject 2 cmdProps (some ⟨85, 87, 104⟩)
    [(75, .one (.enc [appTag 12 [0, 0x80, 0, 2]])), (77, .one (.enc [appTag 7 [0, 0x62]])),
     (85, .one one), (87, .arr (List.replicate 16 (.enc [nullTag]))), (104, .one one)]

def dev : Device := { objs := [((2, 1), av), ((2, 2), avc)], localDev := none }

def wire (ts : List Tag) : Wire := { chunks := [ts], dec := .ok }

/-- WriteProperty(analogValue 1, presentValue, Real 2.0) -/
def wPv : WriteReq := ⟨(2, 1), 85, none, wire [appTag 4 [0x40, 0, 0, 0]], none⟩
/-- WriteProperty(analogValue 1, tags[2], NameValue "z") -/
def wTag : WriteReq := ⟨(2, 1), 486, some 2, wire [⟨.ctx, 0, 2, [0, 0x7a]⟩], none⟩
/-- WriteProperty(analogValue 1, tags[0], 5): resize -/
def wLen : WriteReq := ⟨(2, 1), 486, some 0, wire [appTag 2 [5]], none⟩
/-- WriteProperty(analogValue 1, presentValue, Unsigned 1): wrong datatype -/
def wBad : WriteReq := ⟨(2, 1), 85, none, wire [appTag 2 [1]], none⟩
/-- WriteProperty(analogValue 1, objectName, "x"): read-only -/
def wRo : WriteReq := ⟨(2, 1), 77, none, wire [appTag 7 [0, 0x78]], none⟩
/-- WriteProperty(analogValue 2, presentValue, Real 2.0, priority 8) -/
def wCmd : WriteReq := ⟨(2, 2), 85, none, wire [appTag 4 [0x40, 0, 0, 0]], some 8⟩
/-- … priority 17: refused -/
def wCmd17 : WriteReq := ⟨(2, 2), 85, none, wire [appTag 4 [0x40, 0, 0, 0]], some 17⟩

-- write_then_read: hypotheses hold for a whole value, an element and a resize
example : findObj wPv.oid dev.objs = some av ∧ av.cmd = none ∧
    wPv.oid ≠ (otDevice, wildcardInstance) ∧ (writeService dev wPv).2 = .ok () := by decide +kernel
example : (writeService dev wTag).2 = .ok () ∧ (writeService dev wLen).2 = .ok () := by decide +kernel
-- … and the conclusion is what one expects on them (a test, not the theorem)
example : readService (writeService dev wLen).1 (2, 1) 486 (some 0) = .ok [appTag 2 [5]] := by
  decide +kernel
-- refused_write_pure / error_matches: refusals of three different kinds exist
example : (writeService dev wBad).2 = .error (.reject rejInvalidTag) ∧
    (writeService dev wRo).2 = .error .writeAccessDenied ∧
    (writeService dev wCmd17).2 = .error .invalidArrayIndex := by decide +kernel
-- the state hypothesis of refused_write_pure_all holds, with a commandable object present
example : deviceOK dev = true ∧ cmdOK avc ⟨85, 87, 104⟩ = true := by decide +kernel
-- write_then_read_cmd: an acknowledged command at priority 8
example : (writeService dev wCmd).2 = .ok () ∧ avc.cmd = some ⟨85, 87, 104⟩ := by decide +kernel
-- array_index_classes: a three-element array served by Property.ReadProperty
example : (findSlot 486 av.props).map (fun s => (s.d.custom, s.d.dt.isArray,
      match s.v with | .arr l => l.length | _ => 0)) = some (.std, true, 3) := by decide +kernel
-- rpm_equals_rp: an ack with explicit references, a selector, an unknown object and embedded errors
example : (match rpmService dev [((2, 1), [⟨85, none⟩, ⟨486, some 9⟩, ⟨pidRequired, none⟩]),
                                  ((2, 9), [⟨pidAll, none⟩])] with
    | .ok res => res.map (fun p => p.2.length)
    | .error _ => []) = [7, 1] := by decide +kernel
-- rpm_selector_with_index: `required` + index 2 on the object with a 3-element array: the array
-- answers its element, every other required property the embedded not-an-array error
-- rpm_selector_with_index: `required` + index 2 on the object with a 3-element array: the array
-- answers its element (0), every other required property — with or without a value — the embedded
-- property-is-not-an-array error (1)
example : (match rpmRef (some av) ⟨pidRequired, some 2⟩ with
    | .ok es => es.map (fun (e : RElem) => (e.pid, e.idx,
        match e.res with | ReadResult.val _ => 0 | ReadResult.err .notAnArray => 1 | ReadResult.err _ => 2))
    | .error _ => []) =
    [(85, some 2, 1), (486, some 2, 0), (111, some 2, 1), (36, some 2, 1), (81, some 2, 1), (117, some 2, 1),
     (75, some 2, 1), (77, some 2, 1), (79, some 2, 1)] := by decide +kernel
-- read_error_iff / write_error_iff: the state hypotheses hold, and the ladders decide every one of
-- the named answers on concrete requests (and let the acknowledged ones through)
example : deviceItemsOK dev = true ∧ deviceOK dev = true := by decide +kernel
example : readLadder dev (2, 9) 85 none = some .unknownObject ∧
    readLadder dev (2, 1) 9999 none = some .unknownProperty ∧
    readLadder dev (2, 1) 111 none = some .unknownProperty ∧          -- statusFlags has no value
    readLadder dev (2, 1) 85 (some 1) = some .notAnArray ∧
    readLadder dev (2, 1) 486 (some 4) = some .invalidArrayIndex ∧
    readLadder dev (2, 1) 486 (some 3) = none := by decide +kernel
example : writeLadder dev { wPv with oid := (2, 9) } = some .unknownObject ∧
    writeLadder dev { wPv with pid := 9999 } = some .unknownProperty ∧
    writeLadder dev { wPv with idx := some 1 } = some .notAnArray ∧
    writeLadder dev { wTag with idx := some 4 } = some .invalidArrayIndex ∧
    writeLadder dev wRo = some .writeAccessDenied ∧
    writeLadder dev wBad = some (.reject rejInvalidTag) ∧
    writeLadder dev wCmd17 = some .invalidArrayIndex ∧
    writeLadder dev { wCmd with prio := some 0 } = some .writeAccessDenied ∧
    writeLadder dev wPv = none ∧ writeLadder dev wCmd = none := by decide +kernel
-- fresh_object_reads_its_type: every generated type satisfies typeOK (part of generated_table_ok)
example : typeOK t_analogValue = true := by decide +kernel

end Ex

end BacVerif.C15

