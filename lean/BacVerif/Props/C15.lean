/-
  C15 — property reads and writes over the wire are consistent, typed, all-or-nothing.
  (in progress)
-/
import BacVerif.Model.Object
import BacVerif.Gen.Objects
namespace BacVerif.C15
open BacVerif BacVerif.Obj

/-! ## lookups -/

theorem findSlot_setSlot (pid : Nat) (v : PVal) (props : List Slot) (s : Slot)
    (h : findSlot pid props = some s) :
    findSlot pid (setSlot pid v props) = some { s with v := v } := by
  induction props with
  | nil => simp [findSlot] at h
  | cons x rest ih =>
    unfold findSlot at h
    unfold setSlot
    split at h
    · rename_i hx
      simp only [Option.some.injEq] at h
      subst h
      simp [hx, findSlot]
    · rename_i hx
      simp [hx, findSlot, ih h]

theorem findSlot_id (pid : Nat) (props : List Slot) (s : Slot)
    (h : findSlot pid props = some s) : s.d.id = pid := by
  induction props with
  | nil => simp [findSlot] at h
  | cons x rest ih =>
    unfold findSlot at h
    split at h
    · rename_i hx; simp only [Option.some.injEq] at h; subst h; exact hx
    · exact ih h

theorem findObj_setObj (oid : Oid) (o o' : Object) (objs : List (Oid × Object))
    (h : findObj oid objs = some o) : findObj oid (setObj oid o' objs) = some o' := by
  induction objs with
  | nil => simp [findObj] at h
  | cons x rest ih =>
    obtain ⟨k, x⟩ := x
    unfold findObj at h
    unfold setObj
    split at h
    · rename_i hx; simp [hx, findObj]
    · rename_i hx; simp [hx, findObj, ih h]

theorem setObj_self (oid : Oid) (o : Object) (objs : List (Oid × Object))
    (h : findObj oid objs = some o) : setObj oid o objs = objs := by
  induction objs with
  | nil => rfl
  | cons x rest ih =>
    obtain ⟨k, x⟩ := x
    unfold findObj at h
    unfold setObj
    split at h
    · rename_i hx; simp only [Option.some.injEq] at h; subst h; simp [hx]
    · rename_i hx; simp [hx, ih h]

/-! ## encoders -/

theorem encItems_map_enc (chunks : List (List Tag)) :
    encItems (chunks.map .enc) = .ok chunks.flatten := by
  induction chunks with
  | nil => rfl
  | cons c rest ih => simp [encItems, ih]

theorem castAtomSeq_enc (mk : Tag → Except Refusal Item)
    (hmk : ∀ t it, mk t = .ok it → it = .enc [t]) :
    ∀ (ts : List Tag) (its : List Item), castAtomSeq mk ts = .ok its → encItems its = .ok ts := by
  intro ts
  induction ts with
  | nil => intro its h; simp [castAtomSeq] at h; subst h; rfl
  | cons t rest ih =>
    intro its h
    unfold castAtomSeq at h
    split at h
    · simp at h
    · split at h
      · simp at h
      · rename_i it hit
        split at h
        · simp at h
        · rename_i its' hrest
          simp only [Except.ok.injEq] at h
          subst h
          have := hmk t it hit
          subst this
          simp [encItems, ih its' hrest]

theorem atomOfTag_enc (tag : Nat) (t : Tag) (it : Item) (h : atomOfTag tag t = .ok it) :
    it = .enc [t] := by
  unfold atomOfTag at h; split at h <;> simp_all

theorem anyAtomOfTag_enc (t : Tag) (it : Item) (h : anyAtomOfTag t = .ok it) : it = .enc [t] := by
  unfold anyAtomOfTag at h; split at h <;> simp_all

theorem castAtom_enc (mk : Tag → Except Refusal Item)
    (hmk : ∀ t it, mk t = .ok it → it = .enc [t]) (ts : List Tag) (it : Item)
    (h : castAtom mk ts = .ok it) : it = .enc ts := by
  match ts, h with
  | [t], h => simp only [castAtom] at h; exact hmk t it h


/-! ## what `cast_out` hands to `WriteProperty` -/

theorem castElem_one (e : ElemTy) (w : Wire) (v : WVal) (h : castElem e w = .ok v) :
    v = .one e (.enc w.tags) := by
  unfold castElem at h
  split at h
  · rename_i tag lo hi
    cases hc : castAtom (atomOfTag tag) w.tags with
    | error r => simp [hc, Except.map] at h
    | ok it =>
      have := castAtom_enc _ (atomOfTag_enc tag) _ _ hc
      simp [hc, Except.map] at h; subst h; subst this; rfl
  · cases hc : castAtom anyAtomOfTag w.tags with
    | error r => simp [hc, Except.map] at h
    | ok it =>
      have := castAtom_enc _ anyAtomOfTag_enc _ _ hc
      simp [hc, Except.map] at h; subst h; subst this; rfl
  · split at h
    · simp at h
    · simp at h; exact h.symm

theorem castSeq_many (e : ElemTy) (fixed : Option Nat) (w : Wire) (v : WVal)
    (h : castSeq e fixed w = .ok v) :
    ∃ its, v = .many e its ∧ encItems its = .ok w.tags ∧ (∀ n, fixed = some n → its.length = n) := by
  unfold castSeq at h
  simp only at h
  split at h
  · simp at h
  · rename_i its hits
    have henc : encItems its = .ok w.tags := by
      cases e with
      | atomic tag lo hi => exact castAtomSeq_enc _ (atomOfTag_enc tag) _ _ hits
      | anyAtomic => exact castAtomSeq_enc _ anyAtomOfTag_enc _ _ hits
      | cons ty =>
        simp only at hits
        split at hits
        · simp at hits
        · simp only [Except.ok.injEq] at hits
          subst hits
          exact encItems_map_enc _
    cases fixed with
    | none => simp at h; exact ⟨its, h.symm, henc, by simp⟩
    | some n =>
      simp only at h
      split at h
      · rename_i hl
        simp at h
        exact ⟨its, h.symm, henc, by intro m hm; simp at hm; omega⟩
      · simp at h


/-! ## write then read, at the level of one property slot -/

/-- what a read after an acknowledged write must show: the written tags; for
    index 0 the (canonically re-encoded) written count -/
def writtenView (idx : Option Nat) (w : Wire) : List Tag :=
  match idx with
  | some 0 =>
    match w.tags with
    | [t] => [appTag 2 (natOctets (beVal t.data))]
    | _ => []
  | _ => w.tags

theorem fixLength_length (its : List Item) (n : Nat) (dflt : Item) :
    (fixLength its n dflt).length = n := by
  unfold fixLength
  split
  · simp; omega
  · simp; omega

/-- `ArrayOf.fix_length` keeps the elements below the new length -/
theorem fixLength_getElem (its : List Item) (n : Nat) (dflt : Item) (k : Nat)
    (hk : k < n) (hk' : k < its.length) : (fixLength its n dflt)[k]? = its[k]? := by
  unfold fixLength
  split
  · simp [hk]
  · simp [List.getElem?_append_left hk']

theorem ladder_null (dt : DT) (idx : Option Nat) : ladder dt .null idx ≠ .ok () := by
  unfold ladder
  split
  · simp
  · cases dt <;> cases idx <;> simp

theorem castOut_null (dt : DT) (idx : Option Nat) (w : Wire) (h : isAppNull w.tags = true) :
    castOut dt idx w = .ok .null := by
  simp [castOut, h]

/-- the slot-level core of `write_then_read`: after `Property.WriteProperty`
    stored `nv`, `Property.ReadProperty` + the encoder of `do_ReadPropertyRequest`
    give back the written tags -/
theorem stdWrite_then_read (s : Slot) (w : Wire) (idx : Option Nat) (v : WVal) (nv : PVal)
    (hc : castOut s.d.dt idx w = .ok v) (hw : stdWrite s v idx = .ok nv) :
    ∃ rv, stdRead { s with v := nv } idx = .ok rv ∧
          rpEncode s.d.dt idx rv = .ok (writtenView idx w) := by
  unfold stdWrite at hw
  split at hw
  · simp at hw
  split at hw
  · simp at hw
  rename_i hlad
  -- the value is not Null: the ladder refuses `()` everywhere
  have hnull : isAppNull w.tags = false := by
    cases hn : isAppNull w.tags with
    | false => rfl
    | true =>
      rw [castOut_null _ _ _ hn] at hc
      simp only [Except.ok.injEq] at hc
      subst hc
      exact absurd hlad (ladder_null _ _)
  simp only [castOut, hnull, Bool.false_eq_true, ↓reduceIte] at hc
  unfold assign at hw
  cases hdt : s.d.dt with
  | scalar e =>
    simp only [hdt] at hc hw
    have hv := castElem_one _ _ _ hc
    subst hv
    cases idx with
    | some i => simp at hw
    | none =>
      simp at hw; subst hw
      refine ⟨.whole (.one (.enc w.tags)), ?_, ?_⟩
      · simp [stdRead]
      · simp [rpEncode, encItem, writtenView]
  | listOf e =>
    simp only [hdt] at hc hw
    obtain ⟨its, hv, henc, _⟩ := castSeq_many _ _ _ _ hc
    subst hv
    cases idx with
    | some i => simp at hw
    | none =>
      simp at hw; subst hw
      refine ⟨.whole (.lst its), ?_, ?_⟩
      · simp [stdRead]
      · simp [rpEncode, henc, writtenView]
  | arrayOf e fixed dflt =>
    simp only [hdt] at hc hw
    cases idx with
    | none =>
      simp only at hc
      obtain ⟨its, hv, henc, hfix⟩ := castSeq_many _ _ _ _ hc
      subst hv
      have hnv : nv = .arr its := by
        cases fixed with
        | none => simp at hw; exact hw.symm
        | some n => simp [hfix n rfl] at hw; exact hw.symm
      subst hnv
      refine ⟨.whole (.arr its), ?_, ?_⟩
      · simp [stdRead]
      · simp [rpEncode, henc, writtenView]
    | some i =>
      cases i with
      | zero =>
        simp only at hc
        have hv := castElem_one _ _ _ hc
        subst hv
        simp only at hw
        cases hold : s.v with
        | absent => simp [hold] at hw
        | one it => simp [hold] at hw
        | lst its => simp [hold] at hw
        | arr its =>
          simp only [hold] at hw
          unfold arraySet at hw
          simp only [Nat.not_lt_zero, ↓reduceIte] at hw
          cases hn : itemNat (.enc w.tags) with
          | none => simp [hn, Except.map] at hw
          | some n =>
            simp only [hn] at hw
            -- itemNat some: the tag list is a singleton
            have hsing : ∃ t, w.tags = [t] ∧ n = beVal t.data := by
              unfold itemNat at hn
              split at hn
              · rename_i t heq
                simp at heq hn
                exact ⟨t, heq, hn.symm⟩
              · simp at hn
            obtain ⟨t, ht, hnt⟩ := hsing
            have hlen : ∃ its', nv = .arr its' ∧ its'.length = n := by
              cases fixed with
              | none =>
                simp [Except.map] at hw
                exact ⟨_, hw.symm, fixLength_length _ _ _⟩
              | some m =>
                simp only at hw
                split at hw
                · rename_i heq
                  simp [Except.map] at hw
                  exact ⟨_, hw.symm, heq.symm⟩
                · simp [Except.map] at hw
            obtain ⟨its', hnv, hl⟩ := hlen
            subst hnv
            refine ⟨.len its'.length, ?_, ?_⟩
            · simp [stdRead, hdt, DT.isArray, arrayGet]
            · simp [rpEncode, encItem, unsignedItem, writtenView, ht, hl, hnt]
      | succ k =>
        simp only at hc
        have hv := castElem_one _ _ _ hc
        subst hv
        simp only at hw
        cases hold : s.v with
        | absent => simp [hold] at hw
        | one it => simp [hold] at hw
        | lst its => simp [hold] at hw
        | arr its =>
          simp only [hold] at hw
          unfold arraySet at hw
          split at hw
          · simp [Except.map] at hw
          · rename_i hle
            simp [Except.map] at hw
            subst hw
            refine ⟨.elem (.enc w.tags), ?_, ?_⟩
            · have hk : k < its.length := by omega
              simp [stdRead, hdt, DT.isArray, arrayGet, hle, hk]
            · simp [rpEncode, encItem, writtenView]


/-- `WriteableObjectName`: writing the name the object already has is
    acknowledged without a write; the read still shows the written value -/
theorem same_value_read (s : Slot) (w : Wire) (idx : Option Nat) (e' : ElemTy) (it : Item) (rv : RVal)
    (hc : castOut s.d.dt idx w = .ok (.one e' it)) (hsame : s.v = .one it)
    (hr : stdRead s idx = .ok rv) :
    rpEncode s.d.dt idx rv = .ok (writtenView idx w) := by
  have hnull : isAppNull w.tags = false := by
    cases hn : isAppNull w.tags with
    | false => rfl
    | true => rw [castOut_null _ _ _ hn] at hc; simp at hc
  simp only [castOut, hnull, Bool.false_eq_true, ↓reduceIte] at hc
  cases hdt : s.d.dt with
  | scalar e =>
    simp only [hdt] at hc
    have hv := castElem_one _ _ _ hc
    simp only [WVal.one.injEq] at hv
    obtain ⟨_, hit⟩ := hv
    cases idx with
    | some i => simp [stdRead, hdt, DT.isArray] at hr
    | none =>
      simp [stdRead, hsame] at hr
      subst hr; subst hit
      simp [rpEncode, encItem, writtenView]
  | listOf e =>
    simp only [hdt] at hc
    obtain ⟨its, hv, _, _⟩ := castSeq_many _ _ _ _ hc
    simp at hv
  | arrayOf e fixed dflt =>
    simp only [hdt] at hc
    cases idx with
    | none =>
      simp only at hc
      obtain ⟨its, hv, _, _⟩ := castSeq_many _ _ _ _ hc
      simp at hv
    | some i => simp [stdRead, hdt, DT.isArray, hsame] at hr

/-- the serving classes whose reads go through `Property.ReadProperty` -/
theorem propRead_eq_stdRead (o : Object) (s : Slot) (idx : Option Nat)
    (h : s.d.custom = .std ∨ s.d.custom = .objId ∨ s.d.custom = .wrName) :
    propRead o s idx = stdRead s idx := by
  unfold propRead
  rcases h with h | h | h <;> simp [h]

theorem map_some_ok {x : Except Refusal PVal} {res : Option PVal} (h : x.map some = .ok res) :
    ∃ nv, res = some nv ∧ x = .ok nv := by
  cases x with
  | error r => simp [Except.map] at h
  | ok nv => simp [Except.map] at h; exact ⟨nv, h.symm, rfl⟩

/-- what an acknowledged `prop.WriteProperty` did -/
theorem propWrite_ok (d : Device) (o : Object) (s : Slot) (v : WVal) (idx : Option Nat)
    (res : Option PVal) (h : propWrite d o s v idx = .ok res) :
    (s.d.custom = .std ∨ s.d.custom = .objId ∨ s.d.custom = .wrName) ∧
    ((∃ nv, res = some nv ∧ stdWrite s v idx = .ok nv) ∨
     (res = none ∧ ∃ e' it, v = .one e' it ∧ s.v = .one it)) := by
  unfold propWrite at h
  split at h
  · simp at h
  · simp at h
  · rename_i hcu
    refine ⟨Or.inr (Or.inl hcu), ?_⟩
    split at h
    · simp at h
    · split at h
      · split at h
        · split at h
          · exact Or.inl (map_some_ok h)
          · simp at h
        · simp at h
      · simp at h
  · rename_i hcu
    refine ⟨Or.inr (Or.inr hcu), ?_⟩
    split at h
    · rename_i e' it
      split at h
      · rename_i hsame
        simp at h
        exact Or.inr ⟨h.symm, e', it, rfl, hsame⟩
      · split at h
        · simp at h
        · exact Or.inl (map_some_ok h)
    · exact Or.inl (map_some_ok h)
  · rename_i hcu
    exact ⟨Or.inl hcu, Or.inl (map_some_ok h)⟩


/-! ## the service level -/

theorem resolveOid_of_ne (d : Device) (oid : Oid) (h : oid ≠ (otDevice, wildcardInstance)) :
    resolveOid d oid = oid := by
  simp [resolveOid, h]

/-- `objWritePlain` either refuses and returns the object untouched, or
    acknowledges after at most one assignment -/
theorem objWritePlain_cases (d : Device) (o : Object) (pid : Nat) (v : WVal) (idx : Option Nat) :
    (∃ r, objWritePlain d o pid v idx = (o, .error r)) ∨
    (∃ s, findSlot pid o.props = some s ∧
      ((propWrite d o s v idx = .ok none ∧ objWritePlain d o pid v idx = (o, .ok ())) ∨
       (∃ nv, propWrite d o s v idx = .ok (some nv) ∧
          objWritePlain d o pid v idx = ({ o with props := setSlot pid nv o.props }, .ok ())))) := by
  unfold objWritePlain
  cases hs : findSlot pid o.props with
  | none => exact Or.inl ⟨_, rfl⟩
  | some s =>
    cases hp : propWrite d o s v idx with
    | error r => exact Or.inl ⟨r, by simp [hp]⟩
    | ok res =>
      cases res with
      | none => exact Or.inr ⟨s, rfl, Or.inl ⟨hp, by simp [hp]⟩⟩
      | some nv => exact Or.inr ⟨s, rfl, Or.inr ⟨nv, hp, by simp [hp]⟩⟩

/-- **write_then_read** (objects without the Commandable mix-in).
    After `do_WritePropertyRequest` answered SimpleAck, `do_ReadPropertyRequest`
    of the same object, property and array index answers with the written
    value: the written tags for a whole property or an element, the written
    count (canonically encoded) for index 0. -/
theorem write_then_read (d d' : Device) (r : WriteReq) (o : Object)
    (hobj : findObj r.oid d.objs = some o) (hplain : o.cmd = none)
    (hwild : r.oid ≠ (otDevice, wildcardInstance))
    (hack : writeService d r = (d', .ok ())) :
    readService d' r.oid r.pid r.idx = .ok (writtenView r.idx r.value) := by
  unfold writeService at hack
  simp only [hobj] at hack
  cases hpre : objRead o r.pid r.idx with
  | error e => simp [hpre] at hack
  | ok rv0 =>
    simp only [hpre] at hack
    cases hs : findSlot r.pid o.props with
    | none => cases rv0 <;> simp [hs] at hack
    | some s =>
      cases hc : castOut s.d.dt r.idx r.value with
      | error e => cases rv0 <;> simp [hs, hc] at hack
      | ok v =>
        have hrv0 : rv0 ≠ .none := by
          intro h; subst h; simp at hack
        have hack' : ({ d with objs := setObj r.oid (objWrite d o r.pid v r.idx r.prio).1 d.objs },
                      (objWrite d o r.pid v r.idx r.prio).2) = (d', Except.ok ()) := by
          cases rv0 <;> simp_all
        simp only [Prod.mk.injEq] at hack'
        obtain ⟨hd', hres⟩ := hack'
        have how : objWrite d o r.pid v r.idx r.prio = objWritePlain d o r.pid v r.idx := by
          simp [objWrite, hplain]
        rw [how] at hd' hres
        -- the pre-read went through the same slot
        have hpre' : propRead o s r.idx = .ok rv0 := by
          simpa [objRead, hs] using hpre
        subst hd'
        unfold readService
        rw [resolveOid_of_ne _ _ hwild]
        simp only [findObj_setObj _ _ _ _ hobj]
        rcases objWritePlain_cases d o r.pid v r.idx with ⟨e, he⟩ | ⟨s', hs', hcase⟩
        · rw [he] at hres; simp at hres
        · rw [hs] at hs'
          simp only [Option.some.injEq] at hs'
          subst hs'
          rcases hcase with ⟨hpw, hobjw⟩ | ⟨nv, hpw, hobjw⟩
          · -- acknowledged without a write (same object name)
            rw [hobjw]
            simp only [hs]
            obtain ⟨hcu, hwhat⟩ := propWrite_ok _ _ _ _ _ _ hpw
            rcases hwhat with ⟨nv, hnv, _⟩ | ⟨_, e', it, hv, hsame⟩
            · simp at hnv
            · subst hv
              rw [propRead_eq_stdRead _ _ _ hcu] at hpre' ⊢
              simp only [hpre']
              exact same_value_read s r.value r.idx e' it rv0 hc hsame hpre'
          · rw [hobjw]
            simp only [findSlot_setSlot _ _ _ _ hs]
            obtain ⟨hcu, hwhat⟩ := propWrite_ok _ _ _ _ _ _ hpw
            rcases hwhat with ⟨nv', hnv, hw⟩ | ⟨hnone, _⟩
            · simp only [Option.some.injEq] at hnv
              subst hnv
              obtain ⟨rv, hrd, henc⟩ := stdWrite_then_read s r.value r.idx v nv hc hw
              have hcu' : ({ s with v := nv } : Slot).d.custom = .std ∨
                  ({ s with v := nv } : Slot).d.custom = .objId ∨
                  ({ s with v := nv } : Slot).d.custom = .wrName := hcu
              rw [propRead_eq_stdRead _ _ _ hcu']
              simp only [hrd]
              exact henc
            · simp at hnone

/-- **refused_write_pure** (objects without the Commandable mix-in): whatever
    the refusal, the device is exactly as before.  No hypothesis on the
    request or on the state. -/
theorem refused_write_pure (d : Device) (r : WriteReq) (e : Refusal)
    (hplain : ∀ o, findObj r.oid d.objs = some o → o.cmd = none)
    (href : (writeService d r).2 = .error e) :
    (writeService d r).1 = d := by
  unfold writeService at href ⊢
  cases hobj : findObj r.oid d.objs with
  | none => simp
  | some o =>
    simp only [hobj] at href ⊢
    cases hpre : objRead o r.pid r.idx with
    | error e' => simp
    | ok rv0 =>
      cases rv0 with
      | none => simp
      | whole _ | len _ | elem _ =>
        simp only [hpre] at href ⊢
        cases hs : findSlot r.pid o.props with
        | none => simp
        | some s =>
          simp only [hs] at href ⊢
          cases hc : castOut s.d.dt r.idx r.value with
          | error e' => simp
          | ok v =>
            simp only [hc] at href ⊢
            have how : objWrite d o r.pid v r.idx r.prio = objWritePlain d o r.pid v r.idx := by
              simp [objWrite, hplain o hobj]
            rw [how] at href ⊢
            rcases objWritePlain_cases d o r.pid v r.idx with ⟨e', he⟩ | ⟨s', _, hcase⟩
            · rw [he]
              simp [setObj_self _ _ _ hobj]
            · rcases hcase with ⟨_, hobjw⟩ | ⟨nv, _, hobjw⟩ <;> (rw [hobjw] at href; simp at href)

end BacVerif.C15
