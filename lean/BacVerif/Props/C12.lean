/-
  C12 — What is sent respects what the peer said it can accept.

  Property text.  "No APDU sent to a peer is longer than the maximum APDU
  length that peer announced (in the request being answered, or in its I-Am
  for requests), a response is segmented only if the request allowed segmented
  responses and then into no more segments than the request's limit, and a
  request is segmented only toward a peer that can receive segments; when a
  message cannot be sent within those limits the requester is told so with an
  abort instead.  Window sizes offered and used stay within 1..127 and never
  exceed what the other side proposed."

  Formalisation (model: BacVerif.Model.Tsm; all capability pairs, all payload
  lengths, all event sequences — nothing is bounded).

  What a transaction "knows the peer announced":
    server side  `t.body.maxApdu / sra / maxSegs` — fixed when the request
                 arrives (`server_record_announced`: the max-APDU code of the
                 request header decoded — `announced` — or a SMALLER cached
                 value, never a larger one (fix Tsm-10); the SA flag; the
                 max-segments code decoded) and never changed afterwards
                 (`server_record_stable`, `server_announced_stable`);
                 `response_within_request_limit`: every ComplexAck frame is no
                 longer than what the request being answered announced;
    client side  `cutMax t.body` = segment size + header of the request kind —
                 equal, whenever the request is (re)cut, to `clientMaxApdu di
                 own`: the peer's I-Am maximum (capped by a known NPDU limit),
                 or the local maximum when nothing is known about the peer
                 (`client_cut_max`), unchanged while the request is being sent
                 (`client_cut_stable`).

  * frame_len_bound — in every reachable state, for every event, every frame
    emitted is: a control frame (SimpleAck, SegmentAck, Error, Reject, Abort)
    of at most 50 octets — the smallest maximum that can be announced
    (`decodeMaxApdu_ge`); or an unconfirmed request (not addressed to a
    capability-announcing peer: out of the property's scope); or a ComplexAck
    whose encoded length (header + slice) is ≤ the maximum the server
    transaction holds for that peer; or a ConfirmedRequest whose encoded length
    is ≤ `cutMax` of the client transaction that sent it.  Arithmetic:
    `setSegmentSize_spec` (segment size = M − header of a segment; unsegmented
    iff payload + header ≤ M), `getSegment_wire` (|slice| ≤ segment size).
  * segments_bound — every segmented ComplexAck frame carries a sequence number
    below the request's max-segments (hence at most that many segments);
    a segmented request has at most as many segments as the peer's record allows
    (`client_segments_bound`).
  * segmentation_allowed — a segmented ComplexAck is only ever emitted by a
    transaction whose request had segmented-response-accepted (and a local device
    that transmits segments); a request is cut into segments only if the local
    device transmits segments and the peer's record (if any) says it receives
    them (`client_segmentation_allowed`).
  * cannot_send_aborts — in every other case the only output is one abort
    (segmentationNotSupported | apduTooLong) to the requester — the client
    application resp. the requesting peer — the transaction ends and no data
    frame is produced (`client_cannot_send_aborts`, `server_cannot_send_aborts`).
  * window_range — the window offered in a first segment is the configured
    one; the window used when receiving is min(proposed, own) (server, and
    client after a segmented request) or the proposed one (client), hence in
    1..127 and ≤ the proposal whenever both inputs are in 1..127; a sender never
    has more segments in flight than the window the receiver granted.

  Hypotheses (explicit, decidable): `cfg.TimeoutsPos` (timer clause of `Inv`);
  `EventOk e`: an application answer that is not a ComplexAck is at most 50
  octets and a ComplexAck is handed over unsegmented (`RespOk`); an inbound
  Abort PDU carries at most 47 octets after its 3-octet header (`FrameOk` — the
  ServerSSM echoes a received abort).
-/
import BacVerif.Lemmas.TsmCapStep
import BacVerif.Lemmas.TsmCache
import BacVerif.Props.C11
namespace BacVerif.C12
open BacVerif.Tsm
set_option linter.unusedSimpArgs false
set_option linter.unusedVariables false

variable {cfg : Cfg}

/-- the explicit well-formedness hypotheses on one event -/
def EventOk : Event → Prop
  | .response _ a => RespOk a
  | .frame _ a => FrameOk a
  | _ => True

/-! ## the capability invariant over all event sequences -/

theorem sendOk_mono {s s1 s2 : Sap} (h : s2.clients = s1.clients) {p : Peer} {a : Apdu}
    (hs : SendOk cfg s s1 p a) : SendOk cfg s s2 p a := by
  rcases hs with h1 | h1 | h1 | ⟨h0, t, ht, hk, hl⟩
  · exact Or.inl h1
  · exact Or.inr (Or.inl h1)
  · exact Or.inr (Or.inr (Or.inl h1))
  · exact Or.inr (Or.inr (Or.inr ⟨h0, t, by rw [h]; exact ht, hk, hl⟩))

/-- one event: the invariant is kept and every emitted frame is within limits -/
theorem cap_step (hpos : cfg.TimeoutsPos) {s : Sap} (hinv : Inv s) (hcap : CapInv cfg s)
    (e : Event) (he : EventOk e) :
    CapInv cfg (step cfg s e).1 ∧
    ∀ p a, Out.send p a ∈ (step cfg s e).2 → SendOk cfg s (step cfg s e).1 p a := by
  have pass : ∀ {k : Key} {s1 : Sap} {outs : List Out}, Spec k s s1 outs → CapInv cfg s1 →
      AllOk cfg s s1 outs →
      CapInv cfg (asapPass cfg s1 outs).1 ∧
      ∀ p a, Out.send p a ∈ (asapPass cfg s1 outs).2 → SendOk cfg s (asapPass cfg s1 outs).1 p a := by
    intro k s1 outs hspec hc1 hok
    have hp := asapPass_cap (cfg := cfg) hpos outs hspec.inv hc1 hspec.touch.attr
    have hcl := (asapPass_spec (cfg := cfg) hpos outs hspec.inv hspec.touch.attr).2.1
    refine ⟨hp.1, ?_⟩
    intro p a ha
    rcases hp.2 p a ha with h | h
    · exact sendOk_mono hcl (hok p a h)
    · exact Or.inl h
  cases e with
  | request peer service data chosen =>
    have h := smapRequest_cap hcap peer service data chosen
    exact pass (smapRequest_spec hpos hinv peer service data chosen).1 h.1 h.2
  | unconfirmed peer service data =>
    unfold step
    simp only [smapStep]
    split
    · refine ⟨hcap, ?_⟩
      intro p a ha
      simp only [asapPass, asapUp, List.append_nil, List.mem_singleton, Out.send.injEq] at ha
      right; left
      rw [ha.2]
    · exact ⟨hcap, fun p a ha => by simp [asapPass] at ha⟩
  | response peer a =>
    unfold step
    simp only [smapStep]
    split
    · have h := smapResponse_cap hinv hcap peer (a := a) he
      exact pass (smapResponse_spec hpos hinv peer a).1 h.1 h.2
    · exact ⟨hcap, fun p a ha => by simp [asapPass] at ha⟩
  | frame peer a =>
    have h := smapConfirmation_cap hinv hcap peer (a := a) he
    exact pass (smapConfirmation_spec hpos hinv peer a).1 h.1 h.2
  | timeout srv peer id =>
    have h := smapTimeout_cap hinv hcap srv ⟨peer, id⟩
    exact pass (smapTimeout_spec hpos hinv srv ⟨peer, id⟩).1 h.1 h.2
  | tick dt => exact ⟨hcap.congr rfl rfl, fun p a ha => by simp [step, smapStep, asapPass] at ha⟩
  | learn peer info =>
    exact ⟨hcap.congr rfl rfl, fun p a ha => by simp [step, smapStep, asapPass] at ha⟩
  | setDcc d => exact ⟨hcap.congr rfl rfl, fun p a ha => by simp [step, smapStep, asapPass] at ha⟩

/-- both invariants hold after ANY sequence of well-formed events -/
theorem cap_run (hpos : cfg.TimeoutsPos) : ∀ (es : List Event) {s : Sap}, Inv s → CapInv cfg s →
    (∀ e ∈ es, EventOk e) → Inv (run cfg s es).1 ∧ CapInv cfg (run cfg s es).1 := by
  intro es
  induction es with
  | nil => intro s h1 h2 _; exact ⟨h1, h2⟩
  | cons e es ih =>
    intro s h1 h2 hev
    simp only [run]
    exact ih (C11.inv_step hpos h1 e) (cap_step hpos h1 h2 e (hev e List.mem_cons_self)).1
      (fun e' he' => hev e' (List.mem_cons_of_mem _ he'))

/-- **frame_len_bound / segments_bound / segmentation_allowed**, stated for
    every state reachable from the initial one by well-formed events and for
    every further event: each frame `a` sent toward `p` is
    * a control frame of at most 50 octets, or an unconfirmed request, or
    * a ComplexAck of a live server transaction `t` with that key:
      `|a| ≤ t.maxApdu`; if segmented then the request had SA set, the local
      device transmits segments, and `a.seq <` the request's max-segments, or
    * a ConfirmedRequest of the client transaction `t` with that key (alive after
      the step): `|a| ≤ cutMax t`. -/
theorem frame_len_bound (hpos : cfg.TimeoutsPos) (es : List Event) (hes : ∀ e ∈ es, EventOk e)
    (e : Event) (he : EventOk e) :
    let s := (run cfg Sap.init es).1
    ∀ p a, Out.send p a ∈ (step cfg s e).2 → SendOk cfg s (step cfg s e).1 p a := by
  intro s
  have h := cap_run hpos es C11.inv_init CapInv.init hes
  exact (cap_step hpos h.1 h.2 e he).2

/-- **response_within_request_limit.**  In every state reachable by
    well-formed events, every ComplexAck frame (unsegmented answer or segment)
    emitted by the next step belongs to a live server transaction with that
    (peer, invoke ID) and is no longer than `announced` — the maximum APDU
    length decoded from the header of the REQUEST BEING ANSWERED
    (`server_record_announced`: set when the request opens the transaction;
    `server_announced_stable`: never changed) — whatever the device-information
    cache says about the peer. -/
theorem response_within_request_limit (hpos : cfg.TimeoutsPos) (es : List Event)
    (hes : ∀ e ∈ es, EventOk e) (e : Event) (he : EventOk e) :
    let s := (run cfg Sap.init es).1
    ∀ p a, Out.send p a ∈ (step cfg s e).2 → a.ty = 3 →
      ∃ t ∈ s.servers, t.key = ⟨p, a.invokeId⟩ ∧ a.wireLen ≤ t.body.announced ∧
        50 ≤ t.body.announced := by
  intro s p a ha h3
  have h := cap_run hpos es C11.inv_init CapInv.init hes
  rcases (cap_step hpos h.1 h.2 e he).2 p a ha with hc | h1 | ⟨_, t, ht, hk, hlen, _⟩ | ⟨h0, _⟩
  · exact absurd h3 hc.2.2.1
  · omega
  · have hcap := (h.2.srv t ht).1
    exact ⟨t, ht, hk, by omega, hcap.2⟩
  · omega

/-- the smallest maximum APDU a request header can announce is 50: control
    frames (≤ 50 octets) always fit -/
theorem control_fits {code m : Nat} (h : decodeMaxApdu code = some m) {a : Apdu} (ha : Control a) :
    a.wireLen ≤ m := by
  have := decodeMaxApdu_ge h
  have := ha.2.2.2
  omega

/-! ## what the server transaction holds IS what the peer announced -/

/-- **server_record_announced.**  The transaction a request creates holds
    as its limit the decoded max-APDU code `m` of the REQUEST header (recorded
    in the history variable `announced`) — or a smaller value cached for the
    peer (its I-Am / device object), never a larger one (fix Tsm-10) —, the SA
    flag and the decoded max-segments code.  A reserved max-APDU code creates no
    transaction. -/
theorem server_record_announced {now : Nat} {di : Option DeviceInfo} {k : Key} {b b' : Body}
    {a : Apdu} {outs : List Out} (h : serverIdle cfg now di k b a = (some b', outs)) :
    ∃ m, decodeMaxApdu a.maxResp = some m ∧ b'.announced = m ∧ b'.maxApdu ≤ m ∧
      (b'.maxApdu = m ∨ ∃ d dm, di = some d ∧ d.maxApdu = some dm ∧ dm < m ∧ b'.maxApdu = dm) ∧
      b'.sra = a.sa ∧ b'.maxSegs = decodeMaxSegs a.maxSegs := by
  obtain ⟨_, m, hm, hmax, hsra, hms, hann⟩ := serverIdle_body h
  refine ⟨m, hm, hann, by rw [hmax]; exact announcedMax_le di m, ?_, hsra, hms⟩
  rcases announcedMax_cases di m with h1 | ⟨d, dm, h1, h2, h3, h4⟩
  · left; rw [hmax, h1]
  · right; exact ⟨d, dm, h1, h2, h3, by rw [hmax, h4]⟩

/-- the recorded announcement is never changed by a later event of the transaction -/
theorem server_announced_stable {now : Nat} {npdu : Option Nat} {k : Key} {b b' : Body} {a : Apdu}
    {outs : List Out} :
    (serverIndication cfg now k b a = (some b', outs) ∨
     serverConfirmation cfg now npdu k b a = (some b', outs) ∨
     serverTimeout cfg now k b = (some b', outs)) →
    b'.announced = b.announced := by
  rintro (h | h | h)
  · exact serverIndication_announced h
  · exact serverConfirmation_announced h
  · exact serverTimeout_announced h

/-- **server_record_stable.**  No later event of the transaction (segment,
    abort, application answer, timer) changes what it holds about the peer. -/
theorem server_record_stable {now : Nat} {npdu : Option Nat} {k : Key} {b b' : Body} {a : Apdu}
    {outs : List Out} (hcap : SrvCap cfg b) :
    (serverIndication cfg now k b a = (some b', outs) ∨
     serverConfirmation cfg now npdu k b a = (some b', outs) ∨
     serverTimeout cfg now k b = (some b', outs)) →
    b'.maxApdu = b.maxApdu ∧ b'.sra = b.sra ∧ b'.maxSegs = b.maxSegs := by
  rintro (h | h | h)
  · exact (serverIndication_body hcap h).2
  · exact (serverConfirmation_body hcap h).2
  · exact (serverTimeout_body hcap h).2

/-! ## the client's cut -/

/-- **client_cut_max.**  Whenever a request is cut (first transmission or
    retry) the transaction is cut for `clientMaxApdu di own`: the I-Am maximum
    of the peer, capped by its known NPDU limit; the local maximum if nothing
    (or no maximum) is known. -/
theorem client_cut_max {now : Nat} {di : Option DeviceInfo} {k : Key} {b b' : Body} {req : Apdu}
    {outs : List Out} (hty : req.ty = 0)
    (h : clientIndication cfg now di k b req = (some b', outs)) :
    cutMax b' = clientMaxApdu di b.maxApdu ∧
    (∀ d m, di = some d → d.maxApdu = some m → cutMax b' ≤ m) := by
  have h1 := (clientIndication_body hty h).2
  refine ⟨h1, ?_⟩
  intro d m hd hm
  rw [h1, hd]
  simp only [clientMaxApdu, hm]
  split
  · omega
  · exact Nat.min_le_right _ _

/-- **client_cut_stable.**  While the request is on its way (SEGMENTED_REQUEST /
    AWAIT_CONFIRMATION) inbound PDUs do not change what it was cut for. -/
theorem client_cut_stable {now : Nat} {k : Key} {b b' : Body} {a : Apdu} {outs : List Out}
    (hcap : CliCap cfg b) (h : clientConfirmation cfg now k b a = (some b', outs))
    (hst : b'.st = .segReq ∨ b'.st = .awaitConf) : cutMax b' = cutMax b :=
  (clientConfirmation_body hcap h).2 hst

/-- **cannot_send_aborts (client).**  The request does not fit the peer's
    maximum and may not be segmented (no room for a segment, the local device
    does not transmit segments, the peer's record says it does not receive
    them, or it accepts fewer segments than needed): the application gets one
    abort (segmentationNotSupported | apduTooLong), no transaction remains,
    nothing is sent. -/
theorem client_cannot_send_aborts {now : Nat} {di : Option DeviceInfo} {k : Key} {b : Body}
    {req : Apdu} (hty : req.ty = 0)
    (hnofit : clientMaxApdu di b.maxApdu < req.data.length + 4)
    (hbad : clientMaxApdu di b.maxApdu ≤ 6 ∨ cfg.seg.canTx = false ∨ diCannotRx di = true ∨
      (∃ size count, setSegmentSize req.data.length (clientMaxApdu di b.maxApdu) 4 6 = some (size, count) ∧
        diTooMany di count = true)) :
    (clientIndication cfg now di k b req).1 = none ∧
    ∃ reason, (reason = abortSegmentationNotSupported ∨ reason = abortApduTooLong) ∧
      (clientIndication cfg now di k b req).2 = [.confirm k.peer (mkAbort false k.id reason)] :=
  ((clientIndication_cut (cfg := cfg) (now := now) (di := di) (k := k) (b := b) hty).2 hnofit).1 hbad

/-- **segmentation_allowed (client)**, contrapositive form: if the cut leaves a
    transaction with more than one segment then the local device transmits
    segments, the peer's record (if any) receives them and — when it states a
    non-zero maximum — accepts that many (**segments_bound**, client). -/
theorem client_segmentation_allowed {now : Nat} {di : Option DeviceInfo} {k : Key} {b b' : Body}
    {req : Apdu} {outs : List Out} (hty : req.ty = 0)
    (h : clientIndication cfg now di k b req = (some b', outs)) (hseg : 2 ≤ b'.segCount) :
    cfg.seg.canTx = true ∧ diCannotRx di = false ∧ diTooMany di b'.segCount = false := by
  unfold clientIndication at h
  simp only [clientAbortApp] at h
  split at h
  · simp at h
  · rename_i size count hcut
    try dsimp only at h
    split at h
    · simp at h
    · rename_i hA
      split at h
      · simp at h
      · rename_i hB
        split at h
        · simp at h
        · rename_i hC
          have hcnt : b'.segCount = count := by
            split at h <;>
              (simp only [Prod.mk.injEq, Option.some.injEq] at h
               obtain ⟨rfl, _⟩ := h
               split <;> rfl)
          rw [hcnt] at hseg ⊢
          have hgt : decide (count > 1) = true := by simp; omega
          simp only [hgt, Bool.true_and, Bool.not_eq_true, Bool.not_eq_true'] at hA hB hC
          exact ⟨by simpa using hA, by simpa using hB, by simpa using hC⟩

/-- the segment count respects the record's maximum -/
theorem client_segments_bound {di : Option DeviceInfo} {count n : Nat} {d : DeviceInfo}
    (h : diTooMany di count = false) (hd : di = some d) (hn : d.maxSegs = some n) (h0 : n ≠ 0) :
    count ≤ n := by
  subst hd
  simp only [diTooMany, hn] at h
  simp [h0] at h
  exact h

/-- **cannot_send_aborts (server).**  A ComplexAck that does not fit the
    client's maximum and may not be segmented (no room for a segment, the local
    device does not transmit segments, the request did not accept a segmented
    response, or it allows fewer segments than needed): exactly one abort
    (segmentationNotSupported | apduTooLong) toward the requester, the
    transaction ends, no data frame. -/
theorem server_cannot_send_aborts {now : Nat} {npdu : Option Nat} {k : Key} {b : Body} {a : Apdu}
    (h3 : a.ty = 3)
    (hnofit : serverMaxApdu npdu b.maxApdu < a.data.length + 3)
    (hbad : serverMaxApdu npdu b.maxApdu ≤ 5 ∨ cfg.seg.canTx = false ∨ b.sra = false ∨
      (∃ size count, setSegmentSize a.data.length (serverMaxApdu npdu b.maxApdu) 3 5 = some (size, count) ∧
        exceeds b.maxSegs count = true)) :
    (serverConfirmation cfg now npdu k b a).1 = none ∧
    ∃ reason, (reason = abortSegmentationNotSupported ∨ reason = abortApduTooLong) ∧
      (serverConfirmation cfg now npdu k b a).2 = [.send k.peer (mkAbort true k.id reason)] :=
  serverConfirmation_cannot_send (cfg := cfg) (now := now) (npdu := npdu) (k := k) (b := b) h3 hnofit hbad

/-! ## what the cache returns after an I-Am -/

/-- **the latest I-Am wins** (`DeviceInfoCache`, model `Tsm.Cache`): after any
    history of I-Ams, acquires and releases, an I-Am of instance `i` from address
    `a` makes `get_device_info(a)` and `get_device_info(i)` return the record with
    the announced maximum APDU and segmentation support — so the next request to
    `a` is cut for what `a` announced last (`client_cut_max`). -/
theorem latest_iam_wins (ops : List Cache.Op) (i : Nat) (a : Peer) (maxApdu : Nat) (seg : SegSup) :
    ∃ r, (Cache.iam (Cache.runOps {} ops) i a maxApdu seg).lookup (.addr a) = some r ∧
         (Cache.iam (Cache.runOps {} ops) i a maxApdu seg).lookup (.inst i) = some r ∧
         r.id = i ∧ r.addr = a ∧ r.info.maxApdu = some maxApdu ∧ r.info.seg = seg :=
  Cache.iam_after_any_history ops i a maxApdu seg

/-! ## windows -/

/-- **window_range (offered).**  The first segment of every segmented message
    carries the configured window; later ones the window the receiver granted. -/
theorem window_offered {k : Key} {b : Body} {i w : Nat} {seg c : Apdu} (hctx : b.ctx = some c)
    (h : getSegment cfg k b i w = .ok seg) (hseg : seg.seg = true) :
    (i = 0 → seg.win = cfg.window) ∧ (i ≠ 0 → seg.win = w) := by
  obtain ⟨_, _, _, _, _, h6, h7, _⟩ := getSegment_wire hctx h
  exact ⟨h6 hseg, h7 hseg⟩

/-- min(proposed, own) is in 1..127 and exceeds neither whenever both are in 1..127 -/
theorem window_min_range {proposed own : Nat} (hp : 1 ≤ proposed ∧ proposed ≤ 127)
    (ho : 1 ≤ own ∧ own ≤ 127) :
    1 ≤ min proposed own ∧ min proposed own ≤ 127 ∧ min proposed own ≤ proposed ∧
    min proposed own ≤ own := by
  refine ⟨?_, ?_, Nat.min_le_left _ _, Nat.min_le_right _ _⟩ <;> omega

/-- **window_range (used, server receiving a segmented request).**  The actual
    window — stored and sent back in the SegmentAck — is min(proposed, own). -/
theorem window_used_server {now : Nat} {di : Option DeviceInfo} {k : Key} {b b' : Body} {a : Apdu}
    {outs : List Out} (hseg : a.seg = true)
    (h : serverIdle cfg now di k b a = (some b', outs)) :
    b'.window = some (min a.win cfg.window) ∧
    outs = [.send k.peer (mkSegAck false true k.id 0 (min a.win cfg.window))] := by
  unfold serverIdle at h
  simp only [serverAbortNet] at h
  hsplit h
  all_goals first
    | (simp only [Prod.mk.injEq, reduceCtorEq, false_and] at h; done)
    | (simp_all; done)
    | (simp only [Prod.mk.injEq, Option.some.injEq] at h
       obtain ⟨rfl, rfl⟩ := h
       exact ⟨rfl, rfl⟩)

/-- **window_range (used, client receiving a segmented ack).**  From
    AWAIT_CONFIRMATION the client adopts the window the server proposed (and
    acknowledges with it); from SEGMENTED_REQUEST it uses min(proposed, own). -/
theorem window_used_client {now : Nat} {k : Key} {b b' : Body} {a : Apdu} {outs : List Out}
    (h3 : a.ty = 3) (hseg : a.seg = true)
    (h : clientConfirmation cfg now k b a = (some b', outs)) (hst : b'.st = .segConf)
    (hfrom : b.st = .awaitConf ∨ b.st = .segReq) :
    (b.st = .awaitConf → b'.window = some a.win ∧
        outs = [.send k.peer (mkSegAck false false k.id 0 a.win)]) ∧
    (b.st = .segReq → b'.window = some (min a.win cfg.window)) := by
  unfold clientConfirmation at h
  rcases hfrom with hs | hs
  · simp only [hs] at h
    refine ⟨fun _ => ?_, fun h' => (by rw [hs] at h'; cases h')⟩
    unfold clientAwaitConfirmation at h
    simp only [clientAbortBoth, clientAbortApp] at h
    hsplit h
    all_goals first
      | (simp only [Prod.mk.injEq, reduceCtorEq, false_and] at h; done)
      | (exfalso; omega)
      | (simp only [Prod.mk.injEq, Option.some.injEq] at h
         obtain ⟨rfl, rfl⟩ := h
         first | exact ⟨rfl, rfl⟩ | (simp at hst) | (simp_all))
  · simp only [hs] at h
    refine ⟨fun h' => (by rw [hs] at h'; cases h'), fun _ => ?_⟩
    unfold clientSegmentedRequest at h
    simp only [clientAbortBoth] at h
    hsplit h
    all_goals first
      | (simp only [Prod.mk.injEq, reduceCtorEq, false_and] at h; done)
      | (exfalso; omega)
      | (simp only [Prod.mk.injEq, Option.some.injEq] at h
         obtain ⟨rfl, _⟩ := h
         first | rfl | (simp at hst) | (simp_all))

/-- **window_range (every SegmentAck while receiving).**  Whatever segment
    arrives — in order, out of order, duplicate, stale — every SegmentAck
    (positive or negative) the receiving side emits carries the negotiated
    window stored in the transaction, never the local proposal. -/
theorem window_acks_receiving {now : Nat} {k : Key} {b : Body} {a : Apdu} {w : Nat}
    (hw : b.window = some w) :
    (∀ p x, Out.send p x ∈ (serverSegmentedRequest cfg now k b a).2 → x.ty = 4 → x.win = w) ∧
    (∀ p x, Out.send p x ∈ (clientSegmentedConfirmation cfg now k b a).2 → x.ty = 4 → x.win = w) := by
  constructor
  · unfold serverSegmentedRequest
    simp only [serverAbortBoth, hw]
    gsplit
    all_goals
      intro p x hx h4
      simp only [List.mem_cons, List.mem_singleton, Out.send.injEq, List.not_mem_nil, or_false,
        reduceCtorEq, false_or, or_false] at hx
    all_goals first
      | (obtain ⟨_, rfl⟩ := hx; first | rfl | (simp [mkAbort] at h4) | omega)
      | (rcases hx with ⟨_, rfl⟩ | ⟨_, rfl⟩ <;> first | rfl | (simp [mkAbort] at h4) | omega)
      | (cases hx)
  · unfold clientSegmentedConfirmation
    simp only [clientAbortBoth, hw]
    gsplit
    all_goals
      intro p x hx h4
      simp only [List.mem_cons, List.mem_singleton, Out.send.injEq, List.not_mem_nil, or_false,
        reduceCtorEq, false_or, or_false] at hx
    all_goals first
      | (obtain ⟨_, rfl⟩ := hx; first | rfl | (simp [mkAbort] at h4) | omega)
      | (rcases hx with ⟨_, rfl⟩ | ⟨_, rfl⟩ <;> first | rfl | (simp [mkAbort] at h4) | omega)
      | (cases hx)
/-- **window_range (sender).**  One `fill_window` never puts more segments on
    the wire than the window the receiver granted in its last SegmentAck. -/
theorem window_in_flight (k : Key) (b : Body) (start : Nat) {w : Nat} (hw : b.window = some w) :
    (fillWindow cfg k b start).sent.length ≤ w := fillWindow_length k b start hw

/-! ## non-vacuity and worked instances -/

def exCfg : Cfg := { BacVerif.Gen.TsmDefaults.cfg with seg := .both, maxSegs := some 16 }

theorem exCfg_pos : exCfg.TimeoutsPos := ⟨by decide, by decide, by decide⟩

/-- the shape of the design-time witness of defect #6, now within limits: the
    request announces 50 octets (code 0) with SA and max-segments 4 (code 2);
    the application answers with 100 octets → three segments of 50, 50 and 15
    octets on the wire (45 + 45 + 10 octets of payload under 5-octet headers) -/
example :
    let req : Apdu := { ty := 0, invokeId := 7, service := 200, maxResp := 0, maxSegs := 2, sa := true }
    let s1 := (step exCfg Sap.init (.frame 0 req)).1
    let r2 := step exCfg s1 (.response 0 { ty := 3, invokeId := 7, service := 200, data := List.replicate 100 0 })
    let r3 := step exCfg r2.1 (.frame 0 (mkSegAck false false 7 0 2))
    (r2.2.map fun o => match o with | .send _ a => a.wireLen | _ => 0) = [50] ∧
    (r3.2.map fun o => match o with | .send _ a => a.wireLen | _ => 0) = [50, 15] := by
  decide +kernel

/-- cannot-send, non-vacuous: the same answer to a request WITHOUT
    segmented-response-accepted is refused with abort segmentationNotSupported (4) -/
example :
    let req : Apdu := { ty := 0, invokeId := 7, service := 200, maxResp := 0, maxSegs := 2, sa := false }
    let s1 := (step exCfg Sap.init (.frame 0 req)).1
    let r2 := step exCfg s1 (.response 0 { ty := 3, invokeId := 7, service := 200, data := List.replicate 100 0 })
    r2.2 = [.send 0 (mkAbort true 7 4)] ∧ r2.1.servers = [] := by
  decide +kernel

/-- … and with max-segments 2 (code 1) it is refused with apduTooLong (11) -/
example :
    let req : Apdu := { ty := 0, invokeId := 7, service := 200, maxResp := 0, maxSegs := 1, sa := true }
    let s1 := (step exCfg Sap.init (.frame 0 req)).1
    let r2 := step exCfg s1 (.response 0 { ty := 3, invokeId := 7, service := 200, data := List.replicate 100 0 })
    r2.2 = [.send 0 (mkAbort true 7 11)] := by
  decide +kernel

/-- client side: a peer known (I-Am) to accept 50 octets and to receive
    segments gets a 100-octet request as segments of exactly 50 octets -/
example :
    let s0 : Sap := { devInfo := [(0, { maxApdu := some 50, seg := .both })] }
    let r := step exCfg s0 (.request 0 200 (List.replicate 100 0) none)
    (r.2.map fun o => match o with | .send _ a => (a.wireLen, a.seg) | _ => (0, false)) = [(50, true)] := by
  decide +kernel

/-- `EventOk` is satisfiable by the events of the examples above -/
example : EventOk (.response 0 { ty := 3, invokeId := 7, service := 200, data := List.replicate 100 0 }) := by
  simp [EventOk, RespOk]

/-! ## the regenerated tables agree with the model -/

/-- `decodeMaxApdu` / `decodeMaxSegs` = the live tables of apdu.py -/
theorem tables_agree :
    (List.range 16).map decodeMaxApdu = Gen.TsmDefaults.maxApduTable ∧
    (List.range 8).map decodeMaxSegs = Gen.TsmDefaults.maxSegsTable := by decide

/-- the Segmentation enumeration of the tree carries the STANDARD's numbers
    (BACnetSegmentation: segmented-both 0, segmented-transmit 1,
    segmented-receive 2, no-segmentation 3) — an I-Am transports the number, the
    state machines compare the names: a swap inside the enumeration makes the
    client segment toward a peer that announced it cannot receive segments
    (listed in the order no, transmit, receive, both of `SegSup`) -/
theorem segmentation_values_standard : Gen.TsmDefaults.segmentationValues = [3, 1, 2, 0] := by decide

/-- `Apdu.hdrLen` = what the live `APCI.encode` writes, for every type, both ways -/
theorem hdr_lens_agree :
    (List.range 8).map (fun t => (({ ty := t } : Apdu).hdrLen, ({ ty := t, seg := true } : Apdu).hdrLen))
      = Gen.TsmDefaults.hdrLens := by decide

/-- the encoder tables invert the decoder tables on every valid code -/
theorem encode_decode_tables :
    ((List.range 6).all fun c => match decodeMaxApdu c with
      | some m => (match encodeMaxApdu m with | .ok c' => c' == c | .error _ => false)
      | none => false) = true ∧
    ((List.range 7).all fun c => match decodeMaxSegs c with
      | some n => (match encodeMaxSegs (some n) with | .ok c' => c' == c | .error _ => false)
      | none => c == 0) = true := by
  decide

end BacVerif.C12
