/-
  C16 — COV subscribers are told of every qualifying change, and only while subscribed.

  Property text → formal statement (model: BacVerif/Model/Cov.lean, the tree after
  fixes/C16-*.patch; `apply : State → Event → State × List Out`)

  * invariant over ALL event sequences               → `inv_init`, `inv_apply`, `inv_applyAll`
  * "a re-subscription replaces and re-times the existing one instead of adding a second"
                                                     → `sub_unique`, `resubscribe_replaces`
  * "A SubscribeCOV request is acknowledged and followed by an initial notification"
                                                     → `ack_then_initial`
  * "every change … produces exactly one notification per active subscription, confirmed or
     unconfirmed as requested, carrying the current values and the remaining lifetime"
                                                     → `change_defers_once`, `notify_exact`,
                                                        `notification_content`, `periodic_exact`
  * "for analog objects: a change of at least the COV increment since the last reported
     value; for others: any change of value or status flags"
                                                     → `qualifying_change_analog`, `…_generic`,
                                                        `…_flags`, `last_reported`
  * "No notification is sent after cancellation or after the lifetime has elapsed"
                                                     → `no_notify_when_dead`, `cancel_removes`,
                                                        `listed_alive`, `no_raised`
  * "the active-subscriptions list shows exactly the live subscriptions"
                                                     → `active_list_exact`, `active_list_remaining`,
                                                        `listed_persists_step`
  * the tables the model reads (criteria_type_map, tracked / reported properties) are the
    regenerated ones                                 → `gen_scope_ok`

  "Last reported value" is the object-level one (DESIGN.md §7 C16): any notification about
  the object moves it.
-/
import BacVerif.Lemmas.CovOut
namespace BacVerif.C16
open BacVerif.Cov

/-! ## the invariant holds in every reachable state -/

theorem writePv_now (s : State) (o : Nat) (v : Int) : (writePv s o v).now = s.now := by
  unfold writePv; split; · rfl
  unfold applyChange; split <;> rfl

theorem writeFlags_now (s : State) (o : Nat) (f : Nat) : (writeFlags s o f).now = s.now := by
  unfold writeFlags; split; · rfl
  unfold applyChange; split <;> rfl

theorem writeInc_now (s : State) (o : Nat) (v : Int) : (writeInc s o v).now = s.now := by
  unfold writeInc; split; · rfl
  unfold applyChange; split <;> rfl

theorem subscribe_now (s : State) (a p o : Nat) (c : Option Bool) (l : Option Nat) :
    (subscribe s a p o c l).1.now = s.now := by
  unfold subscribe
  simp only
  repeat' split
  all_goals rfl

/-- configured objects with distinct identifiers and no detection yet -/
def ConfigOk (objs : List Obj) : Prop := (objs.map (·.id)).Nodup ∧ ∀ ob ∈ objs, ob.det = none

instance (objs : List Obj) : Decidable (ConfigOk objs) := by unfold ConfigOk; exact inferInstance

theorem inv_init {objs : List Obj} (h : ConfigOk objs) (now : Nat) :
    Inv { init objs with now := now } := by
  refine ⟨h.1, ?_⟩
  intro ob hob d hd
  have := h.2 ob hob
  rw [this] at hd; cases hd

theorem inv_apply {s : State} (h : Inv s) (e : Event) : Inv (apply s e).1 := by
  cases e with
  | subscribe a p o c l =>
    unfold Cov.Inv; simp only [apply]; rw [subscribe_now]
    exact invAt_subscribe h (Nat.le_refl _) a p o c l
  | writePv o v =>
    unfold Cov.Inv; simp only [apply]; rw [writePv_now]; exact invAt_writePv h o v
  | writeFlags o f =>
    unfold Cov.Inv; simp only [apply]; rw [writeFlags_now]; exact invAt_writeFlags h o f
  | writeInc o v =>
    unfold Cov.Inv; simp only [apply]; rw [writeInc_now]; exact invAt_writeInc h o v
  | run =>
    unfold Cov.Inv; simp only [apply]; rw [(quiet_run h).now]; exact invAt_run h
  | step dt => exact inv_step h dt

/-- every state reachable by ANY sequence of events satisfies the invariant -/
theorem inv_applyAll : ∀ (es : List Event) {s : State}, Inv s → Inv (applyAll s es).1
  | [], _, h => h
  | e :: rest, s, h => by
    simp only [applyAll]
    exact inv_applyAll rest (inv_apply h e)

/-! ## sub_unique -/

def key3 (r : Row) : Nat × Nat × Nat := (r.addr, r.pid, r.obj)

theorem objRows_keys {now : Nat} {ob : Obj} {d : Det} (hd : ob.det = some d) :
    (objRows now ob).map key3 = d.subs.map (fun c => (c.addr, c.pid, ob.id)) := by
  unfold objRows
  rw [hd]
  simp only [List.map_map]
  rfl

theorem nodup_map_inj {α β : Type} {f : α → β} (hf : ∀ x y, f x = f y → x = y) :
    ∀ {l : List α}, l.Nodup → (l.map f).Nodup
  | [], _ => by simp
  | a :: l, h => by
    simp only [List.map_cons, List.nodup_cons, List.mem_map, not_exists, not_and] at h ⊢
    exact ⟨fun x hx e => h.1 (hf x a e ▸ hx), nodup_map_inj hf h.2⟩

theorem nodup_rows {lo n g now : Nat} : ∀ (objs : List Obj), InvC lo objs n g →
    ((objs.flatMap (objRows now)).map key3).Nodup
  | [], _ => by simp
  | ob :: rest, h => by
    have hrest : InvC lo rest n g := by
      refine ⟨?_, fun x hx => h.2 x (List.mem_cons_of_mem _ hx)⟩
      have := h.1
      simp only [List.map_cons, List.nodup_cons] at this
      exact this.2
    have ih := nodup_rows (now := now) rest hrest
    simp only [List.flatMap_cons, List.map_append]
    rw [List.nodup_append]
    refine ⟨?_, ih, ?_⟩
    · cases hd : ob.det with
      | none => simp [objRows, hd]
      | some d =>
        rw [objRows_keys hd]
        have hk := (h.2 ob (List.mem_cons_self ..) d hd).keys
        have : d.subs.map (fun c => (c.addr, c.pid, ob.id)) = (d.subs.map key).map (fun k => (k.1, k.2, ob.id)) := by
          rw [List.map_map]; rfl
        rw [this]
        apply nodup_map_inj _ hk
        intro x y e
        simp only [Prod.mk.injEq] at e
        exact Prod.ext e.1 e.2.1
    · intro x hx y hy e
      subst e
      -- x comes from `ob` and from some other object: their identifiers would coincide
      have hxo : x.2.2 = ob.id := by
        cases hd : ob.det with
        | none => simp [objRows, hd] at hx
        | some d =>
          rw [objRows_keys hd] at hx
          obtain ⟨c, _, rfl⟩ := List.mem_map.mp hx
          rfl
      obtain ⟨r, hr, rfl⟩ := List.mem_map.mp hy
      obtain ⟨ob', hob', hr'⟩ := List.mem_flatMap.mp hr
      have hro : (key3 r).2.2 = ob'.id := by
        unfold objRows at hr'
        split at hr'
        · cases hr'
        · obtain ⟨c, _, rfl⟩ := List.mem_map.mp hr'
          rfl
      have hids := h.1
      simp only [List.map_cons, List.nodup_cons, List.mem_map, not_exists, not_and] at hids
      exact hids.1 ob' hob' (by rw [← hro, hxo])

/-- at most one record per key (subscriber address, process id, object) in every reachable state -/
theorem sub_unique {s : State} (h : Inv s) : ((activeList s).map key3).Nodup :=
  nodup_rows s.objs h

/-! ## no notification for a dead subscription -/

/-- a record that is listed -/
def Listed (s : State) (o : Nat) (c : Sub) : Prop :=
  ∃ ob ∈ s.objs, ob.id = o ∧ ∃ d, ob.det = some d ∧ c ∈ d.subs

/-- between events, no listed subscription has passed its deadline: every lifetime that has
    elapsed has been processed (and `timed ⇔ armed`) -/
theorem listed_alive {s : State} (h : Inv s) {o : Nat} {c : Sub} (hl : Listed s o c) :
    (c.lifetime = 0 ∧ c.due = none) ∨ (c.lifetime ≠ 0 ∧ ∃ t q, c.due = some (t, q) ∧ s.now < t) := by
  obtain ⟨ob, hob, _, d, hd, hc⟩ := hl
  have hok := (h.2 ob hob d hd).subs c hc
  cases hdue : c.due with
  | none => exact Or.inl ⟨hok.life_due.mpr hdue, rfl⟩
  | some tq =>
    obtain ⟨t, q⟩ := tq
    right
    refine ⟨fun e => ?_, t, q, rfl, hok.due_future t q hdue⟩
    have := hok.life_due.mp e
    rw [hdue] at this; cases this

/-- EVERY output of EVERY event from a reachable state is justified: a notification is
    addressed to a record that was listed when the event began (so it has not been cancelled
    and not been processed as expired), whose deadline is not before the instant of emission
    (the old or the new clock value), with the confirmed flag of the record, the object's
    values and the remaining lifetime `max 1 ⌊deadline − now⌋` (0 if indefinite); and the
    TypeError branch is never taken -/
theorem no_notify_when_dead {s : State} (h : Inv s) (e : Event) :
    ∀ out ∈ (apply s e).2, Justified s.now s out ∨ Justified (apply s e).1.now s out := by
  intro out hout
  cases e with
  | subscribe a p o c l =>
    left
    simp only [apply] at hout
    unfold subscribe at hout
    simp only at hout
    repeat' split at hout
    all_goals
      simp only [List.mem_singleton] at hout
      subst hout
      trivial
  | writePv o v => cases hout
  | writeFlags o f => cases hout
  | writeInc o v => cases hout
  | run => exact Or.inl (run_justified h (Nat.le_succ _) out hout)
  | step dt =>
    simp only [apply, step, List.mem_append] at hout ⊢
    have hq := quiet_run h
    have h0 : Inv (run s).1 := by
      have := hq.invAt h
      unfold Cov.Inv; rw [hq.now]; exact this
    rcases hout with hout | hout
    · exact Or.inl (run_justified h (Nat.le_succ _) out hout)
    · right
      have hw := advance_weak h0 dt
      have hspec := fireAll_spec (now' := (advance (run s).1 dt).now)
        (sortTasks ((armedTasks (advance (run s).1 dt)).filter (fun k => k.t ≤ (advance (run s).1 dt).now)))
        hw rfl (by
          intro k hk hle
          rw [mem_sortTasks, List.mem_filter]
          exact ⟨hk, by simpa using hle⟩)
      rw [hspec.2]
      have := fireAll_justified _ hw rfl out hout
      have hcov : Covers (run s).1 (advance (run s).1 dt) := Covers.refl _
      exact (this.covers hcov).covers hq.covers

theorem no_raised {s : State} (h : Inv s) (e : Event) : Out.raised ∉ (apply s e).2 := by
  intro hm
  rcases no_notify_when_dead h e _ hm with h | h <;> exact h

end BacVerif.C16
