/-
  C16 — COV subscribers are told of every qualifying change, and only while subscribed.

  Property text → formal statement (model: BacVerif/Model/Cov.lean, the tree after
  fixes/C16-*.patch; `apply : State → Event → State × List Out`)

  * invariant over ALL event sequences               → `inv_init`, `inv_apply`, `inv_applyAll`
  * "a re-subscription replaces and re-times the existing one instead of adding a second"
                                                     → `sub_unique`, `resubscribe_replaces`,
                                                        `subscribe_keeps_others`
  * "A SubscribeCOV request is acknowledged and followed by an initial notification"
                                                     → `ack_then_initial`
  * "every change … produces exactly one notification per active subscription, confirmed or
     unconfirmed as requested, carrying the current values and the remaining lifetime"
                                                     → `change_notifies_all`, `change_defers_once`,
                                                        `notify_exact`, `periodic_exact`,
                                                        `notification_content`,
                                                        `unsubscribed_object_silent`
  * "for analog objects: a change of at least the COV increment since the last reported
     value; for others: any change of value or status flags"
                                                     → `incrTrigger_iff`, `qualifying_change_analog`,
                                                        `…_generic`, `…_flags`, `last_reported`,
                                                        `last_reported_stale`
  * "No notification is sent after cancellation or after the lifetime has elapsed"
                                                     → `no_notify_when_dead`, `cancel_removes`,
                                                        `listed_alive`, `no_raised`
  * "the active-subscriptions list shows exactly the live subscriptions"
                                                     → `active_list_exact`, `active_list_remaining`,
                                                        and the list is exactly the abstract map
                                                        key ↦ (confirmed, deadline):
                                                        `step_listed_iff`, `run_listed_iff`,
                                                        `write_listed_iff` (+ the subscribe theorems)
  * the tables the model reads (criteria_type_map, tracked / reported properties) are the
    regenerated ones                                 → `gen_scope_ok`, `gen_criteria_known`

  "Last reported value" is the object-level one (DESIGN.md §7 C16): any notification about
  the object moves it.
-/
import BacVerif.Lemmas.CovPersist
namespace BacVerif.C16
open BacVerif.Cov

/-! ## the invariant holds in every reachable state -/

theorem writePv_now (s : State) (o : Nat) (v : Int) : (writePv s o v).now = s.now := by
  unfold writePv; split; · rfl
  unfold applyChange; split <;> rfl

theorem writeFlags_now (s : State) (o : Nat) (f : Nat) : (writeFlags s o f).now = s.now := by
  unfold writeFlags; split; · rfl
  unfold applyChange; split <;> rfl

theorem writeInc_now (s : State) (o : Nat) (v : Int) : (writeInc s o v).now = s.now := by
  unfold writeInc; split; · rfl
  unfold applyChange; split <;> rfl

theorem subscribe_now (s : State) (a p o : Nat) (c : Option Bool) (l : Option Nat) :
    (subscribe s a p o c l).1.now = s.now := by
  unfold subscribe
  simp only
  repeat' split
  all_goals rfl

/-- configured objects with distinct identifiers and no detection yet -/
def ConfigOk (objs : List Obj) : Prop := (objs.map (·.id)).Nodup ∧ ∀ ob ∈ objs, ob.det = none

instance (objs : List Obj) : Decidable (ConfigOk objs) := by unfold ConfigOk; exact inferInstance

theorem inv_init {objs : List Obj} (h : ConfigOk objs) (now : Nat) :
    Inv { init objs with now := now } := by
  refine ⟨h.1, ?_⟩
  intro ob hob d hd
  have := h.2 ob hob
  rw [this] at hd; cases hd

theorem inv_apply {s : State} (h : Inv s) (e : Event) : Inv (apply s e).1 := by
  cases e with
  | subscribe a p o c l =>
    unfold Cov.Inv; simp only [apply]; rw [subscribe_now]
    exact invAt_subscribe h (Nat.le_refl _) a p o c l
  | writePv o v =>
    unfold Cov.Inv; simp only [apply]; rw [writePv_now]; exact invAt_writePv h o v
  | writeFlags o f =>
    unfold Cov.Inv; simp only [apply]; rw [writeFlags_now]; exact invAt_writeFlags h o f
  | writeInc o v =>
    unfold Cov.Inv; simp only [apply]; rw [writeInc_now]; exact invAt_writeInc h o v
  | run =>
    unfold Cov.Inv; simp only [apply]; rw [(quiet_run h).now]; exact invAt_run h
  | step dt => exact inv_step h dt

/-- every state reachable by ANY sequence of events satisfies the invariant -/
theorem inv_applyAll : ∀ (es : List Event) {s : State}, Inv s → Inv (applyAll s es).1
  | [], _, h => h
  | e :: rest, s, h => by
    simp only [applyAll]
    exact inv_applyAll rest (inv_apply h e)

/-! ## sub_unique -/

def key3 (r : Row) : Nat × Nat × Nat := (r.addr, r.pid, r.obj)

theorem objRows_keys {now : Nat} {ob : Obj} {d : Det} (hd : ob.det = some d) :
    (objRows now ob).map key3 = d.subs.map (fun c => (c.addr, c.pid, ob.id)) := by
  unfold objRows
  rw [hd]
  simp only [List.map_map]
  rfl

theorem nodup_map_inj {α β : Type} {f : α → β} (hf : ∀ x y, f x = f y → x = y) :
    ∀ {l : List α}, l.Nodup → (l.map f).Nodup
  | [], _ => by simp
  | a :: l, h => by
    simp only [List.map_cons, List.nodup_cons, List.mem_map, not_exists, not_and] at h ⊢
    exact ⟨fun x hx e => h.1 (hf x a e ▸ hx), nodup_map_inj hf h.2⟩

theorem nodup_rows {lo n g now : Nat} : ∀ (objs : List Obj), InvC lo objs n g →
    ((objs.flatMap (objRows now)).map key3).Nodup
  | [], _ => by simp
  | ob :: rest, h => by
    have hrest : InvC lo rest n g := by
      refine ⟨?_, fun x hx => h.2 x (List.mem_cons_of_mem _ hx)⟩
      have := h.1
      simp only [List.map_cons, List.nodup_cons] at this
      exact this.2
    have ih := nodup_rows (now := now) rest hrest
    simp only [List.flatMap_cons, List.map_append]
    rw [List.nodup_append]
    refine ⟨?_, ih, ?_⟩
    · cases hd : ob.det with
      | none => simp [objRows, hd]
      | some d =>
        rw [objRows_keys hd]
        have hk := (h.2 ob (List.mem_cons_self ..) d hd).keys
        have : d.subs.map (fun c => (c.addr, c.pid, ob.id)) = (d.subs.map key).map (fun k => (k.1, k.2, ob.id)) := by
          rw [List.map_map]; rfl
        rw [this]
        apply nodup_map_inj _ hk
        intro x y e
        simp only [Prod.mk.injEq] at e
        exact Prod.ext e.1 e.2.1
    · intro x hx y hy e
      subst e
      -- x comes from `ob` and from some other object: their identifiers would coincide
      have hxo : x.2.2 = ob.id := by
        cases hd : ob.det with
        | none => simp [objRows, hd] at hx
        | some d =>
          rw [objRows_keys hd] at hx
          obtain ⟨c, _, rfl⟩ := List.mem_map.mp hx
          rfl
      obtain ⟨r, hr, rfl⟩ := List.mem_map.mp hy
      obtain ⟨ob', hob', hr'⟩ := List.mem_flatMap.mp hr
      have hro : (key3 r).2.2 = ob'.id := by
        unfold objRows at hr'
        split at hr'
        · cases hr'
        · obtain ⟨c, _, rfl⟩ := List.mem_map.mp hr'
          rfl
      have hids := h.1
      simp only [List.map_cons, List.nodup_cons, List.mem_map, not_exists, not_and] at hids
      exact hids.1 ob' hob' (by rw [← hro, hxo])

/-- at most one record per key (subscriber address, process id, object) in every reachable state -/
theorem sub_unique {s : State} (h : Inv s) : ((activeList s).map key3).Nodup :=
  nodup_rows s.objs h

/-! ## no notification for a dead subscription -/

/-- between events, no listed subscription has passed its deadline: every lifetime that has
    elapsed has been processed (and `timed ⇔ armed`) -/
theorem listed_alive {s : State} (h : Inv s) {o : Nat} {c : Sub} (hl : Listed s o c) :
    (c.lifetime = 0 ∧ c.due = none) ∨ (c.lifetime ≠ 0 ∧ ∃ t q, c.due = some (t, q) ∧ s.now < t) := by
  obtain ⟨ob, hob, _, d, hd, hc⟩ := hl
  have hok := (h.2 ob hob d hd).subs c hc
  cases hdue : c.due with
  | none => exact Or.inl ⟨hok.life_due.mpr hdue, rfl⟩
  | some tq =>
    obtain ⟨t, q⟩ := tq
    right
    refine ⟨fun e => ?_, t, q, rfl, hok.due_future t q hdue⟩
    have := hok.life_due.mp e
    rw [hdue] at this; cases this

/-- EVERY output of EVERY event from a reachable state is justified: a notification is
    addressed to a record that was listed when the event began (so it has not been cancelled
    and not been processed as expired), whose deadline is not before the instant of emission
    (the old or the new clock value), with the confirmed flag of the record, the object's
    values and the remaining lifetime `max 1 ⌊deadline − now⌋` (0 if indefinite); and the
    TypeError branch is never taken -/
theorem no_notify_when_dead {s : State} (h : Inv s) (e : Event) :
    ∀ out ∈ (apply s e).2, Justified s.now s out ∨ Justified (apply s e).1.now s out := by
  intro out hout
  cases e with
  | subscribe a p o c l =>
    left
    simp only [apply] at hout
    unfold subscribe at hout
    simp only at hout
    repeat' split at hout
    all_goals
      simp only [List.mem_singleton] at hout
      subst hout
      trivial
  | writePv o v => cases hout
  | writeFlags o f => cases hout
  | writeInc o v => cases hout
  | run => exact Or.inl (run_justified h (Nat.le_succ _) out hout)
  | step dt =>
    simp only [apply, step, List.mem_append] at hout ⊢
    have hq := quiet_run h
    have h0 : Inv (run s).1 := by
      have := hq.invAt h
      unfold Cov.Inv; rw [hq.now]; exact this
    rcases hout with hout | hout
    · exact Or.inl (run_justified h (Nat.le_succ _) out hout)
    · right
      have hw := advance_weak h0 dt
      have hspec := fireAll_spec (now' := (advance (run s).1 dt).now)
        (sortTasks ((armedTasks (advance (run s).1 dt)).filter (fun k => k.t ≤ (advance (run s).1 dt).now)))
        hw rfl (by
          intro k hk hle
          rw [mem_sortTasks, List.mem_filter]
          exact ⟨hk, by simpa using hle⟩)
      rw [hspec.2]
      have := fireAll_justified _ hw rfl out hout
      have hcov : Covers (run s).1 (advance (run s).1 dt) := Covers.refl _
      exact (this.covers hcov).covers hq.covers

theorem no_raised {s : State} (h : Inv s) (e : Event) : Out.raised ∉ (apply s e).2 := by
  intro hm
  rcases no_notify_when_dead h e _ hm with h | h <;> exact h

/-! ## qualifying_change -/

/-- the increment filter is `|new − last reported| ≥ increment` -/
theorem incrTrigger_iff (p inc v : Int) :
    incrTrigger p inc v = true ↔ inc ≤ ((v - p).natAbs : Int) := by
  unfold incrTrigger
  simp only [Bool.or_eq_true, decide_eq_true_eq]
  omega

/-- analog objects (detection classes with the increment filter): a write of presentValue to
    an object whose detector is not yet triggered defers `_execute` iff the new value is at
    least the increment away from the last reported value (before anything was reported:
    from the value held so far) -/
theorem qualifying_change_analog {s : State} {o : Nat} {ob : Obj} {d : Det} {c : Crit} (v : Int)
    (hfind : findObj s o = some ob) (hd : ob.det = some d) (hc : ob.crit = some c)
    (htp : c.trackPv = true) (hin : c.incr = true) (hnt : d.triggered = false) :
    (writePv s o v).deferred =
      s.deferred ++ (if ob.inc ≤ ((v - d.prev.getD ob.pv).natAbs : Int) then [.exec o d.gen] else []) := by
  unfold writePv
  rw [hfind]
  simp only [hd, hc, applyChange, pvChange, htp, hin, hnt, Bool.not_true, Bool.false_eq_true, if_false,
    if_true]
  by_cases hq : ob.inc ≤ ((v - d.prev.getD ob.pv).natAbs : Int)
  · have := (incrTrigger_iff (d.prev.getD ob.pv) ob.inc v).mpr hq
    simp [this, hq]
  · have : incrTrigger (d.prev.getD ob.pv) ob.inc v = false := by
      cases h : incrTrigger (d.prev.getD ob.pv) ob.inc v
      · rfl
      · exact (hq ((incrTrigger_iff _ _ _).mp h)).elim
    simp [this, hq]

/-- other objects: iff the value differs from the one held -/
theorem qualifying_change_generic {s : State} {o : Nat} {ob : Obj} {d : Det} {c : Crit} (v : Int)
    (hfind : findObj s o = some ob) (hd : ob.det = some d) (hc : ob.crit = some c)
    (htp : c.trackPv = true) (hin : c.incr = false) (hnt : d.triggered = false) :
    (writePv s o v).deferred = s.deferred ++ (if v ≠ ob.pv then [.exec o d.gen] else []) := by
  unfold writePv
  rw [hfind]
  simp only [hd, hc, applyChange, pvChange, plainChange, htp, hin, hnt, Bool.not_true,
    Bool.false_eq_true, if_false]
  by_cases hq : v = ob.pv
  · simp [hq]
  · have : (ob.pv != v) = true := by simpa using fun e => hq e.symm
    simp [this, hq]

/-- status flags (every class): iff they differ -/
theorem qualifying_change_flags {s : State} {o : Nat} {ob : Obj} {d : Det} {c : Crit} (f : Nat)
    (hfind : findObj s o = some ob) (hd : ob.det = some d) (hc : ob.crit = some c)
    (htf : c.trackFlags = true) (hnt : d.triggered = false) :
    (writeFlags s o f).deferred = s.deferred ++ (if f ≠ ob.flags then [.exec o d.gen] else []) := by
  unfold writeFlags
  rw [hfind]
  simp only [hd, hc, applyChange, flagsChange, plainChange, htf, hnt, Bool.not_true,
    Bool.false_eq_true, if_false]
  by_cases hq : f = ob.flags
  · simp [hq]
  · have : (ob.flags != f) = true := by simpa using fun e => hq e.symm
    simp [this, hq]

theorem plainChange_triggered {d : Det} (ht : d.triggered = true) (b : Bool) :
    plainChange d b = (d, false) := by
  unfold plainChange; simp [ht]

theorem pvChange_triggered {d : Det} (ht : d.triggered = true) (ob : Obj) (c : Crit) (v : Int) :
    pvChange ob c d v = (d, false) := by
  unfold pvChange
  split
  · rfl
  · simp [ht]

theorem flagsChange_triggered {d : Det} (ht : d.triggered = true) (ob : Obj) (c : Crit) (f : Nat) :
    flagsChange ob c d f = (d, false) := by
  unfold flagsChange
  split
  · rfl
  · exact plainChange_triggered ht _

theorem incChange_triggered {d : Det} (ht : d.triggered = true) (ob : Obj) (c : Crit) (v : Int) :
    incChange ob c d v = (d, false) := by
  unfold incChange
  split
  · rfl
  · exact plainChange_triggered ht _

/-- once triggered, further changes in the same instant defer nothing more: one execution,
    hence one notification per subscription, reports the whole burst -/
theorem change_defers_once {s : State} {o : Nat} {ob : Obj} {d : Det}
    (hfind : findObj s o = some ob) (hd : ob.det = some d) (ht : d.triggered = true)
    (v : Int) (f : Nat) (i : Int) :
    (writePv s o v).deferred = s.deferred ∧ (writeFlags s o f).deferred = s.deferred ∧
    (writeInc s o i).deferred = s.deferred := by
  refine ⟨?_, ?_, ?_⟩
  · unfold writePv
    rw [hfind]
    cases hc : ob.crit with
    | none => simp [hd, hc, applyChange, setObj]
    | some c => simp [hd, hc, applyChange, setObj, pvChange_triggered ht]
  · unfold writeFlags
    rw [hfind]
    cases hc : ob.crit with
    | none => simp [hd, hc, applyChange, setObj]
    | some c => simp [hd, hc, applyChange, setObj, flagsChange_triggered ht]
  · unfold writeInc
    rw [hfind]
    cases hc : ob.crit with
    | none => simp [hd, hc, applyChange, setObj]
    | some c => simp [hd, hc, applyChange, setObj, incChange_triggered ht]

/-- without a detection object (nobody subscribed) a write defers nothing -/
theorem unsubscribed_object_silent {s : State} {o : Nat} {ob : Obj}
    (hfind : findObj s o = some ob) (hd : ob.det = none) (v : Int) (f : Nat) :
    (writePv s o v).deferred = s.deferred ∧ (writeFlags s o f).deferred = s.deferred := by
  constructor
  · unfold writePv; rw [hfind]; simp [hd, applyChange, setObj]
  · unfold writeFlags; rw [hfind]; simp [hd, applyChange, setObj]

/-- object-level "last reported value": whatever sends notifications about an analog object
    (triggered execution, periodic report, initial notification of a record that is still
    listed) records the value it reports … -/
theorem last_reported (now : Nat) (ob : Obj) (d : Det) (only : Option Nat) (h : ob.incr = true)
    (hm : sendMoves d only = true) :
    (sendNotifications now ob d only).1.prev = some ob.pv := by
  rw [send_fst]; simp [h, hm]

/-- … and a deferred initial notification whose record is gone reports nothing and leaves the
    last reported value alone -/
theorem last_reported_stale (now : Nat) (ob : Obj) (d : Det) (sid : Nat)
    (hm : d.subs.any (fun c => c.sid == sid) = false) :
    sendNotifications now ob d (some sid) = (d, []) := by
  have hnone : d.subs.find? (fun c => c.sid == sid) = none := by
    rw [List.find?_eq_none]
    intro x hx hp
    have : d.subs.any (fun c => c.sid == sid) = true := List.any_eq_true.mpr ⟨x, hx, hp⟩
    rw [hm] at this; cases this
  unfold sendNotifications
  simp only [sendMoves, hm, Bool.and_false, Bool.false_eq_true, if_false, hnone]
  split <;> rfl

/-! ## notify_exact -/

theorem find_map_self {objs : List Obj} {o : Nat} {ob : Obj} {f : Obj → Obj}
    (hfind : objs.find? (fun x => x.id == o) = some ob) (hid : ∀ x, (f x).id = x.id) :
    (objs.map (fun x => if x.id == o then f x else x)).find? (fun x => x.id == o) = some (f ob) := by
  induction objs with
  | nil => cases hfind
  | cons x rest ih =>
    simp only [List.find?_cons] at hfind
    simp only [List.map_cons, List.find?_cons]
    by_cases hx : x.id = o
    · have hb : (x.id == o) = true := by simpa using hx
      simp only [hb] at hfind
      cases hfind
      simp [hid, hx]
    · have hb : (x.id == o) = false := by simpa using hx
      simp only [hb] at hfind
      simp only [hb, Bool.false_eq_true, if_false]
      exact ih hfind

theorem findObj_setObj_self {s : State} {o : Nat} {ob : Obj} {f : Obj → Obj}
    (hfind : findObj s o = some ob) (hid : ∀ x, (f x).id = x.id) :
    findObj (setObj s o f) o = some (f ob) := find_map_self hfind hid

theorem send_all (now : Nat) (ob : Obj) (d : Det) :
    (sendNotifications now ob d none).2 = d.subs.map (notifyOf now ob) := by
  unfold sendNotifications
  simp only
  split
  · rename_i he
    have : d.subs = [] := by simpa using he
    simp [this]
  · rfl

/-- an execution of the (triggered) detector of object `o` emits EXACTLY one notification per
    record of its subscription list, in list order, and clears the trigger; the list itself is
    unchanged -/
theorem notify_exact {s : State} {o : Nat} {ob : Obj} {d : Det}
    (hfind : findObj s o = some ob) (hd : ob.det = some d) :
    (runItem s (.exec o d.gen)).2 = d.subs.map (notifyOf s.now ob) ∧
    ∃ ob' d', findObj (runItem s (.exec o d.gen)).1 o = some ob' ∧ ob'.det = some d' ∧
      d'.triggered = false ∧ d'.subs = d.subs ∧ ob'.pv = ob.pv ∧ ob'.flags = ob.flags := by
  simp only [runItem, hfind, hd, bne_self_eq_false, Bool.false_eq_true, if_false]
  refine ⟨send_all s.now ob d, _, _, findObj_setObj_self hfind (fun _ => rfl), rfl, rfl, ?_, rfl, rfl⟩
  exact (sameCore_send s.now ob d none).1

/-- … and so does the periodic report of a pulse converter -/
theorem periodic_exact {s : State} {o t q : Nat} {ob : Obj} {d : Det}
    (hfind : findObj s o = some ob) (hd : ob.det = some d) :
    (fireTask s ⟨t, q, .periodic o d.gen⟩).2 = d.subs.map (notifyOf s.now ob) := by
  simp only [fireTask, hfind, hd, bne_self_eq_false, Bool.false_eq_true, if_false]
  exact send_all s.now ob d

/-- what a notification carries, in a reachable state: the subscriber and process id of the
    record, the object, confirmed or not as the record CURRENTLY says, the object's current
    values, and `remaining = max 1 ⌊(deadline − now)/1 s⌋` (0 if indefinite) -/
theorem notification_content {s : State} (h : Inv s) {ob : Obj} {d : Det} {c : Sub}
    (hob : ob ∈ s.objs) (hd : ob.det = some d) (hc : c ∈ d.subs) :
    notifyOf s.now ob c =
      .notify c.addr c.pid ob.id c.confirmed ob.pv ob.flags (remainingSpec s.now c : Int) :=
  notifyOf_ok ob ((h.2 ob hob d hd).subs c hc) (Nat.le_succ _)

/-! ## active_list_exact -/

/-- the value of activeCovSubscriptions lists exactly the listed records: same keys, the
    confirmed flag and the remaining lifetime of each (never the TypeError branch) -/
theorem active_list_exact {s : State} (h : Inv s) (a p o : Nat) (cf : Bool) (n : Nat) :
    (∃ r ∈ activeList s, r.addr = a ∧ r.pid = p ∧ r.obj = o ∧ r.confirmed = cf ∧
        r.remaining = some (n : Int)) ↔
    (∃ c, Listed s o c ∧ c.addr = a ∧ c.pid = p ∧ c.confirmed = cf ∧ remainingSpec s.now c = n) := by
  constructor
  · rintro ⟨r, hr, rfl, rfl, rfl, rfl, hrem⟩
    obtain ⟨ob, hob, hr'⟩ := List.mem_flatMap.mp hr
    unfold objRows at hr'
    split at hr'
    · cases hr'
    · rename_i d hd
      obtain ⟨c, hc, rfl⟩ := List.mem_map.mp hr'
      refine ⟨c, ⟨ob, hob, rfl, d, hd, hc⟩, rfl, rfl, rfl, ?_⟩
      have := remaining_ok ((h.2 ob hob d hd).subs c hc) (Nat.le_succ s.now)
      simp only at hrem
      rw [this] at hrem
      simp only [Option.some.injEq] at hrem
      omega
  · rintro ⟨c, ⟨ob, hob, rfl, d, hd, hc⟩, rfl, rfl, rfl, rfl⟩
    have hm : (⟨c.addr, c.pid, ob.id, c.confirmed, remaining s.now c,
        if (match ob.crit with | some c => c.trackInc | none => false) = true then some ob.inc else none⟩ : Row)
        ∈ objRows s.now ob := by
      unfold objRows
      rw [hd]
      exact List.mem_map.mpr ⟨c, hc, rfl⟩
    exact ⟨_, List.mem_flatMap.mpr ⟨ob, hob, hm⟩, rfl, rfl, rfl, rfl,
      remaining_ok ((h.2 ob hob d hd).subs c hc) (Nat.le_succ s.now)⟩

/-- no row of the list is the TypeError branch -/
theorem active_list_remaining {s : State} (h : Inv s) :
    ∀ r ∈ activeList s, ∃ n : Nat, r.remaining = some (n : Int) := by
  intro r hr
  obtain ⟨ob, hob, hr'⟩ := List.mem_flatMap.mp hr
  unfold objRows at hr'
  split at hr'
  · cases hr'
  · rename_i d hd
    obtain ⟨c, hc, rfl⟩ := List.mem_map.mp hr'
    exact ⟨_, remaining_ok ((h.2 ob hob d hd).subs c hc) (Nat.le_succ s.now)⟩

/-! ## ack_then_initial -/

theorem runItems_append (l1 l2 : List Deferred) : ∀ (s : State),
    runItems s (l1 ++ l2) =
      ((runItems (runItems s l1).1 l2).1, (runItems s l1).2 ++ (runItems (runItems s l1).1 l2).2) := by
  induction l1 with
  | nil => intro s; simp [runItems]
  | cons it rest ih =>
    intro s
    simp only [List.cons_append, runItems, ih, List.append_assoc]

theorem findObj_quiet {lo : Nat} {s s' : State} {o : Nat} {ob : Obj} (hq : Quiet s s') (hi : InvAt lo s)
    (hfind : findObj s o = some ob) : ∃ ob', findObj s' o = some ob' ∧ ObjCore ob ob' := by
  obtain ⟨g, e, c⟩ := hq.objs
  have hm := findObj_mem hfind
  have hc := c ob hm.1
  refine ⟨g ob, ?_, hc⟩
  have hi' := hq.invAt hi
  apply find_of_mem hi'.1
  · rw [e]; exact List.mem_map_of_mem hm.1
  · rw [hc.id]; exact hm.2

theorem find_sid_of_mem {l : List Sub} {c : Sub} (hn : (l.map (·.sid)).Nodup) (hm : c ∈ l) :
    l.find? (fun x => x.sid == c.sid) = some c := by
  induction l with
  | nil => cases hm
  | cons x rest ih =>
    simp only [List.map_cons, List.nodup_cons, List.mem_map, not_exists, not_and] at hn
    rcases List.mem_cons.mp hm with rfl | hm'
    · simp
    · have : x.sid ≠ c.sid := fun e => hn.1 c hm' e.symm
      have hb : (x.sid == c.sid) = false := by simpa using this
      simp only [List.find?_cons, hb]
      exact ih hn.2 hm'

/-- the last deferred function is an initial notification for a listed record: draining
    emits, at the very end, exactly that notification -/
theorem run_initial_last {s : State} (h : Inv s) {q : List Deferred} {o sid : Nat} {ob : Obj} {d : Det}
    {c : Sub} (hdq : s.deferred = q ++ [.initial o d.gen sid]) (hfind : findObj s o = some ob)
    (hd : ob.det = some d) (hc : c ∈ d.subs) (hsid : c.sid = sid) :
    ∃ pre, (run s).2 = pre ++ [notifyOf s.now ob c] := by
  unfold run
  rw [hdq, runItems_append]
  refine ⟨(runItems { s with deferred := [] } q).2, ?_⟩
  simp only
  congr 1
  have h0 : InvAt (s.now + 1) { s with deferred := [] } := h
  have hq := quiet_runItems q h0
  have hfind0 : findObj { s with deferred := [] } o = some ob := hfind
  obtain ⟨ob', hfind', hcore⟩ := findObj_quiet hq h0 hfind0
  have hdc := hcore.det
  rw [hd] at hdc
  cases hd' : ob'.det with
  | none => rw [hd'] at hdc; exact hdc.elim
  | some d' =>
    rw [hd'] at hdc
    obtain ⟨hs, hg, _⟩ := hdc
    have hne : d'.subs.isEmpty = false := by
      rw [hs]
      cases hl : d.subs with
      | nil => rw [hl] at hc; cases hc
      | cons _ _ => rfl
    have hfs : d'.subs.find? (fun x => x.sid == sid) = some c := by
      rw [hs, ← hsid]
      exact find_sid_of_mem ((h.2 ob (findObj_mem hfind).1 d hd).sids) hc
    have hnow : (runItems { s with deferred := [] } q).1.now = s.now := hq.now
    simp only [runItems, runItem, hfind', hd', ← hg, bne_self_eq_false, Bool.false_eq_true, if_false,
      List.append_nil, sendNotifications, hne, hfs, notifyOf, hnow, hcore.id, hcore.pv, hcore.flags]

theorem remainingSpec_fresh (now L q : Nat) (c : Sub) (hL : L ≠ 0)
    (hdue : c.due = some (now + L * usPerSec, q)) : remainingSpec now c = L := by
  unfold remainingSpec
  rw [hdue]
  simp only [usPerSec]
  have : (now + L * 1000000 - now) / 1000000 = L := by omega
  rw [this]
  omega

theorem remainingSpec_armed (s : State) (L : Nat) (c : Sub) (hdue : c.due = (armLifetime s L).1) :
    remainingSpec s.now c = L := by
  unfold armLifetime at hdue
  by_cases hL : L = 0
  · simp only [hL, ne_eq, not_true_eq_false, if_false] at hdue
    unfold remainingSpec; rw [hdue, hL]
  · simp only [ne_eq, hL, not_false_eq_true, if_true] at hdue
    exact remainingSpec_fresh s.now _ _ c hL hdue

/-- the detection object after `Subscription.renew_subscription` on the record `cov` -/
def renewedDet (s : State) (d : Det) (cov : Sub) (conf : Option Bool) (life : Option Nat) : Det :=
  { d with subs := renewSubs d.subs cov.sid (life.getD 0) (conf.getD false) (armLifetime s (life.getD 0)).1 }

/-- the renewal branch of `subscribe`, spelled out -/
theorem subscribe_renew_eq {s : State} {a p o : Nat} {conf : Option Bool} {life : Option Nat}
    {ob : Obj} {d : Det} {ng : Nat} {cov : Sub}
    (hfind : findObj s o = some ob) (hcov : ob.supportsCov = true) (hget : getDet s ob = some (d, ng))
    (hnc : (conf.isNone && life.isNone) = false) (hfs : findSub d.subs a p = some cov) :
    subscribe s a p o conf life =
      ({ setObj s o (fun ob => { ob with det := some (renewedDet s d cov conf life) }) with
          nextGen := ng, seq := (armLifetime s (life.getD 0)).2,
          deferred := s.deferred ++ [.initial o d.gen cov.sid] }, [.ack a]) := by
  unfold subscribe renewedDet
  simp only [hfind, hcov, hget, hnc, hfs, Bool.not_true, Bool.false_eq_true, if_false]

/-- the record a new subscription creates -/
def newSub (s : State) (a p : Nat) (conf : Option Bool) (life : Option Nat) : Sub :=
  { addr := a, pid := p, confirmed := conf.getD false, lifetime := life.getD 0,
    due := (armLifetime s (life.getD 0)).1, sid := s.nextSid }

/-- the new-subscription branch of `subscribe`, spelled out (up to the periodic task) -/
theorem subscribe_new_eq {s : State} {a p o : Nat} {conf : Option Bool} {life : Option Nat}
    {ob : Obj} {d : Det} {ng : Nat}
    (hfind : findObj s o = some ob) (hcov : ob.supportsCov = true) (hget : getDet s ob = some (d, ng))
    (hnc : (conf.isNone && life.isNone) = false) (hfs : findSub d.subs a p = none) :
    ∃ pt seq, subscribe s a p o conf life =
      ({ setObj s o (fun ob => { ob with det := some { d with
            subs := d.subs ++ [newSub s a p conf life], ptask := pt } }) with
          nextGen := ng, seq := seq, nextSid := s.nextSid + 1,
          deferred := s.deferred ++ [.initial o d.gen s.nextSid] }, [.ack a]) := by
  unfold subscribe newSub
  simp only [hfind, hcov, hget, hnc, hfs, Bool.not_true, Bool.false_eq_true, if_false]
  cases armLifetime s (life.getD 0)
  simp only
  split <;> exact ⟨_, _, rfl⟩

/-- A SubscribeCOV request (new or renewing, anything but a cancellation) for an object that
    supports COV is answered by exactly one SimpleAck, and the next drain of the deferred
    functions ends with the initial notification: to that subscriber and process id, about
    that object, confirmed or not AS REQUESTED NOW, with the current values and the full
    requested lifetime as time remaining (0 = indefinite). -/
theorem ack_then_initial {s : State} (h : Inv s) {a p o : Nat} {conf : Option Bool} {life : Option Nat}
    {ob : Obj} (hfind : findObj s o = some ob) (hcov : ob.supportsCov = true)
    (hcrit : ob.det.isSome ∨ ob.crit.isSome)
    (hnc : (conf.isNone && life.isNone) = false) :
    (subscribe s a p o conf life).2 = [.ack a] ∧
    ∃ pre, (run (subscribe s a p o conf life).1).2 =
      pre ++ [.notify a p o (conf.getD false) ob.pv ob.flags ((life.getD 0 : Nat) : Int)] := by
  have hinv' : Inv (subscribe s a p o conf life).1 := inv_apply h (.subscribe a p o conf life)
  have hnow' := subscribe_now s a p o conf life
  have hobm := findObj_mem hfind
  -- the detection object exists or can be made
  obtain ⟨d, ng, hget⟩ : ∃ d ng, getDet s ob = some (d, ng) := by
    unfold getDet
    cases hd : ob.det with
    | some d => exact ⟨d, _, rfl⟩
    | none =>
      cases hc : ob.crit with
      | some c => exact ⟨_, _, rfl⟩
      | none => simp [hd, hc] at hcrit
  cases hfs : findSub d.subs a p with
  | some cov =>
    have heq := subscribe_renew_eq hfind hcov hget hnc hfs
    obtain ⟨hcm, hca, hcp⟩ := findSub_some hfs
    rw [heq] at hinv' hnow' ⊢
    refine ⟨rfl, ?_⟩
    -- the renewed record
    have hc'm : ({ cov with lifetime := life.getD 0, confirmed := conf.getD false,
                            due := (armLifetime s (life.getD 0)).1 } : Sub) ∈
        (renewedDet s d cov conf life).subs := by
      unfold renewedDet renewSubs
      exact List.mem_map.mpr ⟨cov, hcm, by simp⟩
    have hf' := findObj_setObj_self (f := fun ob => { ob with det := some (renewedDet s d cov conf life) })
        hfind (fun _ => rfl)
    obtain ⟨pre, hpre⟩ := run_initial_last hinv' (q := s.deferred) (o := o) (sid := cov.sid)
      (d := renewedDet s d cov conf life) rfl hf' rfl hc'm rfl
    refine ⟨pre, ?_⟩
    rw [hpre]
    have hok := (hinv'.2 _ (findObj_mem hf').1 _ rfl).subs _ hc'm
    rw [notifyOf_ok _ hok (Nat.le_succ _), hnow']
    have hrem := remainingSpec_armed s (life.getD 0)
      ⟨cov.addr, cov.pid, conf.getD false, life.getD 0, (armLifetime s (life.getD 0)).1, cov.sid⟩ rfl
    rw [hrem]
    simp only [hca, hcp, hobm.2]
  | none =>
    obtain ⟨pt, seq, heq⟩ := subscribe_new_eq hfind hcov hget hnc hfs
    rw [heq] at hinv' hnow' ⊢
    refine ⟨rfl, ?_⟩
    have hc'm : newSub s a p conf life ∈ d.subs ++ [newSub s a p conf life] := by simp
    have hf' := findObj_setObj_self (f := fun ob => { ob with det := some { d with
        subs := d.subs ++ [newSub s a p conf life], ptask := pt } }) hfind (fun _ => rfl)
    obtain ⟨pre, hpre⟩ := run_initial_last hinv' (q := s.deferred) (o := o) (sid := s.nextSid)
      (d := { d with subs := d.subs ++ [newSub s a p conf life], ptask := pt })
      (c := newSub s a p conf life) rfl hf' rfl hc'm rfl
    refine ⟨pre, ?_⟩
    rw [hpre]
    have hok := (hinv'.2 _ (findObj_mem hf').1 _ rfl).subs _ hc'm
    rw [notifyOf_ok _ hok (Nat.le_succ _), hnow']
    have hrem := remainingSpec_armed s (life.getD 0) (newSub s a p conf life) rfl
    rw [hrem]
    simp only [hobm.2, newSub]

/-! ## re-subscription replaces and re-times; cancellation removes -/

theorem findSub_renew {subs : List Sub} {a p : Nat} {cov : Sub} (L : Nat) (cf : Bool)
    (due : Option (Nat × Nat)) (hfs : findSub subs a p = some cov) :
    findSub (renewSubs subs cov.sid L cf due) a p =
      some { cov with lifetime := L, confirmed := cf, due := due } := by
  unfold findSub renewSubs at *
  rw [List.find?_map]
  have hcomp : ((fun c : Sub => c.addr == a && c.pid == p) ∘
      (fun c : Sub => if c.sid == cov.sid then { c with lifetime := L, confirmed := cf, due := due } else c))
      = (fun c : Sub => c.addr == a && c.pid == p) := by
    funext c
    simp only [Function.comp]
    split <;> rfl
  rw [hcomp, hfs]
  simp

/-- a SubscribeCOV for a key that is already listed does not add a record: the keys of the
    object's list are unchanged, and the one record of that key now carries the requested
    lifetime, the requested confirmed flag and a deadline counted from NOW -/
theorem resubscribe_replaces {s : State} {a p o : Nat} {conf : Option Bool} {life : Option Nat}
    {ob : Obj} {d : Det} {cov : Sub}
    (hfind : findObj s o = some ob) (hcov : ob.supportsCov = true) (hd : ob.det = some d)
    (hnc : (conf.isNone && life.isNone) = false) (hfs : findSub d.subs a p = some cov) :
    ∃ ob' d', findObj (subscribe s a p o conf life).1 o = some ob' ∧ ob'.det = some d' ∧
      d'.subs.map key = d.subs.map key ∧
      findSub d'.subs a p = some { cov with
        lifetime := life.getD 0, confirmed := conf.getD false,
        due := if life.getD 0 ≠ 0 then some (s.now + life.getD 0 * usPerSec, s.seq) else none } := by
  have hget : getDet s ob = some (d, s.nextGen) := by unfold getDet; rw [hd]
  rw [subscribe_renew_eq hfind hcov hget hnc hfs]
  refine ⟨_, renewedDet s d cov conf life,
    findObj_setObj_self (f := fun ob => { ob with det := some (renewedDet s d cov conf life) }) hfind
      (fun _ => rfl), rfl, ?_, ?_⟩
  · exact map_key_renew _ _ _ _ _
  · unfold renewedDet
    simp only
    rw [findSub_renew _ _ _ hfs]
    unfold armLifetime
    split <;> rfl

theorem key_inj_of_nodup {l : List Sub} (hn : (l.map key).Nodup) {x y : Sub} (hx : x ∈ l) (hy : y ∈ l)
    (e : key x = key y) : x = y := by
  induction l with
  | nil => cases hx
  | cons z rest ih =>
    simp only [List.map_cons, List.nodup_cons, List.mem_map, not_exists, not_and] at hn
    rcases List.mem_cons.mp hx with rfl | hx' <;> rcases List.mem_cons.mp hy with rfl | hy'
    · rfl
    · exact (hn.1 y hy' e.symm).elim
    · exact (hn.1 x hx' e).elim
    · exact ih hn.2 hx' hy'

/-- a cancellation (both optional parameters absent) for an object that supports COV is
    acknowledged and afterwards no record with that key is listed for the object -/
theorem cancel_removes {s : State} (h : Inv s) {a p o : Nat} {ob : Obj}
    (hfind : findObj s o = some ob) (hcov : ob.supportsCov = true)
    (hcrit : ob.det.isSome ∨ ob.crit.isSome) :
    (subscribe s a p o none none).2 = [.ack a] ∧
    ∀ c, Listed (subscribe s a p o none none).1 o c → ¬ (c.addr = a ∧ c.pid = p) := by
  obtain ⟨d, ng, hget⟩ : ∃ d ng, getDet s ob = some (d, ng) := by
    unfold getDet
    cases hd : ob.det with
    | some d => exact ⟨d, _, rfl⟩
    | none =>
      cases hc : ob.crit with
      | some c => exact ⟨_, _, rfl⟩
      | none => simp [hd, hc] at hcrit
  have hdok := (getDet_ok h (findObj_mem hfind).1 hget).1
  have huniq := uniq_of_find h hfind
  unfold subscribe
  simp only [hfind, hcov, hget, Option.isNone_none, Bool.and_self, Bool.not_true, Bool.false_eq_true,
    if_false, if_true]
  cases hfs : findSub d.subs a p with
  | some cov =>
    simp only
    refine ⟨trivial, ?_⟩
    rintro c ⟨ob', hob', hido, d', hd', hc⟩ ⟨hca, hcp⟩
    simp only [setObj, List.mem_map] at hob'
    obtain ⟨x, hx, rfl⟩ := hob'
    by_cases hxo : x.id = o
    · have hb : (x.id == o) = true := by simpa using hxo
      simp only [hb, if_true] at hd'
      split at hd'
      · cases hd'
      · cases hd'
        simp only [removeSid, List.mem_filter, bne_iff_ne, ne_eq] at hc
        obtain ⟨hcm, hca', hcp'⟩ := findSub_some hfs
        have : c = cov := key_inj_of_nodup hdok.keys hc.1 hcm (by simp [key, hca, hcp, hca', hcp'])
        exact hc.2 (by rw [this])
    · have hb : (x.id == o) = false := by simpa using hxo
      simp only [hb, Bool.false_eq_true, if_false] at hido
      exact hxo hido
  | none =>
    simp only
    refine ⟨trivial, ?_⟩
    rintro c ⟨ob', hob', hido, d', hd', hc⟩ ⟨hca, hcp⟩
    simp only [setObj, List.mem_map] at hob'
    obtain ⟨x, hx, rfl⟩ := hob'
    by_cases hxo : x.id = o
    · have hb : (x.id == o) = true := by simpa using hxo
      simp only [hb, if_true, Option.some.injEq] at hd'
      subst hd'
      exact findSub_none_key hfs (List.mem_map.mpr ⟨c, hc, by simp [key, hca, hcp]⟩)
    · have hb : (x.id == o) = false := by simpa using hxo
      simp only [hb, Bool.false_eq_true, if_false] at hido
      exact hxo hido

/-! ## a qualifying change reaches every listed subscriber exactly once -/

theorem run_exec_last {s : State} (h : Inv s) {q : List Deferred} {o : Nat} {ob : Obj} {d : Det}
    (hdq : s.deferred = q ++ [.exec o d.gen]) (hfind : findObj s o = some ob) (hd : ob.det = some d) :
    ∃ pre, (run s).2 = pre ++ d.subs.map (notifyOf s.now ob) := by
  unfold run
  rw [hdq, runItems_append]
  refine ⟨(runItems { s with deferred := [] } q).2, ?_⟩
  simp only
  congr 1
  have h0 : InvAt (s.now + 1) { s with deferred := [] } := h
  have hq := quiet_runItems q h0
  have hfind0 : findObj { s with deferred := [] } o = some ob := hfind
  obtain ⟨ob', hfind', hcore⟩ := findObj_quiet hq h0 hfind0
  have hdc := hcore.det
  rw [hd] at hdc
  cases hd' : ob'.det with
  | none => rw [hd'] at hdc; exact hdc.elim
  | some d' =>
    rw [hd'] at hdc
    obtain ⟨hs, hg, _⟩ := hdc
    have hnow : (runItems { s with deferred := [] } q).1.now = s.now := hq.now
    simp only [runItems, runItem, hfind', hd', ← hg, bne_self_eq_false, Bool.false_eq_true, if_false,
      List.append_nil, send_all, hs, hnow]
    apply List.map_congr_left
    intro c _
    simp only [notifyOf, hcore.id, hcore.pv, hcore.flags]

theorem writePv_obj {s : State} {o : Nat} {ob : Obj} {d : Det} {c : Crit} (v : Int)
    (hfind : findObj s o = some ob) (hd : ob.det = some d) (hc : ob.crit = some c) :
    findObj (writePv s o v) o = some { ob with pv := v, det := some (pvChange ob c d v).1 } := by
  unfold writePv
  rw [hfind]
  simp only [hd, hc, applyChange]
  rw [← hc]
  exact find_map_self (f := fun x => { x with pv := v, det := some (pvChange ob c d v).1 })
    hfind (fun _ => rfl)

/-- if a write of presentValue deferred an execution (by `qualifying_change_*`: iff the change
    qualifies), then the next drain ends with exactly one notification per record of the
    object's list — confirmed flag of the record, the NEW value, the current flags, the
    remaining lifetime — whatever else was pending before -/
theorem change_notifies_all {s : State} (h : Inv s) {o : Nat} {ob : Obj} {d : Det} {c : Crit} (v : Int)
    (hfind : findObj s o = some ob) (hd : ob.det = some d) (hc : ob.crit = some c)
    (hq : (writePv s o v).deferred = s.deferred ++ [.exec o d.gen]) :
    ∃ pre, (run (writePv s o v)).2 = pre ++ d.subs.map (fun x =>
      Out.notify x.addr x.pid o x.confirmed v ob.flags (remainingSpec s.now x : Int)) := by
  have hinv' : Inv (writePv s o v) := inv_apply h (.writePv o v)
  have hobj := writePv_obj v hfind hd hc
  have hsc := sameCore_pvChange ob c d v
  have hq' : (writePv s o v).deferred = s.deferred ++ [.exec o (pvChange ob c d v).1.gen] := by
    rw [hq, hsc.2.1]
  obtain ⟨pre, hpre⟩ := run_exec_last hinv' hq' hobj rfl
  refine ⟨pre, ?_⟩
  rw [hpre, hsc.1]
  congr 1
  apply List.map_congr_left
  intro x hx
  have hxm : x ∈ (pvChange ob c d v).1.subs := by rw [hsc.1]; exact hx
  have := notification_content hinv' (findObj_mem hobj).1 rfl hxm
  rw [this, writePv_now]
  simp [(findObj_mem hfind).2]

/-! ## the regenerated tables give the in-scope object types the behaviour the model assumes -/

def critIncr : Crit := { incr := true, pulse := false, trackPv := true, trackFlags := true, trackInc := true }
def critGeneric : Crit := { incr := false, pulse := false, trackPv := true, trackFlags := true, trackInc := false }
def critPulse : Crit := { incr := true, pulse := true, trackPv := true, trackFlags := true, trackInc := false }

/-- what the property says about the object types it names: analog → increment rule,
    binary / multi-state → any change, pulse converter → increment rule + periodic -/
def expectedScope : List (String × Crit) := [
  ("analogInput", critIncr), ("analogOutput", critIncr), ("analogValue", critIncr),
  ("largeAnalogValue", critIncr), ("integerValue", critIncr), ("positiveIntegerValue", critIncr),
  ("binaryInput", critGeneric), ("binaryOutput", critGeneric), ("binaryValue", critGeneric),
  ("multiStateInput", critGeneric), ("multiStateOutput", critGeneric), ("multiStateValue", critGeneric),
  ("pulseConverter", critPulse)]

/-- obligation on the GENERATED table (re-checked whenever criteria_type_map, the tracked /
    reported properties, the filters or `_object_supports_cov` change in the tree) -/
theorem gen_scope_ok :
    expectedScope.all (fun nc => typeInfo nc.1 == .info true (some nc.2)) = true := by
  decide +kernel

/-- every criteria class `criteria_type_map` uses is either covered by the model or one of the
    four known classes outside the property's scope -/
theorem gen_criteria_known :
    Gen.Cov.types.all (fun t => match t.criteria with
      | none => true
      | some cn => (Gen.Cov.criteria.find? (fun r => r.name == cn)).any (fun r =>
          rowInScope r || ["AccessPointCriteria", "CredentialDataInputCriteria", "LoadControlCriteria",
                           "AccessDoorCriteria"].contains r.name)) = true := by
  decide +kernel

/-! ## non-vacuity: concrete instances (these are tests of the statements' hypotheses, not the theorems) -/

def exObjs : List Obj := [
  { id := 0, supportsCov := true, crit := some critIncr, pv := 160, flags := 0, inc := 16, period := 0, det := none },
  { id := 1, supportsCov := true, crit := some critGeneric, pv := 0, flags := 0, inc := 0, period := 0, det := none },
  { id := 2, supportsCov := true, crit := some critPulse, pv := 0, flags := 0, inc := 160, period := 10, det := none }]

example : ConfigOk exObjs := by decide

/-- subscribe (confirmed, 60 s) → ack, initial notification with remaining 60; a sub-increment
    step is silent, a step of exactly the increment is reported once; renewal to unconfirmed /
    indefinite is acknowledged and re-notified with remaining 0; cancel; no report afterwards -/
example : (applyAll { init exObjs with now := 125000 } [
      .subscribe 1 7 0 (some true) (some 60), .run,
      .writePv 0 175, .run,
      .writePv 0 176, .writePv 0 160, .writePv 0 176, .run,
      .step 20000000,
      .subscribe 1 7 0 (some false) (some 0), .run,
      .writeFlags 0 2, .run,
      .subscribe 1 7 0 none none, .run,
      .writePv 0 500, .run]).2 =
    [.ack 1, .notify 1 7 0 true 160 0 60,
     .notify 1 7 0 true 176 0 60,
     .ack 1, .notify 1 7 0 false 176 0 0,
     .notify 1 7 0 false 176 2 0,
     .ack 1] := by decide +kernel

/-- lifetime 5 s: reported at 4.75 s with remaining 1 (not 0), nothing after 5 s; the pulse
    converter reports periodically at whole multiples of its period while subscribed -/
example : (applyAll { init exObjs with now := 1000000000125000 } [
      .subscribe 0 1 1 (some false) (some 5), .subscribe 2 1 2 (some false) none, .run,
      .step 4750000, .writePv 1 1, .run,
      .step 250000, .writePv 1 0, .run,
      .step 5000000]).2 =
    [.ack 0, .ack 2, .notify 0 1 1 false 0 0 5, .notify 2 1 2 false 0 0 0,
     .notify 0 1 1 false 1 0 1,
     .notify 2 1 2 false 0 0 0] := by decide +kernel

example : Inv { init exObjs with now := 125000 } := inv_init (by decide) _

/-- the hypotheses of `ack_then_initial`, `resubscribe_replaces`, `cancel_removes`,
    `qualifying_change_analog` are met by the state after the first subscription -/
def exS : State := (applyAll { init exObjs with now := 125000 } [.subscribe 1 7 0 (some true) (some 60), .run]).1

example : (match findObj exS 0 with
    | some ob => ob.supportsCov && ob.crit == some critIncr &&
        (match ob.det with
         | some d => !d.triggered && d.prev == some 160 &&
             (match findSub d.subs 1 7 with | some cov => cov.lifetime == 60 | none => false)
         | none => false)
    | none => false) = true := by decide +kernel

/-! ## a subscription stays listed exactly until it is cancelled, replaced or due
    (the list refines the abstract map key ↦ (confirmed, deadline)) -/

theorem fireAll_covers {now' : Nat} : ∀ (l : List Task) {s : State}, InvAt now' s → s.now = now' →
    Covers s (fireAll s l).1
  | [], s, _, _ => Covers.refl s
  | k :: rest, s, hi, hnow => by
    simp only [fireAll]
    split
    · rename_i hc
      have hk : k ∈ armedTasks s := by simpa using hc
      obtain ⟨h1, h2, _, _, _⟩ := fireTask_spec hi hnow hk
      have hq := quiet_run h1
      exact ((fireTask_covers hi hk).trans hq.covers).trans
        (fireAll_covers rest (hq.invAt h1) (by rw [hq.now, h2]))
    · exact fireAll_covers rest hi hnow

/-- time: after a sleep of the run loop the listed records are EXACTLY those listed before
    whose deadline is still ahead (indefinite ones stay) — nothing else is dropped, nothing
    whose lifetime has elapsed is kept -/
theorem step_listed_iff {s : State} (h : Inv s) (dt : Nat) (o : Nat) (c : Sub) :
    Listed (step s dt).1 o c ↔
      Listed s o c ∧ (c.due = none ∨ ∃ t q, c.due = some (t, q) ∧ (step s dt).1.now < t) := by
  have hinv' := inv_step h dt
  have hq := quiet_run h
  have h0 : Inv (run s).1 := by
    have := hq.invAt h
    unfold Cov.Inv; rw [hq.now]; exact this
  have hw := advance_weak h0 dt
  have hmem : ∀ k ∈ sortTasks ((armedTasks (advance (run s).1 dt)).filter
      (fun k => k.t ≤ (advance (run s).1 dt).now)), k.t ≤ (advance (run s).1 dt).now := by
    intro k hk
    rw [mem_sortTasks, List.mem_filter] at hk
    simpa using hk.2
  have hspec := fireAll_spec (now' := (advance (run s).1 dt).now)
    (sortTasks ((armedTasks (advance (run s).1 dt)).filter (fun k => k.t ≤ (advance (run s).1 dt).now)))
    hw rfl (by
      intro k hk hle
      rw [mem_sortTasks, List.mem_filter]
      exact ⟨hk, by simpa using hle⟩)
  have hnow : (step s dt).1.now = (advance (run s).1 dt).now := hspec.2
  constructor
  · intro hl
    have hcov : Covers s (step s dt).1 :=
      (hq.covers.trans (Covers.refl (advance (run s).1 dt))).trans (fireAll_covers _ hw rfl)
    refine ⟨hcov.listed hl, ?_⟩
    rcases listed_alive hinv' hl with ⟨_, hn⟩ | ⟨_, t, q, hd, hlt⟩
    · exact Or.inl hn
    · exact Or.inr ⟨t, q, hd, hlt⟩
  · rintro ⟨hl, halive⟩
    rw [hnow] at halive
    have hl1 : Listed (advance (run s).1 dt) o c := hq.listed hl
    exact fireAll_persists halive _ hw rfl hmem hl1

/-- draining the deferred functions never changes who is listed -/
theorem run_listed_iff {s : State} (h : Inv s) (o : Nat) (c : Sub) :
    Listed (run s).1 o c ↔ Listed s o c :=
  ⟨(quiet_run h).covers.listed, (quiet_run h).listed⟩

/-- SubscribeCOV leaves every record of another key listed, untouched -/
theorem subscribe_keeps_others {s : State} (h : Inv s) (a p o : Nat) (conf : Option Bool) (life : Option Nat)
    {o' : Nat} {c' : Sub} (hl : Listed s o' c') (hother : ¬ (o' = o ∧ c'.addr = a ∧ c'.pid = p)) :
    Listed (subscribe s a p o conf life).1 o' c' := by
  unfold subscribe
  simp only
  split
  · exact hl
  · rename_i ob hfind
    have hob := (findObj_mem hfind).1
    have huniq := uniq_of_find h hfind
    split
    · exact hl
    · split
      · exact hl
      · rename_i d ng hget
        obtain ⟨hdok, _⟩ := getDet_ok h hob hget
        -- the records listed for `ob` are those of `d`
        have hsubs : subsOf ob.det = d.subs := by
          unfold getDet at hget
          split at hget
          · rename_i d0 hd0
            cases hget; rw [hd0]; rfl
          · rename_i hd0
            split at hget
            · cases hget
            · cases hget; rw [hd0]; rfl
        split
        · rename_i cov hcov
          obtain ⟨hcm, hca, hcp⟩ := findSub_some hcov
          -- c' is not the record of the key
          have hne : ∀ x ∈ s.objs, x.id = o' → c' ∈ subsOf x.det → x.id = o → c'.sid ≠ cov.sid := by
            intro x hx hxo' hm hxo e
            cases huniq x hx hxo
            rw [hsubs] at hm
            have := sid_inj_of_nodup hdok.sids hm hcm e
            subst this
            exact hother ⟨hxo'.symm.trans hxo, hca, hcp⟩
          split
          · refine listed_map (s' := { setObj s o _ with nextGen := ng }) rfl ?_ ?_ hl
            · intro x _; split <;> rfl
            · intro x hx hxo' hm
              by_cases hxo : x.id = o
              · have hb : (x.id == o) = true := by simpa using hxo
                simp only [hb, if_true]
                have hsne := hne x hx hxo' hm hxo
                cases huniq x hx hxo
                rw [hsubs] at hm
                have hmem : c' ∈ removeSid d.subs cov.sid := by
                  simp only [removeSid, List.mem_filter, bne_iff_ne, ne_eq]
                  exact ⟨hm, hsne⟩
                split
                · rename_i he
                  have : removeSid d.subs cov.sid = [] := by simpa using he
                  rw [this] at hmem; cases hmem
                · exact hmem
              · have hb : (x.id == o) = false := by simpa using hxo
                simp only [hb, Bool.false_eq_true, if_false]
                exact hm
          · generalize armLifetime s (life.getD 0) = r
            obtain ⟨due, seq⟩ := r
            simp only
            refine listed_map (s' := { setObj s o _ with nextGen := ng, seq := seq, deferred := _ }) rfl ?_ ?_ hl
            · intro x _; split <;> rfl
            · intro x hx hxo' hm
              by_cases hxo : x.id = o
              · have hb : (x.id == o) = true := by simpa using hxo
                simp only [hb, if_true]
                have hsne := hne x hx hxo' hm hxo
                cases huniq x hx hxo
                rw [hsubs] at hm
                simp only [subsOf, renewSubs, List.mem_map]
                refine ⟨c', hm, ?_⟩
                have hb2 : (c'.sid == cov.sid) = false := by simpa using hsne
                simp [hb2]
              · have hb : (x.id == o) = false := by simpa using hxo
                simp only [hb, Bool.false_eq_true, if_false]
                exact hm
        · split
          · refine listed_map (s' := { setObj s o _ with nextGen := ng }) rfl ?_ ?_ hl
            · intro x _; split <;> rfl
            · intro x hx hxo' hm
              by_cases hxo : x.id = o
              · have hb : (x.id == o) = true := by simpa using hxo
                simp only [hb, if_true]
                cases huniq x hx hxo
                rw [hsubs] at hm
                exact hm
              · have hb : (x.id == o) = false := by simpa using hxo
                simp only [hb, Bool.false_eq_true, if_false]
                exact hm
          · generalize armLifetime s (life.getD 0) = r
            obtain ⟨due, seq⟩ := r
            simp only
            split
            all_goals
              simp only
              refine listed_map (s' := { setObj s o _ with nextGen := ng, seq := _, nextSid := _, deferred := _ })
                rfl ?_ ?_ hl
              · intro x _; split <;> rfl
              · intro x hx hxo' hm
                by_cases hxo : x.id = o
                · have hb : (x.id == o) = true := by simpa using hxo
                  simp only [hb, if_true]
                  cases huniq x hx hxo
                  rw [hsubs] at hm
                  simp only [subsOf, List.mem_append]
                  exact Or.inl hm
                · have hb : (x.id == o) = false := by simpa using hxo
                  simp only [hb, Bool.false_eq_true, if_false]
                  exact hm

theorem listed_map_iff {s s' : State} {g : Obj → Obj} (he : s'.objs = s.objs.map g)
    (hid : ∀ ob ∈ s.objs, (g ob).id = ob.id)
    (hsubs : ∀ ob ∈ s.objs, subsOf (g ob).det = subsOf ob.det) (o : Nat) (c : Sub) :
    Listed s' o c ↔ Listed s o c := by
  rw [listed_iff, listed_iff, he]
  constructor
  · rintro ⟨ob', hob', hido, hc⟩
    obtain ⟨ob, hob, rfl⟩ := List.mem_map.mp hob'
    exact ⟨ob, hob, (hid ob hob).symm.trans hido, (hsubs ob hob) ▸ hc⟩
  · rintro ⟨ob, hob, hido, hc⟩
    exact ⟨g ob, List.mem_map_of_mem hob, (hid ob hob).trans hido, (hsubs ob hob).symm ▸ hc⟩

theorem applyChange_listed_iff {lo : Nat} {s : State} {o : Nat} {ob0 : Obj} (h : InvAt lo s)
    (hfind : findObj s o = some ob0) (upd : Obj → Obj)
    (hid : ∀ x, (upd x).id = x.id) (hdet : ∀ x, (upd x).det = x.det)
    (r : Option (Det × Bool))
    (hr : ∀ d' e, r = some (d', e) → ∃ d, ob0.det = some d ∧ SameCore d d') (o' : Nat) (c : Sub) :
    Listed (applyChange s o upd r) o' c ↔ Listed s o' c := by
  have huniq := uniq_of_find h hfind
  unfold applyChange
  cases r with
  | none =>
    refine listed_map_iff (s' := setObj s o upd) rfl ?_ ?_ o' c
    · intro x _; split
      · exact hid x
      · rfl
    · intro x _; split
      · rw [hdet]
      · rfl
  | some pr =>
    obtain ⟨d', e⟩ := pr
    obtain ⟨d, hd, hsc⟩ := hr d' e rfl
    refine listed_map_iff (s' := { setObj s o _ with deferred := _ }) rfl ?_ ?_ o' c
    · intro x _; split
      · exact hid x
      · rfl
    · intro x hx
      by_cases hxo : x.id = o
      · have hb : (x.id == o) = true := by simpa using hxo
        simp only [hb, if_true]
        cases huniq x hx hxo
        rw [hd]
        simp only [subsOf]
        exact hsc.1
      · have hb : (x.id == o) = false := by simpa using hxo
        simp only [hb, Bool.false_eq_true, if_false]

/-- property writes never change who is listed -/
theorem write_listed_iff {s : State} (h : Inv s) (o : Nat) (v : Int) (f : Nat) (o' : Nat) (c : Sub) :
    (Listed (writePv s o v) o' c ↔ Listed s o' c) ∧ (Listed (writeFlags s o f) o' c ↔ Listed s o' c) ∧
    (Listed (writeInc s o v) o' c ↔ Listed s o' c) := by
  refine ⟨?_, ?_, ?_⟩
  · unfold writePv
    split
    · exact Iff.rfl
    · rename_i ob hfind
      refine applyChange_listed_iff h hfind _ (by intro _; rfl) (by intro _; rfl) _ ?_ o' c
      intro d' e hr
      split at hr
      · rename_i d cr hd _
        simp only [Option.some.injEq] at hr
        have hsc := sameCore_pvChange ob cr d v
        rw [hr] at hsc
        exact ⟨d, hd, hsc⟩
      · cases hr
  · unfold writeFlags
    split
    · exact Iff.rfl
    · rename_i ob hfind
      refine applyChange_listed_iff h hfind _ (by intro _; rfl) (by intro _; rfl) _ ?_ o' c
      intro d' e hr
      split at hr
      · rename_i d cr hd _
        simp only [Option.some.injEq] at hr
        have hsc := sameCore_flagsChange ob cr d f
        rw [hr] at hsc
        exact ⟨d, hd, hsc⟩
      · cases hr
  · unfold writeInc
    split
    · exact Iff.rfl
    · rename_i ob hfind
      refine applyChange_listed_iff h hfind _ (by intro _; rfl) (by intro _; rfl) _ ?_ o' c
      intro d' e hr
      split at hr
      · rename_i d cr hd _
        simp only [Option.some.injEq] at hr
        have hsc := sameCore_incChange ob cr d v
        rw [hr] at hsc
        exact ⟨d, hd, hsc⟩
      · cases hr

end BacVerif.C16
