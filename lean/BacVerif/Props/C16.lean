import BacVerif.Model.Cov
namespace BacVerif.C16
open BacVerif.Cov

theorem placeholder_run_nil (s : State) (h : s.deferred = []) : (run s).2 = [] := by
  simp [run, h, runItems]

end BacVerif.C16
