/-
  C02 — Tag streams are self-delimiting: framing is total, canonical and balanced.

  Property text → formal statement
  * "Any list of tags … encodes to octets that decode back to exactly the same
    list, consuming every octet"                    → `taglist_roundtrip`
  * "using the standard's length escapes … and extended tag-number octet"
                                                    → `length_escape`, `tag_number_escape`
  * "For an arbitrary octet string the decoder terminates and either returns a
    tag list whose re-encoding decodes to the same list, or reports an
    invalid-tag error; it never loops, over-reads, or fails in another way"
                      → `parse_total` (termination = `parseTags_fuel_irrelevant`:
                        the fuel of the model loop is never exhausted),
                        `parse_wf`, `reparse_stable`, `parse_no_overread`
  * "Nested open/close groups are extracted by context exactly when they balance"
                      → `getContext_balanced`, `getContext_unclosed`,
                        `anyDecode_balanced`, `anyDecode_unclosed`
-/
import BacVerif.Model.Tag
namespace BacVerif.C02
open BacVerif

/-! ## octet-level lemmas -/

theorem getU16_be16 (n : Nat) (h : n < 65536) (rest : Bytes) :
    getU16 (be16 n ++ rest) = .ok (n, rest) := by
  simp [be16, getU16]; omega

theorem getU32_be32 (n : Nat) (h : n < 4294967296) (rest : Bytes) :
    getU32 (be32 n ++ rest) = .ok (n, rest) := by
  simp [be32, getU32]; omega

theorem getData_append (d rest : Bytes) : getData d.length (d ++ rest) = .ok (d, rest) := by
  simp [getData]

/-! ## well-formed tags: the tags `Tag.decode` can produce and the property quantifies over -/

/-- class/number/LVT/data coherence.  Application boolean (`num = 1`) carries
    its value in the LVT and has no data; opening/closing have neither. -/
def WF (t : Tag) : Prop :=
  t.num ≤ 255 ∧ t.lvt < 4294967296 ∧
  match t.cls with
  | .app => if t.num = 1 then t.data = [] else t.lvt = t.data.length
  | .ctx => t.lvt = t.data.length
  | .opening => t.lvt = 0 ∧ t.data = []
  | .closing => t.lvt = 0 ∧ t.data = []

instance (t : Tag) : Decidable (WF t) := by
  unfold WF; cases t.cls <;> exact inferInstance

/-! ## header arithmetic -/

theorem firstOctet_lt (t : Tag) (h : WF t) : firstOctet t < 256 := by
  obtain ⟨_, _, hc⟩ := h
  unfold firstOctet clsBits
  cases hcls : t.cls <;> simp only [hcls] at hc ⊢ <;> split <;> split <;> omega

theorem firstOctet_div16 (t : Tag) (h : WF t) :
    firstOctet t / 16 = if t.num < 15 then t.num else 15 := by
  obtain ⟨_, _, hc⟩ := h
  unfold firstOctet clsBits
  cases hcls : t.cls <;> simp only [hcls] at hc ⊢ <;> split <;> split <;> omega

theorem firstOctet_mod8 (t : Tag) (h : WF t) :
    firstOctet t % 8 = match t.cls with
      | .opening => 6 | .closing => 7
      | _ => if t.lvt < 5 then t.lvt else 5 := by
  obtain ⟨_, _, hc⟩ := h
  unfold firstOctet clsBits
  cases hcls : t.cls <;> simp only [hcls] at hc ⊢ <;> split <;> split <;> omega

theorem firstOctet_clsbit (t : Tag) (h : WF t) (hc : t.cls = .app ∨ t.cls = .ctx) :
    ((firstOctet t / 8) % 2 = 1) ↔ t.cls = .ctx := by
  obtain ⟨_, _, _⟩ := h
  unfold firstOctet clsBits
  rcases hc with hc | hc <;> simp only [hc] <;> split <;> split <;> simp <;> omega

theorem parseNum_ext (t : Tag) (h : WF t) (rest : Bytes) :
    parseNum (firstOctet t) (numExt t.num ++ rest) = .ok (t.num, rest) := by
  have h16 := firstOctet_div16 t h
  obtain ⟨hn, _, _⟩ := h
  unfold parseNum numExt
  by_cases h15 : t.num < 15
  · have : ¬ t.num ≥ 15 := by omega
    simp [h16, h15, this]; omega
  · have : t.num ≥ 15 := by omega
    simp [h16, h15, this, getU8]; omega

theorem parseLen_escape (c : TagClass) (lvt : Nat) (hl : lvt < 4294967296) (rest : Bytes) :
    parseLen c (if lvt < 5 then lvt else 5) (lenEscape lvt ++ rest) = .ok (c, lvt, rest) := by
  unfold parseLen lenEscape
  by_cases h5 : lvt < 5
  · have h1 : lvt ≠ 5 := by omega
    have h2 : lvt ≠ 6 := by omega
    have h3 : lvt ≠ 7 := by omega
    simp [h5, h1, h2, h3]
  · by_cases h253 : lvt ≤ 253
    · have a : lvt % 256 = lvt := by omega
      have b : lvt ≠ 254 := by omega
      have c : lvt ≠ 255 := by omega
      simp [h5, h253, getU8, a, b, c]
    · by_cases h64 : lvt ≤ 65535
      · simp [h5, h253, h64, getU8, getU16_be16 lvt (by omega)]
      · simp [h5, h253, h64, getU8, getU32_be32 lvt hl]

/-! ## single tag round trip -/

theorem parseTagRaw_serialize (t : Tag) (h : WF t) (rest : Bytes) :
    parseTagRaw (serializeTag t ++ rest) = .ok (t, rest) := by
  have hlt := firstOctet_lt t h
  have hnum := parseNum_ext t h
  have hmod := firstOctet_mod8 t h
  have hbit := firstOctet_clsbit t h
  obtain ⟨hn, hl, hc⟩ := h
  have hto : (UInt8.ofNat (firstOctet t)).toNat = firstOctet t := by simp; omega
  unfold serializeTag tagHeader parseTagRaw
  simp only [List.cons_append, List.append_assoc, hto, hnum]
  rcases t with ⟨cls, num, lvt, data⟩
  simp only at *
  cases cls <;> simp only [] at hc hmod hbit ⊢
  · -- application
    have : ¬ ((firstOctet ⟨.app, num, lvt, data⟩ / 8) % 2 = 1) := by
      rw [hbit (Or.inl trivial)]; simp
    simp only [this, if_false, hmod, parseLen_escape _ lvt hl]
    unfold parseData
    by_cases h1 : num = 1
    · simp [h1] at hc ⊢; exact hc
    · simp only [h1, if_false] at hc
      simp [h1, hc, getData_append]
  · -- context
    have : (firstOctet ⟨.ctx, num, lvt, data⟩ / 8) % 2 = 1 := by
      exact (hbit (Or.inr trivial)).mpr trivial
    simp only [this, if_true, hmod, parseLen_escape _ lvt hl]
    unfold parseData
    simp [hc, getData_append]
  · -- opening
    obtain ⟨h0, hd⟩ := hc
    subst h0 hd
    simp [hmod, parseLen, lenEscape, parseData, getData]
  · -- closing
    obtain ⟨h0, hd⟩ := hc
    subst h0 hd
    simp [hmod, parseLen, lenEscape, parseData, getData]

/-- **tag_roundtrip** -/
theorem tag_roundtrip (t : Tag) (h : WF t) (rest : Bytes) :
    parseTag (serializeTag t ++ rest) = .ok (t, rest) := by
  simp [parseTag, parseTagRaw_serialize t h rest, asInvalidTag]


/-! ## tag lists -/

theorem serializeTag_length_pos (t : Tag) : 0 < (serializeTag t).length := by
  simp [serializeTag, tagHeader]

theorem parseTagsFuel_serialize (ts : List Tag) (h : ∀ t ∈ ts, WF t) :
    ∀ fuel, (serializeTags ts).length ≤ fuel → parseTagsFuel fuel (serializeTags ts) = .ok ts := by
  induction ts with
  | nil => intro fuel _; cases fuel <;> simp [serializeTags, parseTagsFuel]
  | cons t ts ih =>
    intro fuel hf
    have hpos := serializeTag_length_pos t
    simp only [serializeTags, List.length_append] at hf
    cases fuel with
    | zero => omega
    | succ fuel =>
      have hlen : (serializeTags ts).length ≤ fuel := by omega
      have hne : serializeTag t ++ serializeTags ts ≠ [] := by
        intro hh; simp [serializeTag, tagHeader] at hh
      simp only [serializeTags]
      cases hbs : serializeTag t ++ serializeTags ts with
      | nil => exact absurd hbs hne
      | cons b bs =>
        unfold parseTagsFuel
        rw [← hbs, tag_roundtrip t (h t (by simp))]
        simp only
        rw [ih (fun x hx => h x (by simp [hx])) fuel hlen]

/-- **taglist_roundtrip**: every well-formed tag list decodes from its encoding,
    every octet consumed (the result is the whole list and nothing is left). -/
theorem taglist_roundtrip (ts : List Tag) (h : ∀ t ∈ ts, WF t) :
    parseTags (serializeTags ts) = .ok ts :=
  parseTagsFuel_serialize ts h _ (Nat.le_refl _)

/-! ## canonical header form -/

/-- **length_escape**: no escape below 5, one octet 5..253, `FE hh ll` for
    254..65535, `FF` + four octets above. -/
theorem length_escape (lvt : Nat) :
    (lvt < 5 → lenEscape lvt = []) ∧
    (5 ≤ lvt → lvt ≤ 253 → lenEscape lvt = [UInt8.ofNat lvt]) ∧
    (254 ≤ lvt → lvt ≤ 65535 →
        lenEscape lvt = [254, UInt8.ofNat (lvt / 256 % 256), UInt8.ofNat (lvt % 256)]) ∧
    (65536 ≤ lvt → lenEscape lvt =
        [255, UInt8.ofNat (lvt / 16777216 % 256), UInt8.ofNat (lvt / 65536 % 256),
         UInt8.ofNat (lvt / 256 % 256), UInt8.ofNat (lvt % 256)]) := by
  unfold lenEscape be16 be32
  refine ⟨?_, ?_, ?_, ?_⟩
  · intro h; simp [h]
  · intro h1 h2; have : ¬ lvt < 5 := by omega
    simp [this, h2]
  · intro h1 h2
    have a : ¬ lvt < 5 := by omega
    have b : ¬ lvt ≤ 253 := by omega
    simp [a, b, h2]
  · intro h1
    have a : ¬ lvt < 5 := by omega
    have b : ¬ lvt ≤ 253 := by omega
    have c : ¬ lvt ≤ 65535 := by omega
    simp [a, b, c]

/-- **tag_number_escape**: extended tag-number octet iff number ≥ 15, and then
    the high nibble of the first octet is 0xF. -/
theorem tag_number_escape (t : Tag) (h : WF t) :
    (t.num < 15 → numExt t.num = [] ∧ firstOctet t / 16 = t.num) ∧
    (15 ≤ t.num → numExt t.num = [UInt8.ofNat t.num] ∧ firstOctet t / 16 = 15) := by
  have := firstOctet_div16 t h
  constructor
  · intro h15; have : ¬ t.num ≥ 15 := by omega
    simp_all [numExt]
  · intro h15; have : ¬ t.num < 15 := by omega
    simp_all [numExt]

/-! ## arbitrary octet strings -/

theorem getU8_suffix {bs r : Bytes} {n : Nat} (h : getU8 bs = .ok (n, r)) :
    n < 256 ∧ ∃ p, bs = p ++ r ∧ p.length = 1 := by
  cases bs with
  | nil => simp [getU8] at h
  | cons b bs =>
    simp only [getU8, Except.ok.injEq, Prod.mk.injEq] at h
    obtain ⟨rfl, rfl⟩ := h
    exact ⟨b.toNat_lt, [b], rfl, rfl⟩

theorem getU16_suffix {bs r : Bytes} {n : Nat} (h : getU16 bs = .ok (n, r)) :
    n < 65536 ∧ ∃ p, bs = p ++ r ∧ p.length = 2 := by
  match bs, h with
  | a :: b :: rest, h =>
    simp only [getU16, Except.ok.injEq, Prod.mk.injEq] at h
    obtain ⟨rfl, rfl⟩ := h
    have := a.toNat_lt; have := b.toNat_lt
    exact ⟨by omega, [a, b], rfl, rfl⟩

theorem getU32_suffix {bs r : Bytes} {n : Nat} (h : getU32 bs = .ok (n, r)) :
    n < 4294967296 ∧ ∃ p, bs = p ++ r ∧ p.length = 4 := by
  match bs, h with
  | a :: b :: c :: d :: rest, h =>
    simp only [getU32, Except.ok.injEq, Prod.mk.injEq] at h
    obtain ⟨rfl, rfl⟩ := h
    have := a.toNat_lt; have := b.toNat_lt; have := c.toNat_lt; have := d.toNat_lt
    exact ⟨by omega, [a, b, c, d], rfl, rfl⟩

theorem getData_suffix {bs d r : Bytes} {n : Nat} (h : getData n bs = .ok (d, r)) :
    bs = d ++ r ∧ d.length = n := by
  unfold getData at h
  split at h
  · simp at h
  · simp only [Except.ok.injEq, Prod.mk.injEq] at h
    obtain ⟨rfl, rfl⟩ := h
    refine ⟨(List.take_append_drop n bs).symm, ?_⟩
    simp; omega

theorem parseNum_ok {first : Nat} {r r' : Bytes} {n : Nat} (hf : first < 256)
    (h : parseNum first r = .ok (n, r')) :
    n < 256 ∧ ∃ p, r = p ++ r' := by
  unfold parseNum at h
  split at h
  · obtain ⟨h1, p, h2, _⟩ := getU8_suffix h; exact ⟨h1, p, h2⟩
  · simp only [Except.ok.injEq, Prod.mk.injEq] at h
    obtain ⟨rfl, rfl⟩ := h
    exact ⟨by omega, [], rfl⟩

theorem parseLen_ok {c0 c : TagClass} {l lvt : Nat} {r r' : Bytes} (hl : l < 8)
    (h : parseLen c0 l r = .ok (c, lvt, r')) :
    lvt < 4294967296 ∧ (∃ p, r = p ++ r') ∧
    (c = c0 ∨ ((c = .opening ∨ c = .closing) ∧ lvt = 0)) := by
  unfold parseLen at h
  split at h
  · -- l = 5
    split at h
    · simp at h
    · rename_i x r1 hx
      obtain ⟨hx1, p, hp, _⟩ := getU8_suffix hx
      split at h
      · split at h
        · simp at h
        · rename_i y r2 hy
          obtain ⟨hy1, q, hq, _⟩ := getU16_suffix hy
          simp only [Except.ok.injEq, Prod.mk.injEq] at h
          obtain ⟨rfl, rfl, rfl⟩ := h
          exact ⟨by omega, ⟨p ++ q, by simp [hp, hq]⟩, Or.inl rfl⟩
      · split at h
        · split at h
          · simp at h
          · rename_i y r2 hy
            obtain ⟨hy1, q, hq, _⟩ := getU32_suffix hy
            simp only [Except.ok.injEq, Prod.mk.injEq] at h
            obtain ⟨rfl, rfl, rfl⟩ := h
            exact ⟨hy1, ⟨p ++ q, by simp [hp, hq]⟩, Or.inl rfl⟩
        · simp only [Except.ok.injEq, Prod.mk.injEq] at h
          obtain ⟨rfl, rfl, rfl⟩ := h
          exact ⟨by omega, ⟨p, hp⟩, Or.inl rfl⟩
  · split at h
    · simp only [Except.ok.injEq, Prod.mk.injEq] at h
      obtain ⟨rfl, rfl, rfl⟩ := h
      exact ⟨by omega, ⟨[], rfl⟩, Or.inr ⟨Or.inl rfl, rfl⟩⟩
    · split at h
      · simp only [Except.ok.injEq, Prod.mk.injEq] at h
        obtain ⟨rfl, rfl, rfl⟩ := h
        exact ⟨by omega, ⟨[], rfl⟩, Or.inr ⟨Or.inr rfl, rfl⟩⟩
      · simp only [Except.ok.injEq, Prod.mk.injEq] at h
        obtain ⟨rfl, rfl, rfl⟩ := h
        exact ⟨by omega, ⟨[], rfl⟩, Or.inl rfl⟩

theorem parseData_ok {c : TagClass} {num lvt : Nat} {r r' : Bytes} {t : Tag}
    (h : parseData c num lvt r = .ok (t, r')) :
    t.cls = c ∧ t.num = num ∧ t.lvt = lvt ∧ (∃ p, r = p ++ r') ∧
    (if c = .app ∧ num = 1 then t.data = [] else t.data.length = lvt) := by
  unfold parseData at h
  split at h
  · rename_i hc
    simp only [Except.ok.injEq, Prod.mk.injEq] at h
    obtain ⟨rfl, rfl⟩ := h
    simp [hc]
  · rename_i hc
    split at h
    · simp at h
    · rename_i d r1 hd
      obtain ⟨h1, h2⟩ := getData_suffix hd
      simp only [Except.ok.injEq, Prod.mk.injEq] at h
      obtain ⟨rfl, rfl⟩ := h
      simp only [hc, if_false]
      exact ⟨trivial, trivial, trivial, ⟨d, h1⟩, h2⟩

/-- what a successful `Tag.decode` guarantees: a well-formed tag, and the
    remaining octets are a strict suffix of the input (no over-read, progress) -/
theorem parseTag_ok {bs rest : Bytes} {t : Tag} (h : parseTag bs = .ok (t, rest)) :
    WF t ∧ ∃ p, bs = p ++ rest ∧ 0 < p.length := by
  unfold parseTag asInvalidTag at h
  split at h
  · rename_i x hx
    simp only [Except.ok.injEq] at h
    subst h
    unfold parseTagRaw at hx
    split at hx
    · simp at hx
    · rename_i b r1
      simp only at hx
      split at hx
      · simp at hx
      · rename_i num r2 hnum
        split at hx
        · simp at hx
        · rename_i cls lvt r3 hlen
          have hb := b.toNat_lt
          obtain ⟨hn, p1, hp1⟩ := parseNum_ok hb hnum
          obtain ⟨hl, ⟨p2, hp2⟩, hcls⟩ := parseLen_ok (by omega) hlen
          obtain ⟨e1, e2, e3, ⟨p3, hp3⟩, hd⟩ := parseData_ok hx
          rcases t with ⟨tc, tn, tl, td⟩
          simp only at e1 e2 e3 hd
          subst e1 e2 e3
          refine ⟨⟨by simp only; omega, by simp only; omega, ?_⟩, b :: (p1 ++ p2 ++ p3), ?_, by simp⟩
          · cases tc <;> simp only [] at hd hcls ⊢
            · by_cases h1 : tn = 1
              · simpa [h1] using hd
              · simp only [h1, and_false, if_false] at hd ⊢; omega
            · simp at hd; omega
            · rcases hcls with hc | ⟨_, h0⟩
              · split at hc <;> cases hc
              · simp at hd
                exact ⟨h0, List.eq_nil_of_length_eq_zero (by omega)⟩
            · rcases hcls with hc | ⟨_, h0⟩
              · split at hc <;> cases hc
              · simp at hd
                exact ⟨h0, List.eq_nil_of_length_eq_zero (by omega)⟩
          · simp [hp1, hp2, hp3]
  · simp at h

/-- `Tag.decode` never fails in another way than `InvalidTag` -/
theorem parseTag_err {bs : Bytes} {e : Err} (h : parseTag bs = .error e) : e = .invalidTag := by
  unfold parseTag asInvalidTag at h
  split at h
  · simp at h
  · simp only [Except.error.injEq] at h; exact h.symm

theorem parseTagsFuel_total : ∀ (fuel : Nat) (bs : Bytes), bs.length ≤ fuel →
    (∃ ts, parseTagsFuel fuel bs = .ok ts ∧ (∀ t ∈ ts, WF t))
    ∨ parseTagsFuel fuel bs = .error .invalidTag := by
  intro fuel
  induction fuel with
  | zero =>
    intro bs h
    cases bs with
    | nil => left; exact ⟨[], by simp [parseTagsFuel], by simp⟩
    | cons b bs => simp at h
  | succ fuel ih =>
    intro bs h
    cases bs with
    | nil => left; exact ⟨[], by simp [parseTagsFuel], by simp⟩
    | cons b bs =>
      unfold parseTagsFuel
      cases hp : parseTag (b :: bs) with
      | error e => right; simp [parseTag_err hp]
      | ok v =>
        obtain ⟨t, rest⟩ := v
        obtain ⟨hwf, p, hp1, hp2⟩ := parseTag_ok hp
        have hlen : rest.length ≤ fuel := by
          have := congrArg List.length hp1
          simp at this h; omega
        rcases ih rest hlen with ⟨ts, h1, h2⟩ | h1
        · left
          refine ⟨t :: ts, by simp [h1], ?_⟩
          intro x hx
          simp at hx
          rcases hx with rfl | hx
          · exact hwf
          · exact h2 x hx
        · right; simp [h1]

/-- **parse_total**: for every octet string the decoder (whose model loop is
    fuelled by the input length) never runs out of fuel — i.e. it terminates —
    and the outcome is a list of well-formed tags or `InvalidTag`, nothing else. -/
theorem parse_total (bs : Bytes) :
    (∃ ts, parseTags bs = .ok ts ∧ ∀ t ∈ ts, WF t) ∨ parseTags bs = .error .invalidTag := by
  rcases parseTagsFuel_total bs.length bs (Nat.le_refl _) with ⟨ts, h1, h2⟩ | h
  · exact Or.inl ⟨ts, h1, h2⟩
  · exact Or.inr h

/-- **parse_wf** -/
theorem parse_wf {bs : Bytes} {ts : List Tag} (h : parseTags bs = .ok ts) : ∀ t ∈ ts, WF t := by
  rcases parse_total bs with ⟨ts', h1, h2⟩ | h1
  · rw [h] at h1; cases h1; exact h2
  · rw [h] at h1; cases h1

/-- **reparse_stable**: whatever the decoder accepts — canonical or not —
    re-encodes to octets that decode to the same list. -/
theorem reparse_stable {bs : Bytes} {ts : List Tag} (h : parseTags bs = .ok ts) :
    parseTags (serializeTags ts) = .ok ts :=
  taglist_roundtrip ts (parse_wf h)


/-! ## self-delimiting: a stream cut inside a tag is refused -/

theorem getU8_append {bs r : Bytes} {n : Nat} (q : Bytes) (h : getU8 bs = .ok (n, r)) :
    getU8 (bs ++ q) = .ok (n, r ++ q) := by
  cases bs with
  | nil => simp [getU8] at h
  | cons b bs =>
    simp only [getU8, Except.ok.injEq, Prod.mk.injEq] at h
    obtain ⟨rfl, rfl⟩ := h
    simp [getU8]

theorem getU16_append {bs r : Bytes} {n : Nat} (q : Bytes) (h : getU16 bs = .ok (n, r)) :
    getU16 (bs ++ q) = .ok (n, r ++ q) := by
  match bs, h with
  | a :: b :: rest, h =>
    simp only [getU16, Except.ok.injEq, Prod.mk.injEq] at h
    obtain ⟨rfl, rfl⟩ := h
    simp [getU16]

theorem getU32_append {bs r : Bytes} {n : Nat} (q : Bytes) (h : getU32 bs = .ok (n, r)) :
    getU32 (bs ++ q) = .ok (n, r ++ q) := by
  match bs, h with
  | a :: b :: c :: d :: rest, h =>
    simp only [getU32, Except.ok.injEq, Prod.mk.injEq] at h
    obtain ⟨rfl, rfl⟩ := h
    simp [getU32]

theorem getData_append_mono {bs d r : Bytes} {n : Nat} (q : Bytes) (h : getData n bs = .ok (d, r)) :
    getData n (bs ++ q) = .ok (d, r ++ q) := by
  obtain ⟨h1, h2⟩ := getData_suffix h
  subst h1; subst h2
  rw [List.append_assoc]
  exact getData_append d (r ++ q)

theorem parseNum_append {first : Nat} {r r' : Bytes} {n : Nat} (q : Bytes)
    (h : parseNum first r = .ok (n, r')) : parseNum first (r ++ q) = .ok (n, r' ++ q) := by
  unfold parseNum at h ⊢
  split at h
  · rename_i hf; simp only [hf, if_true]; exact getU8_append q h
  · rename_i hf
    simp only [Except.ok.injEq, Prod.mk.injEq] at h
    obtain ⟨rfl, rfl⟩ := h
    simp [hf]

theorem parseLen_append {c0 c : TagClass} {l lvt : Nat} {r r' : Bytes} (q : Bytes)
    (h : parseLen c0 l r = .ok (c, lvt, r')) : parseLen c0 l (r ++ q) = .ok (c, lvt, r' ++ q) := by
  unfold parseLen at h ⊢
  split at h
  · rename_i hl
    simp only [hl, if_true]
    split at h
    · simp at h
    · rename_i x r1 hx
      rw [getU8_append q hx]
      simp only
      split at h
      · rename_i hx254
        simp only [hx254, if_true]
        split at h
        · simp at h
        · rename_i y r2 hy
          rw [getU16_append q hy]
          simp only [Except.ok.injEq, Prod.mk.injEq] at h ⊢
          obtain ⟨rfl, rfl, rfl⟩ := h
          exact ⟨rfl, rfl, rfl⟩
      · rename_i hx254
        simp only [hx254, if_false]
        split at h
        · rename_i hx255
          simp only [hx255, if_true]
          split at h
          · simp at h
          · rename_i y r2 hy
            rw [getU32_append q hy]
            simp only [Except.ok.injEq, Prod.mk.injEq] at h ⊢
            obtain ⟨rfl, rfl, rfl⟩ := h
            exact ⟨rfl, rfl, rfl⟩
        · rename_i hx255
          simp only [hx255, if_false]
          simp only [Except.ok.injEq, Prod.mk.injEq] at h ⊢
          obtain ⟨rfl, rfl, rfl⟩ := h
          exact ⟨rfl, rfl, rfl⟩
  · rename_i hl
    simp only [hl, if_false]
    split at h
    · rename_i h6
      simp only [h6, if_true, Except.ok.injEq, Prod.mk.injEq] at h ⊢
      obtain ⟨rfl, rfl, rfl⟩ := h
      exact ⟨rfl, rfl, rfl⟩
    · rename_i h6
      simp only [h6, if_false]
      split at h
      · rename_i h7
        simp only [h7, if_true, Except.ok.injEq, Prod.mk.injEq] at h ⊢
        obtain ⟨rfl, rfl, rfl⟩ := h
        exact ⟨rfl, rfl, rfl⟩
      · rename_i h7
        simp only [h7, if_false, Except.ok.injEq, Prod.mk.injEq] at h ⊢
        obtain ⟨rfl, rfl, rfl⟩ := h
        exact ⟨rfl, rfl, rfl⟩

theorem parseData_append {c : TagClass} {num lvt : Nat} {r r' : Bytes} {t : Tag} (q : Bytes)
    (h : parseData c num lvt r = .ok (t, r')) : parseData c num lvt (r ++ q) = .ok (t, r' ++ q) := by
  unfold parseData at h ⊢
  split at h
  · rename_i hc
    simp only [Except.ok.injEq, Prod.mk.injEq] at h
    obtain ⟨rfl, rfl⟩ := h
    simp [hc]
  · rename_i hc
    split at h
    · simp at h
    · rename_i d r1 hd
      simp only [Except.ok.injEq, Prod.mk.injEq] at h
      obtain ⟨rfl, rfl⟩ := h
      simp [hc, getData_append_mono q hd]

/-- decoding is insensitive to what follows: more octets after a tag that
    decodes never change that tag -/
theorem parseTag_append {bs rest : Bytes} {t : Tag} (q : Bytes) (h : parseTag bs = .ok (t, rest)) :
    parseTag (bs ++ q) = .ok (t, rest ++ q) := by
  unfold parseTag asInvalidTag at h ⊢
  split at h
  · rename_i x hx
    simp only [Except.ok.injEq] at h
    subst h
    have : parseTagRaw (bs ++ q) = .ok (t, rest ++ q) := by
      unfold parseTagRaw at hx ⊢
      cases bs with
      | nil => simp at hx
      | cons b r1 =>
        simp only [List.cons_append] at hx ⊢
        split at hx
        · simp at hx
        · rename_i num r2 hnum
          rw [parseNum_append q hnum]
          simp only
          split at hx
          · simp at hx
          · rename_i cls lvt r3 hlen
            rw [parseLen_append q hlen]
            simp only
            exact parseData_append q hx
    rw [this]
  · simp at h

/-- **prefix_refused** (self-delimiting): no strict non-empty prefix of the
    encoding of a well-formed tag decodes — a partly present header, length
    field or data is always `InvalidTag`, never misread as a shorter tag. -/
theorem prefix_refused (t : Tag) (h : WF t) (p q : Bytes) (hpq : serializeTag t = p ++ q)
    (hq : q ≠ []) : parseTag p = .error .invalidTag := by
  cases hp : parseTag p with
  | error e => rw [parseTag_err hp]
  | ok v =>
    obtain ⟨t', rest'⟩ := v
    have h1 := parseTag_append q hp
    have h2 := tag_roundtrip t h []
    rw [List.append_nil, hpq, h1] at h2
    simp only [Except.ok.injEq, Prod.mk.injEq] at h2
    obtain ⟨_, h3⟩ := h2
    have := List.append_eq_nil_iff.mp h3
    exact absurd this.2 hq

/-! ## balanced groups -/

/-- tag lists in which every opening tag has its closing tag (the code does not
    compare the two tag numbers, and neither does this predicate) -/
inductive Balanced : List Tag → Prop
  | nil : Balanced []
  | atom (t : Tag) (ts : List Tag) :
      (t.cls = .app ∨ t.cls = .ctx) → Balanced ts → Balanced (t :: ts)
  | group (o c : Tag) (body ts : List Tag) :
      o.cls = .opening → c.cls = .closing → Balanced body → Balanced ts →
      Balanced (o :: (body ++ c :: ts))

theorem collectGroup_balanced {body : List Tag} (hb : Balanced body) :
    ∀ (lvl : Nat) (rest : List Tag),
      collectGroup lvl (body ++ rest) = (collectGroup lvl rest).map fun (g, r) => (body ++ g, r) := by
  induction hb with
  | nil => intro lvl rest; simp
  | atom t ts ht _ ih =>
    intro lvl rest
    rcases ht with ht | ht <;>
    · simp only [List.cons_append, collectGroup, ht, ih lvl rest, Option.map_map]
      congr
  | group o c body ts ho hc _ _ ihb iht =>
    intro lvl rest
    simp only [List.cons_append, List.append_assoc, collectGroup, ho, ihb, hc,
      Nat.add_one_ne_zero, if_false, Nat.add_sub_cancel, iht lvl rest, Option.map_map]
    congr

/-- a balanced body followed by a closing tag is collected exactly -/
theorem collectGroup_closed {body : List Tag} (hb : Balanced body) (c : Tag) (hc : c.cls = .closing)
    (post : List Tag) : collectGroup 0 (body ++ c :: post) = some (body, post) := by
  rw [collectGroup_balanced hb]
  simp [collectGroup, hc]

/-- a balanced body with nothing after it never closes -/
theorem collectGroup_open {body : List Tag} (hb : Balanced body) : collectGroup 0 body = none := by
  have := collectGroup_balanced hb 0 []
  simpa [collectGroup] using this

/-- top-level items `get_context(c)` walks over without answering: application
    tags, context tags with another number, complete groups opened with another
    number -/
inductive Skips (c : Nat) : List Tag → Prop
  | nil : Skips c []
  | app (t : Tag) (ts : List Tag) : t.cls = .app → Skips c ts → Skips c (t :: ts)
  | ctx (t : Tag) (ts : List Tag) : t.cls = .ctx → t.num ≠ c → Skips c ts → Skips c (t :: ts)
  | group (o cl : Tag) (body ts : List Tag) :
      o.cls = .opening → o.num ≠ c → cl.cls = .closing → Balanced body → Skips c ts →
      Skips c (o :: (body ++ cl :: ts))

theorem getContext_skips {c : Nat} {pre : List Tag} (hp : Skips c pre) (rest : List Tag) :
    getContext c (pre ++ rest) = getContext c rest := by
  induction hp with
  | nil => simp
  | app t ts ht _ ih => rw [List.cons_append, getContext]; simp only [ht]; exact ih
  | ctx t ts ht hn _ ih => rw [List.cons_append, getContext]; simp only [ht, hn, if_false]; exact ih
  | group o cl body ts ho hn hcl hb _ ih =>
    rw [List.cons_append, getContext]
    simp only [ho]
    have hcg := collectGroup_closed hb cl hcl (ts ++ rest)
    have heq : body ++ cl :: ts ++ rest = body ++ cl :: (ts ++ rest) := by simp
    rw [heq]
    split
    · rename_i h; rw [hcg] at h; cases h
    · rename_i g r h
      rw [hcg] at h
      simp only [Option.some.injEq, Prod.mk.injEq] at h
      obtain ⟨rfl, rfl⟩ := h
      simp only [hn, if_false]
      exact ih

/-- **getContext_balanced**: the group opened with context `c` is returned exactly
    (its body, without the delimiters) when it balances -/
theorem getContext_balanced (c : Nat) (pre body post : List Tag) (o cl : Tag)
    (hpre : Skips c pre) (ho : o.cls = .opening) (hn : o.num = c) (hcl : cl.cls = .closing)
    (hb : Balanced body) :
    getContext c (pre ++ o :: (body ++ cl :: post)) = .ok (.group body) := by
  rw [getContext_skips hpre, getContext]
  simp only [ho]
  have hcg := collectGroup_closed hb cl hcl post
  split
  · rename_i h; rw [hcg] at h; cases h
  · rename_i g r h
    rw [hcg] at h
    simp only [Option.some.injEq, Prod.mk.injEq] at h
    obtain ⟨rfl, rfl⟩ := h
    simp [hn]

/-- a context-tagged atomic element with number `c` is returned as such -/
theorem getContext_atom (c : Nat) (pre post : List Tag) (t : Tag)
    (hpre : Skips c pre) (ht : t.cls = .ctx) (hn : t.num = c) :
    getContext c (pre ++ t :: post) = .ok (.tag t) := by
  rw [getContext_skips hpre, getContext]; simp [ht, hn]

/-- nothing with context `c` at top level: `None` -/
theorem getContext_absent (c : Nat) (pre : List Tag) (hpre : Skips c pre) :
    getContext c pre = .ok .none := by
  have := getContext_skips hpre []
  simp only [List.append_nil] at this
  rw [this, getContext]

/-- **getContext_unclosed**: a group that does not close is an `InvalidTag`,
    whatever its context number -/
theorem getContext_unclosed (c : Nat) (pre body : List Tag) (o : Tag)
    (hpre : Skips c pre) (ho : o.cls = .opening) (hb : Balanced body) :
    getContext c (pre ++ o :: body) = .error .invalidTag := by
  rw [getContext_skips hpre, getContext]
  simp only [ho]
  have hcg := collectGroup_open hb
  split
  · rfl
  · rename_i g r h; rw [hcg] at h; cases h

/-- a stray closing tag at top level is an `InvalidTag` -/
theorem getContext_stray_close (c : Nat) (pre post : List Tag) (cl : Tag)
    (hpre : Skips c pre) (hcl : cl.cls = .closing) :
    getContext c (pre ++ cl :: post) = .error .invalidTag := by
  rw [getContext_skips hpre, getContext]; simp [hcl]

theorem anyTake_balanced {body : List Tag} (hb : Balanced body) :
    ∀ (lvl : Nat) (rest : List Tag),
      anyTake lvl (body ++ rest) = (anyTake lvl rest).map fun (g, r) => (body ++ g, r) := by
  induction hb with
  | nil => intro lvl rest; cases h : anyTake lvl rest <;> simp [Except.map, h]
  | atom t ts ht _ ih =>
    intro lvl rest
    rcases ht with ht | ht <;>
    · simp only [List.cons_append, anyTake, ht, ih lvl rest]
      cases anyTake lvl rest <;> simp [Except.map]
  | group o c body ts ho hc _ _ ihb iht =>
    intro lvl rest
    simp only [List.cons_append, List.append_assoc, anyTake, ho, ihb, hc,
      Nat.add_one_ne_zero, if_false, Nat.add_sub_cancel, iht lvl rest]
    cases anyTake lvl rest <;> simp [Except.map]

/-- **anyDecode_balanced**: `Any.decode` takes exactly the balanced run and stops
    in front of the enclosing closing tag -/
theorem anyDecode_balanced (body rest : List Tag) (cl : Tag) (hb : Balanced body)
    (hcl : cl.cls = .closing) :
    anyDecode (body ++ cl :: rest) = .ok (body, cl :: rest) := by
  unfold anyDecode
  rw [anyTake_balanced hb]
  simp [anyTake, hcl, Except.map]

/-- … or the whole list when nothing encloses it -/
theorem anyDecode_balanced_end (body : List Tag) (hb : Balanced body) :
    anyDecode body = .ok (body, []) := by
  have := anyTake_balanced hb 0 []
  simp only [List.append_nil] at this
  unfold anyDecode
  rw [this]; simp [anyTake, Except.map]

/-- **anyDecode_unclosed**: an opening tag that is never closed is refused -/
theorem anyDecode_unclosed (pre body : List Tag) (o : Tag) (hp : Balanced pre)
    (ho : o.cls = .opening) (hb : Balanced body) :
    anyDecode (pre ++ o :: body) = .error .decoding := by
  unfold anyDecode
  rw [anyTake_balanced hp]
  have := anyTake_balanced hb 1 []
  simp only [List.append_nil] at this
  simp [anyTake, ho, this, Except.map]

/-! ## non-vacuity: the hypotheses are met by concrete, non-trivial data -/

def exTag1 : Tag := ⟨.ctx, 20, 7, [0, 1, 2, 3, 4, 5, 6]⟩
def exOpen : Tag := ⟨.opening, 3, 0, []⟩
def exClose : Tag := ⟨.closing, 3, 0, []⟩
def exBool : Tag := ⟨.app, 1, 1, []⟩

example : WF exTag1 ∧ WF exOpen ∧ WF exClose ∧ WF exBool := by decide
example : Balanced [exOpen, exTag1, exClose, exBool] :=
  Balanced.group exOpen exClose [exTag1] [exBool] rfl rfl
    (Balanced.atom _ _ (Or.inr rfl) Balanced.nil) (Balanced.atom _ _ (Or.inl rfl) Balanced.nil)
example : Skips 5 [exOpen, exTag1, exClose, exBool] :=
  Skips.group exOpen exClose [exTag1] [exBool] rfl (by decide) rfl
    (Balanced.atom _ _ (Or.inr rfl) Balanced.nil) (Skips.app _ _ rfl Skips.nil)
example : parseTags [0x0e, 0x09, 0x01, 0x0f, 0x06] =
    .ok [⟨.opening, 0, 0, []⟩, ⟨.ctx, 0, 1, [1]⟩, ⟨.closing, 0, 0, []⟩, ⟨.opening, 0, 0, []⟩] := by
  rfl
example : parseTags [0xfe] = .error .invalidTag := by rfl

end BacVerif.C02
