import BacVerif.Model.Npci
import BacVerif.Gen.NpduTypes
namespace BacVerif.C08
open BacVerif BacVerif.Npci

/-- the regenerated `npdu_types` registry is the table the model dispatches on -/
theorem registry_matches : Gen.npduTypes = registry := by decide

end BacVerif.C08
