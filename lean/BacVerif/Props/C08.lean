/-
  C08 — Network-layer headers and messages encode and decode faithfully.

  Property text → formal statement (model: `Model.Npci`, a transcription of npdu.py)
  * "For every combination of control flags, priority, destination (remote
    station, remote broadcast, global broadcast, with any 1..255-octet station
    address), source, hop count, message type and vendor ID, the network header
    … decodes back to the same fields and payload"        → `npci_roundtrip`
    (`WF` is exactly that quantifier; no bound on the payload)
  * "is laid out as clause 6.2 prescribes"                → `control_octet_layout`,
                                                            `npci_layout`
  * "each network-layer message … round-trips its parameters"
        → `body_roundtrip` (lists of ANY length: `nets_roundtrip`, `rtes_roundtrip`),
          `message_roundtrip` (through the complete frame and the type registry),
          `table_256_refused`, `registry_matches` (generated `npdu_types` = model table)
  * "Headers that the standard forbids (version other than 1, broadcast or
    zero-length source) and truncated ones are refused with a decoding error
    rather than misread"
        → `npci_refuses` = `npci_refuses_version`, `npci_refuses_source` (SNET = 0xFFFF or SLEN = 0),
          `truncation_refused` (EVERY strict prefix of a valid header),
          `decode_only_decoding_errors` (no other failure exists),
          `decode_wf` + `reparse_stable` (whatever is accepted — any of the 2^8
          control octets — is a well-formed header that re-encodes and decodes
          to the same fields: nothing is misread)
-/
import BacVerif.Model.Npci
import BacVerif.Lemmas.Frame
import BacVerif.Gen.NpduTypes
namespace BacVerif.C08
open BacVerif BacVerif.Npci BacVerif.Frame

/-! ## the quantifier of the property as a decidable predicate -/

/-- destinations: remote station with a 1..255-octet MAC, remote broadcast,
    global broadcast (network numbers as `RemoteStation`/`RemoteBroadcast`
    accept them: 0..65534) -/
def WFDadr : Addr → Prop
  | .remoteStation net mac => net < 65535 ∧ 1 ≤ mac.length ∧ mac.length ≤ 255
  | .remoteBroadcast net => net < 65535
  | .globalBroadcast => True
  | _ => False

/-- sources: remote stations only -/
def WFSadr : Addr → Prop
  | .remoteStation net mac => net < 65535 ∧ 1 ≤ mac.length ∧ mac.length ≤ 255
  | _ => False

instance (a : Addr) : Decidable (WFDadr a) := by unfold WFDadr; cases a <;> exact inferInstance
instance (a : Addr) : Decidable (WFSadr a) := by unfold WFSadr; cases a <;> exact inferInstance

/-- a header the property quantifies over.  The hop count accompanies the
    DADR; the vendor id accompanies message types 0x80..0xFF. -/
def WF (h : Npci) : Prop :=
  h.version = 1 ∧ h.priority < 4 ∧
  (match h.dadr with | none => True | some a => WFDadr a) ∧
  (match h.sadr with | none => True | some a => WFSadr a) ∧
  (match h.dadr, h.hopCount with
   | some _, some n => n < 256 | none, none => True | _, _ => False) ∧
  (match h.netMessage, h.vendorId with
   | none, none => True
   | some m, none => m < 128
   | some m, some v => 128 ≤ m ∧ m < 256 ∧ v < 65536
   | none, some _ => False)

instance (h : Npci) : Decidable (WF h) := by
  unfold WF
  cases h.dadr <;> cases h.sadr <;> cases h.hopCount <;> cases h.netMessage <;> cases h.vendorId <;>
    exact inferInstance

/-! ## the control octet -/

theorem bit_iff (c m : Nat) : bit c m = true ↔ c / m % 2 = 1 := by simp [bit]

/-- **control_octet_layout**: bit 7 = network layer message, bit 5 = DNET
    present, bit 3 = SNET present, bit 2 = data expecting reply, bits 1..0 =
    priority; the reserved bits 6 and 4 are zero. -/
theorem control_octet_layout (h : Npci) :
    controlOctet h < 256 ∧
    (bit (controlOctet h) 0x80 = h.netMessage.isSome) ∧
    (bit (controlOctet h) 0x40 = false) ∧
    (bit (controlOctet h) 0x20 = h.dadr.isSome) ∧
    (bit (controlOctet h) 0x10 = false) ∧
    (bit (controlOctet h) 0x08 = h.sadr.isSome) ∧
    (bit (controlOctet h) 0x04 = h.expectingReply) ∧
    (controlOctet h % 4 = h.priority % 4) := by
  unfold controlOctet bit
  cases h.netMessage.isSome <;> cases h.dadr.isSome <;> cases h.sadr.isSome <;>
    cases h.expectingReply <;> simp <;> omega

/-! ## header sections: encode → decode -/

theorem put_ok {n : Nat} (h : n < 256) : put n = .ok [UInt8.ofNat n] := by simp [put, h]

theorem decodeDadr_encode (a : Addr) (hw : WFDadr a) :
    ∃ d, encodeDadr a = .ok d ∧ ∀ rest, decodeDadr (d ++ rest) = .ok (a, rest) := by
  cases a with
  | remoteStation net mac =>
    obtain ⟨hn, h1, h2⟩ := hw
    refine ⟨be16 net ++ [UInt8.ofNat mac.length] ++ mac, by simp [encodeDadr, put_ok (show mac.length < 256 by omega)], ?_⟩
    intro rest
    have hne : net ≠ 65535 := by omega
    have hl : mac.length ≠ 0 := by omega
    simp [decodeDadr, List.append_assoc, getU16_be16 net (by omega), getU8_cons mac.length (by omega),
      getData_append, hne, hl]
  | remoteBroadcast net =>
    have hn : net < 65535 := hw
    refine ⟨be16 net ++ [0], by simp [encodeDadr], ?_⟩
    intro rest
    have hne : net ≠ 65535 := by omega
    simp [decodeDadr, List.append_assoc, getU16_be16 net (by omega), getU8, getData, hne]
  | globalBroadcast =>
    refine ⟨[0xFF, 0xFF, 0], by simp [encodeDadr], ?_⟩
    intro rest
    simp [decodeDadr, getU16, getU8, getData]
  | null => exact absurd hw (by simp [WFDadr])
  | localBroadcast => exact absurd hw (by simp [WFDadr])
  | localStation mac => exact absurd hw (by simp [WFDadr])

theorem decodeSadr_encode (a : Addr) (hw : WFSadr a) :
    ∃ d, encodeSadr a = .ok d ∧ ∀ rest, decodeSadr (d ++ rest) = .ok (a, rest) := by
  cases a with
  | remoteStation net mac =>
    obtain ⟨hn, h1, h2⟩ := hw
    refine ⟨be16 net ++ [UInt8.ofNat mac.length] ++ mac, by simp [encodeSadr, put_ok (show mac.length < 256 by omega)], ?_⟩
    intro rest
    have hne : net ≠ 65535 := by omega
    have hl : mac.length ≠ 0 := by omega
    simp [decodeSadr, List.append_assoc, getU16_be16 net (by omega), getU8_cons mac.length (by omega),
      getData_append, hne, hl]
  | null => exact absurd hw (by simp [WFSadr])
  | localBroadcast => exact absurd hw (by simp [WFSadr])
  | localStation mac => exact absurd hw (by simp [WFSadr])
  | remoteBroadcast net => exact absurd hw (by simp [WFSadr])
  | globalBroadcast => exact absurd hw (by simp [WFSadr])

/-- the four sections after the control octet, as one statement per section:
    the encoder succeeds and the decoder, given the encoder's control octet,
    reads the field back and leaves what follows untouched -/
theorem dadr_section (h : Npci) (hw : WF h) :
    ∃ d, encodeDadrOpt h.dadr = .ok d ∧
      ∀ rest, optSection (bit (controlOctet h) 0x20) decodeDadr (d ++ rest) = .ok (h.dadr, rest) := by
  obtain ⟨_, _, hd, _⟩ := hw
  have hb := (control_octet_layout h).2.2.2.1
  cases hda : h.dadr with
  | none => exact ⟨[], rfl, by intro rest; simp [optSection, hb, hda]⟩
  | some a =>
    rw [hda] at hd
    obtain ⟨d, h1, h2⟩ := decodeDadr_encode a hd
    exact ⟨d, h1, by intro rest; simp [optSection, hb, hda, h2]⟩

theorem sadr_section (h : Npci) (hw : WF h) :
    ∃ d, encodeSadrOpt h.sadr = .ok d ∧
      ∀ rest, optSection (bit (controlOctet h) 0x08) decodeSadr (d ++ rest) = .ok (h.sadr, rest) := by
  obtain ⟨_, _, _, hs, _⟩ := hw
  have hb := (control_octet_layout h).2.2.2.2.2.1
  cases hsa : h.sadr with
  | none => exact ⟨[], rfl, by intro rest; simp [optSection, hb, hsa]⟩
  | some a =>
    rw [hsa] at hs
    obtain ⟨d, h1, h2⟩ := decodeSadr_encode a hs
    exact ⟨d, h1, by intro rest; simp [optSection, hb, hsa, h2]⟩

theorem hop_section (h : Npci) (hw : WF h) :
    ∃ d, encodeHop h = .ok d ∧
      ∀ rest, optSection (bit (controlOctet h) 0x20) getU8 (d ++ rest) = .ok (h.hopCount, rest) := by
  obtain ⟨_, _, _, _, hh, _⟩ := hw
  have hb := (control_octet_layout h).2.2.2.1
  cases hda : h.dadr with
  | none =>
    cases hho : h.hopCount with
    | none => exact ⟨[], by simp [encodeHop, hda], by intro rest; simp [optSection, hb, hda]⟩
    | some n => simp [hda, hho] at hh
  | some a =>
    cases hho : h.hopCount with
    | none => simp [hda, hho] at hh
    | some n =>
      simp only [hda, hho] at hh
      refine ⟨[UInt8.ofNat n], by simp [encodeHop, hda, hho, putOpt, put_ok hh], ?_⟩
      intro rest
      simp [optSection, hb, hda, getU8_cons n hh]

theorem msg_section (h : Npci) (hw : WF h) :
    ∃ d, encodeMsgType h = .ok d ∧
      ∀ rest, optSection (bit (controlOctet h) 0x80) decodeMsgType (d ++ rest) =
        .ok (h.netMessage.map fun m => (m, h.vendorId), rest) := by
  obtain ⟨_, _, _, _, _, hm⟩ := hw
  have hb := (control_octet_layout h).2.1
  cases hme : h.netMessage with
  | none => exact ⟨[], by simp [encodeMsgType, hme], by intro rest; simp [optSection, hb, hme]⟩
  | some m =>
    cases hve : h.vendorId with
    | none =>
      simp only [hme, hve] at hm
      have h80 : ¬ (128 ≤ m ∧ m ≤ 255) := by omega
      refine ⟨[UInt8.ofNat m], by simp [encodeMsgType, hme, put_ok (show m < 256 by omega), h80], ?_⟩
      intro rest
      simp [optSection, hb, hme, decodeMsgType, getU8_cons m (by omega), h80]
    | some v =>
      simp only [hme, hve] at hm
      obtain ⟨h1, h2, h3⟩ := hm
      have h80 : 128 ≤ m ∧ m ≤ 255 := by omega
      refine ⟨[UInt8.ofNat m] ++ be16 v, by simp [encodeMsgType, hme, hve, put_ok h2, h80], ?_⟩
      intro rest
      simp [optSection, hb, hme, decodeMsgType, getU8_cons m h2, h80, getU16_be16 v h3]

/-- **npci_layout**: the header of a well-formed `h` is, in this order:
    version 1, the control octet, DNET/DLEN/DADR, SNET/SLEN/SADR, hop count,
    message type, vendor id — each present exactly as the control octet says
    (clause 6.2.2). -/
theorem npci_layout (h : Npci) (hw : WF h) :
    encodeNpci h = .ok (
      [1, UInt8.ofNat (controlOctet h)] ++
      (match h.dadr with
       | some (.remoteStation net mac) => be16 net ++ [UInt8.ofNat mac.length] ++ mac
       | some (.remoteBroadcast net) => be16 net ++ [0]
       | some .globalBroadcast => [0xFF, 0xFF, 0]
       | _ => []) ++
      (match h.sadr with
       | some (.remoteStation net mac) => be16 net ++ [UInt8.ofNat mac.length] ++ mac
       | _ => []) ++
      (match h.hopCount with | some n => [UInt8.ofNat n] | none => []) ++
      (match h.netMessage with | some m => [UInt8.ofNat m] | none => []) ++
      (match h.vendorId with | some v => be16 v | none => [])) := by
  have hc := (control_octet_layout h).1
  obtain ⟨hv, _, hd, hs, hh, hm⟩ := hw
  unfold encodeNpci
  rw [hv, put_ok (by omega), put_ok hc]
  simp only
  -- destination
  have e1 : encodeDadrOpt h.dadr = .ok (match h.dadr with
       | some (.remoteStation net mac) => be16 net ++ [UInt8.ofNat mac.length] ++ mac
       | some (.remoteBroadcast net) => be16 net ++ [0]
       | some .globalBroadcast => [0xFF, 0xFF, 0]
       | _ => []) := by
    cases hda : h.dadr with
    | none => rfl
    | some a =>
      rw [hda] at hd
      cases a with
      | remoteStation net mac =>
        obtain ⟨_, _, h2⟩ := hd
        simp [encodeDadrOpt, encodeDadr, put_ok (show mac.length < 256 by omega)]
      | remoteBroadcast net => simp [encodeDadrOpt, encodeDadr]
      | globalBroadcast => simp [encodeDadrOpt, encodeDadr]
      | null => exact absurd hd (by simp [WFDadr])
      | localBroadcast => exact absurd hd (by simp [WFDadr])
      | localStation mac => exact absurd hd (by simp [WFDadr])
  have e2 : encodeSadrOpt h.sadr = .ok (match h.sadr with
       | some (.remoteStation net mac) => be16 net ++ [UInt8.ofNat mac.length] ++ mac
       | _ => []) := by
    cases hsa : h.sadr with
    | none => rfl
    | some a =>
      rw [hsa] at hs
      cases a with
      | remoteStation net mac =>
        obtain ⟨_, _, h2⟩ := hs
        simp [encodeSadrOpt, encodeSadr, put_ok (show mac.length < 256 by omega)]
      | null => exact absurd hs (by simp [WFSadr])
      | localBroadcast => exact absurd hs (by simp [WFSadr])
      | localStation mac => exact absurd hs (by simp [WFSadr])
      | remoteBroadcast net => exact absurd hs (by simp [WFSadr])
      | globalBroadcast => exact absurd hs (by simp [WFSadr])
  have e3 : encodeHop h = .ok (match h.hopCount with | some n => [UInt8.ofNat n] | none => []) := by
    cases hda : h.dadr <;> cases hho : h.hopCount <;> simp [hda, hho] at hh <;>
      simp [encodeHop, hda, hho, putOpt, put_ok, hh]
  have e4 : encodeMsgType h = .ok ((match h.netMessage with | some m => [UInt8.ofNat m] | none => []) ++
      (match h.vendorId with | some v => be16 v | none => [])) := by
    cases hme : h.netMessage with
    | none =>
      cases hve : h.vendorId with
      | none => simp [encodeMsgType, hme]
      | some v => simp [hme, hve] at hm
    | some m =>
      cases hve : h.vendorId with
      | none =>
        simp only [hme, hve] at hm
        have h80 : ¬ (128 ≤ m ∧ m ≤ 255) := by omega
        simp [encodeMsgType, hme, put_ok (show m < 256 by omega), h80]
      | some v =>
        simp only [hme, hve] at hm
        obtain ⟨h1, h2, h3⟩ := hm
        have h80 : 128 ≤ m ∧ m ≤ 255 := by omega
        simp [encodeMsgType, hme, hve, put_ok h2, h80]
  rw [e1, e2, e3, e4]
  simp [List.append_assoc]

/-! ## the header round trip -/

theorem decodeNpci_encode (h : Npci) (hw : WF h) :
    ∃ hd, encodeNpci h = .ok hd ∧ 2 ≤ hd.length ∧
      ∀ rest, decodeNpci (hd ++ rest) = .ok ({ h with control := controlOctet h }, rest) := by
  have hc := (control_octet_layout h)
  obtain ⟨d, hd1, hd2⟩ := dadr_section h hw
  obtain ⟨s, hs1, hs2⟩ := sadr_section h hw
  obtain ⟨p, hp1, hp2⟩ := hop_section h hw
  obtain ⟨m, hm1, hm2⟩ := msg_section h hw
  obtain ⟨hv, hpri, hrest⟩ := hw
  refine ⟨[1] ++ [UInt8.ofNat (controlOctet h)] ++ d ++ s ++ p ++ m, ?_, by simp, ?_⟩
  · simp [encodeNpci, hv, put_ok (show 1 < 256 by omega), put_ok hc.1, hd1, hs1, hp1, hm1]
  · intro rest
    have hmod : controlOctet h % 4 = h.priority := by rw [hc.2.2.2.2.2.2.2]; omega
    unfold decodeNpci
    simp only [List.append_assoc, List.cons_append, List.nil_append, List.length_cons]
    rw [if_neg (by omega)]
    simp only [getU8, toNat_ofNat_lt hc.1]
    simp only [show (1 : UInt8).toNat = 1 from rfl, ne_eq, not_true_eq_false, if_false]
    simp only [hd2, hs2, hp2, hm2]
    simp only [hc.2.2.2.2.2.2.1, hmod]
    have hmsg : (h.netMessage.map fun m => (m, h.vendorId)).map (·.1) = h.netMessage := by
      cases h.netMessage <;> rfl
    have hvid : (h.netMessage.map fun m => (m, h.vendorId)).bind (·.2) = h.vendorId := by
      have hm6 := hrest.2.2.2
      cases hme : h.netMessage <;> cases hve : h.vendorId <;> simp [hme, hve] at hm6 ⊢
    rw [hmsg, hvid]
    cases h
    simp only at hv
    subst hv
    rfl

/-- **npci_roundtrip**: every header of the property's quantifier, with any
    payload, is accepted by the encoder and decodes to the same fields and the
    same payload (`control` is the octet both sides record). -/
theorem npci_roundtrip (h : Npci) (hw : WF h) (payload : Bytes) :
    ∃ bs, encodeNpdu h payload = .ok bs ∧
      decodeNpdu bs = .ok ({ h with control := controlOctet h }, payload) := by
  obtain ⟨hd, h1, _, h2⟩ := decodeNpci_encode h hw
  exact ⟨hd ++ payload, by simp [encodeNpdu, h1], by simp [decodeNpdu, h2]⟩

/-! ## what the decoder refuses -/

/-- **npci_refuses_version**: any octet string that does not start with
    version 1 (the empty string included) is refused. -/
theorem npci_refuses_version (bs : Bytes) (h : bs.head? ≠ some 1) :
    decodeNpdu bs = .error .decoding := by
  unfold decodeNpdu
  match bs, h with
  | [], _ => simp [decodeNpci]
  | [x], _ => simp [decodeNpci]
  | a :: b :: r, h =>
    have : a.toNat ≠ 1 := by
      intro hh
      apply h
      have : a = 1 := UInt8.toNat_inj.mp hh
      simp [this]
    simp [decodeNpci, getU8, this]

/-- the source-address section refuses SNET = 0xFFFF and SLEN = 0 -/
theorem decodeSadr_refuses (net : Nat) (mac rest : Bytes) (hl : mac.length ≤ 255)
    (hbad : net % 65536 = 65535 ∨ mac = []) :
    decodeSadr (be16 net ++ [UInt8.ofNat mac.length] ++ mac ++ rest) = .error .decoding := by
  rw [← be16_mod]
  simp only [decodeSadr, List.append_assoc, getU16_be16 (net % 65536) (by omega),
    List.cons_append, List.nil_append, getU8_cons mac.length (by omega), getData_append]
  rcases hbad with hb | hb
  · simp [hb]
  · subst hb; simp

/-- **npci_refuses_source**: a header that is well-formed except that its
    source address is a broadcast — SNET = 0xFFFF (global) or SLEN = 0 (remote
    broadcast) — is refused, whatever follows it. -/
theorem npci_refuses_source (h : Npci) (net : Nat) (mac payload : Bytes)
    (hw : WF { h with sadr := none }) (hs : h.sadr = some (.remoteStation net mac))
    (hl : mac.length ≤ 255) (hbad : net % 65536 = 65535 ∨ mac = []) :
    ∃ bs, encodeNpdu h payload = .ok bs ∧ decodeNpdu bs = .error .decoding := by
  have hc := control_octet_layout h
  have hc0 := control_octet_layout { h with sadr := none }
  obtain ⟨d, hd1, hd2⟩ := dadr_section _ hw
  obtain ⟨p, hp1, hp2⟩ := hop_section _ hw
  obtain ⟨m, hm1, hm2⟩ := msg_section _ hw
  obtain ⟨hv, _⟩ := hw
  simp only at hv hd1 hp1 hm1
  have hbit20 : bit (controlOctet h) 0x20 = bit (controlOctet { h with sadr := none }) 0x20 := by
    rw [hc.2.2.2.1, hc0.2.2.2.1]
  have hbit08 : bit (controlOctet h) 0x08 = true := by rw [hc.2.2.2.2.2.1, hs]; rfl
  have hp1' : encodeHop h = .ok p := by simpa [encodeHop] using hp1
  have hm1' : encodeMsgType h = .ok m := by simpa [encodeMsgType] using hm1
  refine ⟨[1] ++ [UInt8.ofNat (controlOctet h)] ++ d ++
      (be16 net ++ [UInt8.ofNat mac.length] ++ mac) ++ p ++ m ++ payload, ?_, ?_⟩
  · simp [encodeNpdu, encodeNpci, hv, put_ok (show 1 < 256 by omega), put_ok hc.1, hd1, hs,
      encodeSadrOpt, encodeSadr, put_ok (show mac.length < 256 by omega), hp1', hm1']
  · unfold decodeNpdu decodeNpci
    simp only [List.append_assoc, List.cons_append, List.nil_append, List.length_cons]
    rw [if_neg (by omega)]
    simp only [getU8, toNat_ofNat_lt hc.1]
    simp only [show (1 : UInt8).toNat = 1 from rfl, ne_eq, not_true_eq_false, if_false]
    rw [hbit20]
    simp only [hd2]
    have := decodeSadr_refuses net mac (p ++ (m ++ payload)) hl hbad
    simp only [List.append_assoc, List.cons_append, List.nil_append] at this
    simp [optSection, hbit08, this]

/-! ### the only failure is `DecodingError` -/

theorem optSection_err {α} {dec : Bytes → Except Err (α × Bytes)} (hd : OnlyDecoding dec) (b : Bool) :
    OnlyDecoding (optSection b dec) := by
  intro bs e h
  unfold optSection at h
  split at h
  · split at h
    · rename_i e' he; cases h; exact hd _ _ he
    · cases h
  · cases h

theorem decodeDadr_err : OnlyDecoding decodeDadr := by
  intro bs e h
  unfold decodeDadr at h
  split at h
  · rename_i e' he; cases h; exact getU16_err _ _ he
  · split at h
    · rename_i e' he; cases h; exact getU8_err _ _ he
    · split at h
      · rename_i e' he; cases h; exact getData_err _ _ _ he
      · split at h
        · cases h
        · split at h <;> cases h

theorem decodeSadr_err : OnlyDecoding decodeSadr := by
  intro bs e h
  unfold decodeSadr at h
  split at h
  · rename_i e' he; cases h; exact getU16_err _ _ he
  · split at h
    · rename_i e' he; cases h; exact getU8_err _ _ he
    · split at h
      · rename_i e' he; cases h; exact getData_err _ _ _ he
      · split at h
        · cases h; rfl
        · split at h
          · cases h; rfl
          · cases h

theorem decodeMsgType_err : OnlyDecoding decodeMsgType := by
  intro bs e h
  unfold decodeMsgType at h
  split at h
  · rename_i e' he; cases h; exact getU8_err _ _ he
  · split at h
    · split at h
      · rename_i e' he; cases h; exact getU16_err _ _ he
      · cases h
    · cases h

/-- **decode_only_decoding_errors**: `NPDU.decode` has no failure other than
    `DecodingError`. -/
theorem decode_only_decoding_errors : OnlyDecoding decodeNpdu := by
  intro bs e h
  unfold decodeNpdu decodeNpci at h
  split at h
  · cases h; rfl
  · split at h
    · rename_i e' he; cases h; exact getU8_err _ _ he
    · split at h
      · cases h; rfl
      · split at h
        · rename_i e' he; cases h; exact getU8_err _ _ he
        · split at h
          · rename_i e' he; cases h; exact optSection_err decodeDadr_err _ _ _ he
          · split at h
            · rename_i e' he; cases h; exact optSection_err decodeSadr_err _ _ _ he
            · split at h
              · rename_i e' he; cases h; exact optSection_err getU8_err _ _ _ he
              · split at h
                · rename_i e' he; cases h; exact optSection_err decodeMsgType_err _ _ _ he
                · cases h

/-! ### truncation -/

theorem optSection_ext {α} {dec : Bytes → Except Err (α × Bytes)} (hd : Ext dec) (b : Bool) :
    Ext (optSection b dec) := by
  intro p s a r h
  unfold optSection at h ⊢
  split at h
  · rename_i hb
    simp only [hb, if_true]
    split at h
    · cases h
    · rename_i a' r' he
      cases h
      rw [hd _ s _ _ he]
  · rename_i hb
    simp only [hb]
    cases h
    rfl

theorem decodeDadr_ext : Ext decodeDadr := by
  intro p s a r h
  unfold decodeDadr at h ⊢
  split at h
  · cases h
  · rename_i dnet r1 h1
    rw [getU16_ext _ s _ _ h1]
    simp only
    split at h
    · cases h
    · rename_i dlen r2 h2
      rw [getU8_ext _ s _ _ h2]
      simp only
      split at h
      · cases h
      · rename_i dadr r3 h3
        rw [getData_ext _ _ s _ _ h3]
        simp only
        split at h
        · cases h; simp [*]
        · split at h <;> (cases h; simp [*])

theorem decodeSadr_ext : Ext decodeSadr := by
  intro p s a r h
  unfold decodeSadr at h ⊢
  split at h
  · cases h
  · rename_i dnet r1 h1
    rw [getU16_ext _ s _ _ h1]
    simp only
    split at h
    · cases h
    · rename_i dlen r2 h2
      rw [getU8_ext _ s _ _ h2]
      simp only
      split at h
      · cases h
      · rename_i dadr r3 h3
        rw [getData_ext _ _ s _ _ h3]
        simp only
        split at h
        · cases h
        · split at h
          · cases h
          · cases h; simp [*]

theorem decodeMsgType_ext : Ext decodeMsgType := by
  intro p s a r h
  unfold decodeMsgType at h ⊢
  split at h
  · cases h
  · rename_i m r1 h1
    rw [getU8_ext _ s _ _ h1]
    simp only
    split at h
    · rename_i hm
      simp only [hm, and_self, if_true]
      split at h
      · cases h
      · rename_i v r2 h2
        cases h
        rw [getU16_ext _ s _ _ h2]
    · rename_i hm
      simp only [hm, if_false]
      cases h
      rfl

/-- octets appended to an accepted header come out as (more) payload: the
    decoder's reading of the header does not depend on what follows it -/
theorem decodeNpci_ext : Ext decodeNpci := by
  intro p s a r h
  unfold decodeNpci at h ⊢
  split at h
  · cases h
  · rename_i hlen
    rw [if_neg (by simp only [List.length_append]; omega)]
    split at h
    · cases h
    · rename_i ver r0 h0
      rw [getU8_ext _ s _ _ h0]
      simp only
      split at h
      · cases h
      · rename_i hver
        rw [if_neg hver]
        split at h
        · cases h
        · rename_i ctl r1 h1
          rw [getU8_ext _ s _ _ h1]
          simp only
          split at h
          · cases h
          · rename_i dadr r2 h2
            rw [optSection_ext decodeDadr_ext _ _ s _ _ h2]
            simp only
            split at h
            · cases h
            · rename_i sadr r3 h3
              rw [optSection_ext decodeSadr_ext _ _ s _ _ h3]
              simp only
              split at h
              · cases h
              · rename_i hop r4 h4
                rw [optSection_ext getU8_ext _ _ s _ _ h4]
                simp only
                split at h
                · cases h
                · rename_i mt r5 h5
                  rw [optSection_ext decodeMsgType_ext _ _ s _ _ h5]
                  cases h
                  rfl

/-- **truncation_refused**: EVERY strict prefix of the header of a
    well-formed NPCI — cut anywhere, including inside a 255-octet address — is
    refused with a decoding error. -/
theorem truncation_refused (h : Npci) (hw : WF h) (hdr p s : Bytes)
    (henc : encodeNpci h = .ok hdr) (hcut : hdr = p ++ s) (hs : s ≠ []) :
    decodeNpdu p = .error .decoding := by
  obtain ⟨hd, h1, _, h2⟩ := decodeNpci_encode h hw
  rw [henc] at h1
  cases h1
  cases hp : decodeNpdu p with
  | error e => rw [decode_only_decoding_errors p e hp]
  | ok v =>
    obtain ⟨h', r⟩ := v
    have hext := decodeNpci_ext p s h' r hp
    have hfull := h2 []
    rw [List.append_nil, hcut, hext] at hfull
    simp only [Except.ok.injEq, Prod.mk.injEq, List.append_eq_nil_iff] at hfull
    exact absurd hfull.2.2 hs

/-- **npci_refuses**: the three refusals of the property in one statement —
    a version other than 1, a broadcast or zero-length source, and every strict
    prefix of a valid header all end in a decoding error (never in a header). -/
theorem npci_refuses :
    (∀ bs : Bytes, bs.head? ≠ some 1 → decodeNpdu bs = .error .decoding) ∧
    (∀ (h : Npci) (net : Nat) (mac payload : Bytes), WF { h with sadr := none } →
        h.sadr = some (.remoteStation net mac) → mac.length ≤ 255 →
        (net % 65536 = 65535 ∨ mac = []) →
        ∃ bs, encodeNpdu h payload = .ok bs ∧ decodeNpdu bs = .error .decoding) ∧
    (∀ (h : Npci), WF h → ∀ hdr p s : Bytes, encodeNpci h = .ok hdr → hdr = p ++ s → s ≠ [] →
        decodeNpdu p = .error .decoding) :=
  ⟨npci_refuses_version,
   fun h net mac payload hw hs hl hbad => npci_refuses_source h net mac payload hw hs hl hbad,
   fun h hw hdr p s henc hcut hs => truncation_refused h hw hdr p s henc hcut hs⟩

/-! ## whatever is accepted is a well-formed header (nothing is misread) -/

theorem decodeDadr_wf {bs r : Bytes} {a : Addr} (h : decodeDadr bs = .ok (a, r)) : WFDadr a := by
  unfold decodeDadr at h
  split at h
  · cases h
  · rename_i dnet r1 h1
    split at h
    · cases h
    · rename_i dlen r2 h2
      split at h
      · cases h
      · rename_i dadr r3 h3
        have hn := (getU16_ok h1).1
        have hl := (getU8_ok h2).1
        have hd := (getData_ok h3).2
        split at h
        · cases h; trivial
        · split at h
          · cases h; show dnet < 65535; omega
          · cases h; exact ⟨by omega, by omega, by omega⟩

theorem decodeSadr_wf {bs r : Bytes} {a : Addr} (h : decodeSadr bs = .ok (a, r)) : WFSadr a := by
  unfold decodeSadr at h
  split at h
  · cases h
  · rename_i dnet r1 h1
    split at h
    · cases h
    · rename_i dlen r2 h2
      split at h
      · cases h
      · rename_i dadr r3 h3
        have hn := (getU16_ok h1).1
        have hl := (getU8_ok h2).1
        have hd := (getData_ok h3).2
        split at h
        · cases h
        · split at h
          · cases h
          · cases h; exact ⟨by omega, by omega, by omega⟩

theorem optSection_ok {α} {dec : Bytes → Except Err (α × Bytes)} {b : Bool} {bs r : Bytes} {o : Option α}
    (h : optSection b dec bs = .ok (o, r)) :
    (b = false ∧ o = none ∧ r = bs) ∨ (b = true ∧ ∃ a, o = some a ∧ dec bs = .ok (a, r)) := by
  unfold optSection at h
  split at h
  · rename_i hb
    split at h
    · cases h
    · rename_i a r' he; cases h; exact Or.inr ⟨hb, a, rfl, he⟩
  · rename_i hb
    cases h
    exact Or.inl ⟨by simpa using hb, rfl, rfl⟩

/-- **decode_wf**: for EVERY octet string — every one of the 2^8 control
    octets, reserved bits set or not — an accepted header is one of the
    property's well-formed headers. -/
theorem decode_wf {bs payload : Bytes} {h : Npci} (hdec : decodeNpdu bs = .ok (h, payload)) : WF h := by
  unfold decodeNpdu decodeNpci at hdec
  split at hdec
  · cases hdec
  · split at hdec
    · cases hdec
    · rename_i ver r0 h0
      split at hdec
      · cases hdec
      · rename_i hver
        split at hdec
        · cases hdec
        · rename_i ctl r1 h1
          split at hdec
          · cases hdec
          · rename_i dadr r2 h2
            split at hdec
            · cases hdec
            · rename_i sadr r3 h3
              split at hdec
              · cases hdec
              · rename_i hop r4 h4
                split at hdec
                · cases hdec
                · rename_i mt r5 h5
                  cases hdec
                  refine ⟨by simpa using hver, Nat.mod_lt _ (by omega), ?_, ?_, ?_, ?_⟩
                  · rcases optSection_ok h2 with ⟨_, rfl, _⟩ | ⟨_, a, rfl, ha⟩
                    · trivial
                    · exact decodeDadr_wf ha
                  · rcases optSection_ok h3 with ⟨_, rfl, _⟩ | ⟨_, a, rfl, ha⟩
                    · trivial
                    · exact decodeSadr_wf ha
                  · rcases optSection_ok h2 with ⟨hb, rfl, _⟩ | ⟨hb, a, rfl, ha⟩ <;>
                    rcases optSection_ok h4 with ⟨hb', rfl, _⟩ | ⟨hb', n, rfl, hn⟩
                    · trivial
                    · rw [hb] at hb'; cases hb'
                    · rw [hb] at hb'; cases hb'
                    · exact (getU8_ok hn).1
                  · rcases optSection_ok h5 with ⟨_, rfl, _⟩ | ⟨_, mv, rfl, hmv⟩
                    · trivial
                    · unfold decodeMsgType at hmv
                      split at hmv
                      · cases hmv
                      · rename_i m r6 h6
                        have hm := (getU8_ok h6).1
                        split at hmv
                        · rename_i h80
                          split at hmv
                          · cases hmv
                          · rename_i v r7 h7
                            cases hmv
                            exact ⟨h80.1, hm, (getU16_ok h7).1⟩
                        · rename_i h80
                          cases hmv
                          show m < 128
                          omega

/-- **reparse_stable**: any accepted frame, canonical or not, re-encodes to a
    frame that decodes to the same fields and payload (only the reserved
    control bits, which carry no field, are normalised). -/
theorem reparse_stable {bs payload : Bytes} {h : Npci} (hdec : decodeNpdu bs = .ok (h, payload)) :
    ∃ bs', encodeNpdu h payload = .ok bs' ∧
      decodeNpdu bs' = .ok ({ h with control := controlOctet h }, payload) :=
  npci_roundtrip h (decode_wf hdec) payload

/-! ## message bodies -/

def WFRte (e : Rte) : Prop := e.dnet < 65536 ∧ e.portId < 256 ∧ e.portInfo.length ≤ 255

instance (e : Rte) : Decidable (WFRte e) := by unfold WFRte; exact inferInstance

/-- the parameters the property quantifies over: 16-bit network numbers,
    one-octet codes, network lists of ANY length, routing tables of up to 255
    entries with port-info of up to 255 octets -/
def WFMsg : NetMsg → Prop
  | .whoIsRouterToNetwork none => True
  | .whoIsRouterToNetwork (some n) => n < 65536
  | .iAmRouterToNetwork ns => ∀ n ∈ ns, n < 65536
  | .iCouldBeRouterToNetwork net perf => net < 65536 ∧ perf < 256
  | .rejectMessageToNetwork reason dnet => reason < 256 ∧ dnet < 65536
  | .routerBusyToNetwork ns => ∀ n ∈ ns, n < 65536
  | .routerAvailableToNetwork ns => ∀ n ∈ ns, n < 65536
  | .initializeRoutingTable t => t.length ≤ 255 ∧ ∀ e ∈ t, WFRte e
  | .initializeRoutingTableAck t => t.length ≤ 255 ∧ ∀ e ∈ t, WFRte e
  | .establishConnectionToNetwork dnet term => dnet < 65536 ∧ term < 256
  | .disconnectConnectionToNetwork dnet => dnet < 65536
  | .whatIsNetworkNumber => True
  | .networkNumberIs net flag => net < 65536 ∧ flag < 256

instance (m : NetMsg) : Decidable (WFMsg m) := by
  cases m with
  | whoIsRouterToNetwork n => cases n <;> (unfold WFMsg; exact inferInstance)
  | _ => unfold WFMsg; exact inferInstance

/-- **nets_roundtrip**: network lists of any length -/
theorem nets_roundtrip (ns : List Nat) (h : ∀ n ∈ ns, n < 65536) :
    decodeNets (encodeNets ns) = .ok ns := by
  induction ns with
  | nil => rfl
  | cons n ns ih =>
    have hn := h n (by simp)
    simp only [encodeNets, be16, List.cons_append, List.nil_append, decodeNets]
    rw [ih (fun x hx => h x (by simp [hx]))]
    simp; omega

theorem rte_roundtrip (e : Rte) (hw : WFRte e) :
    ∃ b, encodeRte e = .ok b ∧ ∀ rest, decodeRte (b ++ rest) = .ok (e, rest) := by
  obtain ⟨h1, h2, h3⟩ := hw
  refine ⟨be16 e.dnet ++ [UInt8.ofNat e.portId] ++ [UInt8.ofNat e.portInfo.length] ++ e.portInfo,
    by simp [encodeRte, put_ok h2, put_ok (show e.portInfo.length < 256 by omega)], ?_⟩
  intro rest
  simp [decodeRte, List.append_assoc, getU16_be16 e.dnet h1, getU8_cons e.portId h2,
    getU8_cons e.portInfo.length (by omega), getData_append]

/-- **rtes_roundtrip**: routing tables of any length (the count octet limits
    what `encodeTable` accepts, not this loop) -/
theorem rtes_roundtrip (es : List Rte) (hw : ∀ e ∈ es, WFRte e) :
    ∃ bs, encodeRtes es = .ok bs ∧ ∀ rest, decodeRtes es.length (bs ++ rest) = .ok (es, rest) := by
  induction es with
  | nil => exact ⟨[], rfl, by intro rest; rfl⟩
  | cons e es ih =>
    obtain ⟨b, hb1, hb2⟩ := rte_roundtrip e (hw e (by simp))
    obtain ⟨bs, hbs1, hbs2⟩ := ih (fun x hx => hw x (by simp [hx]))
    refine ⟨b ++ bs, by simp [encodeRtes, hb1, hbs1], ?_⟩
    intro rest
    simp [decodeRtes, List.append_assoc, hb2, hbs2]

theorem table_roundtrip (t : List Rte) (hl : t.length ≤ 255) (hw : ∀ e ∈ t, WFRte e) :
    ∃ bs, encodeTable t = .ok bs ∧ decodeTable bs = .ok t := by
  obtain ⟨bs, h1, h2⟩ := rtes_roundtrip t hw
  refine ⟨[UInt8.ofNat t.length] ++ bs, by simp [encodeTable, put_ok (show t.length < 256 by omega), h1], ?_⟩
  have := h2 []
  rw [List.append_nil] at this
  simp [decodeTable, getU8_cons t.length (by omega), this]

theorem shortOctet_roundtrip (a b : Nat) (ha : a < 65536) (hb : b < 256) :
    ∃ bs, encShortOctet a b = .ok bs ∧ decShortOctet bs = .ok (a, b) := by
  refine ⟨be16 a ++ [UInt8.ofNat b], by simp [encShortOctet, put_ok hb], ?_⟩
  simp [decShortOctet, getU16_be16 a ha, getU8_cons b hb]

/-- **body_roundtrip**: each of the twelve messages round-trips its
    parameters, for network lists of any length and every routing table the
    count octet can announce. -/
theorem body_roundtrip (m : NetMsg) (hw : WFMsg m) :
    ∃ bs, encodeBody m = .ok bs ∧ decodeBody m.kind bs = .ok m := by
  cases m with
  | whoIsRouterToNetwork n =>
    cases n with
    | none => exact ⟨[], rfl, rfl⟩
    | some n =>
      have hn : n < 65536 := hw
      refine ⟨be16 n, rfl, ?_⟩
      have := getU16_be16 n hn []
      rw [List.append_nil] at this
      simp only [NetMsg.kind, decodeBody]
      simp only [be16] at this ⊢
      simp [this]
  | iAmRouterToNetwork ns =>
    exact ⟨encodeNets ns, rfl, by simp [NetMsg.kind, decodeBody, nets_roundtrip ns hw, Except.map]⟩
  | routerBusyToNetwork ns =>
    exact ⟨encodeNets ns, rfl, by simp [NetMsg.kind, decodeBody, nets_roundtrip ns hw, Except.map]⟩
  | routerAvailableToNetwork ns =>
    exact ⟨encodeNets ns, rfl, by simp [NetMsg.kind, decodeBody, nets_roundtrip ns hw, Except.map]⟩
  | iCouldBeRouterToNetwork net perf =>
    obtain ⟨bs, h1, h2⟩ := shortOctet_roundtrip net perf hw.1 hw.2
    exact ⟨bs, h1, by simp [NetMsg.kind, decodeBody, h2, Except.map]⟩
  | establishConnectionToNetwork dnet term =>
    obtain ⟨bs, h1, h2⟩ := shortOctet_roundtrip dnet term hw.1 hw.2
    exact ⟨bs, h1, by simp [NetMsg.kind, decodeBody, h2, Except.map]⟩
  | networkNumberIs net flag =>
    obtain ⟨bs, h1, h2⟩ := shortOctet_roundtrip net flag hw.1 hw.2
    exact ⟨bs, h1, by simp [NetMsg.kind, decodeBody, h2, Except.map]⟩
  | rejectMessageToNetwork reason dnet =>
    obtain ⟨h1, h2⟩ := hw
    refine ⟨[UInt8.ofNat reason] ++ be16 dnet, by simp [encodeBody, put_ok h1], ?_⟩
    have := getU16_be16 dnet h2 []
    rw [List.append_nil] at this
    simp [NetMsg.kind, decodeBody, getU8_cons reason h1, this]
  | initializeRoutingTable t =>
    obtain ⟨bs, h1, h2⟩ := table_roundtrip t hw.1 hw.2
    exact ⟨bs, h1, by simp [NetMsg.kind, decodeBody, h2, Except.map]⟩
  | initializeRoutingTableAck t =>
    obtain ⟨bs, h1, h2⟩ := table_roundtrip t hw.1 hw.2
    exact ⟨bs, h1, by simp [NetMsg.kind, decodeBody, h2, Except.map]⟩
  | disconnectConnectionToNetwork dnet =>
    have hn : dnet < 65536 := hw
    refine ⟨be16 dnet, rfl, ?_⟩
    have := getU16_be16 dnet hn []
    rw [List.append_nil] at this
    simp [NetMsg.kind, decodeBody, this]
  | whatIsNetworkNumber => exact ⟨[], rfl, rfl⟩

/-- **table_256_refused**: a routing table of 256 or more entries cannot be
    announced by the one-octet count and is refused by the encoder (Python:
    `ValueError` from `bytes([256])`) instead of being truncated. -/
theorem table_256_refused (t : List Rte) (h : 256 ≤ t.length) :
    encodeBody (.initializeRoutingTable t) = .error .other ∧
    encodeBody (.initializeRoutingTableAck t) = .error .other := by
  have : ¬ t.length < 256 := by omega
  simp [encodeBody, encodeTable, put, this]

/-! ## the type registry and complete message frames -/

/-- the regenerated `npdu_types` registry of the tree under test is exactly
    the table the model dispatches on (kernel evaluation) -/
theorem registry_matches : Gen.npduTypes = registry := by decide

theorem kindOfCode_code (k : MsgKind) : kindOfCode k.code = some k := by cases k <;> rfl

theorem kindOfCode_some {c : Nat} {k : MsgKind} (h : kindOfCode c = some k) : k.code = c := by
  unfold kindOfCode at h
  have := List.find?_some h
  simpa using this

theorem code_lt_128 (k : MsgKind) : k.code < 128 := by cases k <;> decide

/-- **message_roundtrip**: a message object with any well-formed routing
    header encodes (body, then header with its own message type) to a frame
    that decodes, through the registry dispatch, to the same header fields and
    the same parameters. -/
theorem message_roundtrip (h : Npci) (m : NetMsg)
    (hw : WF { h with netMessage := some m.kind.code }) (hm : WFMsg m) :
    ∃ bs, encodeMessage h m = .ok bs ∧
      decodeMessage bs = .ok (.message
        { h with netMessage := some m.kind.code,
                 control := controlOctet { h with netMessage := some m.kind.code } } m) := by
  obtain ⟨body, hb1, hb2⟩ := body_roundtrip m hm
  obtain ⟨bs, h1, h2⟩ := npci_roundtrip _ hw body
  refine ⟨bs, by simp [encodeMessage, hb1, h1], ?_⟩
  simp [decodeMessage, h2, kindOfCode_code, hb2]

/-! ## non-vacuity: concrete, non-trivial instances of every hypothesis -/

/-- every optional field present: expecting reply, priority 3, DADR = remote
    station with a 6-octet MAC, SADR with a 1-octet MAC, hop count 255,
    proprietary message 0x80 with vendor id 260 -/
def exFull : Npci :=
  { expectingReply := true, priority := 3,
    dadr := some (.remoteStation 65534 [1, 2, 3, 4, 5, 6]), sadr := some (.remoteStation 7 [9]),
    hopCount := some 255, netMessage := some 0x80, vendorId := some 260 }

example : WF exFull := by decide
example : controlOctet exFull = 0xAF := by decide
example : encodeNpdu exFull [0xDE, 0xAD] =
    .ok [1, 0xAF, 0xFF, 0xFE, 6, 1, 2, 3, 4, 5, 6, 0, 7, 1, 9, 0xFF, 0x80, 1, 4, 0xDE, 0xAD] := by rfl
example : decodeNpdu [1, 0xAF, 0xFF, 0xFE, 6, 1, 2, 3, 4, 5, 6, 0, 7, 1, 9, 0xFF, 0x80, 1, 4, 0xDE, 0xAD] =
    .ok ({ exFull with control := 0xAF }, [0xDE, 0xAD]) := by rfl
/-- global broadcast, application payload -/
example : WF { dadr := some .globalBroadcast, hopCount := some 0 } := by decide
/-- `npci_refuses_source`: the hypotheses are met by SNET = 0xFFFF … -/
example : WF { exFull with sadr := none } ∧ ((65535 % 65536 = 65535) ∨ ([9] : Bytes) = []) := by decide
example : decodeNpdu [1, 0x08, 0xFF, 0xFF, 1, 9, 0x55] = .error .decoding := by rfl
/-- … and by SLEN = 0 -/
example : decodeNpdu [1, 0x08, 0x00, 0x07, 0, 0x55] = .error .decoding := by rfl
/-- `truncation_refused`: a cut inside the destination address (test) -/
example : decodeNpdu [1, 0xAF, 0xFF, 0xFE, 6, 1, 2, 3] = .error .decoding := by rfl
/-- reserved control bits are accepted and dropped -/
example : decodeNpdu [1, 0x50, 0xAA] = .ok ({ control := 0x50 }, [0xAA]) := by rfl
/-- messages -/
example : WFMsg (.iAmRouterToNetwork [1, 65535, 0]) := by decide
example : WFMsg (.initializeRoutingTable [⟨1, 2, [0xAA, 0xBB]⟩, ⟨65535, 255, []⟩]) := by decide
example : WF { exFull with netMessage := some (NetMsg.networkNumberIs 5 1).kind.code, vendorId := none } := by
  decide
example : encodeMessage {} (.initializeRoutingTableAck [⟨1, 2, [0xAA, 0xBB]⟩]) =
    .ok [1, 0x80, 7, 1, 0, 1, 2, 2, 0xAA, 0xBB] := by rfl
example : decodeMessage [1, 0x80, 1, 0, 1, 0] = .error .decoding := by rfl   -- odd-length list

end BacVerif.C08
