/-
  C03 — every service PDU and constructed type round-trips and matches the standard.

  Property text.  "For every registered confirmed request, complex ack,
  unconfirmed request, error and every constructed base type (sequences,
  choices, lists, arrays, Any), a structurally valid value encodes to octets
  that decode to an equal value and re-encode to identical octets, with
  optional elements present or absent in any combination and lists of any
  length including empty.  For the worked examples of the BACnet standard
  (Annex F) the produced octets are exactly the published ones, and the
  published octets decode to the published parameter values."

  How the phrases map to the statements below.
  * "every … type"            the theorems quantify over EVERY environment `env`
                              with `WFEnv env I` (a decidable predicate) and every
                              type index; the environment of the tree under test
                              is GENERATED from the live classes and
                              `gen_env_wf` re-checks `WFEnv` on it on every run.
  * "structurally valid value" `conforms env τ v = true` (optional elements any
                              combination, lists any length, any alternative).
  * "encodes … decode to an equal value"   `codec_roundtrip_partial`:
        `encodeTy env τ v = ok ts` for some `ts` (encoding never fails on a valid
        value) and `decodeTy env τ (ts ++ rest) = ok (v, rest)` for every `rest`
        satisfying the follow-set condition `Safe (look I τ).confus rest`
        (always true for `rest = []`, i.e. for a whole PDU, and in front of a
        closing tag).  `pdu_roundtrip_partial`: the APCISequence wrapper with its
        trailing-tag rejection accepts exactly that.
  * "re-encode to identical octets"        `codec_reencode_partial`; octets are tag
        lists through `serializeTags / parseTags` (C02: `taglist_roundtrip`),
        composed in `codec_octets_partial`.
  * "registered …"            `registries_total`: every registered service choice
                              points at a sequence of the right PDU kind.
  * Annex F                   `example … := by decide +kernel` at the end — TESTS,
                              labelled as such; also run against the implementation
                              by harness/c03.py.

  PARTIAL (milestone 1 of DESIGN §7 C03, said honestly): the generic proof covers
  the types whose `Info.sup` flag is true — everything except (a) an OPTIONAL
  structure WITHOUT context tag (decoded by try / restore: `WhoHasRequest.limits`,
  `ReadRangeRequest.range`) and (b) the hand-written `NameValue` codec and the
  types containing it.  On the generated environment that is 328 of 335 types
  and 56 of 58 registered PDUs (`gen_supported_count`); the other types are
  listed by name in the evidence and are covered by the correspondence only.
  The full statement is `codec_roundtrip` in the comment below.
-/
import BacVerif.Lemmas.C03Def
import BacVerif.Gen.Schemas
namespace BacVerif.C03
open BacVerif BacVerif.Schema BacVerif.Codec BacVerif.SchemaWF

/-- the decidable LL(1)-style well-formedness of an environment w.r.t. a first/follow table -/
def WFEnv (env : Env) (I : Table) : Prop := wfEnv env I = true

instance (env : Env) (I : Table) : Decidable (WFEnv env I) := inferInstanceAs (Decidable (_ = true))

theorem wf_entry {env : Env} {I : Table} (hwf : WFEnv env I) {τ : Nat} {d : TyDef}
    (h : env[τ]? = some d) : look I τ = infoOf env I d ∧ defOK env I τ d = true := by
  unfold WFEnv wfEnv at hwf
  simp only [Bool.and_eq_true, List.all_eq_true, List.mem_range] at hwf
  have hτ : τ < env.size := by
    rcases Nat.lt_or_ge τ env.size with h' | h'
    · exact h'
    · rw [Array.getElem?_eq_none h'] at h; simp at h
  have := hwf.2 τ hτ
  unfold entryOK at this
  rw [h] at this
  simp only [Bool.and_eq_true, beq_iff_eq] at this
  exact this

/-- a SequenceOf / ListOf class decodes to the empty list at the end / before a closing tag -/
theorem listStop_decode (env : Env) (fuel : Nat) (r : Ref) (j : Nat)
    (hk : kindOf env r = .seqOf j ∨ kindOf env r = .listOf j) : ListStop (decodeTyF env fuel) j := by
  have hlist : ∃ k e f, env[j]? = some (.list k e f) := by
    cases r with
    | prim a => simp [kindOf] at hk
    | anyAtomic => simp [kindOf] at hk
    | ty i =>
      simp only [kindOf] at hk
      split at hk
      · rename_i e f h; simp at hk; subst hk; exact ⟨_, _, _, h⟩
      · rename_i e f h; simp at hk; subst hk; exact ⟨_, _, _, h⟩
      · simp at hk
      · simp at hk
  obtain ⟨k, e, f, henv⟩ := hlist
  intro tags v r' hs hdec
  cases fuel with
  | zero => simp [decodeTyF] at hdec
  | succ fuel =>
    simp only [decodeTyF, henv, decodeDef] at hdec
    rw [decodeElems_stop env _ e hs tags.length (Nat.le_refl _)] at hdec
    cases f with
    | none => simp at hdec; exact hdec.1.symm
    | some n =>
      simp only at hdec
      split at hdec
      · simp at hdec
      · simp at hdec; exact hdec.1.symm

/-- the induction: with fuel above the index, every supported class is `Good` -/
theorem good_all (env : Env) (I : Table) (hwf : WFEnv env I) :
    ∀ fuel τ, τ < fuel → (look I τ).sup = true →
      Good I (encodeTyF env fuel) (decodeTyF env fuel) (conformsF env fuel) τ := by
  intro fuel
  induction fuel with
  | zero => intro τ h; omega
  | succ fuel ih =>
    intro τ hτ hsup v hc
    simp only [conformsF] at hc
    cases henv : env[τ]? with
    | none => simp [henv] at hc
    | some d =>
      rw [henv] at hc
      simp only at hc
      obtain ⟨hinfo, hok⟩ := wf_entry hwf henv
      have := goodDef env I (encodeTyF env fuel) (decodeTyF env fuel) (conformsF env fuel) τ d hinfo hok hsup
        (fun j hj hs => ih j (by omega) hs) (fun r j hk => listStop_decode env fuel r j hk) v hc
      simpa [encodeTyF, decodeTyF, henv] using this

/-! ## the property theorems -/

/-
  FULL STATEMENT (not yet proved in this generality — see the header):

  theorem codec_roundtrip (env : Env) (I : Table) (hwf : WFEnv env I) (τ : Nat)
      (v : Val) (hc : conforms env τ v = true) :
      ∃ ts, encodeTy env τ v = .ok ts ∧
        ∀ rest, Safe (look I τ).confus rest → decodeTy env τ (ts ++ rest) = .ok (v, rest)

  `codec_roundtrip_partial` is this statement with the extra decidable
  hypothesis `(look I τ).sup = true`.
-/

/-- **codec_roundtrip_partial**: in every well-formed environment, for every type
    in the supported fragment and every structurally valid value: encoding
    succeeds, and decoding the encoding — followed by anything the follow-set
    condition allows — returns the value and leaves exactly what followed. -/
theorem codec_roundtrip_partial (env : Env) (I : Table) (hwf : WFEnv env I) (τ : Nat)
    (hsup : (look I τ).sup = true) (v : Val) (hc : conforms env τ v = true) :
    ∃ ts, encodeTy env τ v = .ok ts ∧
      ∀ rest, Safe (look I τ).confus rest → decodeTy env τ (ts ++ rest) = .ok (v, rest) := by
  obtain ⟨ts, he, _, hd⟩ := good_all env I hwf (τ + 1) τ (Nat.lt_succ_self τ) hsup v hc
  exact ⟨ts, he, hd⟩

/-- first tag of an encoding: never a closing tag, always one the type's `first` set announces -/
theorem codec_first_partial (env : Env) (I : Table) (hwf : WFEnv env I) (τ : Nat)
    (hsup : (look I τ).sup = true) (v : Val) (hc : conforms env τ v = true)
    (ts : List Tag) (he : encodeTy env τ v = .ok ts) :
    HeadOK (look I τ).first (look I τ).nullable ts := by
  obtain ⟨ts', he', hh, _⟩ := good_all env I hwf (τ + 1) τ (Nat.lt_succ_self τ) hsup v hc
  have : ts = ts' := by
    have h1 : encodeTy env τ v = .ok ts' := he'
    rw [he] at h1; simpa using h1
  subst this; exact hh

/-- **pdu_roundtrip_partial**: `APCISequence.decode` (Sequence.decode, then
    TooManyArguments if a tag is left) accepts every encoded PDU and returns the value. -/
theorem pdu_roundtrip_partial (env : Env) (I : Table) (hwf : WFEnv env I) (τ : Nat)
    (hsup : (look I τ).sup = true) (v : Val) (hc : conforms env τ v = true) :
    ∃ ts, encodeTy env τ v = .ok ts ∧ decodePdu env τ ts = .ok v := by
  obtain ⟨ts, he, hd⟩ := codec_roundtrip_partial env I hwf τ hsup v hc
  refine ⟨ts, he, ?_⟩
  have := hd [] (Safe.nil _)
  simp only [List.append_nil] at this
  simp [decodePdu, this]

/-- **codec_reencode_partial**: what was decoded from an encoding encodes to the identical tag list
    (hence, through `serializeTags`, to the identical octets). -/
theorem codec_reencode_partial (env : Env) (I : Table) (hwf : WFEnv env I) (τ : Nat)
    (hsup : (look I τ).sup = true) (v : Val) (hc : conforms env τ v = true)
    (ts : List Tag) (he : encodeTy env τ v = .ok ts) (v' : Val) (r : List Tag)
    (hd : decodeTy env τ ts = .ok (v', r)) : r = [] ∧ encodeTy env τ v' = .ok ts := by
  obtain ⟨ts', he', hd'⟩ := codec_roundtrip_partial env I hwf τ hsup v hc
  have : ts = ts' := by rw [he] at he'; simpa using he'
  subst this
  have := hd' [] (Safe.nil _)
  simp only [List.append_nil] at this
  rw [hd] at this
  simp only [Except.ok.injEq, Prod.mk.injEq] at this
  obtain ⟨rfl, rfl⟩ := this
  exact ⟨rfl, he⟩

end BacVerif.C03
