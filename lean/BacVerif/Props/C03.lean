/-
  C03 — every service PDU and constructed type round-trips and matches the standard.

  Property text.  "For every registered confirmed request, complex ack,
  unconfirmed request, error and every constructed base type (sequences,
  choices, lists, arrays, Any), a structurally valid value encodes to octets
  that decode to an equal value and re-encode to identical octets, with
  optional elements present or absent in any combination and lists of any
  length including empty.  For the worked examples of the BACnet standard
  (Annex F) the produced octets are exactly the published ones, and the
  published octets decode to the published parameter values."

  How the phrases map to the statements below.
  * "every … type"            the theorems quantify over EVERY environment `env`
                              with `WFEnv env I` (a decidable predicate, `I` = a
                              first/follow table) and EVERY type index; the
                              environment of the tree under test is GENERATED from
                              the live classes and `gen_env_wf` re-checks `WFEnv`
                              on it on every run (`decide +kernel`).
  * "structurally valid value" `conforms env τ v = true` (optional elements in any
                              combination, lists of any length, any alternative,
                              Any = any balanced tag run).
  * "encodes … decode to an equal value"   `codec_roundtrip`:
        `encodeTy env τ v = ok ts` for some `ts` (encoding never fails on a valid
        value) and `decodeTy env τ (ts ++ rest) = ok (v, rest)` for every `rest`
        satisfying the follow-set condition `Safe (look I τ).confus rest`
        (always true for `rest = []`, i.e. for a whole PDU, and in front of a
        closing tag).  `pdu_roundtrip`: the APCISequence wrapper with its
        trailing-tag rejection accepts exactly that.
  * "re-encode to identical octets"        `codec_reencode`; octets are tag lists
        through `serializeTags / parseTags` (C02: `taglist_roundtrip`), composed
        in `codec_octets`.
  * "registered …"            `registries_total` / `registry_lookup`: every
                              registered service choice points at a sequence of the
                              right PDU kind; `registered_pdu_roundtrip`.
  * Annex F                   `example … := by decide +kernel` at the end — TESTS,
                              labelled as such; also run against the implementation
                              by harness/c03.py.

  Strength.  `codec_roundtrip` is proved at full strength (both milestones of
  DESIGN §7 C03): every kind of element the generic code knows — context and
  application tagged atomics, AnyAtomic, Any, wrapped and inline structures,
  SequenceOf / ListOf / ArrayOf with and without context, the `[]`-for-omitted
  quirk of an optional SequenceOf, the try / restore path of an optional
  structure without context (`WhoHasRequest.limits`, `ReadRangeRequest.range`),
  the hand-written `NameValue` codec.  What stays outside (trusted, tied by the
  correspondence): primitive leaves are opaque application-tag payloads
  (`leafOK`; their meaning is C01 — `leaf_of_prim` (Lemmas/C03Prim) shows that
  every tag C01's encoder emits for a representable value IS such a leaf and
  that C01's decoder recovers the value from it), and the octet-level corollary assumes the
  emitted tags are well-formed in the sense of C02 (tag number ≤ 255 — contexts
  ≤ 254 are part of `WFEnv` — and data shorter than 2^32 octets).
-/
import BacVerif.Lemmas.C03Def
import BacVerif.Lemmas.C03Prim
import BacVerif.Lemmas.C03WFEnv
import BacVerif.Props.C03Octets
import BacVerif.Props.C07
import BacVerif.Gen.Schemas
import BacVerif.Props.C02
namespace BacVerif.C03
open BacVerif BacVerif.Schema BacVerif.Codec BacVerif.SchemaWF

/-- a SequenceOf / ListOf class decodes to the empty list at the end / before a closing tag -/
theorem listStop_decode (env : Env) (fuel : Nat) (r : Ref) (j : Nat)
    (hk : kindOf env r = .seqOf j ∨ kindOf env r = .listOf j) : ListStop (decodeTyF env fuel) j := by
  have hlist : ∃ k e f, env[j]? = some (.list k e f) := by
    cases r with
    | prim a => simp [kindOf] at hk
    | anyAtomic => simp [kindOf] at hk
    | ty i =>
      simp only [kindOf] at hk
      split at hk
      · rename_i e f h; simp at hk; subst hk; exact ⟨_, _, _, h⟩
      · rename_i e f h; simp at hk; subst hk; exact ⟨_, _, _, h⟩
      · simp at hk
      · simp at hk
  obtain ⟨k, e, f, henv⟩ := hlist
  intro tags v r' hs hdec
  cases fuel with
  | zero => simp [decodeTyF] at hdec
  | succ fuel =>
    simp only [decodeTyF, henv, decodeDef] at hdec
    rw [decodeElems_stop env _ e hs tags.length (Nat.le_refl _)] at hdec
    cases f with
    | none => simp at hdec; exact hdec.1.symm
    | some n =>
      simp only at hdec
      split at hdec
      · simp at hdec
      · simp at hdec; exact hdec.1.symm

/-- the `DateTime` class as `NameValue` sees it -/
theorem dateTime_ok (env : Env) (fuel dt : Nat) (hfuel : 0 < fuel)
    (henv : env[dt]? = some (.seq [⟨.prim 10, none, false⟩, ⟨.prim 11, none, false⟩])) :
    DateTimeOK (encodeTyF env fuel) (decodeTyF env fuel) (conformsF env fuel) dt := by
  cases fuel with
  | zero => omega
  | succ f =>
    intro v hc
    simp only [conformsF, henv] at hc
    have hk10 : kindOf env (.prim 10) = .prim 10 := rfl
    have hk11 : kindOf env (.prim 11) = .prim 11 := rfl
    cases v with
    | seq vs =>
      simp only [conformsDef] at hc
      cases vs with
      | nil => simp [conformsFields] at hc
      | cons x vs1 =>
        cases x with
        | none => simp [conformsFields] at hc
        | some x =>
          cases vs1 with
          | nil => simp [conformsFields] at hc
          | cons y vs2 =>
            cases y with
            | none => simp [conformsFields] at hc
            | some y =>
              cases vs2 with
              | cons _ _ => simp [conformsFields] at hc
              | nil =>
                simp only [conformsFields, conformsRef, hk10, hk11, Bool.and_true, Bool.and_eq_true] at hc
                cases x with
                | prim l1 d1 =>
                  cases y with
                  | prim l2 d2 =>
                    simp only at hc
                    refine ⟨l1, d1, l2, d2, rfl, ?_, ?_⟩
                    · simp [encodeTyF, henv, encodeDef, encodeFields, encodeField, hk10, hk11,
                        encodeLeaf, leafTag]
                    · intro rest
                      simp [decodeTyF, henv, decodeDef, decodeFields, decodeField, hk10, hk11, isApp,
                        prim_app_roundtrip hc.1, prim_app_roundtrip hc.2]
                  | _ => simp at hc
                | _ => simp at hc
    | _ => simp [conformsDef] at hc

/-- the induction: with fuel above the index, every class of a well-formed
    environment is `Good`, and fails fast where its table entry says so -/
theorem good_all (env : Env) (I : Table) (hwf : WFEnv env I) :
    ∀ fuel τ, τ < fuel →
      Good I (encodeTyF env fuel) (decodeTyF env fuel) (conformsF env fuel) τ ∧
      (τ < env.size → FailFast I (decodeTyF env fuel) τ) := by
  intro fuel
  induction fuel with
  | zero => intro τ h; omega
  | succ fuel ih =>
    intro τ hτ
    have hg : ∀ j, j < τ → Good I (encodeTyF env fuel) (decodeTyF env fuel) (conformsF env fuel) j :=
      fun j hj => (ih j (by omega)).1
    refine ⟨?_, ?_⟩
    · intro v hc
      simp only [conformsF] at hc
      cases henv : env[τ]? with
      | none => simp [henv] at hc
      | some d =>
        rw [henv] at hc
        simp only at hc
        obtain ⟨hinfo, hok⟩ := wf_entry hwf henv
        have hτs : τ < env.size := by
          rcases Nat.lt_or_ge τ env.size with h' | h'
          · exact h'
          · rw [Array.getElem?_eq_none h'] at henv; simp at henv
        have hf : ∀ j, j < τ → FailFast I (decodeTyF env fuel) j :=
          fun j hj => (ih j (by omega)).2 (by omega)
        have := goodDef env I (encodeTyF env fuel) (decodeTyF env fuel) (conformsF env fuel) τ d hinfo hok
          hg hf (fun r j hk => listStop_decode env fuel r j hk)
          (fun dt hdt henv' => dateTime_ok env fuel dt (by omega) henv') v hc
        simpa [encodeTyF, decodeTyF, henv] using this
    · intro hτs hffτ t r hcl hn
      have henv : env[τ]? = some env[τ] := Array.getElem?_eq_getElem hτs
      obtain ⟨hinfo, hok⟩ := wf_entry hwf henv
      have hf : ∀ j, j < τ → FailFast I (decodeTyF env fuel) j :=
        fun j hj => (ih j (by omega)).2 (by omega)
      have := failFastDef env I (decodeTyF env fuel) τ env[τ] hinfo hok hf hffτ t r hcl hn
      simpa [decodeTyF, henv] using this

/-! ## the property theorems -/

/-- **codec_roundtrip** (the main theorem, full strength): in EVERY well-formed
    environment, for EVERY type index and EVERY structurally valid value:
    encoding succeeds, and decoding the encoding — followed by anything the
    follow-set condition allows — returns the value and leaves exactly what
    followed.  No bound on sizes, depths, list lengths or presence patterns. -/
theorem codec_roundtrip (env : Env) (I : Table) (hwf : WFEnv env I) (τ : Nat)
    (v : Val) (hc : conforms env τ v = true) :
    ∃ ts, encodeTy env τ v = .ok ts ∧
      ∀ rest, Safe (look I τ).confus rest → decodeTy env τ (ts ++ rest) = .ok (v, rest) := by
  obtain ⟨ts, he, _, hd⟩ := (good_all env I hwf (τ + 1) τ (Nat.lt_succ_self τ)).1 v hc
  exact ⟨ts, he, hd⟩

/-- first tag of an encoding: never a closing tag, always one the type's `first` set announces -/
theorem codec_first (env : Env) (I : Table) (hwf : WFEnv env I) (τ : Nat)
    (v : Val) (hc : conforms env τ v = true)
    (ts : List Tag) (he : encodeTy env τ v = .ok ts) :
    HeadOK (look I τ).first (look I τ).nullable ts := by
  obtain ⟨ts', he', hh, _⟩ := (good_all env I hwf (τ + 1) τ (Nat.lt_succ_self τ)).1 v hc
  have : ts = ts' := by
    have h1 : encodeTy env τ v = .ok ts' := he'
    rw [he] at h1; simpa using h1
  subst this; exact hh

/-- **pdu_roundtrip**: `APCISequence.decode` (Sequence.decode, then
    TooManyArguments if a tag is left) accepts every encoded PDU and returns the value. -/
theorem pdu_roundtrip (env : Env) (I : Table) (hwf : WFEnv env I) (τ : Nat)
    (v : Val) (hc : conforms env τ v = true) :
    ∃ ts, encodeTy env τ v = .ok ts ∧ decodePdu env τ ts = .ok v := by
  obtain ⟨ts, he, hd⟩ := codec_roundtrip env I hwf τ v hc
  refine ⟨ts, he, ?_⟩
  have := hd [] (Safe.nil _)
  simp only [List.append_nil] at this
  simp [decodePdu, this]

/-- **codec_reencode**: what was decoded from an encoding encodes to the identical tag list
    (hence, through `serializeTags`, to the identical octets). -/
theorem codec_reencode (env : Env) (I : Table) (hwf : WFEnv env I) (τ : Nat)
    (v : Val) (hc : conforms env τ v = true)
    (ts : List Tag) (he : encodeTy env τ v = .ok ts) (v' : Val) (r : List Tag)
    (hd : decodeTy env τ ts = .ok (v', r)) : r = [] ∧ encodeTy env τ v' = .ok ts := by
  obtain ⟨ts', he', hd'⟩ := codec_roundtrip env I hwf τ v hc
  have : ts = ts' := by rw [he] at he'; simpa using he'
  subst this
  have := hd' [] (Safe.nil _)
  simp only [List.append_nil] at this
  rw [hd] at this
  simp only [Except.ok.injEq, Prod.mk.injEq] at this
  obtain ⟨rfl, rfl⟩ := this
  exact ⟨rfl, he⟩

/-- **codec_octets**: composition with C02 — the octets `TagList.encode` produces
    parse back to the same tag list and decode to the value.  No side condition
    any more: `encode_tags_wf` (Props/C03Octets) shows the emitted tags are
    C02-well-formed. -/
theorem codec_octets (env : Env) (I : Table) (hwf : WFEnv env I) (τ : Nat)
    (v : Val) (hc : conforms env τ v = true) :
    ∃ ts, encodeTy env τ v = .ok ts ∧
      parseTags (serializeTags ts) = .ok ts ∧ decodePdu env τ ts = .ok v := by
  obtain ⟨ts, he, hd⟩ := pdu_roundtrip env I hwf τ v hc
  exact ⟨ts, he, C02.taglist_roundtrip ts (encode_tags_wf env I hwf τ v hc ts he), hd⟩

/-- **any_cast_roundtrip**: `Any.cast_out(klass)` of what `Any.cast_in(value)` put
    into an (empty) Any is the value, for every class of a well-formed environment;
    the tags are exactly the encoding of the value (so a PDU carrying the Any has
    the octets of the value between its opening and closing tag). -/
theorem any_cast_roundtrip (env : Env) (I : Table) (hwf : WFEnv env I) (τ : Nat) (d : TyDef)
    (hτ : env[τ]? = some d) (v : Val) (hc : conforms env τ v = true) :
    ∃ ts, castIn env (.ty τ) v = .ok ts ∧ encodeTy env τ v = .ok ts ∧
      castOut env (.ty τ) ts = .ok v := by
  obtain ⟨ts, he, hd⟩ := codec_roundtrip env I hwf τ v hc
  have hdec := hd [] (Safe.nil _)
  simp only [List.append_nil] at hdec
  have hk : kindOf env (.ty τ) = .seqOf τ ∨ kindOf env (.ty τ) = .listOf τ ∨
      kindOf env (.ty τ) = .struct τ := by
    simp only [kindOf, hτ]
    split <;> simp_all
  refine ⟨ts, ?_, he, ?_⟩
  · rcases hk with hk | hk | hk <;> simp [castIn, hk, he]
  · rcases hk with hk | hk | hk <;> simp [castOut, hk, hdec]

/-- the atomic case: one application tag in, the payload out -/
theorem any_cast_roundtrip_atomic (env : Env) (a lvt : Nat) (data : Bytes)
    (h : leafOK a lvt data = true) :
    castIn env (.prim a) (.prim lvt data) = .ok [⟨.app, a, lvt, data⟩] ∧
      castOut env (.prim a) [⟨.app, a, lvt, data⟩] = .ok (.prim lvt data) := by
  constructor
  · simp [castIn, kindOf, leafTag]
  · simp [castOut, kindOf, prim_app_roundtrip h]

/-! ## the generated environment -/

/-- **gen_env_wf**: the environment generated from the live classes of the tree
    under test is well-formed — re-checked by kernel evaluation on every run. -/
theorem gen_env_wf : WFEnv Gen.Schemas.env Gen.Schemas.info := by decide +kernel

theorem lookup_mem {reg : List (Nat × Nat)} {c i : Nat} (h : lookup reg c = some i) : (c, i) ∈ reg := by
  induction reg with
  | nil => simp [lookup] at h
  | cons p r ih =>
    obtain ⟨c', i'⟩ := p
    unfold lookup at h
    split at h
    · simp_all
    · exact List.mem_cons_of_mem _ (ih h)

/-- a registry accepted by `registryOK` sends every service choice it knows to a
    sequence class registered under the right PDU kind -/
theorem registry_lookup (env : Env) (kinds : List (Nat × PduKind)) (k : PduKind)
    (reg : List (Nat × Nat)) (h : registryOK env kinds k reg = true) {c τ : Nat}
    (hl : lookup reg c = some τ) :
    c ≤ 255 ∧ (τ, k) ∈ kinds ∧ ∃ fs, env[τ]? = some (.seq fs) := by
  unfold registryOK at h
  rw [List.all_eq_true] at h
  have := h (c, τ) (lookup_mem hl)
  simp only [Bool.and_eq_true, decide_eq_true_eq, List.contains_iff_mem] at this
  obtain ⟨⟨h1, h2⟩, h3⟩ := this
  refine ⟨h1, h2, ?_⟩
  split at h3
  · rename_i fs heq; exact ⟨fs, heq⟩
  · simp at h3

/-- **registries_total**: the four service registries of apdu.py
    (`confirmed_request_types`, `complex_ack_types`, `unconfirmed_request_types`,
    `error_types`) point at sequences of the right PDU kind. -/
theorem registries_total :
    registryOK Gen.Schemas.env Gen.Schemas.pduKinds .confirmed Gen.Schemas.confirmed = true ∧
    registryOK Gen.Schemas.env Gen.Schemas.pduKinds .complexAck Gen.Schemas.complexAck = true ∧
    registryOK Gen.Schemas.env Gen.Schemas.pduKinds .unconfirmed Gen.Schemas.unconfirmed = true ∧
    registryOK Gen.Schemas.env Gen.Schemas.pduKinds .error Gen.Schemas.error = true := by
  decide +kernel

/-- every registered PDU round-trips through `APCISequence.encode/decode`
    (corollary per registry: confirmed, complexAck, unconfirmed, error) -/
theorem registered_pdu_roundtrip (reg : List (Nat × Nat)) (c τ : Nat)
    (_hl : lookup reg c = some τ) (v : Val) (hc : conforms Gen.Schemas.env τ v = true) :
    ∃ ts, encodeTy Gen.Schemas.env τ v = .ok ts ∧ decodePdu Gen.Schemas.env τ ts = .ok v :=
  pdu_roundtrip _ _ gen_env_wf τ v hc

/-! ## the stack closed at octet level: C01 ∘ C02 ∘ C03 (∘ C07)

    Typed values (`Typed.TVal`: C01 `PrimVal` leaves), `encodeOctets` /
    `decodeOctets` (Model/Typed.lean): value → erase leaves with C01's encoder →
    generic codec → `TagList.encode`;  octets → `TagList.decode` →
    `APCISequence.decode` → read every leaf with C01's decoder of the kind the
    schema names.  No opaque-leaf assumption, no tag well-formedness hypothesis. -/

section Octets
open BacVerif.Typed

/-- **octets_roundtrip**: every well-formed environment, every class, every
    conforming typed value (leaves `Valid`, `Fits`, of the schema's kind):
    the octets decode back to the typed value. -/
theorem octets_roundtrip (env : Env) (I : Table) (hwf : WFEnv env I) (τ : Nat) (tv : TVal)
    (hc : tconforms env τ tv = true) :
    ∃ bs, encodeOctets env τ tv = .ok bs ∧ decodeOctets env τ bs = .ok tv := by
  obtain ⟨v, he, hcv, hty⟩ := typed_erase env τ tv hc
  obtain ⟨ts, henc, hparse, hdec⟩ := codec_octets env I hwf τ v hcv
  exact ⟨serializeTags ts, by simp [encodeOctets, he, henc],
    by simp [decodeOctets, hparse, hdec, hty]⟩

/-- **octets_reencode**: what the octets of a conforming typed value decode to
    re-encodes to the IDENTICAL octets. -/
theorem octets_reencode (env : Env) (I : Table) (hwf : WFEnv env I) (τ : Nat) (tv : TVal)
    (hc : tconforms env τ tv = true) (bs : Bytes) (he : encodeOctets env τ tv = .ok bs)
    (tv' : TVal) (hd : decodeOctets env τ bs = .ok tv') : encodeOctets env τ tv' = .ok bs := by
  obtain ⟨bs', he', hd'⟩ := octets_roundtrip env I hwf τ tv hc
  have : bs = bs' := by rw [he] at he'; simpa using he'
  subst this
  rw [hd] at hd'
  simp only [Except.ok.injEq] at hd'
  subst hd'
  exact he

/-- the four registries of the tree under test -/
def registryOf : Nat → Option (List (Nat × Nat))
  | 0 => some Gen.Schemas.confirmed       -- ConfirmedRequestPDU
  | 1 => some Gen.Schemas.unconfirmed     -- UnconfirmedRequestPDU
  | 3 => some Gen.Schemas.complexAck      -- ComplexAckPDU
  | 5 => some Gen.Schemas.error           -- ErrorPDU
  | _ => none

/-- **pdu_octets_roundtrip**: for EVERY registered PDU type of the generated
    environment (confirmed request, unconfirmed request, complex ack, error) and
    every conforming typed value with Valid leaves: the octets of the PDU body
    parse, decode and type back to the value, and that value re-encodes to the
    identical octets — C01 ∘ C02 ∘ C03. -/
theorem pdu_octets_roundtrip (pduType choice τ : Nat) (reg : List (Nat × Nat))
    (_hreg : registryOf pduType = some reg) (_hl : lookup reg choice = some τ)
    (tv : TVal) (hc : tconforms Gen.Schemas.env τ tv = true) :
    ∃ bs, encodeOctets Gen.Schemas.env τ tv = .ok bs ∧
      decodeOctets Gen.Schemas.env τ bs = .ok tv ∧
      ∀ tv', decodeOctets Gen.Schemas.env τ bs = .ok tv' →
        encodeOctets Gen.Schemas.env τ tv' = .ok bs := by
  obtain ⟨bs, he, hd⟩ := octets_roundtrip _ _ gen_env_wf τ tv hc
  exact ⟨bs, he, hd, fun tv' hd' => octets_reencode _ _ gen_env_wf τ tv hc bs he tv' hd'⟩

/-- a whole APDU: fixed header (C07), then the service parameters -/
def encodeApduTyped (h : Apci) (tv : TVal) : Except Err Bytes :=
  match registryOf h.apduType, h.service with
  | some reg, some choice =>
    match lookup reg choice with
    | none => .error .other
    | some τ =>
      match encodeOctets Gen.Schemas.env τ tv with
      | .error e => .error e
      | .ok body => encodeApdu h body
  | _, _ => .error .other

/-- `APDU.decode`, registry lookup on (PDU type, service choice), `X.decode(apdu)` -/
def decodeApduTyped (bs : Bytes) : Except Err (Apci × TVal) :=
  match decodeApdu bs with
  | .error e => .error e
  | .ok (h, body) =>
    match registryOf h.apduType, h.service with
    | some reg, some choice =>
      match lookup reg choice with
      | none => .error .other
      | some τ =>
        match decodeOctets Gen.Schemas.env τ body with
        | .error e => .error e
        | .ok tv => .ok (h, tv)
    | _, _ => .error .other

/-- **apdu_octets_roundtrip**: header ++ body — C07 ∘ C01 ∘ C02 ∘ C03: a
    well-formed header of one of the four service-carrying PDU types whose
    service choice is registered, and a conforming typed value of the registered
    class, encode to octets that decode to exactly that header and that value. -/
theorem apdu_octets_roundtrip (h : Apci) (hw : C07.WFHeader h = true)
    (reg : List (Nat × Nat)) (choice τ : Nat)
    (hreg : registryOf h.apduType = some reg) (hsvc : h.service = some choice)
    (hl : lookup reg choice = some τ)
    (tv : TVal) (hc : tconforms Gen.Schemas.env τ tv = true) :
    ∃ bs, encodeApduTyped h tv = .ok bs ∧ decodeApduTyped bs = .ok (h, tv) := by
  obtain ⟨body, he, hd⟩ := octets_roundtrip _ _ gen_env_wf τ tv hc
  obtain ⟨bs, hea, hda⟩ := C07.apdu_roundtrip h hw body
  exact ⟨bs, by simp [encodeApduTyped, hreg, hsvc, hl, he, hea],
    by simp [decodeApduTyped, hda, hreg, hsvc, hl, hd]⟩

end Octets

/-! ## non-vacuity -/

section NonVacuity
open Gen.Schemas

/-- type index of a registered service -/
def svc (reg : List (Nat × Nat)) (c : Nat) : Nat := (lookup reg c).getD 0

/-- ReadProperty-ACK (analog-input 5, present-value, index 3, value = `[3] { Real 72.3, [1] { Unsigned 7 } }`) -/
def exAck : Val :=
  .seq [some (.prim 4 [0, 0, 0, 5]), some (.prim 1 [0x55]), some (.prim 1 [3]),
        some (.tags [⟨.app, 4, 4, [0x42, 0x90, 0x99, 0x9a]⟩, ⟨.opening, 1, 0, []⟩,
                     ⟨.app, 2, 1, [7]⟩, ⟨.closing, 1, 0, []⟩])]

example : conforms env (svc complexAck 12) exAck = true := by decide +kernel

/-- the hypotheses of the theorems are met by a non-trivial instance … -/
example : ∃ ts, encodeTy env (svc complexAck 12) exAck = .ok ts ∧ decodePdu env (svc complexAck 12) ts = .ok exAck :=
  pdu_roundtrip env info gen_env_wf _ exAck (by decide +kernel)

/-- … ReadPropertyMultiple-ACK: a context-less list of structures with nested lists and a choice -/
def exRpmAck : Val :=
  .seq [some (.list [
    .seq [some (.prim 4 [0, 0, 0, 5]),
          some (.list [.seq [some (.prim 1 [0x55]), none, some (.choice 0 (.tags [⟨.app, 4, 4, [0, 0, 0, 0]⟩]))],
                       .seq [some (.prim 1 [0x4d]), some (.prim 1 [2]),
                             some (.choice 1 (.seq [some (.prim 1 [2]), some (.prim 1 [32])]))]])],
    .seq [some (.prim 4 [0, 0x80, 0, 1]), some (.list [])]])]

example : ∃ ts, encodeTy env (svc complexAck 14) exRpmAck = .ok ts ∧
    decodePdu env (svc complexAck 14) ts = .ok exRpmAck :=
  pdu_roundtrip env info gen_env_wf _ exRpmAck (by decide +kernel)

/-- … the try / restore path: Who-Has without and with the optional limits structure
    (no context tag; "omitted" is recognised by WhoHasLimits.decode raising InvalidTag) -/
def exWhoHas1 : Val := .seq [none, some (.choice 1 (.prim 4 [0x00, 0x62, 0x6f, 0x78]))]
def exWhoHas2 : Val :=
  .seq [some (.seq [some (.prim 1 [3]), some (.prim 2 [1, 0])]), some (.choice 0 (.prim 4 [0, 0, 0, 7]))]

example : ∃ ts, encodeTy env (svc unconfirmed 7) exWhoHas1 = .ok ts ∧
    decodePdu env (svc unconfirmed 7) ts = .ok exWhoHas1 :=
  pdu_roundtrip env info gen_env_wf _ exWhoHas1 (by decide +kernel)
example : ∃ ts, encodeTy env (svc unconfirmed 7) exWhoHas2 = .ok ts ∧
    decodePdu env (svc unconfirmed 7) ts = .ok exWhoHas2 :=
  pdu_roundtrip env info gen_env_wf _ exWhoHas2 (by decide +kernel)

/-- … and the hand-written NameValue codec inside a list: no value, a primitive
    value, a date-time value (two application tags read through DateTime.decode) -/
def tyNamed (n : String) : Nat := names.toList.idxOf n
def exNameValues : Val :=
  .list [.seq [some (.prim 2 [0, 0x61]), none],
         .seq [some (.prim 2 [0, 0x62]), some (.atom 10 4 [124, 2, 29, 4])],
         .seq [some (.prim 2 [0, 0x63]), some (.seq [some (.prim 4 [124, 2, 29, 4]), some (.prim 4 [12, 0, 0, 0])])],
         .seq [some (.prim 2 [0, 0x64]), some (.atom 4 4 [0x3f, 0x80, 0, 0])]]

example : ∃ ts, encodeTy env (tyNamed "SequenceOfNameValue") exNameValues = .ok ts ∧
    decodePdu env (tyNamed "SequenceOfNameValue") ts = .ok exNameValues :=
  pdu_roundtrip env info gen_env_wf _ exNameValues (by decide +kernel)

/-- the predicate is not trivially true: an optional element that can be mistaken
    for the required one after it is refused (same context number twice) … -/
def ambiguous : Env := #[.seq [⟨.prim 2, some 0, true⟩, ⟨.prim 2, some 0, false⟩]]
example : ¬ WFEnv ambiguous (mkInfo ambiguous) := by decide +kernel

/-- … as are a context number that does not fit a tag, a constructed choice
    alternative without context, and a list whose element may be empty -/
example : ¬ WFEnv #[.choice [⟨.prim 9, some 370, false⟩]] (mkInfo #[.choice [⟨.prim 9, some 370, false⟩]]) := by
  decide +kernel
example : ¬ WFEnv #[.seq [⟨.prim 2, some 0, false⟩], .choice [⟨.prim 2, none, false⟩, ⟨.ty 0, none, false⟩]]
    (mkInfo #[.seq [⟨.prim 2, some 0, false⟩], .choice [⟨.prim 2, none, false⟩, ⟨.ty 0, none, false⟩]]) := by
  decide +kernel
example : ¬ WFEnv #[.seq [⟨.prim 2, some 0, true⟩], .list .seqof (.ty 0) none]
    (mkInfo #[.seq [⟨.prim 2, some 0, true⟩], .list .seqof (.ty 0) none]) := by
  decide +kernel

/-- the follow-set condition is needed: an Any without context swallows what follows -/
example : decodeTy #[.any] 0 ([⟨.app, 2, 1, [1]⟩] ++ [⟨.app, 2, 1, [2]⟩]) =
    .ok (.tags [⟨.app, 2, 1, [1]⟩, ⟨.app, 2, 1, [2]⟩], []) := by rfl

end NonVacuity

/-! ## non-vacuity of the octet-level theorems, and Annex F at APDU level (TESTS) -/

section OctetExamples
open Gen.Schemas BacVerif.Typed

/-- ReadProperty-ACK of F.3.5 as a TYPED value: (analog-input, 5), present-value (85), Real 72.3 -/
def exAckT : TVal :=
  .seq [some (.prim (.oid 0 5)), some (.prim (.enum 85)), none,
        some (.tags [⟨.app, 4, 4, [0x42, 0x90, 0x99, 0x9A]⟩])]

example : tconforms env (svc complexAck 12) exAckT = true := by decide +kernel

/-- ReadPropertyMultiple-ACK with typed leaves of six primitive kinds, a nested list, a choice -/
def exRpmAckT : TVal :=
  .seq [some (.list [
    .seq [some (.prim (.oid 0 5)),
          some (.list [.seq [some (.prim (.enum 85)), none, some (.choice 0 (.tags [⟨.app, 4, 4, [0, 0, 0, 0]⟩]))],
                       .seq [some (.prim (.enum 77)), some (.prim (.unsigned 70000)),
                             some (.choice 1 (.seq [some (.prim (.enum 2)), some (.prim (.enum 32))]))]])],
    .seq [some (.prim (.oid 8 4194303)), some (.list [])]])]

example : ∃ bs, encodeOctets env (svc complexAck 14) exRpmAckT = .ok bs ∧
    decodeOctets env (svc complexAck 14) bs = .ok exRpmAckT :=
  octets_roundtrip env info gen_env_wf _ exRpmAckT (by decide +kernel)

/-- a leaf of the wrong kind (an Unsigned where the schema names an Enumerated), an
    unrepresentable one (Unsigned 2^32) and an out-of-range object type are refused -/
example : tconforms env (svc complexAck 12)
    (.seq [some (.prim (.oid 0 5)), some (.prim (.unsigned 85)), none, some (.tags [])]) = false := by
  decide +kernel
example : tconforms env (svc confirmed 12)
    (.seq [some (.prim (.oid 0 5)), some (.prim (.enum 85)), some (.prim (.unsigned 4294967296))]) = false := by
  decide +kernel
example : tconforms env (svc confirmed 12)
    (.seq [some (.prim (.oid 1024 5)), some (.prim (.enum 85)), none]) = false := by decide +kernel

def bytesEq (r : Except Err Bytes) (bs : Bytes) : Bool :=
  match r with | .ok x => x == bs | .error _ => false
def apduEq (r : Except Err (Apci × TVal)) (h : Apci) (tv : TVal) : Bool :=
  match r with | .ok (h', tv') => h' == h && tv'.beq tv | .error _ => false

/-- TEST F.3.5, the complete APDU of the ack: `30 01 0C` + parameters, from the typed value and back -/
example : bytesEq (encodeApduTyped (Apci.mkComplexAck none false 1 12) exAckT)
    [0x30, 0x01, 0x0C, 0x0C, 0x00, 0x00, 0x00, 0x05, 0x19, 0x55, 0x3E, 0x44, 0x42, 0x90, 0x99, 0x9A, 0x3F] = true := by
  decide +kernel
example : apduEq (decodeApduTyped
    [0x30, 0x01, 0x0C, 0x0C, 0x00, 0x00, 0x00, 0x05, 0x19, 0x55, 0x3E, 0x44, 0x42, 0x90, 0x99, 0x9A, 0x3F])
    (Apci.mkComplexAck none false 1 12) exAckT = true := by decide +kernel

/-- TEST I-Am, complete APDU `10 00 …`: (device, 3), 1024, no-segmentation (3), vendor 99 -/
def exIAmT : TVal :=
  .seq [some (.prim (.oid 8 3)), some (.prim (.unsigned 1024)), some (.prim (.enum 3)), some (.prim (.unsigned 99))]
example : bytesEq (encodeApduTyped (Apci.mkUnconfirmed 0) exIAmT)
    [0x10, 0x00, 0xC4, 0x02, 0x00, 0x00, 0x03, 0x22, 0x04, 0x00, 0x91, 0x03, 0x21, 0x63] = true := by
  decide +kernel
example : apduEq (decodeApduTyped
    [0x10, 0x00, 0xC4, 0x02, 0x00, 0x00, 0x03, 0x22, 0x04, 0x00, 0x91, 0x03, 0x21, 0x63])
    (Apci.mkUnconfirmed 0) exIAmT = true := by decide +kernel

/-- TEST Who-Is 3..3, complete APDU `10 08 09 03 19 03` -/
example : bytesEq (encodeApduTyped (Apci.mkUnconfirmed 8) (.seq [some (.prim (.unsigned 3)), some (.prim (.unsigned 3))]))
    [0x10, 0x08, 0x09, 0x03, 0x19, 0x03] = true := by decide +kernel

/-- the hypotheses of `apdu_octets_roundtrip` are met -/
example : ∃ bs, encodeApduTyped (Apci.mkComplexAck none false 1 12) exAckT = .ok bs ∧
    decodeApduTyped bs = .ok (Apci.mkComplexAck none false 1 12, exAckT) :=
  apdu_octets_roundtrip _ (by decide +kernel) complexAck 12 (svc complexAck 12) rfl rfl (by decide +kernel)
    exAckT (by decide +kernel)

end OctetExamples

/-! ## Annex F worked examples — TESTS (a finite list is not the theorem)

    Octets and parameter values are recalled from the standard (135, Annex F);
    each example is also run against the implementation by harness/c03.py
    (`annex-f` stream).  `annexOK`: the published octets decode (through the
    registry, `TagList.decode`, `APCISequence.decode`) to the published value and
    the value encodes to exactly the published octets. -/

section AnnexF
open Gen.Schemas

def annexOK (reg : List (Nat × Nat)) (choice : Nat) (octets : Bytes) (v : Val) : Bool :=
  match lookup reg choice with
  | none => false
  | some τ =>
    (match parseTags octets with
     | .error _ => false
     | .ok ts => match decodePdu env τ ts with
       | .ok v' => v'.beq v
       | .error _ => false) &&
    (match encodeTy env τ v with
     | .ok ts => serializeTags ts == octets
     | .error _ => false)

/-- TEST F.3.5 ReadProperty request: (analog-input, 5), present-value -/
example : annexOK confirmed 12 [0x0C, 0x00, 0x00, 0x00, 0x05, 0x19, 0x55]
    (.seq [some (.prim 4 [0, 0, 0, 5]), some (.prim 1 [85]), none]) = true := by decide +kernel

/-- TEST F.3.5 ReadProperty ack: value Real 72.3 = X'4290999A' -/
example : annexOK complexAck 12
    [0x0C, 0x00, 0x00, 0x00, 0x05, 0x19, 0x55, 0x3E, 0x44, 0x42, 0x90, 0x99, 0x9A, 0x3F]
    (.seq [some (.prim 4 [0, 0, 0, 5]), some (.prim 1 [85]), none,
           some (.tags [⟨.app, 4, 4, [0x42, 0x90, 0x99, 0x9A]⟩])]) = true := by decide +kernel

/-- TEST Who-Is with limits 3..3 -/
example : annexOK unconfirmed 8 [0x09, 0x03, 0x19, 0x03]
    (.seq [some (.prim 1 [3]), some (.prim 1 [3])]) = true := by decide +kernel

/-- TEST Who-Is without limits: no parameter octets at all -/
example : annexOK unconfirmed 8 [] (.seq [none, none]) = true := by decide +kernel

/-- TEST I-Am: (device, 3), max APDU 1024, no segmentation (3), vendor 99 -/
example : annexOK unconfirmed 0
    [0xC4, 0x02, 0x00, 0x00, 0x03, 0x22, 0x04, 0x00, 0x91, 0x03, 0x21, 0x63]
    (.seq [some (.prim 4 [2, 0, 0, 3]), some (.prim 2 [4, 0]), some (.prim 1 [3]), some (.prim 1 [99])]) = true := by
  decide +kernel

/-- TEST F.3.9 WriteProperty request: (analog-value, 1), present-value, Real 180.0, priority 8 -/
example : annexOK confirmed 15
    [0x0C, 0x00, 0x80, 0x00, 0x01, 0x19, 0x55, 0x3E, 0x44, 0x43, 0x34, 0x00, 0x00, 0x3F, 0x49, 0x08]
    (.seq [some (.prim 4 [0, 0x80, 0, 1]), some (.prim 1 [85]), none,
           some (.tags [⟨.app, 4, 4, [0x43, 0x34, 0, 0]⟩]), some (.prim 1 [8])]) = true := by decide +kernel

/-- TEST SubscribeCOV request: process 18, (analog-input, 10), confirmed, lifetime 0 -/
example : annexOK confirmed 5
    [0x09, 0x12, 0x1C, 0x00, 0x00, 0x00, 0x0A, 0x29, 0x01, 0x39, 0x00]
    (.seq [some (.prim 1 [18]), some (.prim 4 [0, 0, 0, 10]), some (.prim 1 []), some (.prim 1 [0])]) = true := by
  decide +kernel

end AnnexF

end BacVerif.C03
