/- C03 (work in progress: theorems are added below) -/
import BacVerif.Model.Codec
import BacVerif.Model.SchemaWF
import BacVerif.Gen.Schemas
namespace BacVerif.C03
open BacVerif BacVerif.Schema BacVerif.Codec

theorem lookup_mem {reg : List (Nat × Nat)} {c i : Nat} (h : lookup reg c = some i) : (c, i) ∈ reg := by
  induction reg with
  | nil => simp [lookup] at h
  | cons p r ih =>
    obtain ⟨c', i'⟩ := p
    unfold lookup at h
    split at h
    · simp_all
    · exact List.mem_cons_of_mem _ (ih h)

end BacVerif.C03
