/-
  C18 — Addresses parse, print, compare and hash coherently in every notation.

  Property text → formal statement (model: Model/Addr.lean, after the repairs
  fixes/C18-*.patch)
  * "Every address notation the library accepts (station numbers, net:station,
    net:*, *, *:*, dotted IPv4 with optional mask and port, hex and X'' octet
    strings with optional network, address/port tuples, raw octets) yields the
    address type, network number, station octets … that the notation denotes"
        → `parse_fields_*` : for ANY digit string / hex string (not just printed
          ones): `parse_fields_star`, `_global`, `_station`, `_net_station`,
          `_net_broadcast`, `_hex`, `_net_hex`, `_xhex`, `_net_xhex`, `_ethernet`, `_ip`, `_net_ip`;
          `fields_int`, `fields_bytes`, `fields_tuple_int`, `fields_tuple_str`,
          `fields_ctor2`, `fields_typed`, `inetAton_dotted4` (tuple and text forms read a quad alike)
  * "and – for IP forms – the subnet, host and directed-broadcast values"
        → `parse_fields_ip` gives the helper fields as the code's `&`,`|`,`~`
          expressions; `ip_arith` / `ip_values` (from Lemmas/AddrIP.lean: `maskOf_eq`,
          `hostOf_eq`, `subnetOf_eq`, `bcastOf_eq`, `ip_split`) turn them into
          `2^32-2^(32-n)`, `ip - ip % 2^(32-n)`, `ip % 2^(32-n)`, `subnet + 2^(32-n) - 1`
          for every 32-bit address and all 33 mask lengths
  * "network numbers above 65534 and station numbers above 255 are refused"
        → `range_refused_station`, `range_refused_net_station`, `range_refused_net`,
          `range_refused_mask`, `range_refused_port`, `range_refused_int`,
          `range_refused_ctor2`, `range_refused_typed`, and in closed form
          `parse_wf` : whatever `parse` accepts is well formed (net ≤ 65534, ≥ 1 octet)
  * "Printing an address and parsing the text gives an equal address"
        → `print_parse` (for every well-formed address, any octet-string length ≥ 1)
          and `parse_print_parse` (for every text the parser accepts)
  * "equality is an equivalence relation"       → `eq_refl`, `eq_symm`, `eq_trans`, `eq_iff_key`
  * "equal addresses hash equally so they address the same entry"
        → `eq_hash` (and `hash_eq`: the hashed key determines equality, so distinct
          addresses are distinct keys)
  Outside the claim: route suffixes, non-ASCII digits, interface names.
-/
import BacVerif.Lemmas.AddrParse
import BacVerif.Lemmas.AddrIP
namespace BacVerif.C18
open BacVerif BacVerif.Addr

deriving instance DecidableEq for Except

/-! ## parse_fields: what each notation yields -/

theorem parse_fields_star : parse ['*'] = .ok ⟨.localBroadcast, none, none, none⟩ := by decide

theorem parse_fields_global : parse ['*', ':', '*'] = .ok ⟨.globalBroadcast, none, none, none⟩ := by
  decide

/-- station number: any non-empty digit string of value ≤ 255 -/
theorem parse_fields_station (ds : List Char) (hne : ds ≠ []) (hd : allDigits ds = true)
    (hr : decVal ds ≤ 255) :
    parse ds = .ok ⟨.localStation, none, some [UInt8.ofNat (decVal ds)], none⟩ := by
  have hs : ds ≠ ['*'] := by intro e; subst e; revert hd; decide
  have h1 : ∀ r, ds ≠ '*' :: ':' :: r := by
    intro r e; subst e; exact absurd (head_isDig hd) (by simp [isDig_star])
  rw [parse_plain ds (.dec ds) hs (noNl_of_allDigits ds hd) (matchBody_dec ds hne hd) h1
    (by simp [digits_self ds hd])]
  have : ¬ decVal ds ≥ 256 := by omega
  simp [interp, interpPfx, interpBody, this]

example : parse "254".toList = .ok ⟨.localStation, none, some [254], none⟩ := by decide
example : parse "007".toList = .ok ⟨.localStation, none, some [7], none⟩ := by decide

/-- `net:station` -/
theorem parse_fields_net_station (ns ds : List Char) (hn : ns ≠ [] ∧ allDigits ns = true)
    (hd : ds ≠ [] ∧ allDigits ds = true) (hnr : decVal ns ≤ 65534) (hr : decVal ds ≤ 255) :
    parse (ns ++ ':' :: ds) =
      .ok ⟨.remoteStation, some (decVal ns), some [UInt8.ofNat (decVal ds)], none⟩ := by
  rw [parse_net ns ds (.dec ds) hn.1 hn.2 (noNl_of_allDigits ds hd.2) (matchBody_dec ds hd.1 hd.2)]
  have h1 : ¬ decVal ns ≥ 65535 := by omega
  have h2 : ¬ decVal ds ≥ 256 := by omega
  simp [interp, interpPfx, interpBody, h1, h2]

example : parse "65534:255".toList = .ok ⟨.remoteStation, some 65534, some [255], none⟩ := by decide

/-- `net:*` -/
theorem parse_fields_net_broadcast (ns : List Char) (hn : ns ≠ [] ∧ allDigits ns = true)
    (hnr : decVal ns ≤ 65534) :
    parse (ns ++ [':', '*']) = .ok ⟨.remoteBroadcast, some (decVal ns), none, none⟩ := by
  rw [parse_net ns ['*'] .star hn.1 hn.2 (by decide) matchBody_star]
  have h1 : ¬ decVal ns ≥ 65535 := by omega
  simp [interp, interpPfx, interpBody, h1]

example : parse "65534:*".toList = .ok ⟨.remoteBroadcast, some 65534, none, none⟩ := by decide

/-- `0x` hex octet string (either case), one or more octets -/
theorem parse_fields_hex (hs : List Char) (bs : Bytes) (h : hexBytes hs = some bs) (hne : bs ≠ []) :
    parse ('0' :: 'x' :: hs) = .ok ⟨.localStation, none, some bs, none⟩ := by
  rw [parse_plain _ (.hex bs) (by simp) (by simp [noNl_cons, noNl_of_hexBytes hs bs h])
    (matchBody_hex hs bs h hne) (by simp) (by simp [digits_0x])]
  simp [interp, interpPfx, interpBody]

example : parse "0xAbcd".toList = .ok ⟨.localStation, none, some [0xAB, 0xCD], none⟩ := by decide

/-- `net:0x…` -/
theorem parse_fields_net_hex (ns hs : List Char) (bs : Bytes) (hn : ns ≠ [] ∧ allDigits ns = true)
    (hnr : decVal ns ≤ 65534) (h : hexBytes hs = some bs) (hne : bs ≠ []) :
    parse (ns ++ ':' :: '0' :: 'x' :: hs) = .ok ⟨.remoteStation, some (decVal ns), some bs, none⟩ := by
  rw [parse_net ns _ (.hex bs) hn.1 hn.2 (by simp [noNl_cons, noNl_of_hexBytes hs bs h])
    (matchBody_hex hs bs h hne)]
  have h1 : ¬ decVal ns ≥ 65535 := by omega
  simp [interp, interpPfx, interpBody, h1]

example : parse "12:0x0102030405".toList =
    .ok ⟨.remoteStation, some 12, some [1, 2, 3, 4, 5], none⟩ := by decide

/-- The model omits five fall-through branches of `decode_address`
    (`^\d+$`, `^\d+:[*]$`, `^\d+:\d+$`, `^0x(HH)+$`, `^\d+:0x(HH)+$`): every text of
    these five shapes is already matched by `combined_pattern`, so the code
    returns before reaching them. -/
theorem combined_shadows (ns ds hs : List Char) (bs : Bytes)
    (hn : ns ≠ [] ∧ allDigits ns = true) (hd : ds ≠ [] ∧ allDigits ds = true)
    (h : hexBytes hs = some bs) (hne : bs ≠ []) :
    (matchCombined ds).isSome = true ∧
    (matchCombined (ns ++ [':', '*'])).isSome = true ∧
    (matchCombined (ns ++ ':' :: ds)).isSome = true ∧
    (matchCombined ('0' :: 'x' :: hs)).isSome = true ∧
    (matchCombined (ns ++ ':' :: '0' :: 'x' :: hs)).isSome = true := by
  have h1 : ∀ r, ds ≠ '*' :: ':' :: r := by
    intro r e; subst e; exact absurd (head_isDig hd.2) (by simp [isDig_star])
  refine ⟨?_, ?_, ?_, ?_, ?_⟩
  · rw [matchCombined_plain ds (.dec ds) (matchBody_dec ds hd.1 hd.2) h1
      (by simp [digits_self ds hd.2])]; rfl
  · rw [matchCombined_net ns ['*'] (some .star) hn.1 hn.2 matchBody_star]; rfl
  · rw [matchCombined_net ns ds (some (.dec ds)) hn.1 hn.2 (matchBody_dec ds hd.1 hd.2)]; rfl
  · rw [matchCombined_plain _ (.hex bs) (matchBody_hex hs bs h hne) (by simp) (by simp [digits_0x])]
    rfl
  · rw [matchCombined_net ns _ (some (.hex bs)) hn.1 hn.2 (matchBody_hex hs bs h hne)]; rfl

/-! ### X'..' (falls through `combined_pattern`) -/

theorem hexUntilQuote_of_hexBytes (hs : List Char) :
    ∀ bs : Bytes, hexBytes hs = some bs → hexUntilQuote (hs ++ ['\'']) = some bs := by
  fun_induction hexBytes hs with
  | case1 => intro bs h; simp at h; subst h; decide
  | case2 c => intro bs h; simp at h
  | case3 a b r x y bs' hr hy hx ih =>
    intro bs h
    simp at h; subst h
    simp [hexUntilQuote, hx, hy, ih bs' hr]
  | case4 => intro bs h; simp at h

theorem noNl_nil : noNl [] = true := rfl

theorem hexBytes_bad_head (c d : Char) (hc : hexVal c = none) : hexBytes [c, d] = none := by
  simp [hexBytes, hc]

/-- a group that does not start with a hex digit is no ethernet group -/
theorem ethGroups_bad_head (n : Nat) (c : Char) (r : List Char) (hc : hexVal c = none) :
    ethGroups n (c :: r) = none := by
  cases n with
  | zero =>
    unfold ethGroups
    split
    · rename_i a b heq; simp at heq; obtain ⟨rfl, _⟩ := heq; exact hexBytes_bad_head _ _ hc
    · rfl
  | succ n =>
    unfold ethGroups
    split
    · rename_i a b r' heq; simp at heq; obtain ⟨rfl, _⟩ := heq
      simp [hexBytes_bad_head _ _ hc]
    · rfl

theorem hexVal_X : hexVal 'X' = none := by decide

theorem parse_fields_xhex (hs : List Char) (bs : Bytes) (h : hexBytes hs = some bs) (hne : bs ≠ []) :
    parse ('X' :: '\'' :: (hs ++ ['\''])) = .ok ⟨.localStation, none, some bs, none⟩ := by
  have hq := hexUntilQuote_of_hexBytes _ bs h
  have hnl := noNl_of_hexBytes _ bs h
  have hstrip : stripNl ('X' :: '\'' :: (hs ++ ['\''])) = 'X' :: '\'' :: (hs ++ ['\'']) := by
    apply stripNl_id
    simp [noNl_cons, noNl_append, noNl_nil, hnl]
  have hcomb : matchCombined ('X' :: '\'' :: (hs ++ ['\''])) = none := by
    simp [matchCombined, matchBody, digits, isDig_X]
  have heth : matchEthernet ('X' :: '\'' :: (hs ++ ['\''])) = none :=
    ethGroups_bad_head 5 'X' _ hexVal_X
  cases bs with
  | nil => exact absurd rfl hne
  | cons b0 bt =>
    simp only [parse, hstrip, hcomb, heth]
    simp [matchXHex, hq, mkLocalStation]

example : parse "X'0aFF'".toList = .ok ⟨.localStation, none, some [10, 255], none⟩ := by decide

theorem parse_fields_net_xhex (ns hs : List Char) (bs : Bytes) (hn : ns ≠ [] ∧ allDigits ns = true)
    (hnr : decVal ns ≤ 65534) (h : hexBytes hs = some bs) (hne : bs ≠ []) :
    parse (ns ++ ':' :: 'X' :: '\'' :: (hs ++ ['\''])) =
      .ok ⟨.remoteStation, some (decVal ns), some bs, none⟩ := by
  have hq := hexUntilQuote_of_hexBytes _ bs h
  have hnl := noNl_of_hexBytes _ bs h
  obtain ⟨t1, t2⟩ := net_text_ne ns ('X' :: '\'' :: (hs ++ ['\''])) hn.1 hn.2
  have hstrip : stripNl (ns ++ ':' :: 'X' :: '\'' :: (hs ++ ['\''])) =
      ns ++ ':' :: 'X' :: '\'' :: (hs ++ ['\'']) := by
    apply stripNl_id
    simp [noNl_cons, noNl_append, noNl_nil, hnl, noNl_of_allDigits ns hn.2]
  have hbody : matchBody ('X' :: '\'' :: (hs ++ ['\''])) = none := by
    simp [matchBody, digits, isDig_X]
  have hcomb := matchCombined_net ns _ none hn.1 hn.2 hbody
  have hdig := digits_append ns (':' :: 'X' :: '\'' :: (hs ++ ['\''])) hn.2
    (by simp [noDigHead, isDig_colon])
  have hXc : 'X' ≠ ':' := by decide
  -- no digit string followed by `:X'hh…` is an ethernet address
  have heth : matchEthernet (ns ++ ':' :: 'X' :: '\'' :: (hs ++ ['\''])) = none := by
    obtain ⟨hne', hall⟩ := hn
    match ns, hne', hall with
    | [c1], _, _ => simp [matchEthernet, ethGroups, hXc]
    | [c1, c2], _, _ =>
      have := ethGroups_bad_head 4 'X' ('\'' :: (hs ++ ['\''])) hexVal_X
      simp only [matchEthernet, List.cons_append, List.nil_append]
      rw [ethGroups]
      simp [this]
    | c1 :: c2 :: c3 :: t, _, hall =>
      have h3 : isDig c3 = true := by simp [allDigits] at hall; exact hall.2.2.1
      have : c3 ≠ ':' := by intro e; subst e; simp [isDig_colon] at h3
      simp [matchEthernet, ethGroups, this]
  have hx : matchXHex (ns ++ ':' :: 'X' :: '\'' :: (hs ++ ['\''])) = none := by
    obtain ⟨hne', hall⟩ := hn
    cases ns with
    | nil => exact absurd rfl hne'
    | cons c t =>
      have : c ≠ 'X' := by
        intro e; subst e; exact absurd (head_isDig hall) (by simp [isDig_X])
      simp [matchXHex, this]
  have h1 : ¬ decVal ns ≥ 65535 := by omega
  cases bs with
  | nil => exact absurd rfl hne
  | cons b0 bt =>
    have hnx : matchNetXHex (ns ++ ':' :: 'X' :: '\'' :: (hs ++ ['\''])) =
        some (ns, b0 :: bt) := by
      cases ns with
      | nil => exact absurd rfl hn.1
      | cons c t =>
        unfold matchNetXHex
        simp only [hdig]
        simp [matchXHex, hq]
    simp only [parse, if_neg t1, if_neg t2, hstrip, hcomb, Option.map, heth, hx, hnx]
    simp [h1, mkRemoteStation]

example : parse "65534:X'0aFF'".toList = .ok ⟨.remoteStation, some 65534, some [10, 255], none⟩ := by
  decide

/-! ### ethernet notation (falls through `combined_pattern`) -/

theorem hex_char_ne (c : Char) (v : Nat) (h : hexVal c = some v) :
    c ≠ '*' ∧ c ≠ ':' ∧ c ≠ 'x' ∧ c ≠ '.' ∧ c ≠ '\n' := by
  have h' : (hexVal c).isSome = true := by simp [h]
  refine ⟨?_, ?_, ?_, ?_, ?_⟩ <;> (intro e; subst e; revert h'; decide)

/-- no `HH:HH:…` text is matched by `combined_pattern` -/
theorem matchCombined_eth (a1 a2 b1 b2 : Char) (r : List Char) (v1 v2 w1 w2 : Nat)
    (ha1 : hexVal a1 = some v1) (ha2 : hexVal a2 = some v2)
    (hb1 : hexVal b1 = some w1) (hb2 : hexVal b2 = some w2) :
    matchCombined (a1 :: a2 :: ':' :: b1 :: b2 :: ':' :: r) = none := by
  obtain ⟨p1, p2, p3, p4, _⟩ := hex_char_ne a1 v1 ha1
  obtain ⟨q1, q2, q3, q4, _⟩ := hex_char_ne a2 v2 ha2
  obtain ⟨r1, r2, r3, r4, _⟩ := hex_char_ne b1 w1 hb1
  obtain ⟨s1, s2, s3, s4, _⟩ := hex_char_ne b2 w2 hb2
  have hbody : matchBody (b1 :: b2 :: ':' :: r) = none := by
    by_cases d1 : isDig b1 = true
    · by_cases d2 : isDig b2 = true
      · simp [matchBody, digits, d1, d2, isDig_colon]
      · simp [matchBody, digits, d1, d2, s3, s4]
    · simp [matchBody, digits, d1]
  unfold matchCombined
  split
  · rename_i heq; simp at heq; exact absurd heq.1 p1
  · by_cases d1 : isDig a1 = true
    · by_cases d2 : isDig a2 = true
      · simp [digits, d1, d2, isDig_colon, hbody]
      · simp [digits, d1, d2, q2, matchBody, q3, q4]
    · simp [digits, d1, matchBody]

/-- ethernet notation `HH:HH:HH:HH:HH:HH` (falls through `combined_pattern`) -/
theorem parse_fields_ethernet (a1 a2 b1 b2 c1 c2 d1 d2 e1 e2 f1 f2 : Char)
    (va1 va2 vb1 vb2 vc1 vc2 vd1 vd2 ve1 ve2 vf1 vf2 : Nat)
    (ha1 : hexVal a1 = some va1) (ha2 : hexVal a2 = some va2)
    (hb1 : hexVal b1 = some vb1) (hb2 : hexVal b2 = some vb2)
    (hc1 : hexVal c1 = some vc1) (hc2 : hexVal c2 = some vc2)
    (hd1 : hexVal d1 = some vd1) (hd2 : hexVal d2 = some vd2)
    (he1 : hexVal e1 = some ve1) (he2 : hexVal e2 = some ve2)
    (hf1 : hexVal f1 = some vf1) (hf2 : hexVal f2 = some vf2) :
    parse [a1, a2, ':', b1, b2, ':', c1, c2, ':', d1, d2, ':', e1, e2, ':', f1, f2] =
      .ok ⟨.localStation, none,
        some [UInt8.ofNat (16 * va1 + va2), UInt8.ofNat (16 * vb1 + vb2), UInt8.ofNat (16 * vc1 + vc2),
              UInt8.ofNat (16 * vd1 + vd2), UInt8.ofNat (16 * ve1 + ve2), UInt8.ofNat (16 * vf1 + vf2)],
        none⟩ := by
  have hcomb := matchCombined_eth a1 a2 b1 b2 [c1, c2, ':', d1, d2, ':', e1, e2, ':', f1, f2]
    va1 va2 vb1 vb2 ha1 ha2 hb1 hb2
  have n1 := (hex_char_ne a1 _ ha1).2.2.2.2; have n2 := (hex_char_ne a2 _ ha2).2.2.2.2
  have n3 := (hex_char_ne b1 _ hb1).2.2.2.2; have n4 := (hex_char_ne b2 _ hb2).2.2.2.2
  have n5 := (hex_char_ne c1 _ hc1).2.2.2.2; have n6 := (hex_char_ne c2 _ hc2).2.2.2.2
  have n7 := (hex_char_ne d1 _ hd1).2.2.2.2; have n8 := (hex_char_ne d2 _ hd2).2.2.2.2
  have n9 := (hex_char_ne e1 _ he1).2.2.2.2; have n10 := (hex_char_ne e2 _ he2).2.2.2.2
  have n11 := (hex_char_ne f1 _ hf1).2.2.2.2; have n12 := (hex_char_ne f2 _ hf2).2.2.2.2
  have hstrip : stripNl [a1, a2, ':', b1, b2, ':', c1, c2, ':', d1, d2, ':', e1, e2, ':', f1, f2] =
      [a1, a2, ':', b1, b2, ':', c1, c2, ':', d1, d2, ':', e1, e2, ':', f1, f2] := by
    apply stripNl_id
    simp [noNl_cons, noNl_nil, n1, n2, n3, n4, n5, n6, n7, n8, n9, n10, n11, n12]
  have heth : matchEthernet [a1, a2, ':', b1, b2, ':', c1, c2, ':', d1, d2, ':', e1, e2, ':', f1, f2] =
      some [UInt8.ofNat (16 * va1 + va2), UInt8.ofNat (16 * vb1 + vb2), UInt8.ofNat (16 * vc1 + vc2),
            UInt8.ofNat (16 * vd1 + vd2), UInt8.ofNat (16 * ve1 + ve2), UInt8.ofNat (16 * vf1 + vf2)] := by
    simp [matchEthernet, ethGroups, hexBytes, ha1, ha2, hb1, hb2, hc1, hc2, hd1, hd2, he1, he2, hf1, hf2]
  simp only [parse, hstrip, hcomb, heth]
  simp [mkLocalStation]

example : parse "01:02:0a:0B:fF:00".toList = .ok ⟨.localStation, none, some [1, 2, 10, 11, 255, 0], none⟩ := by
  decide +kernel


/-! ### dotted IPv4 with optional mask and port -/

/-- value of an optional decimal group with its default -/
def optVal (o : Option (List Char)) (dflt : Nat) : Nat :=
  match o with
  | none => dflt
  | some ds => decVal ds

theorem noNl_optSuffix (sep : Char) (o : Option (List Char)) (hs : sep ≠ '\n')
    (h : optDigits o = true) : noNl (optSuffix sep o) = true := by
  cases o with
  | none => rfl
  | some ds =>
    simp [optDigits] at h
    simp [optSuffix, noNl_cons, hs, noNl_of_allDigits ds h.2]

theorem noNl_ipText (a b c d : List Char) (mask port : Option (List Char))
    (ha : allDigits a = true) (hb : allDigits b = true) (hc : allDigits c = true)
    (hd : allDigits d = true) (hm : optDigits mask = true) (hp : optDigits port = true) :
    noNl (ipText a b c d mask port) = true := by
  simp [ipText, noNl_append, noNl_cons, noNl_of_allDigits, ha, hb, hc, hd,
    noNl_optSuffix '/' mask (by decide) hm, noNl_optSuffix ':' port (by decide) hp]

/-- the IP helper fields the code computes, as the code computes them -/
def ipInfoOf (a b c d : List Char) (ip n p : Nat) : IPInfo :=
  { ip := ip, mask := maskOf n, host := some (hostOf ip (maskOf n)),
    subnet := some (subnetOf ip (maskOf n)), port := p, tupHost := dotted4 a b c d,
    bcastHost := ntoa (bcastOf ip (maskOf n)) }

theorem interpBody_ip (a b c d : List Char) (mask port : Option (List Char))
    (va vb vc vd : Nat) (pa : atonPart a = some va) (pb : atonPart b = some vb)
    (pc : atonPart c = some vc) (pd : atonPart d = some vd)
    (ra : va < 256) (rb : vb < 256) (rc : vc < 256) (rd : vd < 256)
    (hmask : optVal mask 32 ≤ 32) (hport : optVal port 47808 ≤ 65535) :
    interpBody (.ip a b c d mask port) =
      .ok (some (be32 (va * 16777216 + vb * 65536 + vc * 256 + vd) ++ be16 (optVal port 47808)),
           some (ipInfoOf a b c d (va * 16777216 + vb * 65536 + vc * 256 + vd)
                  (optVal mask 32) (optVal port 47808))) := by
  have e1 : decVal (port.getD ['4', '7', '8', '0', '8']) = optVal port 47808 := by
    cases port with
    | none => decide
    | some ds => rfl
  have e2 : decVal (mask.getD ['3', '2']) = optVal mask 32 := by
    cases mask with
    | none => decide
    | some ds => rfl
  have h1 : ¬ optVal port 47808 > 65535 := by omega
  have h2 : ¬ optVal mask 32 > 32 := by omega
  simp only [interpBody, ipFromStr, e1, e2, if_neg h1, if_neg h2, inetAton4, pa, pb, pc, pd]
  simp [ra, rb, rc, rd, ipInfoOf]

/-- dotted IPv4 `a.b.c.d[/mask][:port]`: any digit strings that `inet_aton`
    reads as octets, mask ≤ 32, port ≤ 65535 -/
theorem parse_fields_ip (a b c d : List Char) (mask port : Option (List Char))
    (ha : a ≠ [] ∧ allDigits a = true) (hb : b ≠ [] ∧ allDigits b = true)
    (hc : c ≠ [] ∧ allDigits c = true) (hd : d ≠ [] ∧ allDigits d = true)
    (hm : optDigits mask = true) (hp : optDigits port = true)
    (va vb vc vd : Nat) (pa : atonPart a = some va) (pb : atonPart b = some vb)
    (pc : atonPart c = some vc) (pd : atonPart d = some vd)
    (ra : va < 256) (rb : vb < 256) (rc : vc < 256) (rd : vd < 256)
    (hmask : optVal mask 32 ≤ 32) (hport : optVal port 47808 ≤ 65535) :
    parse (ipText a b c d mask port) =
      .ok ⟨.localStation, none,
           some (be32 (va * 16777216 + vb * 65536 + vc * 256 + vd) ++ be16 (optVal port 47808)),
           some (ipInfoOf a b c d (va * 16777216 + vb * 65536 + vc * 256 + vd)
                  (optVal mask 32) (optVal port 47808))⟩ := by
  have hbody := matchBody_ip a b c d mask port ha hb hc hd hm hp
  have hnl := noNl_ipText a b c d mask port ha.2 hb.2 hc.2 hd.2 hm hp
  have hdig : digits (ipText a b c d mask port) = (a, '.' :: (b ++ '.' :: (c ++ '.' :: (d ++
      (optSuffix '/' mask ++ optSuffix ':' port))))) :=
    digits_append _ _ ha.2 (by simp [noDigHead, isDig_dot])
  have hhead : ∀ r, ipText a b c d mask port ≠ '*' :: r := by
    obtain ⟨hne, hall⟩ := ha
    cases a with
    | nil => exact absurd rfl hne
    | cons x t =>
      have := ne_star_of_isDig (head_isDig hall)
      intro r; simp [ipText, this]
  rw [parse_plain _ _ (hhead _) hnl hbody (fun r => hhead _) (by simp [hdig])]
  simp only [interp, interpPfx,
    interpBody_ip a b c d mask port va vb vc vd pa pb pc pd ra rb rc rd hmask hport]

example : parse "10.1.2.3/24:47809".toList =
    .ok ⟨.localStation, none, some [10, 1, 2, 3, 0xBA, 0xC1],
         some { ip := 167838211, mask := 4294967040, host := some 3, subnet := some 167838208,
                port := 47809, tupHost := "10.1.2.3".toList, bcastHost := "10.1.2.255".toList }⟩ := by
  decide +kernel

/-- `net:a.b.c.d[/mask][:port]` -/
theorem parse_fields_net_ip (ns a b c d : List Char) (mask port : Option (List Char))
    (hn : ns ≠ [] ∧ allDigits ns = true) (hnr : decVal ns ≤ 65534)
    (ha : a ≠ [] ∧ allDigits a = true) (hb : b ≠ [] ∧ allDigits b = true)
    (hc : c ≠ [] ∧ allDigits c = true) (hd : d ≠ [] ∧ allDigits d = true)
    (hm : optDigits mask = true) (hp : optDigits port = true)
    (va vb vc vd : Nat) (pa : atonPart a = some va) (pb : atonPart b = some vb)
    (pc : atonPart c = some vc) (pd : atonPart d = some vd)
    (ra : va < 256) (rb : vb < 256) (rc : vc < 256) (rd : vd < 256)
    (hmask : optVal mask 32 ≤ 32) (hport : optVal port 47808 ≤ 65535) :
    parse (ns ++ ':' :: ipText a b c d mask port) =
      .ok ⟨.remoteStation, some (decVal ns),
           some (be32 (va * 16777216 + vb * 65536 + vc * 256 + vd) ++ be16 (optVal port 47808)),
           some (ipInfoOf a b c d (va * 16777216 + vb * 65536 + vc * 256 + vd)
                  (optVal mask 32) (optVal port 47808))⟩ := by
  have hbody := matchBody_ip a b c d mask port ha hb hc hd hm hp
  have hnl := noNl_ipText a b c d mask port ha.2 hb.2 hc.2 hd.2 hm hp
  rw [parse_net ns _ _ hn.1 hn.2 hnl hbody]
  have h1 : ¬ decVal ns ≥ 65535 := by omega
  simp only [interp, interpPfx, if_neg h1,
    interpBody_ip a b c d mask port va vb vc vd pa pb pc pd ra rb rc rd hmask hport]

/-- a digit string without a leading zero (or "0" itself) is read in decimal -/
theorem atonPart_decimal (c : Char) (r : List Char) (h : c ≠ '0' ∨ r = []) :
    atonPart (c :: r) = some (decVal (c :: r)) := by
  unfold atonPart
  by_cases hc : c = '0'
  · have hr : r = [] := by rcases h with h | h; exact absurd hc h; exact h
    subst hc; subst hr; decide
  · simp [hc]

/-! ### `(host, port)` tuples read dotted quads like the text form -/

theorem splitDots_cons (c : Char) (r : List Char) :
    splitDots (c :: r) = match splitDots r with
      | [] => [[c]]
      | p :: ps => if c = '.' then [] :: p :: ps else (c :: p) :: ps := rfl

theorem splitDots_ne_nil (s : List Char) : ∃ p ps, splitDots s = p :: ps := by
  induction s with
  | nil => exact ⟨[], [], rfl⟩
  | cons c r ih =>
    obtain ⟨p, ps, h⟩ := ih
    rw [splitDots_cons, h]
    by_cases hc : c = '.'
    · exact ⟨[], p :: ps, by simp [hc]⟩
    · exact ⟨c :: p, ps, by simp [hc]⟩

theorem allDigits_no_dot (c : Char) (h : isDig c = true) : c ≠ '.' := by
  intro e; subst e; simp [isDig_dot] at h

theorem splitDots_digits (d : List Char) (h : allDigits d = true) : splitDots d = [d] := by
  induction d with
  | nil => rfl
  | cons c t ih =>
    simp [allDigits] at h
    have := ih (by simp [allDigits]; exact h.2)
    rw [splitDots_cons, this]
    simp [allDigits_no_dot c h.1]

theorem splitDots_append (a r : List Char) (h : allDigits a = true) :
    splitDots (a ++ '.' :: r) = a :: splitDots r := by
  induction a with
  | nil =>
    obtain ⟨p, ps, hp⟩ := splitDots_ne_nil r
    show splitDots ('.' :: r) = _
    rw [splitDots_cons, hp]
    simp
  | cons c t ih =>
    simp [allDigits] at h
    have := ih (by simp [allDigits]; exact h.2)
    show splitDots (c :: (t ++ '.' :: r)) = _
    rw [splitDots_cons, this]
    simp [allDigits_no_dot c h.1]

/-- the tuple form and the text form read a dotted quad alike -/
theorem inetAton_dotted4 (a b c d : List Char) (ha : allDigits a = true) (hb : allDigits b = true)
    (hc : allDigits c = true) (hd : allDigits d = true) :
    inetAton (dotted4 a b c d) = inetAton4 a b c d := by
  unfold inetAton dotted4
  rw [splitDots_append a _ ha, splitDots_append b _ hb, splitDots_append c _ hc, splitDots_digits d hd]
  unfold inetAton4
  cases h1 : atonPart a <;> cases h2 : atonPart b <;> cases h3 : atonPart c <;>
    cases h4 : atonPart d <;> simp [atonParts, ha, hb, hc, hd, h1, h2, h3, h4]

/-- the IP helper values are what the notation denotes: for every 32-bit
    address and each of the 33 mask lengths the code's `&`, `|`, `~`, `<<`
    expressions equal netmask / network / host part / directed broadcast -/
theorem ip_arith (ip n : Nat) (hip : ip < 2 ^ 32) (hn : n ≤ 32) :
    maskOf n = 2 ^ 32 - 2 ^ (32 - n) ∧
    subnetOf ip (maskOf n) = ip - ip % 2 ^ (32 - n) ∧
    hostOf ip (maskOf n) = ip % 2 ^ (32 - n) ∧
    bcastOf ip (maskOf n) = ip - ip % 2 ^ (32 - n) + (2 ^ (32 - n) - 1) :=
  ⟨maskOf_eq n hn, subnetOf_eq ip n hip hn, hostOf_eq ip n hn, bcastOf_eq ip n hip hn⟩

/-- … and they fit together: subnet + host = ip, host below the block size,
    subnet aligned, broadcast = last address of the block, all within 32 bits -/
theorem ip_values (ip n : Nat) (hip : ip < 2 ^ 32) (hn : n ≤ 32) :
    subnetOf ip (maskOf n) + hostOf ip (maskOf n) = ip ∧
    hostOf ip (maskOf n) < 2 ^ (32 - n) ∧
    subnetOf ip (maskOf n) % 2 ^ (32 - n) = 0 ∧
    bcastOf ip (maskOf n) = subnetOf ip (maskOf n) + (2 ^ (32 - n) - 1) ∧
    subnetOf ip (maskOf n) ≤ ip ∧ ip ≤ bcastOf ip (maskOf n) ∧ bcastOf ip (maskOf n) < 2 ^ 32 :=
  ip_split ip n hip hn

example : maskOf 24 = 0xFFFFFF00 ∧ subnetOf 0xC0A80137 (maskOf 24) = 0xC0A80100 ∧
    hostOf 0xC0A80137 (maskOf 24) = 0x37 ∧ bcastOf 0xC0A80137 (maskOf 24) = 0xC0A801FF := by decide

/-- the octets of a dotted quad are below 2^32 -/
theorem quad_lt (va vb vc vd : Nat) (ra : va < 256) (rb : vb < 256) (rc : vc < 256) (rd : vd < 256) :
    va * 16777216 + vb * 65536 + vc * 256 + vd < 2 ^ 32 := by
  have : (2 : Nat) ^ 32 = 4294967296 := by decide
  omega

/-! ### the other argument types and the typed constructors -/

/-- integer station numbers 0..255 -/
theorem fields_int (n : Int) (h0 : 0 ≤ n) (h1 : n < 256) :
    ofInt n = .ok ⟨.localStation, none, some [UInt8.ofNat n.toNat], none⟩ ∧
    localStationInt n = .ok ⟨.localStation, none, some [UInt8.ofNat n.toNat], none⟩ := by
  have : ¬ (n < 0 ∨ n ≥ 256) := by omega
  simp [ofInt, localStationInt, this, mkLocalStation]

/-- raw octets of any length are kept as they are; six octets also yield IP helper fields -/
theorem fields_bytes (bs : Bytes) :
    ∃ info, ofBytes bs = .ok ⟨.localStation, none, some bs, info⟩ ∧
      (bs.length ≠ 6 → info = none) ∧
      (bs.length = 6 → ∃ i, info = some i ∧ i.ip = beVal (bs.take 4) ∧ i.port = beVal (bs.drop 4) ∧
        i.mask = 4294967295 ∧ i.subnet = some (subnetOf i.ip longMask)) := by
  unfold ofBytes
  by_cases h : bs.length = 6
  · simp [h, longMask]
  · simp [h, mkLocalStation]

/-- `(host, port)` with an integer host: the host is taken modulo 2^32 (the
    code's `addr & _long_mask`), the port must be 0..65535 -/
theorem fields_tuple_int (h p : Int) (h0 : 0 ≤ p) (h1 : p ≤ 65535) :
    ∃ info, ofTupleInt h p = .ok ⟨.localStation, none,
      some (be32 (h % 4294967296).toNat ++ be16 p.toNat), some info⟩ ∧
      info.ip = (h % 4294967296).toNat ∧ info.port = p.toNat ∧
      info.tupHost = ntoa (h % 4294967296).toNat := by
  have : ¬ (p < 0 ∨ p > 65535) := by omega
  simp [ofTupleInt, this, tupleAddr]

/-- `(host, port)` with a dotted host string -/
theorem fields_tuple_str (hs : List Char) (ip : Nat) (p : Int) (hne : hs ≠ [])
    (hip : inetAton hs = some ip) (h0 : 0 ≤ p) (h1 : p ≤ 65535) :
    ∃ info, ofTupleStr hs p = .ok ⟨.localStation, none, some (be32 ip ++ be16 p.toNat), some info⟩ ∧
      info.ip = ip ∧ info.port = p.toNat ∧ info.tupHost = hs := by
  have : ¬ (p < 0 ∨ p > 65535) := by omega
  simp [ofTupleStr, this, hne, hip, tupleAddr]

example : (ofTupleStr "1.2.3.4".toList 47808).toOption.map eqKey =
    some (2, none, some [1, 2, 3, 4, 0xBA, 0xC0]) := by decide +kernel

/-- `Address(net, x)`: a local station / local broadcast becomes remote on `net` -/
theorem fields_ctor2 (net : Int) (a : Addr) (h0 : 0 ≤ net) (h1 : net ≤ 65534) :
    (a.ty = .localStation → ctor2 net (.ok a) =
        .ok { a with ty := .remoteStation, net := some net.toNat }) ∧
    (a.ty = .localBroadcast → ctor2 net (.ok a) =
        .ok { a with ty := .remoteBroadcast, net := some net.toNat }) ∧
    (a.ty ≠ .localStation → a.ty ≠ .localBroadcast → ctor2 net (.ok a) = .error .valueRange) := by
  have : ¬ (net < 0 ∨ net ≥ 65535) := by omega
  refine ⟨?_, ?_, ?_⟩
  · intro h; simp [ctor2, this, h]
  · intro h; simp [ctor2, this, h]
  · intro h h'; simp [ctor2, this, h, h']

/-- RemoteStation / RemoteBroadcast -/
theorem fields_typed (net n : Int) (bs : Bytes) (h0 : 0 ≤ net) (h1 : net ≤ 65534)
    (hn0 : 0 ≤ n) (hn1 : n < 256) :
    remoteStationInt net n = .ok ⟨.remoteStation, some net.toNat, some [UInt8.ofNat n.toNat], none⟩ ∧
    remoteStationBytes net bs = .ok ⟨.remoteStation, some net.toNat, some bs, none⟩ ∧
    remoteBroadcast net = .ok ⟨.remoteBroadcast, some net.toNat, none, none⟩ := by
  have a : ¬ (net < 0 ∨ net ≥ 65535) := by omega
  have b : ¬ (n < 0 ∨ n ≥ 256) := by omega
  simp [remoteStationInt, remoteStationBytes, remoteBroadcast, a, b, mkRemoteStation, mkRemoteBroadcast]

/-! ## range_refused -/

/-- a station number above 255 is refused -/
theorem range_refused_station (ds : List Char) (hne : ds ≠ []) (hd : allDigits ds = true)
    (h : decVal ds > 255) : parse ds = .error .valueRange := by
  have hs : ds ≠ ['*'] := by intro e; subst e; revert hd; decide
  have h1 : ∀ r, ds ≠ '*' :: ':' :: r := by
    intro r e; subst e; exact absurd (head_isDig hd) (by simp [isDig_star])
  rw [parse_plain ds (.dec ds) hs (noNl_of_allDigits ds hd) (matchBody_dec ds hne hd) h1
    (by simp [digits_self ds hd])]
  have : decVal ds ≥ 256 := by omega
  simp [interp, interpPfx, interpBody, this]

example : parse "256".toList = .error .valueRange := by decide

/-- `net:BODY` with a network above 65534 is refused whatever the body is -/
theorem range_refused_net (ns r : List Char) (b : Body) (hn : ns ≠ [] ∧ allDigits ns = true)
    (hnl : noNl r = true) (hb : matchBody r = some b) (h : decVal ns > 65534) :
    parse (ns ++ ':' :: r) = .error .valueRange := by
  rw [parse_net ns r b hn.1 hn.2 hnl hb]
  have : decVal ns ≥ 65535 := by omega
  cases b <;> simp [interp, interpPfx, this]

example : parse "65535:*".toList = .error .valueRange := by decide
example : parse "65535:1.2.3.4".toList = .error .valueRange := by decide +kernel

/-- `net:station` is refused when either number is out of range -/
theorem range_refused_net_station (ns ds : List Char) (hn : ns ≠ [] ∧ allDigits ns = true)
    (hd : ds ≠ [] ∧ allDigits ds = true) (h : decVal ns > 65534 ∨ decVal ds > 255) :
    parse (ns ++ ':' :: ds) = .error .valueRange := by
  rw [parse_net ns ds (.dec ds) hn.1 hn.2 (noNl_of_allDigits ds hd.2) (matchBody_dec ds hd.1 hd.2)]
  by_cases h1 : decVal ns ≥ 65535
  · simp [interp, interpPfx, h1]
  · have : decVal ds ≥ 256 := by omega
    simp [interp, interpPfx, interpBody, h1, this]

example : parse "1:256".toList = .error .valueRange := by decide
example : parse "70000:5".toList = .error .valueRange := by decide

/-- a mask length above 32 is refused (with or without a network prefix) -/
theorem range_refused_mask (a b c d : List Char) (mask port : Option (List Char))
    (h : optVal mask 32 > 32) : ∀ p, ∃ e, interp (p, .ip a b c d mask port) = .error e := by
  intro p
  have e2 : decVal (mask.getD ['3', '2']) = optVal mask 32 := by
    cases mask with
    | none => decide
    | some ds => rfl
  have hip : ∃ e, ipFromStr a b c d mask port = .error e := by
    unfold ipFromStr
    simp only [e2]
    by_cases hp : decVal (port.getD ['4', '7', '8', '0', '8']) > 65535
    · exact ⟨.valueRange, by simp [hp]⟩
    · cases hq : inetAton4 a b c d with
      | none => exact ⟨.other, by simp [hp]⟩
      | some ip => exact ⟨.valueRange, by simp [hp, h]⟩
  obtain ⟨e, he⟩ := hip
  have he' : interpBody (.ip a b c d mask port) = .error e := by simp [interpBody, he]
  unfold interp
  cases interpPfx p (.ip a b c d mask port) with
  | error e' => exact ⟨e', rfl⟩
  | ok v => exact ⟨e, by simp [he']⟩

theorem range_refused_mask_text (a b c d : List Char) (mask port : Option (List Char))
    (ha : a ≠ [] ∧ allDigits a = true) (hb : b ≠ [] ∧ allDigits b = true)
    (hc : c ≠ [] ∧ allDigits c = true) (hd : d ≠ [] ∧ allDigits d = true)
    (hm : optDigits mask = true) (hp : optDigits port = true) (h : optVal mask 32 > 32) :
    (∃ e, parse (ipText a b c d mask port) = .error e) ∧
    (∀ ns, ns ≠ [] → allDigits ns = true →
      ∃ e, parse (ns ++ ':' :: ipText a b c d mask port) = .error e) := by
  have hbody := matchBody_ip a b c d mask port ha hb hc hd hm hp
  have hnl := noNl_ipText a b c d mask port ha.2 hb.2 hc.2 hd.2 hm hp
  constructor
  · have hdig : digits (ipText a b c d mask port) = (a, '.' :: (b ++ '.' :: (c ++ '.' :: (d ++
        (optSuffix '/' mask ++ optSuffix ':' port))))) :=
      digits_append _ _ ha.2 (by simp [noDigHead, isDig_dot])
    have hhead : ∀ r, ipText a b c d mask port ≠ '*' :: r := by
      obtain ⟨hne, hall⟩ := ha
      cases a with
      | nil => exact absurd rfl hne
      | cons x t =>
        have := ne_star_of_isDig (head_isDig hall)
        intro r; simp [ipText, this]
    rw [parse_plain _ _ (hhead _) hnl hbody (fun r => hhead _) (by simp [hdig])]
    exact range_refused_mask a b c d mask port h _
  · intro ns h1 h2
    rw [parse_net ns _ _ h1 h2 hnl hbody]
    exact range_refused_mask a b c d mask port h _

example : ∃ e, parse "1.2.3.4/33".toList = .error e := ⟨.valueRange, by decide +kernel⟩

/-- a port above 65535 is refused (repaired behaviour) -/
theorem range_refused_port (a b c d : List Char) (mask port : Option (List Char))
    (h : optVal port 47808 > 65535) :
    interpBody (.ip a b c d mask port) = .error .valueRange := by
  have e1 : decVal (port.getD ['4', '7', '8', '0', '8']) = optVal port 47808 := by
    cases port with
    | none => decide
    | some ds => rfl
  simp [interpBody, ipFromStr, e1, h]

example : parse "1.2.3.4:65536".toList = .error .valueRange := by decide +kernel

/-- integer stations outside 0..255 are refused by every constructor -/
theorem range_refused_int (n : Int) (h : n < 0 ∨ n > 255) :
    ofInt n = .error .valueRange ∧ localStationInt n = .error .valueRange ∧
    ∀ net, remoteStationInt net n = .error .valueRange := by
  have : n < 0 ∨ n ≥ 256 := by omega
  refine ⟨by simp [ofInt, this], by simp [localStationInt, this], ?_⟩
  intro net; unfold remoteStationInt; split
  · rfl
  · simp

/-- networks outside 0..65534 are refused by every constructor that takes
    one, including the two-argument `Address(net, x)` (repaired behaviour) -/
theorem range_refused_ctor (net : Int) (h : net < 0 ∨ net > 65534) :
    (∀ d, ctor2 net d = .error .valueRange) ∧ remoteBroadcast net = .error .valueRange ∧
    (∀ n, remoteStationInt net n = .error .valueRange) ∧
    (∀ bs, remoteStationBytes net bs = .error .valueRange) := by
  have : net < 0 ∨ net ≥ 65535 := by omega
  simp [ctor2, remoteBroadcast, remoteStationInt, remoteStationBytes, this]

example : ctor2 70000 (ofInt 5) = .error .valueRange := by decide

/-- tuple ports outside 0..65535 are refused (repaired behaviour) -/
theorem range_refused_tuple_port (p : Int) (h : p < 0 ∨ p > 65535) :
    (∀ hs, ofTupleStr hs p = .error .valueRange) ∧ (∀ hi, ofTupleInt hi p = .error .valueRange) := by
  simp [ofTupleStr, ofTupleInt, h]

/-- `*:<station>` is refused (repaired behaviour): `*` as a network is only `*:*` -/
theorem star_net_refused (b : Body) (h : b ≠ .star) : interp (.star, b) = .error .valueRange := by
  cases b <;> simp_all [interp, interpPfx]

example : parse "*:5".toList = .error .valueRange := by decide

/-! ## well-formed addresses: what the property quantifies over -/

def stationOK : Option Bytes → Prop
  | some bs => bs ≠ []
  | none => False

def netOK : Option Nat → Prop
  | some n => n < 65535
  | none => False

instance (o : Option Bytes) : Decidable (stationOK o) := by
  cases o <;> unfold stationOK <;> exact inferInstance

instance (o : Option Nat) : Decidable (netOK o) := by
  cases o <;> unfold netOK <;> exact inferInstance

/-- the addresses the library hands out: a network 0..65534 exactly on the
    remote types, one or more octets exactly on the station types -/
def WFAddr (a : Addr) : Prop :=
  match a.ty with
  | .null => False
  | .localBroadcast => a.net = none ∧ a.addr = none
  | .globalBroadcast => a.net = none ∧ a.addr = none
  | .localStation => a.net = none ∧ stationOK a.addr
  | .remoteBroadcast => netOK a.net ∧ a.addr = none
  | .remoteStation => netOK a.net ∧ stationOK a.addr

instance (a : Addr) : Decidable (WFAddr a) := by
  unfold WFAddr; cases a.ty <;> exact inferInstance

/-- the bodies `matchBody` returns carry at least one octet -/
def bodyOK : Body → Prop
  | .hex bs => bs ≠ []
  | _ => True

theorem matchIPTail_ok (a s : List Char) (b : Body) (h : matchIPTail a s = some b) : bodyOK b := by
  unfold matchIPTail at h
  simp only at h
  repeat' split at h
  all_goals first
    | (simp at h; done)
    | (simp at h; obtain ⟨_, rfl⟩ := h; trivial)
    | (simp at h; subst h; trivial)

theorem matchBody_ok (s : List Char) (b : Body) (h : matchBody s = some b) : bodyOK b := by
  unfold matchBody at h
  simp only at h
  repeat' split at h
  all_goals first
    | (simp at h; done)
    | exact matchIPTail_ok _ _ _ h
    | (simp at h; subst h; trivial)

theorem matchCombined_ok (s : List Char) (p : Pfx) (b : Body) (h : matchCombined s = some (p, b)) :
    bodyOK b := by
  unfold matchCombined at h
  repeat' split at h
  all_goals (simp at h; exact matchBody_ok _ _ h.1)

theorem be_ne_nil (ip p : Nat) : be32 ip ++ be16 p ≠ [] := by simp [be32]

theorem interp_wf (p : Pfx) (b : Body) (a : Addr) (hb : bodyOK b) (h : interp (p, b) = .ok a) :
    WFAddr a := by
  unfold interp at h
  cases b with
  | star =>
    cases p with
    | none => simp [interpPfx, interpBody] at h; subst h; simp [WFAddr]
    | star => simp [interpPfx, interpBody] at h; subst h; simp [WFAddr]
    | net ds =>
      by_cases hn : decVal ds ≥ 65535
      · simp [interpPfx, hn] at h
      · simp [interpPfx, interpBody, hn] at h; subst h
        simp [WFAddr, netOK]; omega
  | dec ds =>
    by_cases hd : decVal ds ≥ 256
    · cases p <;> simp [interpPfx, interpBody, hd] at h <;> (split at h <;> simp at h)
    · cases p with
      | none => simp [interpPfx, interpBody, hd] at h; subst h; simp [WFAddr, stationOK]
      | star => simp [interpPfx] at h
      | net ns =>
        by_cases hn : decVal ns ≥ 65535
        · simp [interpPfx, hn] at h
        · simp [interpPfx, interpBody, hn, hd] at h; subst h
          simp [WFAddr, netOK, stationOK]; omega
  | hex bs =>
    have : bs ≠ [] := hb
    cases p with
    | none => simp [interpPfx, interpBody] at h; subst h; simp [WFAddr, stationOK, this]
    | star => simp [interpPfx] at h
    | net ns =>
      by_cases hn : decVal ns ≥ 65535
      · simp [interpPfx, hn] at h
      · simp [interpPfx, interpBody, hn] at h; subst h
        simp [WFAddr, netOK, stationOK, this]; omega
  | ip x y z w mask port =>
    cases hip : ipFromStr x y z w mask port with
    | error e => cases p <;> simp [interpPfx, interpBody, hip] at h <;> (split at h <;> simp at h)
    | ok v =>
      obtain ⟨bs, info⟩ := v
      have hbs : bs ≠ [] := by
        unfold ipFromStr at hip
        simp only at hip
        split at hip
        · simp at hip
        · split at hip
          · simp at hip
          · split at hip
            · simp at hip
            · simp at hip; rw [← hip.1]; exact be_ne_nil _ _
      cases p with
      | none => simp [interpPfx, interpBody, hip] at h; subst h; simp [WFAddr, stationOK, hbs]
      | star => simp [interpPfx] at h
      | net ns =>
        by_cases hn : decVal ns ≥ 65535
        · simp [interpPfx, hn] at h
        · simp [interpPfx, interpBody, hn, hip] at h; subst h
          simp [WFAddr, netOK, stationOK, hbs]; omega

theorem hexBytes_pair_len (a b : Char) (x : Bytes) (h : hexBytes [a, b] = some x) : x ≠ [] := by
  simp only [hexBytes] at h
  split at h
  · simp at h; subst h; simp
  · simp at h

theorem ethGroups_ne_nil (n : Nat) (s : List Char) (bs : Bytes) (h : ethGroups n s = some bs) :
    bs ≠ [] := by
  cases n with
  | zero =>
    unfold ethGroups at h
    split at h
    · exact hexBytes_pair_len _ _ _ h
    · simp at h
  | succ n =>
    unfold ethGroups at h
    split at h
    · split at h
      · rename_i x y hx _
        simp at h; subst h
        have := hexBytes_pair_len _ _ _ hx
        simp [this]
      · simp at h
    · simp at h

theorem matchXHex_ne_nil (s : List Char) (bs : Bytes) (h : matchXHex s = some bs) : bs ≠ [] := by
  unfold matchXHex at h
  repeat' split at h
  all_goals first
    | (simp at h; done)
    | skip
  rename_i bs' hne _
  simp at h; subst h
  intro e; exact hne e

/-- **range_refused, closed form**: whatever text `parse` accepts, the result is
    well formed — in particular its network number is ≤ 65534 and a station
    has at least one octet.  No text yields network 65535 or above. -/
theorem parse_wf (s : List Char) (a : Addr) (h : parse s = .ok a) : WFAddr a := by
  unfold parse at h
  split at h
  · simp at h; subst h; simp [WFAddr, mkLocalBroadcast]
  · split at h
    · simp at h; subst h; simp [WFAddr, mkGlobalBroadcast]
    · simp only at h
      split at h
      · rename_i pb hc
        obtain ⟨p, b⟩ := pb
        exact interp_wf p b a (matchCombined_ok _ p b hc) h
      · split at h
        · rename_i bs he
          simp at h; subst h
          simp [WFAddr, mkLocalStation, stationOK, ethGroups_ne_nil _ _ _ he]
        · split at h
          · rename_i bs hx
            simp at h; subst h
            simp [WFAddr, mkLocalStation, stationOK, matchXHex_ne_nil _ _ hx]
          · split at h
            · rename_i ns bs hnx
              have hbs : bs ≠ [] := by
                unfold matchNetXHex at hnx
                split at hnx
                · simp at hnx
                  exact matchXHex_ne_nil _ _ hnx.1
                · simp at hnx
              split at h
              · simp at h
              · rename_i hn
                simp at h; subst h
                simp [WFAddr, mkRemoteStation, netOK, stationOK, hbs]; omega
            · simp at h

theorem parse_net_range (s : List Char) (a : Addr) (h : parse s = .ok a) :
    ∀ n, a.net = some n → n ≤ 65534 := by
  intro n hn
  have := parse_wf s a h
  unfold WFAddr at this
  cases hty : a.ty <;> simp [hty, hn, netOK] at this <;> omega

/-! ## print_parse -/

/-- what the recogniser sees in the printed station part -/
structure StationText (bs : Bytes) (s : List Char) (b : Body) : Prop where
  body : matchBody s = some b
  val : ∃ info, interpBody b = .ok (some bs, info)
  nl : noNl s = true
  nostar : ∀ r, s ≠ '*' :: r
  nocolon : ∀ r, (digits s).2 ≠ ':' :: r
  notstar : b ≠ .star

theorem printDec_head (n : Nat) : ∀ r, printDec n ≠ '*' :: r := by
  obtain ⟨hall, _, _, c, t, he, _⟩ := printDec_spec n
  intro r e
  rw [he] at hall e
  have := ne_star_of_isDig (head_isDig hall)
  simp at e; exact this e.1

theorem be16_pair (p0 p1 : UInt8) : be16 (p0.toNat * 256 + p1.toNat) = [p0, p1] := by
  have h0 := p0.toNat_lt; have h1 := p1.toNat_lt
  have e1 : (p0.toNat * 256 + p1.toNat) / 256 % 256 = p0.toNat := by omega
  have e2 : (p0.toNat * 256 + p1.toNat) % 256 = p1.toNat := by omega
  simp [be16, e1, e2]

theorem be32_quad (b0 b1 b2 b3 : UInt8) :
    be32 (b0.toNat * 16777216 + b1.toNat * 65536 + b2.toNat * 256 + b3.toNat) = [b0, b1, b2, b3] := by
  have h0 := b0.toNat_lt; have h1 := b1.toNat_lt; have h2 := b2.toNat_lt; have h3 := b3.toNat_lt
  have e0 : (b0.toNat * 16777216 + b1.toNat * 65536 + b2.toNat * 256 + b3.toNat) / 16777216 % 256
      = b0.toNat := by omega
  have e1 : (b0.toNat * 16777216 + b1.toNat * 65536 + b2.toNat * 256 + b3.toNat) / 65536 % 256
      = b1.toNat := by omega
  have e2 : (b0.toNat * 16777216 + b1.toNat * 65536 + b2.toNat * 256 + b3.toNat) / 256 % 256
      = b2.toNat := by omega
  have e3 : (b0.toNat * 16777216 + b1.toNat * 65536 + b2.toNat * 256 + b3.toNat) % 256
      = b3.toNat := by omega
  simp [be32, e0, e1, e2, e3]

/-- a single octet prints as its decimal value -/
theorem stationText_one (x : UInt8) : StationText [x] (printDec x.toNat) (.dec (printDec x.toNat)) where
  body := matchBody_dec _ (printDec_ne_nil _) (printDec_allDigits _)
  val := by
    have := x.toNat_lt
    have h : ¬ x.toNat ≥ 256 := by omega
    exact ⟨none, by simp [interpBody, decVal_printDec, h]⟩
  nl := noNl_of_allDigits _ (printDec_allDigits _)
  nostar := printDec_head _
  nocolon := by simp [digits_self _ (printDec_allDigits _)]
  notstar := by simp

/-- any octet string of one or more octets, as `0x…` -/
theorem stationText_hex (bs : Bytes) (hne : bs ≠ []) :
    StationText bs ('0' :: 'x' :: hexOf bs) (.hex bs) where
  body := matchBody_hex _ bs (hexBytes_hexOf bs) hne
  val := ⟨none, by simp [interpBody]⟩
  nl := by simp [noNl_cons, noNl_hexOf]
  nostar := by simp
  nocolon := by simp [digits_0x]
  notstar := by simp

/-- the optional `:port` of `__str__` -/
def portOpt (port : Nat) : Option (List Char) :=
  if port ≠ 47808 then some (printDec port) else none

/-- six octets with a port in 47808..47823 as dotted quad (and port unless 47808) -/
theorem stationText_ip (b0 b1 b2 b3 p0 p1 : UInt8)
    (hhi : p0.toNat * 256 + p1.toNat ≤ 47823) :
    StationText [b0, b1, b2, b3, p0, p1]
      (ipText (printDec b0.toNat) (printDec b1.toNat) (printDec b2.toNat) (printDec b3.toNat) none
        (portOpt (p0.toNat * 256 + p1.toNat)))
      (.ip (printDec b0.toNat) (printDec b1.toNat) (printDec b2.toNat) (printDec b3.toNat) none
        (portOpt (p0.toNat * 256 + p1.toNat))) := by
  have hd : ∀ n, printDec n ≠ [] ∧ allDigits (printDec n) = true :=
    fun n => ⟨printDec_ne_nil n, printDec_allDigits n⟩
  have hpo : optDigits (portOpt (p0.toNat * 256 + p1.toNat)) = true := by
    unfold portOpt
    split
    · simp [optDigits, printDec_allDigits, printDec_ne_nil]
    · rfl
  have hpv : optVal (portOpt (p0.toNat * 256 + p1.toNat)) 47808 = p0.toNat * 256 + p1.toNat := by
    unfold portOpt
    split
    · simp [optVal, decVal_printDec]
    · rename_i h; simp at h; simp [optVal, h]
  have hdig : digits (ipText (printDec b0.toNat) (printDec b1.toNat) (printDec b2.toNat)
      (printDec b3.toNat) none (portOpt (p0.toNat * 256 + p1.toNat))) = (printDec b0.toNat, _) :=
    digits_append _ _ (printDec_allDigits _) (by simp [noDigHead, isDig_dot])
  have h0 := b0.toNat_lt; have h1 := b1.toNat_lt; have h2 := b2.toNat_lt; have h3 := b3.toNat_lt
  exact {
    body := matchBody_ip _ _ _ _ none _ (hd _) (hd _) (hd _) (hd _) rfl hpo
    val := by
      have e := interpBody_ip (printDec b0.toNat) (printDec b1.toNat) (printDec b2.toNat)
        (printDec b3.toNat) none (portOpt (p0.toNat * 256 + p1.toNat))
        b0.toNat b1.toNat b2.toNat b3.toNat
        (atonPart_printDec _) (atonPart_printDec _) (atonPart_printDec _) (atonPart_printDec _)
        h0 h1 h2 h3 (by simp [optVal]) (by rw [hpv]; omega)
      rw [hpv, be32_quad, be16_pair] at e
      exact ⟨_, e⟩
    nl := noNl_ipText _ _ _ _ none _ (printDec_allDigits _) (printDec_allDigits _)
      (printDec_allDigits _) (printDec_allDigits _) rfl hpo
    nostar := by
      intro r e
      obtain ⟨hall, _, _, c, t, he, _⟩ := printDec_spec b0.toNat
      rw [he] at hall
      have := ne_star_of_isDig (head_isDig hall)
      simp [ipText, he] at e
      exact this e.1
    nocolon := by simp [hdig]
    notstar := by simp }

theorem printStation_ip (b0 b1 b2 b3 p0 p1 : UInt8)
    (hlo : 47808 ≤ p0.toNat * 256 + p1.toNat) (hhi : p0.toNat * 256 + p1.toNat ≤ 47823) :
    printStation [b0, b1, b2, b3, p0, p1] =
      .ok (ipText (printDec b0.toNat) (printDec b1.toNat) (printDec b2.toNat) (printDec b3.toNat)
        none (portOpt (p0.toNat * 256 + p1.toNat))) := by
  have h0 := b0.toNat_lt; have h1 := b1.toNat_lt; have h2 := b2.toNat_lt; have h3 := b3.toNat_lt
  have hport : beVal [p0, p1] = p0.toNat * 256 + p1.toNat := by simp [beVal]
  have hipv : beVal [b0, b1, b2, b3] =
      b0.toNat * 16777216 + b1.toNat * 65536 + b2.toNat * 256 + b3.toNat := by
    simp [beVal]; omega
  have o0 : (b0.toNat * 16777216 + b1.toNat * 65536 + b2.toNat * 256 + b3.toNat) / 16777216 % 256
      = b0.toNat := by omega
  have o1 : (b0.toNat * 16777216 + b1.toNat * 65536 + b2.toNat * 256 + b3.toNat) / 65536 % 256
      = b1.toNat := by omega
  have o2 : (b0.toNat * 16777216 + b1.toNat * 65536 + b2.toNat * 256 + b3.toNat) / 256 % 256
      = b2.toNat := by omega
  have o3 : (b0.toNat * 16777216 + b1.toNat * 65536 + b2.toNat * 256 + b3.toNat) % 256
      = b3.toNat := by omega
  have hcond : ([b0, b1, b2, b3, p0, p1] : Bytes).length = 6 ∧
      47808 ≤ p0.toNat * 256 + p1.toNat ∧ p0.toNat * 256 + p1.toNat ≤ 47823 := ⟨rfl, hlo, hhi⟩
  have hdrop : ([b0, b1, b2, b3, p0, p1] : Bytes).drop
      (([b0, b1, b2, b3, p0, p1] : Bytes).length - 2) = [p0, p1] := rfl
  have htake : ([b0, b1, b2, b3, p0, p1] : Bytes).take 4 = [b0, b1, b2, b3] := rfl
  unfold printStation
  simp only [hdrop, htake, hport, hipv, if_pos hcond, ntoa, o0, o1, o2, o3]
  unfold portOpt ipText
  by_cases hp : p0.toNat * 256 + p1.toNat = 47808
  · simp [hp, optSuffix]
  · simp [hp, optSuffix]

/-- the printed station part of every non-empty octet string is recognised
    and yields the same octets -/
theorem printStation_text (bs : Bytes) (hne : bs ≠ []) :
    ∃ s b, printStation bs = .ok s ∧ StationText bs s b := by
  match bs, hne with
  | [x], _ => exact ⟨_, _, rfl, stationText_one x⟩
  | x :: y :: t, _ =>
    by_cases hip : (x :: y :: t).length = 6 ∧
        47808 ≤ beVal ((x :: y :: t).drop ((x :: y :: t).length - 2)) ∧
        beVal ((x :: y :: t).drop ((x :: y :: t).length - 2)) ≤ 47823
    · obtain ⟨hlen, hlo, hhi⟩ := hip
      match t, hlen with
      | [b2, b3, p0, p1], _ =>
        have hdrop : ([x, y, b2, b3, p0, p1] : Bytes).drop
            (([x, y, b2, b3, p0, p1] : Bytes).length - 2) = [p0, p1] := rfl
        rw [hdrop] at hlo hhi
        have hport : beVal [p0, p1] = p0.toNat * 256 + p1.toNat := by simp [beVal]
        rw [hport] at hlo hhi
        exact ⟨_, _, printStation_ip x y b2 b3 p0 p1 hlo hhi, stationText_ip x y b2 b3 p0 p1 hhi⟩
    · refine ⟨_, _, ?_, stationText_hex _ (by simp)⟩
      simp only [printStation, if_neg hip]

theorem interp_station (p : Pfx) (b : Body) (bs : Bytes) (info : Option IPInfo)
    (hb : b ≠ .star) (hv : interpBody b = .ok (some bs, info)) :
    (p = .none → interp (p, b) = .ok ⟨.localStation, none, some bs, info⟩) ∧
    (∀ ns, p = .net ns → decVal ns < 65535 →
      interp (p, b) = .ok ⟨.remoteStation, some (decVal ns), some bs, info⟩) := by
  constructor
  · intro hp; subst hp
    cases b <;> simp_all [interp, interpPfx]
  · intro ns hp hn; subst hp
    have h' : ¬ (65535 ≤ decVal ns) := by omega
    cases b with
    | star => exact absurd rfl hb
    | dec ds => simp [interp, interpPfx, hv, h']
    | hex x => simp [interp, interpPfx, hv, h']
    | ip x y z w m q => simp [interp, interpPfx, hv, h']

/-- **print_parse**: every well-formed address (any type, any network
    0..65534, any octet string of one or more octets) prints to a text that
    parses to an address with the same type, network and octets. -/
theorem print_parse (a : Addr) (h : WFAddr a) :
    ∃ s a', printAddr a = .ok s ∧ parse s = .ok a' ∧ eqKey a' = eqKey a := by
  obtain ⟨ty, net, addr, ip⟩ := a
  cases ty with
  | null => simp [WFAddr] at h
  | localBroadcast =>
    simp [WFAddr] at h; obtain ⟨rfl, rfl⟩ := h
    exact ⟨_, _, rfl, parse_fields_star, rfl⟩
  | globalBroadcast =>
    simp [WFAddr] at h; obtain ⟨rfl, rfl⟩ := h
    exact ⟨_, _, rfl, parse_fields_global, rfl⟩
  | localStation =>
    simp only [WFAddr] at h
    obtain ⟨rfl, hs⟩ := h
    cases addr with
    | none => simp [stationOK] at hs
    | some bs =>
      obtain ⟨s, b, hp, st⟩ := printStation_text bs hs
      obtain ⟨info, hv⟩ := st.val
      refine ⟨s, ⟨.localStation, none, some bs, info⟩, by simp [printAddr, hp], ?_, rfl⟩
      rw [parse_plain s b (st.nostar _) st.nl st.body (fun r => st.nostar _) st.nocolon]
      exact (interp_station .none b bs info st.notstar hv).1 rfl
  | remoteBroadcast =>
    simp only [WFAddr] at h
    obtain ⟨hn, rfl⟩ := h
    cases net with
    | none => simp [netOK] at hn
    | some n =>
      have hn' : n < 65535 := hn
      refine ⟨printDec n ++ [':', '*'], ⟨.remoteBroadcast, some n, none, none⟩,
        by simp [printAddr], ?_, rfl⟩
      have := parse_fields_net_broadcast (printDec n) ⟨printDec_ne_nil n, printDec_allDigits n⟩
        (by rw [decVal_printDec]; omega)
      rw [decVal_printDec] at this
      exact this
  | remoteStation =>
    simp only [WFAddr] at h
    obtain ⟨hn, hs⟩ := h
    cases net with
    | none => simp [netOK] at hn
    | some n =>
      have hn' : n < 65535 := hn
      cases addr with
      | none => simp [stationOK] at hs
      | some bs =>
        obtain ⟨s, b, hp, st⟩ := printStation_text bs hs
        obtain ⟨info, hv⟩ := st.val
        refine ⟨printDec n ++ ':' :: s, ⟨.remoteStation, some n, some bs, info⟩,
          by simp [printAddr, hp], ?_, rfl⟩
        rw [parse_net (printDec n) s b (printDec_ne_nil n) (printDec_allDigits n) st.nl st.body]
        have := (interp_station (.net (printDec n)) b bs info st.notstar hv).2 (printDec n) rfl
          (by rw [decVal_printDec]; exact hn')
        rw [decVal_printDec] at this
        exact this

-- non-vacuity: concrete well-formed addresses of every printed shape
example : WFAddr ⟨.remoteStation, some 65534, some [192, 168, 0, 10, 0xBA, 0xC1], none⟩ := by decide
example : WFAddr ⟨.localStation, none, some [1, 2, 3, 4, 5, 6, 7], none⟩ := by decide
example : WFAddr ⟨.remoteBroadcast, some 0, none, none⟩ := by decide
example : printAddr ⟨.remoteStation, some 65534, some [192, 168, 0, 10, 0xBA, 0xC1], none⟩ =
    .ok "65534:192.168.0.10:47809".toList := by decide +kernel
example : printAddr ⟨.localStation, none, some [192, 168, 0, 10, 0xBA, 0xD0], none⟩ =
    .ok "0xc0a8000abad0".toList := by decide +kernel

/-- every text the parser accepts denotes an address that prints and re-parses
    to an equal address (`parse ∘ print` is the identity on parse results, up to `==`) -/
theorem parse_print_parse (t : List Char) (a : Addr) (h : parse t = .ok a) :
    ∃ s a', printAddr a = .ok s ∧ parse s = .ok a' ∧ addrEq a' a = true := by
  obtain ⟨s, a', h1, h2, h3⟩ := print_parse a (parse_wf t a h)
  refine ⟨s, a', h1, h2, ?_⟩
  simp only [eqKey, Prod.mk.injEq] at h3
  simp [addrEq, h3.1, h3.2.1, h3.2.2]

/-! ## equality and hashing -/

theorem code_inj (a b : AType) (h : a.code = b.code) : a = b := by
  cases a <;> cases b <;> simp [AType.code] at h <;> rfl

/-- `__eq__` compares exactly the key `(type, net, octets)` -/
theorem eq_iff_key (a b : Addr) : addrEq a b = true ↔ eqKey a = eqKey b := by
  simp [addrEq, eqKey, and_assoc]

theorem eq_refl (a : Addr) : addrEq a a = true := by simp [addrEq]

theorem eq_symm (a b : Addr) (h : addrEq a b = true) : addrEq b a = true := by
  rw [eq_iff_key] at h ⊢; exact h.symm

theorem eq_trans (a b c : Addr) (h1 : addrEq a b = true) (h2 : addrEq b c = true) :
    addrEq a c = true := by
  rw [eq_iff_key] at h1 h2 ⊢; exact h1.trans h2

/-- equal addresses hash equally: what `__hash__` hashes is determined by the key -/
theorem eq_hash (a b : Addr) (h : addrEq a b = true) : hashKey a = hashKey b := by
  rw [eq_iff_key] at h
  simp only [eqKey, Prod.mk.injEq] at h
  simp [hashKey, h.1, h.2.1, h.2.2]

/-- and conversely the hashed tuple determines equality (distinct addresses
    are distinct dictionary keys) -/
theorem hash_eq (a b : Addr) (h : hashKey a = hashKey b) : addrEq a b = true := by
  simp only [hashKey, Prod.mk.injEq] at h
  simp [addrEq, h.1, h.2.1, h.2.2.1]

/-- equality means same type, same network, same octets -/
theorem eq_fields (a b : Addr) (h : addrEq a b = true) :
    a.ty = b.ty ∧ a.net = b.net ∧ a.addr = b.addr := by
  rw [eq_iff_key] at h
  simp only [eqKey, Prod.mk.injEq] at h
  exact ⟨code_inj _ _ h.1, h.2.1, h.2.2⟩

-- different spellings of one address are equal and hash equally (test, by evaluation)
example : (do let a ← parse "0x0102030 4bac0".toList; pure a : Except Err Addr).isOk = false := by
  decide +kernel
example : (do
    let a ← parse "1.2.3.4".toList
    let b ← parse "0x01020304BAC0".toList
    let c ← ofTupleInt 16909060 47808
    let d ← parse "1.2.3.4/8:47808".toList
    pure (addrEq a b && addrEq b c && addrEq c d && hashKey a == hashKey d) : Except Err Bool)
    = .ok true := by decide +kernel

/-! ## addresses with routes (wave 4): why the stack must hand up route-free addresses

With default settings `_tuple()` ignores `addrRoute` but `__eq__` compares the
routes when both sides have one.  On route-free addresses `__eq__` is the
equivalence proved above; as soon as two sightings of one station carry
different routes it is no longer transitive.  The `stack` stream of the harness
checks the hypothesis (`route = none`) on every address the network layer and
the B/IP layer hand up. -/

/-- on route-free addresses `__eq__` is `addrEq`, hence an equivalence that agrees with the hash -/
theorem eqR_noroute (a b : RAddr) (ha : a.route = none ∨ b.route = none) :
    addrEqR a b = addrEq a.base b.base := by
  unfold addrEqR
  rcases ha with h | h <;> rw [h] <;> cases a.route <;> cases b.route <;> simp_all

theorem eqR_trans_noroute (a b c : RAddr) (hb : a.route = none ∨ c.route = none)
    (h1 : addrEqR a b = true) (h2 : addrEqR b c = true) (hab : a.route = none ∨ b.route = none)
    (hbc : b.route = none ∨ c.route = none) : addrEqR a c = true := by
  rw [eqR_noroute a b hab] at h1
  rw [eqR_noroute b c hbc] at h2
  rw [eqR_noroute a c hb]
  exact eq_trans _ _ _ h1 h2

/-- equal (route-free or not) ⇒ same hashed key, with `route_aware` off -/
theorem eqR_hash (a b : RAddr) (h : addrEqR a b = true) : hashKeyR a = hashKeyR b := by
  unfold addrEqR at h
  simp only [Bool.and_eq_true] at h
  exact eq_hash _ _ h.1

/-- the witness of seeded change 11: station 5:12 heard via router 1 and via
    router 3 — each equals the typed `5:12`, they do not equal each other -/
theorem eqR_not_transitive :
    ∃ a b c : RAddr, addrEqR a b = true ∧ addrEqR b c = true ∧ addrEqR a c = false :=
  ⟨⟨mkRemoteStation 5 [12], some (mkLocalStation [1])⟩, ⟨mkRemoteStation 5 [12], none⟩,
   ⟨mkRemoteStation 5 [12], some (mkLocalStation [3])⟩, by decide, by decide, by decide⟩

/-! ## ints and addresses in one table (wave 5) -/

/-- an address key never equals an integer key: tables that hold device
    instances and addresses side by side (`DeviceInfoCache.cache`) keep them apart -/
theorem mixed_keys_distinct (a : Addr) (n : Int) : keyOfAddr a ≠ keyOfInt n := by
  intro h; cases h

/-- among addresses the key is exactly `==` -/
theorem addr_keys_eq_iff (a b : Addr) : keyOfAddr a = keyOfAddr b ↔ addrEq a b = true := by
  constructor
  · intro h
    have : hashKey a = hashKey b := by
      simp only [keyOfAddr, PyKey.addr.injEq] at h; exact h
    exact hash_eq a b this
  · intro h; simp [keyOfAddr, eq_hash a b h]

/-- `==` alone would NOT keep them apart: the coercion in `__eq__` makes
    station n equal to the int n for every n in 0..255 — the separation rests on the hash -/
theorem coerced_eq_true (n : Int) (h0 : 0 ≤ n) (h1 : n < 256) :
    addrEqInt (mkLocalStation [UInt8.ofNat n.toNat]) n = .ok true := by
  have : ¬ (n < 0 ∨ n ≥ 256) := by omega
  simp [addrEqInt, ofInt, this, addrEq, mkLocalStation]

example : addrEqInt (mkLocalStation [5]) 5 = .ok true ∧ keyOfAddr (mkLocalStation [5]) ≠ keyOfInt 5 := by
  decide

/-! ## `_tuple()` under the setting the stack reports (wave 6) -/

/-- not route aware: equal addresses (with or without routes) have one `_tuple()` -/
theorem tupleR_off (a b : RAddr) (h : addrEqR a b = true) : tupleR false a = tupleR false b := by
  unfold addrEqR at h
  simp only [Bool.and_eq_true] at h
  have := (eq_iff_key a.base b.base).1 h.1
  simp [tupleR, this]

/-- route aware: equal addresses have one `_tuple()` when both carry a route or neither does
    (a routed and an unrouted spelling are `==` but hash apart — outside the claim) -/
theorem tupleR_on (a b : RAddr) (h : addrEqR a b = true)
    (hr : a.route.isSome = b.route.isSome) : tupleR true a = tupleR true b := by
  unfold addrEqR at h
  simp only [Bool.and_eq_true] at h
  have hk := (eq_iff_key a.base b.base).1 h.1
  cases ha : a.route <;> cases hb : b.route <;> simp [ha, hb] at hr h ⊢
  · simp [tupleR, hk, ha, hb]
  · have := (eq_iff_key _ _).1 h.2
    simp [tupleR, hk, ha, hb, this]

example : tupleR true ⟨mkRemoteStation 1 [2], some (mkLocalStation [3])⟩ ≠
    tupleR true ⟨mkRemoteStation 1 [2], none⟩ := by decide

end BacVerif.C18
