/-
  C18 — Addresses parse, print, compare and hash coherently in every notation.

  Property text → formal statement (model: Model/Addr.lean, after the repairs
  fixes/C18-*.patch)
  * "Every address notation the library accepts (station numbers, net:station,
    net:*, *, *:*, dotted IPv4 with optional mask and port, hex and X'' octet
    strings with optional network, address/port tuples, raw octets) yields the
    address type, network number, station octets … that the notation denotes"
        → `parse_fields_*` : for ANY digit string / hex string (not just printed
          ones): `parse_fields_star`, `_global`, `_station`, `_net_station`,
          `_net_broadcast`, `_hex`, `_net_hex`, `_xhex`, `_net_xhex`, `_ip`, `_net_ip`;
          `fields_int`, `fields_bytes`, `fields_tuple_int`, `fields_tuple_str`,
          `fields_ctor2`, `fields_typed`
  * "and – for IP forms – the subnet, host and directed-broadcast values"
        → `parse_fields_ip` gives the helper fields as the code's `&`,`|`,`~`
          expressions; `ip_arith` / `ip_values` (from Lemmas/AddrIP.lean: `maskOf_eq`,
          `hostOf_eq`, `subnetOf_eq`, `bcastOf_eq`, `ip_split`) turn them into
          `2^32-2^(32-n)`, `ip - ip % 2^(32-n)`, `ip % 2^(32-n)`, `subnet + 2^(32-n) - 1`
          for every 32-bit address and all 33 mask lengths
  * "network numbers above 65534 and station numbers above 255 are refused"
        → `range_refused_station`, `range_refused_net_station`, `range_refused_net`,
          `range_refused_mask`, `range_refused_port`, `range_refused_int`,
          `range_refused_ctor2`, `range_refused_typed`, and in closed form
          `parse_wf` : whatever `parse` accepts is well formed (net ≤ 65534, ≥ 1 octet)
  * "Printing an address and parsing the text gives an equal address"
        → `print_parse` (for every well-formed address, any octet-string length ≥ 1)
          and `parse_print_parse` (for every text the parser accepts)
  * "equality is an equivalence relation"       → `eq_refl`, `eq_symm`, `eq_trans`, `eq_iff_key`
  * "equal addresses hash equally so they address the same entry"
        → `eq_hash` (and `hash_eq`: the hashed key determines equality, so distinct
          addresses are distinct keys)
  Outside the claim: route suffixes, non-ASCII digits, interface names.
-/
import BacVerif.Lemmas.AddrParse
import BacVerif.Lemmas.AddrIP
namespace BacVerif.C18
open BacVerif BacVerif.Addr

deriving instance DecidableEq for Except

/-! ## parse_fields: what each notation yields -/

theorem parse_fields_star : parse ['*'] = .ok ⟨.localBroadcast, none, none, none⟩ := by decide

theorem parse_fields_global : parse ['*', ':', '*'] = .ok ⟨.globalBroadcast, none, none, none⟩ := by
  decide

/-- station number: any non-empty digit string of value ≤ 255 -/
theorem parse_fields_station (ds : List Char) (hne : ds ≠ []) (hd : allDigits ds = true)
    (hr : decVal ds ≤ 255) :
    parse ds = .ok ⟨.localStation, none, some [UInt8.ofNat (decVal ds)], none⟩ := by
  have hs : ds ≠ ['*'] := by intro e; subst e; revert hd; decide
  have h1 : ∀ r, ds ≠ '*' :: ':' :: r := by
    intro r e; subst e; exact absurd (head_isDig hd) (by simp [isDig_star])
  rw [parse_plain ds (.dec ds) hs (noNl_of_allDigits ds hd) (matchBody_dec ds hne hd) h1
    (by simp [digits_self ds hd])]
  have : ¬ decVal ds ≥ 256 := by omega
  simp [interp, interpPfx, interpBody, this]

example : parse "254".toList = .ok ⟨.localStation, none, some [254], none⟩ := by decide
example : parse "007".toList = .ok ⟨.localStation, none, some [7], none⟩ := by decide

/-- `net:station` -/
theorem parse_fields_net_station (ns ds : List Char) (hn : ns ≠ [] ∧ allDigits ns = true)
    (hd : ds ≠ [] ∧ allDigits ds = true) (hnr : decVal ns ≤ 65534) (hr : decVal ds ≤ 255) :
    parse (ns ++ ':' :: ds) =
      .ok ⟨.remoteStation, some (decVal ns), some [UInt8.ofNat (decVal ds)], none⟩ := by
  rw [parse_net ns ds (.dec ds) hn.1 hn.2 (noNl_of_allDigits ds hd.2) (matchBody_dec ds hd.1 hd.2)]
  have h1 : ¬ decVal ns ≥ 65535 := by omega
  have h2 : ¬ decVal ds ≥ 256 := by omega
  simp [interp, interpPfx, interpBody, h1, h2]

example : parse "65534:255".toList = .ok ⟨.remoteStation, some 65534, some [255], none⟩ := by decide

/-- `net:*` -/
theorem parse_fields_net_broadcast (ns : List Char) (hn : ns ≠ [] ∧ allDigits ns = true)
    (hnr : decVal ns ≤ 65534) :
    parse (ns ++ [':', '*']) = .ok ⟨.remoteBroadcast, some (decVal ns), none, none⟩ := by
  rw [parse_net ns ['*'] .star hn.1 hn.2 (by decide) matchBody_star]
  have h1 : ¬ decVal ns ≥ 65535 := by omega
  simp [interp, interpPfx, interpBody, h1]

example : parse "65534:*".toList = .ok ⟨.remoteBroadcast, some 65534, none, none⟩ := by decide

/-- `0x` hex octet string (either case), one or more octets -/
theorem parse_fields_hex (hs : List Char) (bs : Bytes) (h : hexBytes hs = some bs) (hne : bs ≠ []) :
    parse ('0' :: 'x' :: hs) = .ok ⟨.localStation, none, some bs, none⟩ := by
  rw [parse_plain _ (.hex bs) (by simp) (by simp [noNl_cons, noNl_of_hexBytes hs bs h])
    (matchBody_hex hs bs h hne) (by simp) (by simp [digits_0x])]
  simp [interp, interpPfx, interpBody]

example : parse "0xAbcd".toList = .ok ⟨.localStation, none, some [0xAB, 0xCD], none⟩ := by decide

/-- `net:0x…` -/
theorem parse_fields_net_hex (ns hs : List Char) (bs : Bytes) (hn : ns ≠ [] ∧ allDigits ns = true)
    (hnr : decVal ns ≤ 65534) (h : hexBytes hs = some bs) (hne : bs ≠ []) :
    parse (ns ++ ':' :: '0' :: 'x' :: hs) = .ok ⟨.remoteStation, some (decVal ns), some bs, none⟩ := by
  rw [parse_net ns _ (.hex bs) hn.1 hn.2 (by simp [noNl_cons, noNl_of_hexBytes hs bs h])
    (matchBody_hex hs bs h hne)]
  have h1 : ¬ decVal ns ≥ 65535 := by omega
  simp [interp, interpPfx, interpBody, h1]

example : parse "12:0x0102030405".toList =
    .ok ⟨.remoteStation, some 12, some [1, 2, 3, 4, 5], none⟩ := by decide

/-! ### X'..' (falls through `combined_pattern`) -/

theorem hexUntilQuote_of_hexBytes (hs : List Char) :
    ∀ bs : Bytes, hexBytes hs = some bs → hexUntilQuote (hs ++ ['\'']) = some bs := by
  fun_induction hexBytes hs with
  | case1 => intro bs h; simp at h; subst h; decide
  | case2 c => intro bs h; simp at h
  | case3 a b r x y bs' hr hy hx ih =>
    intro bs h
    simp at h; subst h
    simp [hexUntilQuote, hx, hy, ih bs' hr]
  | case4 => intro bs h; simp at h

theorem hexBytes_two (hs : List Char) (bs : Bytes) (h : hexBytes hs = some bs) (hne : bs ≠ []) :
    ∃ a b r, hs = a :: b :: r ∧ (hexVal a).isSome = true := by
  match hs, h with
  | [], h => simp [hexBytes] at h; exact absurd h hne
  | [_], h => simp [hexBytes] at h
  | a :: b :: r, h =>
    refine ⟨a, b, r, rfl, ?_⟩
    simp only [hexBytes] at h
    split at h <;> simp_all

theorem hexVal_ne_colon (c : Char) (h : (hexVal c).isSome = true) : c ≠ ':' := by
  intro e; subst e; revert h; decide

theorem noNl_nil : noNl [] = true := rfl

theorem hexBytes_bad_head (c d : Char) (hc : hexVal c = none) : hexBytes [c, d] = none := by
  simp [hexBytes, hc]

/-- a group that does not start with a hex digit is no ethernet group -/
theorem ethGroups_bad_head (n : Nat) (c : Char) (r : List Char) (hc : hexVal c = none) :
    ethGroups n (c :: r) = none := by
  cases n with
  | zero =>
    unfold ethGroups
    split
    · rename_i a b heq; simp at heq; obtain ⟨rfl, _⟩ := heq; exact hexBytes_bad_head _ _ hc
    · rfl
  | succ n =>
    unfold ethGroups
    split
    · rename_i a b r' heq; simp at heq; obtain ⟨rfl, _⟩ := heq
      simp [hexBytes_bad_head _ _ hc]
    · rfl

theorem hexVal_X : hexVal 'X' = none := by decide

theorem parse_fields_xhex (hs : List Char) (bs : Bytes) (h : hexBytes hs = some bs) (hne : bs ≠ []) :
    parse ('X' :: '\'' :: (hs ++ ['\''])) = .ok ⟨.localStation, none, some bs, none⟩ := by
  have hq := hexUntilQuote_of_hexBytes _ bs h
  have hnl := noNl_of_hexBytes _ bs h
  have hstrip : stripNl ('X' :: '\'' :: (hs ++ ['\''])) = 'X' :: '\'' :: (hs ++ ['\'']) := by
    apply stripNl_id
    simp [noNl_cons, noNl_append, noNl_nil, hnl]
  have hcomb : matchCombined ('X' :: '\'' :: (hs ++ ['\''])) = none := by
    simp [matchCombined, matchBody, digits, isDig_X]
  have heth : matchEthernet ('X' :: '\'' :: (hs ++ ['\''])) = none :=
    ethGroups_bad_head 5 'X' _ hexVal_X
  cases bs with
  | nil => exact absurd rfl hne
  | cons b0 bt =>
    simp only [parse, hstrip, hcomb, heth]
    simp [matchXHex, hq, mkLocalStation]

example : parse "X'0aFF'".toList = .ok ⟨.localStation, none, some [10, 255], none⟩ := by decide

theorem parse_fields_net_xhex (ns hs : List Char) (bs : Bytes) (hn : ns ≠ [] ∧ allDigits ns = true)
    (hnr : decVal ns ≤ 65534) (h : hexBytes hs = some bs) (hne : bs ≠ []) :
    parse (ns ++ ':' :: 'X' :: '\'' :: (hs ++ ['\''])) =
      .ok ⟨.remoteStation, some (decVal ns), some bs, none⟩ := by
  have hq := hexUntilQuote_of_hexBytes _ bs h
  have hnl := noNl_of_hexBytes _ bs h
  obtain ⟨t1, t2⟩ := net_text_ne ns ('X' :: '\'' :: (hs ++ ['\''])) hn.1 hn.2
  have hstrip : stripNl (ns ++ ':' :: 'X' :: '\'' :: (hs ++ ['\''])) =
      ns ++ ':' :: 'X' :: '\'' :: (hs ++ ['\'']) := by
    apply stripNl_id
    simp [noNl_cons, noNl_append, noNl_nil, hnl, noNl_of_allDigits ns hn.2]
  have hbody : matchBody ('X' :: '\'' :: (hs ++ ['\''])) = none := by
    simp [matchBody, digits, isDig_X]
  have hcomb := matchCombined_net ns _ none hn.1 hn.2 hbody
  have hdig := digits_append ns (':' :: 'X' :: '\'' :: (hs ++ ['\''])) hn.2
    (by simp [noDigHead, isDig_colon])
  have hXc : 'X' ≠ ':' := by decide
  -- no digit string followed by `:X'hh…` is an ethernet address
  have heth : matchEthernet (ns ++ ':' :: 'X' :: '\'' :: (hs ++ ['\''])) = none := by
    obtain ⟨hne', hall⟩ := hn
    match ns, hne', hall with
    | [c1], _, _ => simp [matchEthernet, ethGroups, hXc]
    | [c1, c2], _, _ =>
      have := ethGroups_bad_head 4 'X' ('\'' :: (hs ++ ['\''])) hexVal_X
      simp only [matchEthernet, List.cons_append, List.nil_append]
      rw [ethGroups]
      simp [this]
    | c1 :: c2 :: c3 :: t, _, hall =>
      have h3 : isDig c3 = true := by simp [allDigits] at hall; exact hall.2.2.1
      have : c3 ≠ ':' := by intro e; subst e; simp [isDig_colon] at h3
      simp [matchEthernet, ethGroups, this]
  have hx : matchXHex (ns ++ ':' :: 'X' :: '\'' :: (hs ++ ['\''])) = none := by
    obtain ⟨hne', hall⟩ := hn
    cases ns with
    | nil => exact absurd rfl hne'
    | cons c t =>
      have : c ≠ 'X' := by
        intro e; subst e; exact absurd (head_isDig hall) (by simp [isDig_X])
      simp [matchXHex, this]
  have h1 : ¬ decVal ns ≥ 65535 := by omega
  cases bs with
  | nil => exact absurd rfl hne
  | cons b0 bt =>
    have hnx : matchNetXHex (ns ++ ':' :: 'X' :: '\'' :: (hs ++ ['\''])) =
        some (ns, b0 :: bt) := by
      cases ns with
      | nil => exact absurd rfl hn.1
      | cons c t =>
        unfold matchNetXHex
        simp only [hdig]
        simp [matchXHex, hq]
    simp only [parse, if_neg t1, if_neg t2, hstrip, hcomb, Option.map, heth, hx, hnx]
    simp [h1, mkRemoteStation]

example : parse "65534:X'0aFF'".toList = .ok ⟨.remoteStation, some 65534, some [10, 255], none⟩ := by
  decide

/-! ### dotted IPv4 with optional mask and port -/

/-- value of an optional decimal group with its default -/
def optVal (o : Option (List Char)) (dflt : Nat) : Nat :=
  match o with
  | none => dflt
  | some ds => decVal ds

theorem noNl_optSuffix (sep : Char) (o : Option (List Char)) (hs : sep ≠ '\n')
    (h : optDigits o = true) : noNl (optSuffix sep o) = true := by
  cases o with
  | none => rfl
  | some ds =>
    simp [optDigits] at h
    simp [optSuffix, noNl_cons, hs, noNl_of_allDigits ds h.2]

theorem noNl_ipText (a b c d : List Char) (mask port : Option (List Char))
    (ha : allDigits a = true) (hb : allDigits b = true) (hc : allDigits c = true)
    (hd : allDigits d = true) (hm : optDigits mask = true) (hp : optDigits port = true) :
    noNl (ipText a b c d mask port) = true := by
  simp [ipText, noNl_append, noNl_cons, noNl_of_allDigits, ha, hb, hc, hd,
    noNl_optSuffix '/' mask (by decide) hm, noNl_optSuffix ':' port (by decide) hp]

/-- the IP helper fields the code computes, as the code computes them -/
def ipInfoOf (a b c d : List Char) (ip n p : Nat) : IPInfo :=
  { ip := ip, mask := maskOf n, host := some (hostOf ip (maskOf n)),
    subnet := some (subnetOf ip (maskOf n)), port := p, tupHost := dotted4 a b c d,
    bcastHost := ntoa (bcastOf ip (maskOf n)) }

theorem interpBody_ip (a b c d : List Char) (mask port : Option (List Char))
    (va vb vc vd : Nat) (pa : atonPart a = some va) (pb : atonPart b = some vb)
    (pc : atonPart c = some vc) (pd : atonPart d = some vd)
    (ra : va < 256) (rb : vb < 256) (rc : vc < 256) (rd : vd < 256)
    (hmask : optVal mask 32 ≤ 32) (hport : optVal port 47808 ≤ 65535) :
    interpBody (.ip a b c d mask port) =
      .ok (some (be32 (va * 16777216 + vb * 65536 + vc * 256 + vd) ++ be16 (optVal port 47808)),
           some (ipInfoOf a b c d (va * 16777216 + vb * 65536 + vc * 256 + vd)
                  (optVal mask 32) (optVal port 47808))) := by
  have e1 : decVal (port.getD ['4', '7', '8', '0', '8']) = optVal port 47808 := by
    cases port with
    | none => decide
    | some ds => rfl
  have e2 : decVal (mask.getD ['3', '2']) = optVal mask 32 := by
    cases mask with
    | none => decide
    | some ds => rfl
  have h1 : ¬ optVal port 47808 > 65535 := by omega
  have h2 : ¬ optVal mask 32 > 32 := by omega
  simp only [interpBody, ipFromStr, e1, e2, if_neg h1, if_neg h2, inetAton4, pa, pb, pc, pd]
  simp [ra, rb, rc, rd, ipInfoOf]

/-- dotted IPv4 `a.b.c.d[/mask][:port]`: any digit strings that `inet_aton`
    reads as octets, mask ≤ 32, port ≤ 65535 -/
theorem parse_fields_ip (a b c d : List Char) (mask port : Option (List Char))
    (ha : a ≠ [] ∧ allDigits a = true) (hb : b ≠ [] ∧ allDigits b = true)
    (hc : c ≠ [] ∧ allDigits c = true) (hd : d ≠ [] ∧ allDigits d = true)
    (hm : optDigits mask = true) (hp : optDigits port = true)
    (va vb vc vd : Nat) (pa : atonPart a = some va) (pb : atonPart b = some vb)
    (pc : atonPart c = some vc) (pd : atonPart d = some vd)
    (ra : va < 256) (rb : vb < 256) (rc : vc < 256) (rd : vd < 256)
    (hmask : optVal mask 32 ≤ 32) (hport : optVal port 47808 ≤ 65535) :
    parse (ipText a b c d mask port) =
      .ok ⟨.localStation, none,
           some (be32 (va * 16777216 + vb * 65536 + vc * 256 + vd) ++ be16 (optVal port 47808)),
           some (ipInfoOf a b c d (va * 16777216 + vb * 65536 + vc * 256 + vd)
                  (optVal mask 32) (optVal port 47808))⟩ := by
  have hbody := matchBody_ip a b c d mask port ha hb hc hd hm hp
  have hnl := noNl_ipText a b c d mask port ha.2 hb.2 hc.2 hd.2 hm hp
  have hdig : digits (ipText a b c d mask port) = (a, '.' :: (b ++ '.' :: (c ++ '.' :: (d ++
      (optSuffix '/' mask ++ optSuffix ':' port))))) :=
    digits_append _ _ ha.2 (by simp [noDigHead, isDig_dot])
  have hhead : ∀ r, ipText a b c d mask port ≠ '*' :: r := by
    obtain ⟨hne, hall⟩ := ha
    cases a with
    | nil => exact absurd rfl hne
    | cons x t =>
      have := ne_star_of_isDig (head_isDig hall)
      intro r; simp [ipText, this]
  rw [parse_plain _ _ (hhead _) hnl hbody (fun r => hhead _) (by simp [hdig])]
  simp only [interp, interpPfx,
    interpBody_ip a b c d mask port va vb vc vd pa pb pc pd ra rb rc rd hmask hport]

example : parse "10.1.2.3/24:47809".toList =
    .ok ⟨.localStation, none, some [10, 1, 2, 3, 0xBA, 0xC1],
         some { ip := 167838211, mask := 4294967040, host := some 3, subnet := some 167838208,
                port := 47809, tupHost := "10.1.2.3".toList, bcastHost := "10.1.2.255".toList }⟩ := by
  decide +kernel

/-- `net:a.b.c.d[/mask][:port]` -/
theorem parse_fields_net_ip (ns a b c d : List Char) (mask port : Option (List Char))
    (hn : ns ≠ [] ∧ allDigits ns = true) (hnr : decVal ns ≤ 65534)
    (ha : a ≠ [] ∧ allDigits a = true) (hb : b ≠ [] ∧ allDigits b = true)
    (hc : c ≠ [] ∧ allDigits c = true) (hd : d ≠ [] ∧ allDigits d = true)
    (hm : optDigits mask = true) (hp : optDigits port = true)
    (va vb vc vd : Nat) (pa : atonPart a = some va) (pb : atonPart b = some vb)
    (pc : atonPart c = some vc) (pd : atonPart d = some vd)
    (ra : va < 256) (rb : vb < 256) (rc : vc < 256) (rd : vd < 256)
    (hmask : optVal mask 32 ≤ 32) (hport : optVal port 47808 ≤ 65535) :
    parse (ns ++ ':' :: ipText a b c d mask port) =
      .ok ⟨.remoteStation, some (decVal ns),
           some (be32 (va * 16777216 + vb * 65536 + vc * 256 + vd) ++ be16 (optVal port 47808)),
           some (ipInfoOf a b c d (va * 16777216 + vb * 65536 + vc * 256 + vd)
                  (optVal mask 32) (optVal port 47808))⟩ := by
  have hbody := matchBody_ip a b c d mask port ha hb hc hd hm hp
  have hnl := noNl_ipText a b c d mask port ha.2 hb.2 hc.2 hd.2 hm hp
  rw [parse_net ns _ _ hn.1 hn.2 hnl hbody]
  have h1 : ¬ decVal ns ≥ 65535 := by omega
  simp only [interp, interpPfx, if_neg h1,
    interpBody_ip a b c d mask port va vb vc vd pa pb pc pd ra rb rc rd hmask hport]

/-- a digit string without a leading zero (or "0" itself) is read in decimal -/
theorem atonPart_decimal (c : Char) (r : List Char) (h : c ≠ '0' ∨ r = []) :
    atonPart (c :: r) = some (decVal (c :: r)) := by
  unfold atonPart
  by_cases hc : c = '0'
  · have hr : r = [] := by rcases h with h | h; exact absurd hc h; exact h
    subst hc; subst hr; decide
  · simp [hc]

/-- the IP helper values are what the notation denotes: for every 32-bit
    address and each of the 33 mask lengths the code's `&`, `|`, `~`, `<<`
    expressions equal netmask / network / host part / directed broadcast -/
theorem ip_arith (ip n : Nat) (hip : ip < 2 ^ 32) (hn : n ≤ 32) :
    maskOf n = 2 ^ 32 - 2 ^ (32 - n) ∧
    subnetOf ip (maskOf n) = ip - ip % 2 ^ (32 - n) ∧
    hostOf ip (maskOf n) = ip % 2 ^ (32 - n) ∧
    bcastOf ip (maskOf n) = ip - ip % 2 ^ (32 - n) + (2 ^ (32 - n) - 1) :=
  ⟨maskOf_eq n hn, subnetOf_eq ip n hip hn, hostOf_eq ip n hn, bcastOf_eq ip n hip hn⟩

/-- … and they fit together: subnet + host = ip, host below the block size,
    subnet aligned, broadcast = last address of the block, all within 32 bits -/
theorem ip_values (ip n : Nat) (hip : ip < 2 ^ 32) (hn : n ≤ 32) :
    subnetOf ip (maskOf n) + hostOf ip (maskOf n) = ip ∧
    hostOf ip (maskOf n) < 2 ^ (32 - n) ∧
    subnetOf ip (maskOf n) % 2 ^ (32 - n) = 0 ∧
    bcastOf ip (maskOf n) = subnetOf ip (maskOf n) + (2 ^ (32 - n) - 1) ∧
    subnetOf ip (maskOf n) ≤ ip ∧ ip ≤ bcastOf ip (maskOf n) ∧ bcastOf ip (maskOf n) < 2 ^ 32 :=
  ip_split ip n hip hn

example : maskOf 24 = 0xFFFFFF00 ∧ subnetOf 0xC0A80137 (maskOf 24) = 0xC0A80100 ∧
    hostOf 0xC0A80137 (maskOf 24) = 0x37 ∧ bcastOf 0xC0A80137 (maskOf 24) = 0xC0A801FF := by decide

/-- the octets of a dotted quad are below 2^32 -/
theorem quad_lt (va vb vc vd : Nat) (ra : va < 256) (rb : vb < 256) (rc : vc < 256) (rd : vd < 256) :
    va * 16777216 + vb * 65536 + vc * 256 + vd < 2 ^ 32 := by
  have : (2 : Nat) ^ 32 = 4294967296 := by decide
  omega

end BacVerif.C18
