import BacVerif.Model.Addr
namespace BacVerif.C18
open BacVerif BacVerif.Addr

theorem placeholder : True := trivial

end BacVerif.C18
