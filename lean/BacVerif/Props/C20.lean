import BacVerif.Model.Schedule
namespace BacVerif.C20
open BacVerif.Sched
theorem placeholder : nextDay.h = 24 := rfl
end BacVerif.C20
